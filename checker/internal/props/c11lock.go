package props

import (
	"fmt"
	"go/token"
	"go/types"
	"sort"
	"strings"

	"golang.org/x/tools/go/ssa"

	"mpcverif/internal/load"
	"mpcverif/internal/report"
)

// C11lock: one direction of a connection never waits for the other.
//
// The property quantifies over both directions running at once: a sender goroutine and a receiver
// goroutine on each end.  A send can block for as long as the peer does not read (Flush waits for a free
// write buffer, the writer goroutine waits in the transport).  If the send side holds a lock while it is
// blocked, and the receive side takes the same lock — even for one load — each end's receiver waits for
// its sender, each sender waits for the peer's receiver, and a full-duplex transfer larger than the
// buffers in flight stops for ever.  The rule: a lock of Conn that one side holds across a blocking
// operation (a channel send or receive, a select, a Read or Write of the transport, directly or in a method
// of the same connection it calls) is not taken by any method of the other side.
func C11lock(p *load.Program, run *report.Run) {
	const rule = "no-lock-shared-across-directions"
	run.Rule(rule, "for every field of p2p.Conn with Lock/Unlock methods: if a send-side method (Send<T>, Flush, NeedSpace) or a receive-side method (Receive<T>, Fill) — transitively through the *Conn methods it calls — holds it across a blocking operation (channel send/receive, select, io Read/Write), no method of the other side takes it; with built-in examples")
	connT, err := p.Type("p2p", "Conn")
	if err != nil {
		run.Undecided(rule, "p2p.Conn", "", err.Error())
		return
	}
	ms := p.SSA.MethodSets.MethodSet(types.NewPointer(connT))
	var methods []*ssa.Function
	for i := 0; i < ms.Len(); i++ {
		if f := p.SSA.MethodValue(ms.At(i)); f != nil && f.Blocks != nil {
			methods = append(methods, f)
		}
	}
	vs := lockDuplex(methods)
	run.Count("duplex-lock-methods", len(methods))
	run.Floor("duplex-lock-methods", 14)
	if len(vs) == 0 {
		run.OK(rule, "p2p.Conn", p.Rel(methods[0].Pos()), "no lock of the connection is held across a blocking operation by one direction and taken by the other")
	}
	for _, v := range vs {
		run.Violate(rule, "p2p.Conn."+v.field, p.Rel(v.pos), v.why, nil)
	}
	look, err := buildExample(c11lockExample)
	if err != nil {
		run.Undecided(rule, "built-in example", "", err.Error())
		return
	}
	var good, bad []*ssa.Function
	for _, f := range exampleFuncsOf(look, "anchor") {
		if f.Signature.Recv() == nil {
			continue
		}
		switch f.Signature.Recv().Type().String() {
		case "*example.Good":
			good = append(good, f)
		case "*example.Bad":
			bad = append(bad, f)
		}
	}
	g, b := lockDuplex(good), lockDuplex(bad)
	if len(good) < 3 || len(bad) < 3 || len(g) != 0 || len(b) != 1 {
		run.Undecided(rule, "built-in example", "", fmt.Sprintf("the rule misclassifies its built-in example (%d methods %d reports / %d methods %d reports)", len(good), len(g), len(bad), len(b)))
		return
	}
	run.Count("duplex-lock-examples", 2)
	run.OK(rule, "built-in examples", "", "a flag read atomically by the receive side accepted; a lock held across the hand-off and taken by Fill reported")
	run.Floor("duplex-lock-examples", 2)
}

type lockDuplexReport struct {
	field string
	pos   token.Pos
	why   string
}

func lockDuplex(methods []*ssa.Function) []lockDuplexReport {
	byName := map[string]*ssa.Function{}
	for _, f := range methods {
		byName[f.Name()] = f
	}
	isMethod := func(c *ssa.Function) bool { return c != nil && byName[c.Name()] == c }
	side := func(name string) string {
		switch {
		case name == "Fill" || (strings.HasPrefix(name, "Receive") && len(name) > len("Receive")):
			return "receive"
		case name == "Flush" || name == "NeedSpace" || (strings.HasPrefix(name, "Send") && len(name) > len("Send")):
			return "send"
		}
		return ""
	}
	// lockOp: ins is recv.f.Lock() / Unlock(); returns the field name and the operation
	lockOp := func(f *ssa.Function, ins ssa.Instruction) (string, string) {
		var cc *ssa.CallCommon
		switch t := ins.(type) {
		case *ssa.Call:
			cc = &t.Call
		case *ssa.Defer:
			cc = &t.Call
		default:
			return "", ""
		}
		callee := cc.StaticCallee()
		if callee == nil || len(cc.Args) == 0 || len(f.Params) == 0 {
			return "", ""
		}
		op := ""
		switch callee.Name() {
		case "Lock", "RLock":
			op = "lock"
		case "Unlock", "RUnlock":
			op = "unlock"
		default:
			return "", ""
		}
		fa, ok := cc.Args[0].(*ssa.FieldAddr)
		if !ok || fa.X != ssa.Value(f.Params[0]) {
			return "", ""
		}
		st, ok := fa.X.Type().Underlying().(*types.Pointer).Elem().Underlying().(*types.Struct)
		if !ok {
			return "", ""
		}
		return st.Field(fa.Field).Name(), op
	}
	// blocking: the instruction can wait for another goroutine or the peer
	blockMemo := map[*ssa.Function]int{}
	var fnBlocks func(f *ssa.Function) bool
	insBlocks := func(f *ssa.Function, ins ssa.Instruction) bool {
		switch t := ins.(type) {
		case *ssa.Send:
			return true
		case *ssa.UnOp:
			return t.Op == token.ARROW
		case *ssa.Select:
			return t.Blocking
		case *ssa.Call:
			if t.Call.IsInvoke() {
				switch t.Call.Method.Name() {
				case "Read", "Write":
					return true
				}
				return false
			}
			c := t.Call.StaticCallee()
			if c != nil && c.Name() == "ReadFull" && c.Pkg != nil && c.Pkg.Pkg.Path() == "io" {
				return true
			}
			if isMethod(c) && len(t.Call.Args) > 0 && len(f.Params) > 0 && t.Call.Args[0] == ssa.Value(f.Params[0]) {
				return fnBlocks(c)
			}
		}
		return false
	}
	fnBlocks = func(f *ssa.Function) bool {
		if v, ok := blockMemo[f]; ok {
			return v == 1
		}
		blockMemo[f] = 0
		for _, b := range f.Blocks {
			for _, ins := range b.Instrs {
				if insBlocks(f, ins) {
					blockMemo[f] = 1
					return true
				}
			}
		}
		return false
	}
	// per function: the locks it takes, and the locks it holds across a blocking operation
	type summary struct {
		takes map[string]token.Pos
		holds map[string]token.Pos
	}
	own := map[*ssa.Function]*summary{}
	for _, f := range methods {
		s := &summary{map[string]token.Pos{}, map[string]token.Pos{}}
		own[f] = s
		deferred := map[string]bool{}
		for _, b := range f.Blocks {
			for _, ins := range b.Instrs {
				if _, isDefer := ins.(*ssa.Defer); isDefer {
					if fld, op := lockOp(f, ins); op == "unlock" {
						deferred[fld] = true
					}
				}
			}
		}
		for _, b := range f.Blocks {
			for i, ins := range b.Instrs {
				if _, isCall := ins.(*ssa.Call); !isCall {
					continue
				}
				fld, op := lockOp(f, ins)
				if op != "lock" {
					continue
				}
				if _, ok := s.takes[fld]; !ok {
					s.takes[fld] = ins.Pos()
				}
				// walk from the lock to the matching unlock (or, with a deferred unlock, to the exits)
				seen := map[*ssa.BasicBlock]bool{}
				var walk func(b *ssa.BasicBlock, from int)
				walk = func(b *ssa.BasicBlock, from int) {
					for j := from; j < len(b.Instrs); j++ {
						x := b.Instrs[j]
						if _, isCall := x.(*ssa.Call); isCall && !deferred[fld] {
							if f2, op2 := lockOp(f, x); f2 == fld && op2 == "unlock" {
								return
							}
						}
						if insBlocks(f, x) {
							if _, ok := s.holds[fld]; !ok {
								s.holds[fld] = x.Pos()
							}
						}
					}
					for _, nx := range b.Succs {
						if !seen[nx] {
							seen[nx] = true
							walk(nx, 0)
						}
					}
				}
				walk(b, i+1)
			}
		}
	}
	// transitive closure through the methods called on the same receiver
	closure := func(f *ssa.Function) *summary {
		out := &summary{map[string]token.Pos{}, map[string]token.Pos{}}
		seen := map[*ssa.Function]bool{}
		var visit func(g *ssa.Function)
		visit = func(g *ssa.Function) {
			if seen[g] || own[g] == nil {
				return
			}
			seen[g] = true
			for k, v := range own[g].takes {
				if _, ok := out.takes[k]; !ok {
					out.takes[k] = v
				}
			}
			for k, v := range own[g].holds {
				if _, ok := out.holds[k]; !ok {
					out.holds[k] = v
				}
			}
			for _, b := range g.Blocks {
				for _, ins := range b.Instrs {
					if c, ok := ins.(*ssa.Call); ok {
						if callee := c.Call.StaticCallee(); isMethod(callee) && len(c.Call.Args) > 0 && c.Call.Args[0] == ssa.Value(g.Params[0]) {
							visit(callee)
						}
					}
				}
			}
		}
		visit(f)
		return out
	}
	type use struct {
		method string
		pos    token.Pos
	}
	holds := map[string]map[string]use{"send": {}, "receive": {}}
	takes := map[string]map[string]use{"send": {}, "receive": {}}
	sorted := append([]*ssa.Function{}, methods...)
	sort.Slice(sorted, func(i, j int) bool { return sorted[i].Name() < sorted[j].Name() })
	for _, f := range sorted {
		sd := side(f.Name())
		if sd == "" {
			continue
		}
		c := closure(f)
		for k, v := range c.holds {
			if _, ok := holds[sd][k]; !ok {
				holds[sd][k] = use{f.Name(), v}
			}
		}
		for k, v := range c.takes {
			if _, ok := takes[sd][k]; !ok {
				takes[sd][k] = use{f.Name(), v}
			}
		}
	}
	var out []lockDuplexReport
	for _, pair := range [][2]string{{"send", "receive"}, {"receive", "send"}} {
		a, b := pair[0], pair[1]
		var fields []string
		for k := range holds[a] {
			fields = append(fields, k)
		}
		sort.Strings(fields)
		for _, k := range fields {
			if t, ok := takes[b][k]; ok {
				h := holds[a][k]
				out = append(out, lockDuplexReport{k, t.pos, fmt.Sprintf("%s (%s side) takes the lock %s, which %s (%s side) holds while it is blocked: with both directions in use at both ends each receiver waits for its sender and each sender for the peer's receiver, and the transfer stops for ever", t.method, b, k, h.method, a)})
			}
		}
	}
	return out
}

const c11lockExample = `package example

func anchor() {}

type mutex struct{ n int }

func (m *mutex) Lock()   { m.n++ }
func (m *mutex) Unlock() { m.n-- }

type flag struct{ v bool }

func (f *flag) Load() bool { return f.v }

type Good struct {
	m      mutex
	closed flag
	out    chan []byte
	back   chan []byte
	buf    []byte
	in     []byte
}

func (c *Good) Flush() error {
	c.m.Lock()
	defer c.m.Unlock()
	return c.flush()
}

func (c *Good) flush() error {
	c.out <- c.buf
	c.buf = <-c.back
	return nil
}

func (c *Good) Fill(n int) error {
	if c.closed.Load() {
		return nil
	}
	c.in = c.in[:n]
	return nil
}

func (c *Good) SendByte(b byte) error {
	c.m.Lock()
	c.buf = append(c.buf, b)
	c.m.Unlock()
	return c.Flush()
}

type Bad struct {
	m      mutex
	closed bool
	out    chan []byte
	back   chan []byte
	buf    []byte
	in     []byte
}

func (c *Bad) Flush() error {
	c.m.Lock()
	defer c.m.Unlock()
	return c.flush()
}

func (c *Bad) flush() error {
	c.out <- c.buf
	c.buf = <-c.back
	return nil
}

func (c *Bad) Fill(n int) error {
	c.m.Lock()
	closed := c.closed
	c.m.Unlock()
	if closed {
		return nil
	}
	c.in = c.in[:n]
	return nil
}

func (c *Bad) ReceiveByte() (byte, error) {
	if err := c.Fill(1); err != nil {
		return 0, err
	}
	return c.in[0], nil
}
`
