package props

import (
	"fmt"
	"go/token"
	"strings"

	"golang.org/x/tools/go/ssa"

	"mpcverif/internal/load"
	"mpcverif/internal/report"
)

// C11readerr: the byte count of a Read is consumed before its error is acted on.
//
// io.Reader may return n > 0 together with an error (the last bytes of a
// stream with io.EOF).  A caller that returns on err != nil before it has
// accounted for n drops those bytes: the peer's last values are never
// delivered and the received-bytes counter misses them.  For every direct
// Read on a transport in p2p, the count must be used outside the code that
// runs only when the error is nil.
func C11readerr(p *load.Program, run *report.Run) {
	run.Rule("read-count-before-error", "for every interface call of Read([]byte) (int, error) in p2p whose error is tested, the count is used in a block that is not dominated by the error-is-nil successor of that test: bytes returned together with an error (data + io.EOF) are accounted for")
	n := 0
	for _, fn := range p.AllFunctions() {
		if fn.Pkg == nil || fn.Pkg.Pkg.Path() != load.Module+"/p2p" || fn.Blocks == nil || fn.Synthetic != "" {
			continue
		}
		if strings.HasSuffix(p.Fset.Position(fn.Pos()).Filename, "_test.go") {
			continue
		}
		for _, b := range fn.Blocks {
			for _, ins := range b.Instrs {
				c, ok := ins.(*ssa.Call)
				if !ok || !c.Call.IsInvoke() || c.Call.Method.Name() != "Read" || len(c.Call.Args) != 1 {
					continue
				}
				var cnt, errv *ssa.Extract
				for _, r := range *c.Referrers() {
					if e, ok := r.(*ssa.Extract); ok {
						if e.Index == 0 {
							cnt = e
						} else {
							errv = e
						}
					}
				}
				if cnt == nil || errv == nil {
					continue
				}
				n++
				run.Count("transport-reads", 1)
				key := strings.ReplaceAll(fn.RelString(nil), load.Module+"/", "") + "/Read"
				// the nil-error successor
				var okSucc *ssa.BasicBlock
				for _, r := range *errv.Referrers() {
					bo, ok := r.(*ssa.BinOp)
					if !ok || (bo.Op != token.NEQ && bo.Op != token.EQL) {
						continue
					}
					for _, rr := range *bo.Referrers() {
						if iff, ok := rr.(*ssa.If); ok {
							if bo.Op == token.NEQ {
								okSucc = iff.Block().Succs[1]
							} else {
								okSucc = iff.Block().Succs[0]
							}
						}
					}
				}
				if okSucc == nil || len(okSucc.Preds) != 1 {
					run.OK("read-count-before-error", key, p.Rel(c.Pos()), "the error does not gate the code after the read")
					continue
				}
				early := false
				uses := 0
				for _, r := range *cnt.Referrers() {
					uses++
					if rb := r.Block(); rb != nil && !(rb == okSucc || okSucc.Dominates(rb)) {
						early = true
					}
				}
				if uses == 0 {
					run.Violate("read-count-before-error", key, p.Rel(c.Pos()), "the byte count of the read is never used", nil)
				} else if !early {
					run.Violate("read-count-before-error", key, p.Rel(c.Pos()), fmt.Sprintf("the %d use(s) of the byte count all run only when the error is nil: bytes that arrive together with an error (the tail of the stream with io.EOF) are dropped and not counted", uses), nil)
				} else {
					run.OK("read-count-before-error", key, p.Rel(c.Pos()), "the count is consumed before the error is acted on")
				}
			}
		}
	}
	run.Floor("transport-reads", 1)
}
