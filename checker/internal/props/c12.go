package props

import (
	"fmt"
	"go/ast"
	"go/token"
	"go/types"
	"sort"
	"strings"

	"golang.org/x/tools/go/packages"

	"mpcverif/internal/dispatch"
	"mpcverif/internal/load"
	"mpcverif/internal/report"
)

// allSwitches returns every switch in fd whose tag equals tag, written with
// canonical names (cx) or with recv/$i for the receiver and parameters.
func allSwitches(fd *ast.FuncDecl, tag string) []*ast.SwitchStmt {
	var out []*ast.SwitchStmt
	ast.Inspect(fd.Body, func(n ast.Node) bool {
		if s, ok := n.(*ast.SwitchStmt); ok && s.Tag != nil && (cx(s.Tag) == tag || exprNorm(fd, s.Tag) == tag) {
			out = append(out, s)
		}
		return true
	})
	return out
}

func caseNames(cc *ast.CaseClause) []string {
	var out []string
	for _, e := range cc.List {
		switch t := e.(type) {
		case *ast.Ident:
			out = append(out, t.Name)
		case *ast.SelectorExpr:
			out = append(out, t.Sel.Name)
		}
	}
	return out
}

// calledFuncs lists the functions called under n.
func calledFuncs(pkg *packages.Package, n ast.Node) []*types.Func {
	var out []*types.Func
	ast.Inspect(n, func(m ast.Node) bool {
		call, ok := m.(*ast.CallExpr)
		if !ok {
			return true
		}
		var obj types.Object
		switch f := call.Fun.(type) {
		case *ast.Ident:
			obj = pkg.TypesInfo.Uses[f]
		case *ast.SelectorExpr:
			obj = pkg.TypesInfo.Uses[f.Sel]
		}
		if fn, ok := obj.(*types.Func); ok {
			out = append(out, fn)
		}
		return true
	})
	return out
}

// declOf finds the declaration of a module function.
func declOf(p *load.Program, fn *types.Func) (*packages.Package, *ast.FuncDecl) {
	if fn.Pkg() == nil || !strings.HasPrefix(fn.Pkg().Path(), load.Module) {
		return nil, nil
	}
	pkg := p.ByPath[fn.Pkg().Path()]
	if pkg == nil {
		return nil, nil
	}
	for _, f := range pkg.Syntax {
		for _, d := range f.Decls {
			if fd, ok := d.(*ast.FuncDecl); ok && pkg.TypesInfo.Defs[fd.Name] == fn {
				return pkg, fd
			}
		}
	}
	return nil, nil
}

// opcodesOf lists the Operand constants a constructor can put in Instr.Op.
func opcodesOf(p *load.Program, fn *types.Func) []string {
	pkg, fd := declOf(p, fn)
	if fd == nil || fd.Body == nil {
		return nil
	}
	set := map[string]bool{}
	ast.Inspect(fd.Body, func(n ast.Node) bool {
		id, ok := n.(*ast.Ident)
		if !ok {
			return true
		}
		if c, ok := pkg.TypesInfo.Uses[id].(*types.Const); ok {
			if nt, ok := c.Type().(*types.Named); ok && nt.Obj().Name() == "Operand" {
				set[c.Name()] = true
			}
		}
		return true
	})
	var out []string
	for k := range set {
		out = append(out, k)
	}
	sort.Strings(out)
	return out
}

// readsSignedness reports whether the node (or module callees up to depth) reads a field of type compiler/types.Type,
// the only place operand signedness lives.
func readsSignedness(p *load.Program, pkg *packages.Package, n ast.Node, depth int, seen map[*types.Func]bool) bool {
	found := false
	ast.Inspect(n, func(m ast.Node) bool {
		if sel, ok := m.(*ast.SelectorExpr); ok {
			if s := pkg.TypesInfo.Selections[sel]; s != nil && s.Kind() == types.FieldVal {
				if nt, ok := s.Type().(*types.Named); ok && nt.Obj().Name() == "Type" && nt.Obj().Pkg() != nil && nt.Obj().Pkg().Path() == load.Module+"/types" {
					found = true
				}
			}
		}
		return !found
	})
	if found || depth == 0 {
		return found
	}
	for _, fn := range calledFuncs(pkg, n) {
		if seen[fn] {
			continue
		}
		seen[fn] = true
		if cp, fd := declOf(p, fn); fd != nil && fd.Body != nil {
			if readsSignedness(p, cp, fd.Body, depth-1, seen) {
				return true
			}
		}
	}
	return false
}

// C12 decides the dispatch clauses of constant folding.
func C12(p *load.Program, run *report.Run) {
	run.Rule("fold-coverage", "every operator Binary.SSA lowers for integer/bool operands has a constant-folding arm in Binary.evalConst")
	run.Rule("fold-signedness", "an operator whose circuit differs between the signed and the unsigned opcode must consult the operand's signedness when folded (mpa.Int values carry no sign)")
	run.Rule("fold-bigpath", "the >64-bit path of mpa.Int reaches the builder Program.Circuit uses for the operator, with the matching divider output")
	t := buildOpTables(p, run)
	if t == nil {
		return
	}
	pkgA, fdSSA := dispatch.FindFunc(p, "compiler/ast", "Binary", "SSA")
	_, fdEval := dispatch.FindFunc(p, "compiler/ast", "Binary", "evalConst")
	if fdSSA == nil || fdEval == nil {
		run.Undecided("anchor", "compiler/ast.Binary.SSA/evalConst", "", "function not found")
		return
	}
	// the text of each opcode's arm in Program.Circuit: opcodes of one clause, or of clauses with the same body, build the same circuit
	armText := map[string]string{}
	if pkgC, fdC := dispatch.FindFunc(p, "compiler/ssa", "Program", "Circuit"); fdC != nil {
		arms, _ := dispatch.SwitchArms(p, pkgC, fdC, "<Instr>.Op")
		for _, a := range arms {
			// a shared clause that tests instr.Op against one of its own opcodes still builds different circuits
			selfTest := false
			ast.Inspect(a.Node, func(n ast.Node) bool {
				if be, ok := n.(*ast.BinaryExpr); ok && (be.Op == token.EQL || be.Op == token.NEQ) {
					for _, c := range a.Consts {
						if types.ExprString(be.Y) == c || types.ExprString(be.X) == c {
							selfTest = true
						}
					}
				}
				return true
			})
			for _, c := range a.Consts {
				armText[c] = ""
				if selfTest {
					armText[c] += "|instr.Op=" + c
				}
			}
		}
	}
	// lowering table: the ast.Op switch whose arms call ssa.New*Instr
	lowered := map[string][]string{} // BinaryType -> opcodes
	for _, sw := range allSwitches(fdSSA, "recv.Op") {
		for _, st := range sw.Body.List {
			cc := st.(*ast.CaseClause)
			var ops []string
			for _, fn := range calledFuncs(pkgA, cc) {
				if fn.Pkg() != nil && fn.Pkg().Path() == load.Module+"/compiler/ssa" && strings.HasSuffix(fn.Name(), "Instr") {
					ops = append(ops, opcodesOf(p, fn)...)
				}
			}
			if len(ops) == 0 {
				continue
			}
			for _, c := range caseNames(cc) {
				lowered[c] = append(lowered[c], ops...)
			}
		}
	}
	run.Count("lowered-operators", len(lowered))
	run.Floor("lowered-operators", 15)
	// folding arms by constant kind
	folded := map[string]map[string]*ast.CaseClause{} // kind -> op -> arm
	ast.Inspect(fdEval.Body, func(n ast.Node) bool {
		ts, ok := n.(*ast.TypeSwitchStmt)
		if !ok {
			return true
		}
		for _, st := range ts.Body.List {
			cc := st.(*ast.CaseClause)
			if len(cc.List) != 1 {
				continue
			}
			kind := types.ExprString(cc.List[0])
			folded[kind] = map[string]*ast.CaseClause{}
			ast.Inspect(cc, func(m ast.Node) bool {
				if sw, ok := m.(*ast.SwitchStmt); ok && sw.Tag != nil && dispatch.TypedString(pkgA, sw.Tag) == "<Binary>.Op" {
					for _, s2 := range sw.Body.List {
						c2 := s2.(*ast.CaseClause)
						for _, name := range caseNames(c2) {
							folded[kind][name] = c2
						}
					}
					return false
				}
				return true
			})
		}
		return false
	})
	intArms, boolArms := folded["*mpa.Int"], folded["bool"]
	if intArms == nil || boolArms == nil {
		run.Undecided("fold-coverage", "compiler/ast.Binary.evalConst", p.Rel(fdEval.Pos()), "constant-kind type switch not found")
		return
	}
	run.Count("folding-arms", len(intArms)+len(boolArms))
	run.Floor("folding-arms", 15)
	var names []string
	for k := range lowered {
		names = append(names, k)
	}
	sort.Strings(names)
	// does mpa.Int carry a sign?  (precondition of fold-signedness)
	mpaSigned := false
	if mt, err := p.Type("compiler/mpa", "Int"); err == nil {
		st := mt.Underlying().(*types.Struct)
		for i := 0; i < st.NumFields(); i++ {
			f := st.Field(i)
			if nt, ok := f.Type().(*types.Named); ok && nt.Obj().Name() == "Type" {
				mpaSigned = true
			}
			if b, ok := f.Type().Underlying().(*types.Basic); ok && b.Kind() == types.Bool {
				mpaSigned = true
			}
		}
	}
	if mpaSigned {
		run.Notes = append(run.Notes, "mpa.Int now carries type information; fold-signedness does not apply to that representation and was skipped")
	}
	for _, op := range names {
		key := "compiler/ast.Binary.evalConst/" + op
		logical := true
		var intOps []string
		for _, o := range lowered[op] {
			if strings.HasPrefix(o, "F") || o == "Concat" {
				continue
			}
			intOps = append(intOps, o)
			if o != "And" && o != "Or" {
				logical = false
			}
		}
		arm := intArms[op]
		if logical {
			arm = boolArms[op]
		}
		if arm == nil {
			run.Violate("fold-coverage", key, p.Rel(fdEval.Pos()), fmt.Sprintf("operator %s is lowered to %v but constant operands have no folding arm", op, intOps), nil)
			continue
		}
		run.OK("fold-coverage", key, p.Rel(arm.Pos()), strings.Join(intOps, ","))
		// signedness
		sigs := map[string]bool{}
		for _, o := range intOps {
			sigs[t.circuit[o]+"\n"+armText[o]] = true
		}
		if len(sigs) < 2 || mpaSigned || logical {
			continue
		}
		run.Count("signedness-dependent-operators", 1)
		// the folded value is the first argument of gen.Constant; the second only labels the result
		var valueExprs []ast.Node
		ast.Inspect(arm, func(n ast.Node) bool {
			if call, ok := n.(*ast.CallExpr); ok {
				if sel, ok := call.Fun.(*ast.SelectorExpr); ok && sel.Sel.Name == "Constant" && len(call.Args) == 2 {
					valueExprs = append(valueExprs, call.Args[0])
					return false
				}
			}
			return true
		})
		if len(valueExprs) == 0 {
			valueExprs = []ast.Node{arm}
		}
		consults := false
		for _, v := range valueExprs {
			if readsSignedness(p, pkgA, v, 3, map[*types.Func]bool{}) {
				consults = true
			}
		}
		// an arm may also branch on the signedness before choosing the value
		for _, st := range arm.Body {
			if ifs, ok := st.(*ast.IfStmt); ok && readsSignedness(p, pkgA, ifs.Cond, 0, nil) {
				consults = true
			}
			if sw, ok := st.(*ast.SwitchStmt); ok && sw.Tag != nil && readsSignedness(p, pkgA, sw.Tag, 0, nil) {
				consults = true
			}
		}
		if consults {
			run.OK("fold-signedness", key, p.Rel(arm.Pos()), fmt.Sprintf("circuits differ (%v); the arm consults the operand type", intOps))
		} else {
			run.Violate("fold-signedness", key, p.Rel(arm.Pos()), fmt.Sprintf("circuits differ between %v but the folding arm never reads the operand's signedness", intOps), nil)
		}
	}
	run.Floor("signedness-dependent-operators", 4)

	// big path
	pkgM := p.ByPath[load.Module+"/compiler/mpa"]
	for _, pr := range [][3]string{{"Add", "Iadd", ""}, {"Sub", "Isub", ""}, {"Mul", "Imult", ""}, {"Div", "Idiv", "0"}, {"Mod", "Imod", "1"}} {
		_, fd := dispatch.FindFunc(p, "compiler/mpa", "Int", pr[0])
		key := "compiler/mpa.Int." + pr[0]
		if fd == nil {
			run.Undecided("fold-bigpath", key, "", "method not found")
			continue
		}
		set := map[string]bool{}
		// the method and the helpers of its package it builds the circuit with (a divider shared by Div and Mod)
		bodies := []*ast.BlockStmt{fd.Body}
		for _, cd := range calleeDecls(p, pkgM, fd, 2) {
			if cd.pkg == pkgM && cd.fd.Recv == nil {
				bodies = append(bodies, cd.fd.Body)
			}
		}
		for _, body := range bodies {
			ast.Inspect(body, func(n ast.Node) bool {
				switch x := n.(type) {
				case *ast.SelectorExpr:
					if fn, ok := pkgM.TypesInfo.Uses[x.Sel].(*types.Func); ok && fn.Pkg() != nil && fn.Pkg().Path() == load.Module+"/compiler/circuits" && strings.HasPrefix(fn.Name(), "New") {
						switch fn.Name() {
						case "NewAllocator", "NewCompiler":
						default:
							set[fn.Name()] = true
						}
					}
				}
				return true
			})
		}
		var got []string
		for k := range set {
			got = append(got, k)
		}
		sort.Strings(got)
		want := t.circuit[pr[1]]
		wantNames := map[string]bool{}
		for _, w := range strings.Fields(want) {
			w = strings.TrimPrefix(w, "circuits.")
			if i := strings.Index(w, "["); i >= 0 {
				w = w[:i]
			}
			wantNames[w] = true
		}
		same := len(got) == len(wantNames)
		for _, g := range got {
			if !wantNames[g] {
				same = false
			}
		}
		if !same {
			run.Violate("fold-bigpath", key, p.Rel(fd.Pos()), fmt.Sprintf("large constants are folded with %v, the circuit for %s is built with %s", got, pr[1], want), nil)
			continue
		}
		if pr[2] != "" {
			// the divider output used: obits[K]; the circuit arm leaves the other output nil
			idx := ""
			ast.Inspect(fd.Body, func(n ast.Node) bool {
				if as, ok := n.(*ast.AssignStmt); ok && len(as.Lhs) == 1 && isSel(as.Lhs[0], "values") {
					if ix, ok := as.Rhs[0].(*ast.IndexExpr); ok {
						idx = types.ExprString(ix.Index)
					}
				}
				return true
			})
			// Sig marks nil argument positions: quotient is argument 3, remainder argument 4 of NewIDivider(cc,a,b,q,r)
			nilPos := map[string]string{"0": "nil@4", "1": "nil@3"}[pr[2]]
			if idx != pr[2] || !strings.Contains(want, nilPos) {
				run.Violate("fold-bigpath", key, p.Rel(fd.Pos()), fmt.Sprintf("folding takes divider output %s, the circuit arm is %s", idx, want), nil)
				continue
			}
		}
		run.OK("fold-bigpath", key, p.Rel(fd.Pos()), want)
	}
}
