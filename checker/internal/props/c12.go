package props

import (
	"fmt"
	"go/ast"
	"go/token"
	"go/types"
	"golang.org/x/tools/go/ssa"
	"sort"
	"strings"

	"golang.org/x/tools/go/packages"

	"mpcverif/internal/dispatch"
	"mpcverif/internal/load"
	"mpcverif/internal/report"
)

// allSwitches returns every switch in fd whose tag equals tag, written with
// canonical names (cx) or with recv/$i for the receiver and parameters.
func allSwitches(fd *ast.FuncDecl, tag string) []*ast.SwitchStmt {
	var out []*ast.SwitchStmt
	ast.Inspect(fd.Body, func(n ast.Node) bool {
		if s, ok := n.(*ast.SwitchStmt); ok && s.Tag != nil && (cx(s.Tag) == tag || exprNorm(fd, s.Tag) == tag) {
			out = append(out, s)
		}
		return true
	})
	return out
}

func caseNames(cc *ast.CaseClause) []string {
	var out []string
	for _, e := range cc.List {
		switch t := e.(type) {
		case *ast.Ident:
			out = append(out, t.Name)
		case *ast.SelectorExpr:
			out = append(out, t.Sel.Name)
		}
	}
	return out
}

// calledFuncs lists the functions called under n.
func calledFuncs(pkg *packages.Package, n ast.Node) []*types.Func {
	var out []*types.Func
	ast.Inspect(n, func(m ast.Node) bool {
		call, ok := m.(*ast.CallExpr)
		if !ok {
			return true
		}
		var obj types.Object
		switch f := call.Fun.(type) {
		case *ast.Ident:
			obj = pkg.TypesInfo.Uses[f]
		case *ast.SelectorExpr:
			obj = pkg.TypesInfo.Uses[f.Sel]
		}
		if fn, ok := obj.(*types.Func); ok {
			out = append(out, fn)
		}
		return true
	})
	return out
}

// declOf finds the declaration of a module function.
func declOf(p *load.Program, fn *types.Func) (*packages.Package, *ast.FuncDecl) {
	if fn.Pkg() == nil || !strings.HasPrefix(fn.Pkg().Path(), load.Module) {
		return nil, nil
	}
	pkg := p.ByPath[fn.Pkg().Path()]
	if pkg == nil {
		return nil, nil
	}
	for _, f := range pkg.Syntax {
		for _, d := range f.Decls {
			if fd, ok := d.(*ast.FuncDecl); ok && pkg.TypesInfo.Defs[fd.Name] == fn {
				return pkg, fd
			}
		}
	}
	return nil, nil
}

// opcodesOf lists the Operand constants a constructor can put in Instr.Op.
func opcodesOf(p *load.Program, fn *types.Func) []string {
	pkg, fd := declOf(p, fn)
	if fd == nil || fd.Body == nil {
		return nil
	}
	set := map[string]bool{}
	ast.Inspect(fd.Body, func(n ast.Node) bool {
		id, ok := n.(*ast.Ident)
		if !ok {
			return true
		}
		if c, ok := pkg.TypesInfo.Uses[id].(*types.Const); ok {
			if nt, ok := c.Type().(*types.Named); ok && nt.Obj().Name() == "Operand" {
				set[c.Name()] = true
			}
		}
		return true
	})
	var out []string
	for k := range set {
		out = append(out, k)
	}
	sort.Strings(out)
	return out
}

// readsSignedness reports whether the node (or module callees up to depth) reads a field of type compiler/types.Type,
// the only place operand signedness lives.
func readsSignedness(p *load.Program, pkg *packages.Package, n ast.Node, depth int, seen map[*types.Func]bool) bool {
	found := false
	ast.Inspect(n, func(m ast.Node) bool {
		if sel, ok := m.(*ast.SelectorExpr); ok {
			if s := pkg.TypesInfo.Selections[sel]; s != nil && s.Kind() == types.FieldVal {
				if nt, ok := s.Type().(*types.Named); ok && nt.Obj().Name() == "Type" && nt.Obj().Pkg() != nil && nt.Obj().Pkg().Path() == load.Module+"/types" {
					found = true
				}
			}
		}
		return !found
	})
	if found || depth == 0 {
		return found
	}
	for _, fn := range calledFuncs(pkg, n) {
		if seen[fn] {
			continue
		}
		seen[fn] = true
		if cp, fd := declOf(p, fn); fd != nil && fd.Body != nil {
			if readsSignedness(p, cp, fd.Body, depth-1, seen) {
				return true
			}
		}
	}
	return false
}

// C12 decides the dispatch clauses of constant folding.
func C12(p *load.Program, run *report.Run) {
	run.Rule("fold-coverage", "every operator Binary.SSA lowers for integer/bool operands has a constant-folding arm in Binary.evalConst")
	run.Rule("fold-signedness", "an operator whose circuit differs between the signed and the unsigned opcode must consult the operand's signedness when folded (mpa.Int values carry no sign)")
	run.Rule("fold-bigpath", "the >64-bit path of mpa.Int reaches the builder Program.Circuit uses for the operator, with the matching divider output")
	t := buildOpTables(p, run)
	if t == nil {
		return
	}
	pkgA, fdSSA := dispatch.FindFunc(p, "compiler/ast", "Binary", "SSA")
	_, fdEval := dispatch.FindFunc(p, "compiler/ast", "Binary", "evalConst")
	if fdSSA == nil || fdEval == nil {
		run.Undecided("anchor", "compiler/ast.Binary.SSA/evalConst", "", "function not found")
		return
	}
	// the text of each opcode's arm in Program.Circuit: opcodes of one clause, or of clauses with the same body, build the same circuit
	armText := map[string]string{}
	if pkgC, fdC := dispatch.FindFunc(p, "compiler/ssa", "Program", "Circuit"); fdC != nil {
		arms, _ := dispatch.SwitchArms(p, pkgC, fdC, "<Instr>.Op")
		for _, a := range arms {
			// a shared clause that tests instr.Op against one of its own opcodes still builds different circuits
			selfTest := false
			ast.Inspect(a.Node, func(n ast.Node) bool {
				if be, ok := n.(*ast.BinaryExpr); ok && (be.Op == token.EQL || be.Op == token.NEQ) {
					for _, c := range a.Consts {
						if types.ExprString(be.Y) == c || types.ExprString(be.X) == c {
							selfTest = true
						}
					}
				}
				return true
			})
			for _, c := range a.Consts {
				armText[c] = ""
				if selfTest {
					armText[c] += "|instr.Op=" + c
				}
			}
		}
	}
	// lowering table: the ast.Op switch whose arms call ssa.New*Instr
	lowered := map[string][]string{} // BinaryType -> opcodes
	for _, sw := range allSwitches(fdSSA, "recv.Op") {
		for _, st := range sw.Body.List {
			cc := st.(*ast.CaseClause)
			var ops []string
			for _, fn := range calledFuncs(pkgA, cc) {
				if fn.Pkg() != nil && fn.Pkg().Path() == load.Module+"/compiler/ssa" && strings.HasSuffix(fn.Name(), "Instr") {
					ops = append(ops, opcodesOf(p, fn)...)
				}
			}
			if len(ops) == 0 {
				continue
			}
			for _, c := range caseNames(cc) {
				lowered[c] = append(lowered[c], ops...)
			}
		}
	}
	run.Count("lowered-operators", len(lowered))
	run.Floor("lowered-operators", 15)
	// folding arms by constant kind
	folded := map[string]map[string]*ast.CaseClause{} // kind -> op -> arm
	ast.Inspect(fdEval.Body, func(n ast.Node) bool {
		ts, ok := n.(*ast.TypeSwitchStmt)
		if !ok {
			return true
		}
		for _, st := range ts.Body.List {
			cc := st.(*ast.CaseClause)
			if len(cc.List) != 1 {
				continue
			}
			kind := types.ExprString(cc.List[0])
			folded[kind] = map[string]*ast.CaseClause{}
			ast.Inspect(cc, func(m ast.Node) bool {
				if sw, ok := m.(*ast.SwitchStmt); ok && sw.Tag != nil && dispatch.TypedString(pkgA, sw.Tag) == "<Binary>.Op" {
					for _, s2 := range sw.Body.List {
						c2 := s2.(*ast.CaseClause)
						for _, name := range caseNames(c2) {
							folded[kind][name] = c2
						}
					}
					return false
				}
				return true
			})
		}
		return false
	})
	intArms, boolArms := folded["*mpa.Int"], folded["bool"]
	if intArms == nil || boolArms == nil {
		run.Undecided("fold-coverage", "compiler/ast.Binary.evalConst", p.Rel(fdEval.Pos()), "constant-kind type switch not found")
		return
	}
	run.Count("folding-arms", len(intArms)+len(boolArms))
	run.Floor("folding-arms", 15)
	var names []string
	for k := range lowered {
		names = append(names, k)
	}
	sort.Strings(names)
	// does mpa.Int carry a sign?  (precondition of fold-signedness)
	mpaSigned := false
	if mt, err := p.Type("compiler/mpa", "Int"); err == nil {
		st := mt.Underlying().(*types.Struct)
		for i := 0; i < st.NumFields(); i++ {
			f := st.Field(i)
			if nt, ok := f.Type().(*types.Named); ok && nt.Obj().Name() == "Type" {
				mpaSigned = true
			}
			if b, ok := f.Type().Underlying().(*types.Basic); ok && b.Kind() == types.Bool {
				mpaSigned = true
			}
		}
	}
	if mpaSigned {
		run.Notes = append(run.Notes, "mpa.Int now carries type information; fold-signedness does not apply to that representation and was skipped")
	}
	for _, op := range names {
		key := "compiler/ast.Binary.evalConst/" + op
		logical := true
		var intOps []string
		for _, o := range lowered[op] {
			if strings.HasPrefix(o, "F") || o == "Concat" {
				continue
			}
			intOps = append(intOps, o)
			if o != "And" && o != "Or" {
				logical = false
			}
		}
		arm := intArms[op]
		if logical {
			arm = boolArms[op]
		}
		if arm == nil {
			run.Violate("fold-coverage", key, p.Rel(fdEval.Pos()), fmt.Sprintf("operator %s is lowered to %v but constant operands have no folding arm", op, intOps), nil)
			continue
		}
		run.OK("fold-coverage", key, p.Rel(arm.Pos()), strings.Join(intOps, ","))
		// signedness
		sigs := map[string]bool{}
		for _, o := range intOps {
			sigs[t.circuit[o]+"\n"+armText[o]] = true
		}
		if len(sigs) < 2 || mpaSigned || logical {
			continue
		}
		run.Count("signedness-dependent-operators", 1)
		// the folded value is the first argument of gen.Constant; the second only labels the result
		var valueExprs []ast.Node
		ast.Inspect(arm, func(n ast.Node) bool {
			if call, ok := n.(*ast.CallExpr); ok {
				if sel, ok := call.Fun.(*ast.SelectorExpr); ok && sel.Sel.Name == "Constant" && len(call.Args) == 2 {
					valueExprs = append(valueExprs, call.Args[0])
					return false
				}
			}
			return true
		})
		if len(valueExprs) == 0 {
			valueExprs = []ast.Node{arm}
		}
		consults := false
		for _, v := range valueExprs {
			if readsSignedness(p, pkgA, v, 3, map[*types.Func]bool{}) {
				consults = true
			}
		}
		// an arm may also branch on the signedness before choosing the value
		for _, st := range arm.Body {
			if ifs, ok := st.(*ast.IfStmt); ok && readsSignedness(p, pkgA, ifs.Cond, 0, nil) {
				consults = true
			}
			if sw, ok := st.(*ast.SwitchStmt); ok && sw.Tag != nil && readsSignedness(p, pkgA, sw.Tag, 0, nil) {
				consults = true
			}
		}
		if consults {
			run.OK("fold-signedness", key, p.Rel(arm.Pos()), fmt.Sprintf("circuits differ (%v); the arm consults the operand type", intOps))
		} else {
			run.Violate("fold-signedness", key, p.Rel(arm.Pos()), fmt.Sprintf("circuits differ between %v but the folding arm never reads the operand's signedness", intOps), nil)
		}
	}
	run.Floor("signedness-dependent-operators", 4)

	// big path
	pkgM := p.ByPath[load.Module+"/compiler/mpa"]
	for _, pr := range [][3]string{{"Add", "Iadd", ""}, {"Sub", "Isub", ""}, {"Mul", "Imult", ""}, {"Div", "Idiv", "0"}, {"Mod", "Imod", "1"}} {
		_, fd := dispatch.FindFunc(p, "compiler/mpa", "Int", pr[0])
		key := "compiler/mpa.Int." + pr[0]
		if fd == nil {
			run.Undecided("fold-bigpath", key, "", "method not found")
			continue
		}
		set := map[string]bool{}
		// the method and the helpers of its package it builds the circuit with (a divider shared by Div and Mod)
		bodies := []*ast.BlockStmt{fd.Body}
		for _, cd := range calleeDecls(p, pkgM, fd, 2) {
			if cd.pkg == pkgM && cd.fd.Recv == nil {
				bodies = append(bodies, cd.fd.Body)
			}
		}
		for _, body := range bodies {
			ast.Inspect(body, func(n ast.Node) bool {
				switch x := n.(type) {
				case *ast.SelectorExpr:
					if fn, ok := pkgM.TypesInfo.Uses[x.Sel].(*types.Func); ok && fn.Pkg() != nil && fn.Pkg().Path() == load.Module+"/compiler/circuits" && strings.HasPrefix(fn.Name(), "New") {
						switch fn.Name() {
						case "NewAllocator", "NewCompiler":
						default:
							set[fn.Name()] = true
						}
					}
				}
				return true
			})
		}
		var got []string
		for k := range set {
			got = append(got, k)
		}
		sort.Strings(got)
		want := t.circuit[pr[1]]
		wantNames := map[string]bool{}
		for _, w := range strings.Fields(want) {
			w = strings.TrimPrefix(w, "circuits.")
			if i := strings.Index(w, "["); i >= 0 {
				w = w[:i]
			}
			wantNames[w] = true
		}
		same := len(got) == len(wantNames)
		for _, g := range got {
			if !wantNames[g] {
				same = false
			}
		}
		if !same && len(got) == 0 && pr[2] == "" {
			// no circuit at all: the low bits of a sum, difference or product do not depend on how the circuit is
			// wired, so math/big on the operands' bits zero-extended, truncated to the result width, is the same
			// function — provided the operands really are zero-extended (a 64-bit value kept as an int64 is negative
			// as a big.Int when its top bit is set)
			if sf, err := p.Method("compiler/mpa", "Int", pr[0]); err == nil {
				if why := bigFoldZeroExtended(sf, pr[0]); why == "" {
					run.OK("fold-bigpath", key, p.Rel(fd.Pos()), "folded with math/big on zero-extended operands and truncated to the result width")
					continue
				} else {
					run.Violate("fold-bigpath", key, p.Rel(fd.Pos()), "large constants are folded with math/big instead of the circuit's builder, and "+why, nil)
					continue
				}
			}
		}
		if !same {
			run.Violate("fold-bigpath", key, p.Rel(fd.Pos()), fmt.Sprintf("large constants are folded with %v, the circuit for %s is built with %s", got, pr[1], want), nil)
			continue
		}
		if pr[2] != "" {
			// the divider output used: obits[K]; the circuit arm leaves the other output nil
			idx := ""
			ast.Inspect(fd.Body, func(n ast.Node) bool {
				if as, ok := n.(*ast.AssignStmt); ok && len(as.Lhs) == 1 && isSel(as.Lhs[0], "values") {
					if ix, ok := as.Rhs[0].(*ast.IndexExpr); ok {
						idx = types.ExprString(ix.Index)
					}
				}
				return true
			})
			// Sig marks nil argument positions: quotient is argument 3, remainder argument 4 of NewIDivider(cc,a,b,q,r)
			nilPos := map[string]string{"0": "nil@4", "1": "nil@3"}[pr[2]]
			if idx != pr[2] || !strings.Contains(want, nilPos) {
				run.Violate("fold-bigpath", key, p.Rel(fd.Pos()), fmt.Sprintf("folding takes divider output %s, the circuit arm is %s", idx, want), nil)
				continue
			}
		}
		run.OK("fold-bigpath", key, p.Rel(fd.Pos()), want)
	}
}

// bigFoldZeroExtended: f (a method of mpa.Int) computes its wide result with (*big.Int).<op> on two operands that
// are each the result of a method whose every return is non-negative by construction, and the result goes
// through (*big.Int).And (directly or in a method of Int called afterwards).
func bigFoldZeroExtended(f *ssa.Function, op string) string {
	isBig := func(c *ssa.Call, name string) bool {
		callee := c.Call.StaticCallee()
		return callee != nil && callee.Name() == name && callee.Signature.Recv() != nil && strings.HasSuffix(callee.Signature.Recv().Type().String(), "big.Int")
	}
	var arith *ssa.Call
	masked := false
	for _, b := range f.Blocks {
		for _, ins := range b.Instrs {
			c, ok := ins.(*ssa.Call)
			if !ok {
				continue
			}
			if isBig(c, op) && len(c.Call.Args) == 3 {
				arith = c
			}
			if isBig(c, "And") {
				masked = true
			}
			if callee := c.Call.StaticCallee(); callee != nil && callee.Blocks != nil && callee.Pkg == f.Pkg {
				for _, cb := range callee.Blocks {
					for _, ci := range cb.Instrs {
						if cc, ok := ci.(*ssa.Call); ok && isBig(cc, "And") {
							masked = true
						}
					}
				}
			}
		}
	}
	if arith == nil {
		return "no (*big.Int)." + op + " on the operands was found"
	}
	if !masked {
		return "the result is not truncated to the result width"
	}
	for _, a := range arith.Call.Args[1:] {
		c, ok := a.(*ssa.Call)
		if !ok || c.Call.StaticCallee() == nil || c.Call.StaticCallee().Blocks == nil {
			return "an operand of the big-integer " + op + " is not the result of a conversion method"
		}
		if why := nonNegativeBig(c.Call.StaticCallee()); why != "" {
			return "the operand conversion " + c.Call.StaticCallee().Name() + " can yield a negative number (" + why + "): a 64-bit operand with its top bit set is multiplied as a negative value"
		}
	}
	return ""
}

// nonNegativeBig: every value f returns is non-negative by construction: the result of SetUint64, a value
// returned where `v.Sign() < 0` was just found false, or the sum modulus + v returned where it was found true.
func nonNegativeBig(f *ssa.Function) string {
	isBig := func(v ssa.Value, name string) (*ssa.Call, bool) {
		c, ok := v.(*ssa.Call)
		if !ok {
			return nil, false
		}
		callee := c.Call.StaticCallee()
		return c, callee != nil && callee.Name() == name && callee.Signature.Recv() != nil && strings.HasSuffix(callee.Signature.Recv().Type().String(), "big.Int")
	}
	// blocks where a value is known negative / non-negative
	type fact struct {
		v   ssa.Value
		neg bool
		blk *ssa.BasicBlock
	}
	var facts []fact
	for _, b := range f.Blocks {
		iff, ok := b.Instrs[len(b.Instrs)-1].(*ssa.If)
		if !ok {
			continue
		}
		bo, ok := iff.Cond.(*ssa.BinOp)
		if !ok || bo.Op != token.LSS {
			continue
		}
		c, isSign := isBig(bo.X, "Sign")
		k, isC := bo.Y.(*ssa.Const)
		if !isSign || !isC || k.Int64() != 0 {
			continue
		}
		facts = append(facts, fact{c.Call.Args[0], true, b.Succs[0]}, fact{c.Call.Args[0], false, b.Succs[1]})
	}
	for _, b := range f.Blocks {
		ret, ok := b.Instrs[len(b.Instrs)-1].(*ssa.Return)
		if !ok {
			continue
		}
		v := load.Results(ret)[0]
		if _, ok := isBig(v, "SetUint64"); ok {
			continue
		}
		good := false
		for _, fc := range facts {
			if len(fc.blk.Preds) != 1 || !(fc.blk == b || fc.blk.Dominates(b)) {
				continue
			}
			if !fc.neg && fc.v == v {
				good = true
			}
			if fc.neg {
				if c, ok := isBig(v, "Add"); ok && len(c.Call.Args) == 3 && (c.Call.Args[1] == fc.v || c.Call.Args[2] == fc.v) {
					good = true
				}
			}
		}
		if !good {
			return "a returned value is not shown to be non-negative"
		}
	}
	return ""
}
