package props

import (
	"fmt"
	"go/token"
	"go/types"
	"strings"

	"golang.org/x/tools/go/ssa"

	"mpcverif/internal/load"
	"mpcverif/internal/report"
)

// C12operands: a constant-folding operator of mpa.Int does not change its operands.
//
// The *mpa.Int of a constant is shared by the AST literal, casts and bindings and
// is evaluated several times (Binary.SSA evaluates a constant operand up to three
// times, loops are unrolled, functions inlined).  z.Op(x, y) may only write z.
// math/big methods that return their receiver write it, so such a method may
// not be called on the big integer of an operand (x.big(), or a load of
// x.values) unless the operand is the receiver itself (z == x on that path).
func C12operands(p *load.Program, run *report.Run) {
	run.Rule("fold-operands-unchanged", "in every method of *mpa.Int with operand parameters of type *mpa.Int, no math/big method that returns its *big.Int receiver (Add, Rsh, And, Set, ...) is called with a receiver that is operand.big() or a load of operand.values, except in code dominated by the true branch of receiver == operand; direct stores to an operand's fields are reported too")
	intT, err := p.Type("compiler/mpa", "Int")
	if err != nil {
		run.Undecided("fold-operands-unchanged", "mpa.Int", "", err.Error())
		return
	}
	ms := p.SSA.MethodSets.MethodSet(types.NewPointer(intT))
	for i := 0; i < ms.Len(); i++ {
		fn := p.SSA.MethodValue(ms.At(i))
		if fn == nil || fn.Blocks == nil || fn.Synthetic != "" || len(fn.Params) < 2 {
			continue
		}
		recv := fn.Params[0]
		var operands []*ssa.Parameter
		for _, pr := range fn.Params[1:] {
			if pt, ok := pr.Type().(*types.Pointer); ok && types.Identical(pt.Elem(), intT) {
				operands = append(operands, pr)
			}
		}
		if len(operands) == 0 {
			continue
		}
		run.Count("fold-operators", 1)
		name := "mpa.Int." + fn.Name()
		// blocks where receiver == operand is known
		same := map[*ssa.Parameter]map[*ssa.BasicBlock]bool{}
		for _, op := range operands {
			same[op] = map[*ssa.BasicBlock]bool{}
			for _, b := range fn.Blocks {
				iff, ok := b.Instrs[len(b.Instrs)-1].(*ssa.If)
				if !ok {
					continue
				}
				cmp, ok := iff.Cond.(*ssa.BinOp)
				if !ok || !((cmp.X == ssa.Value(recv) && cmp.Y == ssa.Value(op)) || (cmp.X == ssa.Value(op) && cmp.Y == ssa.Value(recv))) {
					continue
				}
				var eqSucc *ssa.BasicBlock
				switch cmp.Op {
				case token.EQL:
					eqSucc = b.Succs[0]
				case token.NEQ:
					eqSucc = b.Succs[1]
				}
				if eqSucc == nil || len(eqSucc.Preds) != 1 {
					continue
				}
				for _, d := range fn.Blocks {
					if eqSucc.Dominates(d) {
						same[op][d] = true
					}
				}
			}
		}
		operandOf := func(v ssa.Value) *ssa.Parameter {
			switch t := v.(type) {
			case *ssa.Call:
				if c := t.Call.StaticCallee(); c != nil && c.Name() == "big" && len(t.Call.Args) == 1 {
					for _, op := range operands {
						if t.Call.Args[0] == ssa.Value(op) {
							return op
						}
					}
				}
			case *ssa.UnOp:
				if fa, ok := t.X.(*ssa.FieldAddr); ok {
					for _, op := range operands {
						if fa.X == ssa.Value(op) && structFieldName(fa.X.Type(), fa.Field) == "values" {
							return op
						}
					}
				}
			}
			return nil
		}
		var bad []string
		sites := 0
		for _, b := range fn.Blocks {
			for _, ins := range b.Instrs {
				switch t := ins.(type) {
				case *ssa.Store:
					if fa, ok := t.Addr.(*ssa.FieldAddr); ok {
						for _, op := range operands {
							if fa.X == ssa.Value(op) && !same[op][b] {
								bad = append(bad, fmt.Sprintf("field %s of operand %s is stored at %s", structFieldName(fa.X.Type(), fa.Field), op.Name(), p.Rel(t.Pos())))
							}
						}
					}
				case ssa.CallInstruction:
					cc := t.Common()
					callee := cc.StaticCallee()
					if callee == nil || callee.Pkg == nil || callee.Pkg.Pkg.Path() != "math/big" || callee.Signature.Recv() == nil || len(cc.Args) == 0 {
						continue
					}
					if !strings.HasSuffix(callee.Signature.Recv().Type().String(), "big.Int") {
						continue
					}
					res := callee.Signature.Results()
					if res.Len() == 0 || !strings.HasSuffix(res.At(0).Type().String(), "big.Int") {
						continue
					}
					op := operandOf(cc.Args[0])
					if op == nil {
						continue
					}
					sites++
					if !same[op][b] {
						bad = append(bad, fmt.Sprintf("big.Int.%s writes the big integer of operand %s at %s", callee.Name(), op.Name(), p.Rel(ins.Pos())))
					}
				}
			}
		}
		if len(bad) > 0 {
			run.Violate("fold-operands-unchanged", name, p.Rel(fn.Pos()), "the operator changes an operand: the shared constant has another value the next time the expression is evaluated", bad)
		} else {
			run.OK("fold-operands-unchanged", name, p.Rel(fn.Pos()), fmt.Sprintf("%d in-place site(s), all under receiver == operand", sites))
		}
	}
	run.Floor("fold-operators", 12)
}

var _ = load.Module
