package props

import (
	"fmt"
	"go/ast"
	"go/types"
	"sort"

	"mpcverif/internal/dispatch"
	"mpcverif/internal/load"
	"mpcverif/internal/report"
)

// C12usesOperands: what a folding arm returns is computed from the operands.
//
// Binary.evalConst returns, per operator, a constant that stands for the value the circuit would compute.
// Each successful return of an arm is `gen.Constant(<value>, <type>), true, nil`; the value has to be a
// function of the left operand (and of the right one): a return of a fixed constant — "a shift by the
// type's width or more gives 0" — short-cuts the operator for a class of operands, and is only right if
// the circuit's operator agrees on that class for every operand type (an arithmetic right shift of a
// negative value gives -1, not 0).  The rule requires every such value to mention the left operand, after
// expanding locals that are assigned once.
func C12usesOperands(p *load.Program, run *report.Run) {
	const rule = "fold-result-from-operands"
	run.Rule(rule, "in Binary.evalConst, in every operator arm of the bool and *mpa.Int cases, the first argument of gen.Constant in a `return gen.Constant(v, t), true, nil` mentions the left operand value (directly, or through local variables assigned once)")
	pkg, fd := dispatch.FindFunc(p, "compiler/ast", "Binary", "evalConst")
	if fd == nil {
		run.Undecided(rule, "compiler/ast.Binary.evalConst", "", "function not found")
		return
	}
	info := pkg.TypesInfo
	defs := map[types.Object]ast.Expr{}
	nassign := map[types.Object]int{}
	ast.Inspect(fd.Body, func(n ast.Node) bool {
		if as, ok := n.(*ast.AssignStmt); ok && len(as.Lhs) == len(as.Rhs) {
			for i, l := range as.Lhs {
				if id, ok := l.(*ast.Ident); ok {
					if o := info.ObjectOf(id); o != nil {
						nassign[o]++
						defs[o] = as.Rhs[i]
					}
				}
			}
		}
		return true
	})
	returns := 0
	var bad []string
	ast.Inspect(fd.Body, func(n ast.Node) bool {
		ts, ok := n.(*ast.TypeSwitchStmt)
		if !ok {
			return true
		}
		// the left operand value: the variable the type switch binds
		for _, st := range ts.Body.List {
			cc := st.(*ast.CaseClause)
			lobj := info.Implicits[cc]
			if lobj == nil {
				continue
			}
			var mentions func(e ast.Expr, depth int) bool
			mentions = func(e ast.Expr, depth int) bool {
				found := false
				ast.Inspect(e, func(m ast.Node) bool {
					id, ok := m.(*ast.Ident)
					if !ok || found {
						return true
					}
					o := info.ObjectOf(id)
					if o == lobj {
						found = true
					} else if d, ok := defs[o]; ok && nassign[o] == 1 && depth < 4 {
						if mentions(d, depth+1) {
							found = true
						}
					}
					return true
				})
				return found
			}
			ast.Inspect(cc, func(m ast.Node) bool {
				r, ok := m.(*ast.ReturnStmt)
				if !ok || len(r.Results) != 3 {
					return true
				}
				if id, ok := r.Results[1].(*ast.Ident); !ok || id.Name != "true" {
					return true
				}
				call, ok := r.Results[0].(*ast.CallExpr)
				if !ok || len(call.Args) < 1 {
					return true
				}
				if sel, ok := call.Fun.(*ast.SelectorExpr); !ok || sel.Sel.Name != "Constant" {
					return true
				}
				returns++
				if !mentions(call.Args[0], 0) {
					bad = append(bad, p.Rel(r.Pos()))
				}
				return true
			})
		}
		return false
	})
	run.Count("folding-returns", returns)
	sort.Strings(bad)
	if len(bad) > 0 {
		run.Violate(rule, "compiler/ast.Binary.evalConst", p.Rel(fd.Pos()), fmt.Sprintf("a folded result that is not computed from the left operand is returned at %v: the operator is short-cut to a fixed constant for some operands, whatever their type and sign", bad), nil)
	} else {
		run.OK(rule, "compiler/ast.Binary.evalConst", p.Rel(fd.Pos()), fmt.Sprintf("%d folding returns, each computed from the operands", returns))
	}
	run.Floor("folding-returns", 15)
}

var _ = load.Module
