package props

import (
	"fmt"
	"go/types"
	"sort"
	"strings"

	"golang.org/x/tools/go/ssa"

	"mpcverif/internal/load"
	"mpcverif/internal/report"
)

// C12registered: a folded value that becomes the value of an expression is registered as a constant.
//
// A constant has wires only if the generator knows it: `gen.AddConstant(v)` enters it in the table from
// which the program's constant wires are allocated.  An SSA method that hands a folded value back as the
// value of its node (`return block, []ssa.Value{v}, nil` with v from Eval or evalConst) without registering
// it returns a value with no wires: whatever consumes it reads zero (`copy(dst, src) + 7` compiled to 0,
// F39).  Every SSA method of compiler/ast that folds does the two together; the rule requires it of all of
// them: on every path to such a return, a call of Generator.AddConstant on that value comes first.
func C12registered(p *load.Program, run *report.Run) {
	const rule = "folded-value-registered"
	run.Rule(rule, "in compiler/ast: wherever the first result of a folding call (a call returning (struct value, bool, error): the Eval methods, evalConst) or the result of Generator.Constant is put into a list of values (the literal []ssa.Value{v} or append(list, v) — how an SSA method hands on the value of its node), a call of Generator.AddConstant on that same value dominates it; with built-in examples")
	var fns []*ssa.Function
	for _, fn := range p.AllFunctions() {
		if fn.Pkg == nil || fn.Pkg.Pkg.Path() != load.Module+"/compiler/ast" || fn.Blocks == nil || fn.Synthetic != "" || strings.HasSuffix(p.Fset.Position(fn.Pos()).Filename, "_test.go") {
			continue
		}
		fns = append(fns, fn)
	}
	sort.Slice(fns, func(i, j int) bool { return fns[i].Pos() < fns[j].Pos() })
	sites := 0
	for _, fn := range fns {
		nth := map[string]int{}
		for _, s := range foldedReturns(fn) {
			sites++
			nth[s.producer]++
			key := strings.ReplaceAll(fn.RelString(nil), load.Module+"/", "") + "/" + s.producer
			if nth[s.producer] > 1 {
				key += fmt.Sprintf("#%d", nth[s.producer])
			}
			if s.registered {
				run.OK(rule, key, p.Rel(s.ret.Pos()), "registered with AddConstant before it is returned")
			} else {
				run.Violate(rule, key, p.Rel(s.ret.Pos()), fmt.Sprintf("the value folded by %s is returned as the value of the expression without Generator.AddConstant: the constant gets no wires and its consumers read zero", s.producer), nil)
			}
		}
	}
	run.Count("folded-returns", sites)
	run.Floor("folded-returns", 8)
	look, err := buildExample(c12registeredExample)
	if err != nil {
		run.Undecided(rule, "built-in example", "", err.Error())
		return
	}
	verdict := func(name string) (int, int) {
		ok, bad := 0, 0
		for _, f := range exampleFuncsOf(look, "anchor") {
			if f.Name() != name {
				continue
			}
			for _, s := range foldedReturns(f) {
				if s.registered {
					ok++
				} else {
					bad++
				}
			}
		}
		return ok, bad
	}
	o1, b1 := verdict("Early")
	o2, b2 := verdict("Late")
	o3, b3 := verdict("OneBranch")
	if o1 != 1 || b1 != 0 || o2 != 0 || b2 != 1 || o3 != 1 || b3 != 1 {
		run.Undecided(rule, "built-in example", "", fmt.Sprintf("the rule misclassifies its built-in example (%d/%d %d/%d %d/%d)", o1, b1, o2, b2, o3, b3))
		return
	}
	run.Count("folded-return-examples", 3)
	run.OK(rule, "built-in examples", "", "registered fold accepted, unregistered fold and a fold registered on one branch only reported")
	run.Floor("folded-return-examples", 3)
}

type foldedReturn struct {
	ret        *ssa.Store
	producer   string
	registered bool
}

// foldedReturns lists the places where the value of a folding call (the first result of a call returning
// (V, bool, error), or the result of Generator.Constant) is put into a list of values — the composite literal
// `[]V{v}` or `append(list, v)`, which is how an SSA method hands its node's value on.
func foldedReturns(fn *ssa.Function) []foldedReturn {
	var out []foldedReturn
	producer := func(v ssa.Value) (string, bool) {
		switch t := v.(type) {
		case *ssa.Extract:
			c, ok := t.Tuple.(*ssa.Call)
			if !ok || t.Index != 0 {
				return "", false
			}
			r := c.Call.Signature().Results()
			if r.Len() != 3 || r.At(1).Type().String() != "bool" || r.At(2).Type().String() != "error" {
				return "", false
			}
			if _, isStruct := r.At(0).Type().Underlying().(*types.Struct); !isStruct {
				return "", false
			}
			if c.Call.IsInvoke() {
				return c.Call.Method.Name(), true
			}
			if callee := c.Call.StaticCallee(); callee != nil {
				return callee.Name(), true
			}
		case *ssa.Call:
			callee := t.Call.StaticCallee()
			if callee != nil && callee.Name() == "Constant" && callee.Signature.Recv() != nil && strings.HasSuffix(callee.Signature.Recv().Type().String(), "Generator") {
				return "Generator.Constant", true
			}
		}
		return "", false
	}
	for _, b := range fn.Blocks {
		for _, ins := range b.Instrs {
			st, ok := ins.(*ssa.Store)
			if !ok {
				continue
			}
			ia, ok := st.Addr.(*ssa.IndexAddr)
			if !ok {
				continue
			}
			if _, fresh := ia.X.(*ssa.Alloc); !fresh {
				continue
			}
			name, ok := producer(st.Val)
			if !ok {
				continue
			}
			reg := false
			if refs := st.Val.Referrers(); refs != nil {
				for _, u := range *refs {
					c, ok := u.(*ssa.Call)
					if !ok {
						continue
					}
					callee := c.Call.StaticCallee()
					if callee == nil || callee.Name() != "AddConstant" || callee.Signature.Recv() == nil {
						continue
					}
					if c.Block() == st.Block() && instrIndex(c) < instrIndex(st) || c.Block() != st.Block() && c.Block().Dominates(st.Block()) {
						reg = true
					}
				}
			}
			out = append(out, foldedReturn{st, name, reg})
		}
	}
	return out
}

const c12registeredExample = `package example

type Value struct {
	Name  string
	Const bool
}

type Block struct{}

func anchor() {}

type Generator struct{ table map[string]int }

func (g *Generator) AddConstant(v Value) { g.table[v.Name]++ }

type failure struct{}

func (failure) Error() string { return "failed" }

type node struct{ k int }

func (n *node) Eval(g *Generator) (Value, bool, error) {
	if n.k < 0 {
		return Value{}, false, failure{}
	}
	return Value{Name: "c", Const: true}, n.k > 0, nil
}

func (n *node) Early(b *Block, g *Generator) (*Block, []Value, error) {
	v, ok, err := n.Eval(g)
	if err != nil {
		return nil, nil, err
	}
	if ok {
		g.AddConstant(v)
		return b, []Value{v}, nil
	}
	return b, nil, nil
}

func (n *node) Late(b *Block, g *Generator) (*Block, []Value, error) {
	v, ok, err := n.Eval(g)
	if err != nil {
		return nil, nil, err
	}
	if ok {
		return b, []Value{v}, nil
	}
	return b, nil, nil
}

func (n *node) OneBranch(b *Block, g *Generator) (*Block, []Value, error) {
	v, ok, err := n.Eval(g)
	if err != nil {
		return nil, nil, err
	}
	if ok {
		if n.k > 3 {
			g.AddConstant(v)
			return b, []Value{v}, nil
		}
		return b, []Value{v}, nil
	}
	return b, nil, nil
}
`
