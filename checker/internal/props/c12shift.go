package props

import (
	"fmt"
	"go/token"
	"sort"
	"strings"

	"golang.org/x/tools/go/ssa"

	"mpcverif/internal/load"
	"mpcverif/internal/report"
)

// C12shift: a folded shift does not materialise the bits it shifts out.
//
// (*big.Int).Lsh(x, n) allocates n more bits, whatever happens to the result afterwards.  The constant
// arithmetic shifts first and truncates to the type's width second, so `uint128(1) << 0x200000000` made
// the compiler allocate 2 GB (72 s), and a count of 2^40 ends it with out-of-memory: "folding never
// crashes the compiler" fails for a constant the language accepts.  In compiler/mpa the count handed to
// big.Int.Lsh must not be an unclamped integer parameter: it is a constant, or a parameter that reaches the
// call only through `if n > w { n = w }` (a phi of the parameter and another value under a comparison of
// the parameter).
func C12shift(p *load.Program, run *report.Run) {
	const rule = "big-shift-count-clamped"
	run.Rule(rule, "in compiler/mpa, the count argument of every (*math/big.Int).Lsh call is not a bare integer parameter of the enclosing function: a parameter reaches it only through a phi whose other edge is taken under an ordered comparison of that parameter (a clamp to the value's width)")
	var fns []*ssa.Function
	for _, fn := range p.AllFunctions() {
		if fn.Pkg == nil || fn.Pkg.Pkg.Path() != load.Module+"/compiler/mpa" || fn.Blocks == nil || strings.HasSuffix(p.Fset.Position(fn.Pos()).Filename, "_test.go") {
			continue
		}
		fns = append(fns, fn)
	}
	sort.Slice(fns, func(i, j int) bool { return fns[i].Pos() < fns[j].Pos() })
	calls := 0
	for _, fn := range fns {
		for _, b := range fn.Blocks {
			for _, ins := range b.Instrs {
				c, ok := ins.(*ssa.Call)
				if !ok || c.Call.StaticCallee() == nil || c.Call.StaticCallee().String() != "(*math/big.Int).Lsh" || len(c.Call.Args) != 3 {
					continue
				}
				calls++
				key := strings.ReplaceAll(fn.RelString(nil), load.Module+"/", "") + "/big.Int.Lsh"
				v := c.Call.Args[2]
				for {
					if cv, ok := v.(*ssa.Convert); ok {
						v = cv.X
						continue
					}
					break
				}
				switch t := v.(type) {
				case *ssa.Parameter:
					run.Violate(rule, key, p.Rel(c.Pos()), fmt.Sprintf("the count %s of this shift is a parameter used as it comes: big.Int.Lsh allocates that many bits before the result is cut to the value's width, so a large constant count exhausts memory", t.Name()), nil)
				case *ssa.Phi:
					clamped := false
					for _, e := range t.Edges {
						prm, ok := e.(*ssa.Parameter)
						if !ok || prm.Referrers() == nil {
							continue
						}
						for _, r := range *prm.Referrers() {
							if bo, ok := r.(*ssa.BinOp); ok {
								switch bo.Op {
								case token.GTR, token.GEQ, token.LSS, token.LEQ:
									clamped = true
								}
							}
						}
					}
					if clamped {
						run.OK(rule, key, p.Rel(c.Pos()), "the count is clamped")
					} else {
						run.Violate(rule, key, p.Rel(c.Pos()), "the count of this shift merges values without a comparison that bounds the parameter", nil)
					}
				default:
					run.OK(rule, key, p.Rel(c.Pos()), "the count is not a parameter")
				}
			}
		}
	}
	run.Count("big-lsh-calls", calls)
	run.Floor("big-lsh-calls", 1)
}
