package props

import (
	"fmt"
	"go/token"
	"go/types"
	"sort"
	"strings"

	"golang.org/x/tools/go/ssa"

	"mpcverif/internal/load"
	"mpcverif/internal/report"
)

// C12signDiff: two machine integers are not ordered by the sign of their difference.
//
// a - b wraps when the true difference does not fit the type: for int64 values of opposite sign whose
// distance is 2^63 or more, sign(a-b) says a < b when a > b.  In the constant arithmetic (compiler/mpa)
// such a comparison folds `<`, `<=`, `>`, `>=` to the opposite truth value, and an `if` on it compiles
// the wrong branch, for operands no test uses.  A subtraction of two fixed-width views of multi-precision
// values (Int64(), Uint64(), small()) whose result is used only to learn its sign — compared with 0, or
// handed to a function that only compares its parameter with 0 — is reported.
func C12signDiff(p *load.Program, run *report.Run) {
	const rule = "ordering-not-by-sign-of-difference"
	run.Rule(rule, "in compiler/mpa: no integer subtraction whose two operands are results of fixed-width accessor calls (methods named Int64, Uint64, small) has its result used only in comparisons with the constant 0 or as the argument of a function whose parameter is only compared with 0; with built-in examples")
	var fns []*ssa.Function
	for _, fn := range p.AllFunctions() {
		if fn.Pkg == nil || fn.Pkg.Pkg.Path() != load.Module+"/compiler/mpa" || fn.Blocks == nil || strings.HasSuffix(p.Fset.Position(fn.Pos()).Filename, "_test.go") {
			continue
		}
		fns = append(fns, fn)
	}
	sort.Slice(fns, func(i, j int) bool { return fns[i].Pos() < fns[j].Pos() })
	subs := 0
	for _, fn := range fns {
		n, bad := signDiffIn(fn)
		subs += n
		for _, b := range bad {
			run.Violate(rule, strings.ReplaceAll(fn.RelString(nil), load.Module+"/", "")+"/difference", p.Rel(b.Pos()), "two fixed-width values are ordered by the sign of their difference: the subtraction wraps when they are 2^63 or more apart, and the comparison gives the opposite answer", nil)
		}
	}
	run.Count("functions-scanned", len(fns))
	run.Count("accessor-subtractions", subs)
	run.OK(rule, "compiler/mpa", "", fmt.Sprintf("%d subtractions of accessor results examined", subs))
	look, err := buildExample(signDiffExample)
	if err != nil {
		run.Undecided(rule, "built-in example", "", err.Error())
		return
	}
	_, b1 := signDiffIn(look("cmpBySub"))
	_, b2 := signDiffIn(look("cmpByOrder"))
	_, b3 := signDiffIn(look("distance"))
	if len(b1) != 1 || len(b2) != 0 || len(b3) != 0 {
		run.Undecided(rule, "built-in example", "", fmt.Sprintf("the rule misclassifies its built-in examples (%d %d %d)", len(b1), len(b2), len(b3)))
		return
	}
	run.Count("sign-difference-examples", 3)
	run.OK(rule, "built-in examples", "", "a comparison through the sign of a difference is reported; a direct comparison and a difference used as a value are accepted")
	run.Floor("sign-difference-examples", 3)
	run.Floor("functions-scanned", 30)
}

func signDiffIn(fn *ssa.Function) (int, []ssa.Instruction) {
	if fn == nil {
		return 0, nil
	}
	isAccessor := func(v ssa.Value) bool {
		for d := 0; d < 3; d++ {
			if c, ok := v.(*ssa.Convert); ok {
				v = c.X
				continue
			}
			break
		}
		c, ok := v.(*ssa.Call)
		if !ok {
			return false
		}
		callee := c.Call.StaticCallee()
		if callee == nil || callee.Signature.Recv() == nil {
			return false
		}
		switch callee.Name() {
		case "Int64", "Uint64", "small":
			return true
		}
		return false
	}
	// onlySign(f): f's single integer parameter is only compared with 0
	onlySign := func(f *ssa.Function) bool {
		if f == nil || f.Blocks == nil || len(f.Params) != 1 || f.Params[0].Referrers() == nil {
			return false
		}
		for _, r := range *f.Params[0].Referrers() {
			bo, ok := r.(*ssa.BinOp)
			if !ok {
				if _, dbg := r.(*ssa.DebugRef); dbg {
					continue
				}
				return false
			}
			k, ok := bo.Y.(*ssa.Const)
			if !ok {
				k, ok = bo.X.(*ssa.Const) // the loader's normal form writes `v > 0` as `0 < v`
			}
			if !ok || k.Value == nil || k.Int64() != 0 {
				return false
			}
			switch bo.Op {
			case token.LSS, token.GTR, token.LEQ, token.GEQ, token.EQL, token.NEQ:
			default:
				return false
			}
		}
		return true
	}
	n := 0
	var bad []ssa.Instruction
	for _, b := range fn.Blocks {
		for _, ins := range b.Instrs {
			bo, ok := ins.(*ssa.BinOp)
			if !ok || bo.Op != token.SUB || !isAccessor(bo.X) || !isAccessor(bo.Y) {
				continue
			}
			if bt, ok := bo.Type().Underlying().(*types.Basic); !ok || bt.Info()&types.IsInteger == 0 {
				continue
			}
			n++
			if bo.Referrers() == nil {
				continue
			}
			signOnly, uses := true, 0
			for _, r := range *bo.Referrers() {
				switch t := r.(type) {
				case *ssa.DebugRef:
					continue
				case *ssa.BinOp:
					uses++
					k, ok := t.Y.(*ssa.Const)
					if !ok {
						k, ok = t.X.(*ssa.Const)
					}
					ordered := t.Op == token.LSS || t.Op == token.GTR || t.Op == token.LEQ || t.Op == token.GEQ
					if !ok || k.Value == nil || k.Int64() != 0 || !ordered {
						signOnly = false
					}
				case *ssa.Call:
					uses++
					if !onlySign(t.Call.StaticCallee()) {
						signOnly = false
					}
				default:
					uses++
					signOnly = false
				}
			}
			if signOnly && uses > 0 {
				bad = append(bad, ins)
			}
		}
	}
	return n, bad
}

const signDiffExample = `package example

type num struct{ v int64 }

func (n *num) Int64() int64 { return n.v }

func sign(v int64) int {
	if v < 0 {
		return -1
	} else if v > 0 {
		return 1
	}
	return 0
}

func cmpBySub(a, b *num) int { return sign(a.Int64() - b.Int64()) }

func cmpByOrder(a, b *num) int {
	x, y := a.Int64(), b.Int64()
	if x < y {
		return -1
	} else if x > y {
		return 1
	}
	return 0
}

func distance(a, b *num) int64 { return a.Int64() - b.Int64() }
`
