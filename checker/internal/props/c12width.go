package props

import (
	"fmt"
	"go/token"
	"go/types"
	"sort"
	"strings"

	"golang.org/x/tools/go/ssa"

	"mpcverif/internal/load"
	"mpcverif/internal/report"
)

// C12width: a folded result has the width the folding arm asked for.
//
// Binary.evalConst creates the result as mpa.New(rt.Bits) — the width of the expression's type — and calls
// the operator on it.  The two-operand operators of mpa.Int compute "in the receiver's width" (setSmall
// masks to z.bits).  One that replaces z.bits with something derived from the operands' widths computes in
// *their* width instead; constants carry the 32/64 size class, not their type's width, so the fold wraps
// at the wrong place: `uint64(0xffffffff) + uint64(1)` gave 0, `uint8(200) + uint8(100)` became a uint32
// constant.  For every method of *mpa.Int with two *mpa.Int operands: no store to the receiver's bits
// field has a value computed from a bits field of an operand.
func C12width(p *load.Program, run *report.Run) {
	const rule = "fold-width-from-receiver"
	run.Rule(rule, "in compiler/mpa, in every method of *Int (exported or not) that takes two or more *Int operands, no store to the receiver's bits field depends on a load of the bits field of an operand (the result keeps the width mpa.New was given)")
	var fns []*ssa.Function
	for _, fn := range p.AllFunctions() {
		if fn.Pkg == nil || fn.Pkg.Pkg.Path() != load.Module+"/compiler/mpa" || fn.Blocks == nil || fn.Signature.Recv() == nil || strings.HasSuffix(p.Fset.Position(fn.Pos()).Filename, "_test.go") {
			continue
		}
		fns = append(fns, fn)
	}
	sort.Slice(fns, func(i, j int) bool { return fns[i].Pos() < fns[j].Pos() })
	isInt := func(t types.Type) bool {
		pt, ok := t.(*types.Pointer)
		if !ok {
			return false
		}
		n, ok := pt.Elem().(*types.Named)
		return ok && n.Obj().Name() == "Int" && n.Obj().Pkg() != nil && n.Obj().Pkg().Path() == load.Module+"/compiler/mpa"
	}
	methods := 0
	for _, fn := range fns {
		if len(fn.Params) < 3 || !isInt(fn.Params[0].Type()) {
			continue
		}
		var operands []ssa.Value
		for _, prm := range fn.Params[1:] {
			if isInt(prm.Type()) {
				operands = append(operands, prm)
			}
		}
		if len(operands) < 2 {
			continue
		}
		methods++
		key := "compiler/mpa.Int." + fn.Name()
		bad := ""
		for _, b := range fn.Blocks {
			for _, ins := range b.Instrs {
				st, ok := ins.(*ssa.Store)
				if !ok {
					continue
				}
				fa, ok := st.Addr.(*ssa.FieldAddr)
				if !ok || fa.X != ssa.Value(fn.Params[0]) || structFieldName(fa.X.Type(), fa.Field) != "bits" {
					continue
				}
				// does the value depend on x.bits or y.bits?
				seen := map[ssa.Value]bool{}
				var dep func(v ssa.Value, d int) bool
				dep = func(v ssa.Value, d int) bool {
					if v == nil || seen[v] || d > 8 {
						return false
					}
					seen[v] = true
					if ld, ok := v.(*ssa.UnOp); ok && ld.Op == token.MUL {
						if f2, ok := ld.X.(*ssa.FieldAddr); ok && structFieldName(f2.X.Type(), f2.Field) == "bits" {
							for _, o := range operands {
								if f2.X == o {
									return true
								}
							}
						}
					}
					if in, ok := v.(ssa.Instruction); ok {
						for _, op := range in.Operands(nil) {
							if dep(*op, d+1) {
								return true
							}
						}
					}
					return false
				}
				// max(…, z.bits): the width never falls below the receiver's own — what the shared circuit path (bin)
				// does as well
				keeps := false
				var inMax func(v ssa.Value, d int)
				inMax = func(v ssa.Value, d int) {
					c, ok := v.(*ssa.Call)
					if !ok || d > 3 {
						return
					}
					if bi, ok := c.Call.Value.(*ssa.Builtin); !ok || bi.Name() != "max" {
						return
					}
					for _, a := range c.Call.Args {
						if ld, ok := a.(*ssa.UnOp); ok && ld.Op == token.MUL {
							if f2, ok := ld.X.(*ssa.FieldAddr); ok && f2.X == ssa.Value(fn.Params[0]) && structFieldName(f2.X.Type(), f2.Field) == "bits" {
								keeps = true
							}
						}
						inMax(a, d+1)
					}
				}
				inMax(st.Val, 0)
				if dep(st.Val, 0) && !keeps {
					bad = p.Rel(st.Pos())
				}
			}
		}
		if bad != "" {
			run.Violate(rule, key, bad, "the method replaces the receiver's width with one computed from the operands' widths: the fold is carried out in the operands' size class (32 or 64) instead of the width of the expression's type, and wraps at the wrong bit", nil)
		} else {
			run.OK(rule, key, p.Rel(fn.Pos()), "the receiver's width is kept")
		}
	}
	run.Count("mpa-binary-methods", methods)
	if methods == 0 {
		run.Undecided(rule, "compiler/mpa", "", fmt.Sprintf("no two-operand methods of Int found among %d functions", len(fns)))
	}
	run.Floor("mpa-binary-methods", 8)
}
