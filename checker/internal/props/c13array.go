package props

import (
	"fmt"
	"go/ast"
	"go/token"
	"go/types"
	"strings"

	"mpcverif/internal/dispatch"
	"mpcverif/internal/load"
	"mpcverif/internal/report"
)

// C13array: every element of a decoded array comes out of the per-element extraction.
//
// An array value is bit-packed: element k occupies bits [k·w, (k+1)·w) for the element width w, whatever
// Go type the elements are returned as.  mpc.Result extracts each element with Rsh(result, i·w) and a
// w-bit mask.  A return of the array arm that does not go through that loop (a "fast path" handing out
// the raw value's bytes) is only the same thing when w is exactly the width of the unit it hands out — it
// must be guarded by an *equality* test of the element width; under `w <= 8` elements narrower than a byte
// are merged with their neighbours.
func C13array(p *load.Program, run *report.Run) {
	const rule = "array-elements-through-extraction"
	run.Rule(rule, "in the array/slice arm of mpc.Result every return statement comes after the loop that extracts element i with Rsh(result, i*elementBits) and the element mask, or lies under an equality test of the element width with a constant")
	pkg, fd := dispatch.FindFunc(p, "", "", "Result")
	if fd == nil {
		run.Undecided(rule, "Result", "", "function not found")
		return
	}
	info := pkg.TypesInfo
	var clauses []*ast.CaseClause
	ast.Inspect(fd.Body, func(n ast.Node) bool {
		if cc, ok := n.(*ast.CaseClause); ok {
			for _, e := range cc.List {
				if sel, ok := ast.Unparen(e).(*ast.SelectorExpr); ok && (sel.Sel.Name == "TArray" || sel.Sel.Name == "TSlice") {
					clauses = append(clauses, cc)
					return false
				}
			}
		}
		return true
	})
	found := false
	for _, cc := range clauses {
		found = true
		// the element width variable: assigned from <...>.ElementType.Bits
		var width types.Object
		ast.Inspect(cc, func(n ast.Node) bool {
			as, ok := n.(*ast.AssignStmt)
			if !ok || len(as.Lhs) != 1 || len(as.Rhs) != 1 {
				return true
			}
			if strings.HasSuffix(types.ExprString(ast.Unparen(unwrapConv(as.Rhs[0]))), "ElementType.Bits") {
				if id, ok := as.Lhs[0].(*ast.Ident); ok {
					width = info.ObjectOf(id)
				}
			}
			return true
		})
		// the extraction loop: a for statement whose body calls Rsh with a count that multiplies the loop
		// variable by the width
		var loop *ast.ForStmt
		ast.Inspect(cc, func(n ast.Node) bool {
			fs, ok := n.(*ast.ForStmt)
			if !ok || loop != nil {
				return true
			}
			ast.Inspect(fs.Body, func(m ast.Node) bool {
				c, ok := m.(*ast.CallExpr)
				if !ok || len(c.Args) != 2 {
					return true
				}
				if _, name, _ := callName(c); name != "Rsh" {
					return true
				}
				mul := false
				ast.Inspect(c.Args[1], func(q ast.Node) bool {
					if be, ok := q.(*ast.BinaryExpr); ok && be.Op == token.MUL {
						for _, side := range []ast.Expr{be.X, be.Y} {
							if id, ok := ast.Unparen(side).(*ast.Ident); ok && width != nil && info.ObjectOf(id) == width {
								mul = true
							}
						}
					}
					return true
				})
				if mul {
					loop = fs
				}
				return true
			})
			return true
		})
		key := "Result/array arm"
		if loop == nil || width == nil {
			run.Undecided(rule, key, p.Rel(cc.Pos()), "the per-element extraction loop (Rsh by index times element width) was not found")
			continue
		}
		run.Count("array-extraction-loops", 1)
		bad := ""
		var visit func(n ast.Node, pinned bool)
		visit = func(n ast.Node, pinned bool) {
			switch t := n.(type) {
			case *ast.FuncLit:
				return
			case *ast.ReturnStmt:
				if t.Pos() < loop.Pos() && !pinned {
					bad = p.Rel(t.Pos())
				}
				return
			case *ast.IfStmt:
				pin := pinned
				// an equality of the width with a constant anywhere in a conjunction pins it
				var conj func(e ast.Expr)
				conj = func(e ast.Expr) {
					e = ast.Unparen(e)
					be, ok := e.(*ast.BinaryExpr)
					if !ok {
						return
					}
					if be.Op == token.LAND {
						conj(be.X)
						conj(be.Y)
						return
					}
					if be.Op == token.EQL {
						for _, side := range [][2]ast.Expr{{be.X, be.Y}, {be.Y, be.X}} {
							if id, ok := ast.Unparen(side[0]).(*ast.Ident); ok && info.ObjectOf(id) == width {
								if tv, ok := info.Types[side[1]]; ok && tv.Value != nil {
									pin = true
								}
							}
						}
					}
				}
				conj(t.Cond)
				if t.Init != nil {
					visit(t.Init, pinned)
				}
				visit(t.Body, pin)
				if t.Else != nil {
					visit(t.Else, pinned)
				}
				return
			}
			ast.Inspect(n, func(m ast.Node) bool {
				if m == n || m == nil {
					return true
				}
				switch m.(type) {
				case *ast.IfStmt, *ast.ReturnStmt, *ast.FuncLit:
					visit(m, pinned)
					return false
				}
				return true
			})
		}
		for _, st := range cc.Body {
			visit(st, false)
		}
		if bad != "" {
			run.Violate(rule, key, bad, "this return of the array arm is reached without the per-element extraction and without an equality test of the element width: for element widths below the unit it hands out, neighbouring elements are merged", nil)
		} else {
			run.OK(rule, key, p.Rel(loop.Pos()), "every return follows the extraction loop or is pinned to one width")
		}
	}
	if !found {
		run.Undecided(rule, "Result", p.Rel(fd.Pos()), "no arm for array and slice types found")
	}
	run.Floor("array-extraction-loops", 1)
}

var _ = load.Module

// C13bytes: how many characters or elements a decoded value has is read from its type, not from the value.
//
// big.Int.Bytes() is the minimal big-endian encoding: leading zero bytes — for a little-endian-packed
// string the *trailing* characters — are not there.  A decoding loop in mpc.Result whose trip count comes
// from len(value.Bytes()) (or that ranges over it) yields "ok" for a string32 holding "ok\0\0": the width
// the circuit declares is lost.  The bytes may be used for speed, with a bounds test inside a loop that
// the type's width bounds.
func C13bytes(p *load.Program, run *report.Run) {
	const rule = "decode-length-from-type"
	run.Rule(rule, "in mpc.Result no for statement has len(B) in its init or condition, and no range statement ranges over B, where B is (a variable assigned from) the Bytes() of a *big.Int: the number of characters/elements comes from the output's type")
	pkg, fd := dispatch.FindFunc(p, "", "", "Result")
	if fd == nil {
		run.Undecided(rule, "Result", "", "function not found")
		return
	}
	info := pkg.TypesInfo
	isBigBytes := func(e ast.Expr) bool {
		c, ok := ast.Unparen(e).(*ast.CallExpr)
		if !ok || len(c.Args) != 0 {
			return false
		}
		sel, ok := c.Fun.(*ast.SelectorExpr)
		if !ok || sel.Sel.Name != "Bytes" {
			return false
		}
		t := info.TypeOf(sel.X)
		return t != nil && strings.HasSuffix(t.String(), "math/big.Int")
	}
	vars := map[types.Object]bool{}
	ast.Inspect(fd.Body, func(n ast.Node) bool {
		if as, ok := n.(*ast.AssignStmt); ok && len(as.Lhs) == 1 && len(as.Rhs) == 1 && isBigBytes(as.Rhs[0]) {
			if id, ok := as.Lhs[0].(*ast.Ident); ok {
				vars[info.ObjectOf(id)] = true
			}
		}
		return true
	})
	isB := func(e ast.Expr) bool {
		if isBigBytes(e) {
			return true
		}
		id, ok := ast.Unparen(e).(*ast.Ident)
		return ok && vars[info.ObjectOf(id)]
	}
	mentionsLen := func(n ast.Node) bool {
		found := false
		if n == nil {
			return false
		}
		ast.Inspect(n, func(m ast.Node) bool {
			if c, ok := m.(*ast.CallExpr); ok && len(c.Args) == 1 {
				if id, ok := c.Fun.(*ast.Ident); ok && id.Name == "len" && isB(c.Args[0]) {
					found = true
				}
			}
			return true
		})
		return found
	}
	loops, bad := 0, 0
	ast.Inspect(fd.Body, func(n ast.Node) bool {
		switch t := n.(type) {
		case *ast.ForStmt:
			loops++
			var cond ast.Node
			if t.Cond != nil {
				cond = t.Cond
			}
			if (t.Init != nil && mentionsLen(t.Init)) || mentionsLen(cond) {
				bad++
				run.Violate(rule, fmt.Sprintf("Result/loop#%d", loops), p.Rel(t.Pos()), "the trip count of this decoding loop comes from len(value.Bytes()): the minimal encoding drops the zero bytes at the top, so trailing NUL characters (or zero elements) of the declared width are lost", nil)
			}
		case *ast.RangeStmt:
			loops++
			if isB(t.X) {
				bad++
				run.Violate(rule, fmt.Sprintf("Result/loop#%d", loops), p.Rel(t.Pos()), "this decoding loop ranges over value.Bytes(): the minimal encoding drops the zero bytes at the top, so trailing NUL characters (or zero elements) of the declared width are lost", nil)
			}
		}
		return true
	})
	run.Count("result-decoding-loops", loops)
	if bad == 0 {
		run.OK(rule, "Result", p.Rel(fd.Pos()), fmt.Sprintf("%d loops, none bounded by the value's byte length", loops))
	}
	run.Floor("result-decoding-loops", 2)
}
