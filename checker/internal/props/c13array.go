package props

import (
	"go/ast"
	"go/token"
	"go/types"
	"strings"

	"mpcverif/internal/dispatch"
	"mpcverif/internal/load"
	"mpcverif/internal/report"
)

// C13array: every element of a decoded array comes out of the per-element extraction.
//
// An array value is bit-packed: element k occupies bits [k·w, (k+1)·w) for the element width w, whatever
// Go type the elements are returned as.  mpc.Result extracts each element with Rsh(result, i·w) and a
// w-bit mask.  A return of the array arm that does not go through that loop (a "fast path" handing out
// the raw value's bytes) is only the same thing when w is exactly the width of the unit it hands out — it
// must be guarded by an *equality* test of the element width; under `w <= 8` elements narrower than a byte
// are merged with their neighbours.
func C13array(p *load.Program, run *report.Run) {
	const rule = "array-elements-through-extraction"
	run.Rule(rule, "in the array/slice arm of mpc.Result every return statement comes after the loop that extracts element i with Rsh(result, i*elementBits) and the element mask, or lies under an equality test of the element width with a constant")
	pkg, fd := dispatch.FindFunc(p, "", "", "Result")
	if fd == nil {
		run.Undecided(rule, "Result", "", "function not found")
		return
	}
	info := pkg.TypesInfo
	var clauses []*ast.CaseClause
	ast.Inspect(fd.Body, func(n ast.Node) bool {
		if cc, ok := n.(*ast.CaseClause); ok {
			for _, e := range cc.List {
				if sel, ok := ast.Unparen(e).(*ast.SelectorExpr); ok && (sel.Sel.Name == "TArray" || sel.Sel.Name == "TSlice") {
					clauses = append(clauses, cc)
					return false
				}
			}
		}
		return true
	})
	found := false
	for _, cc := range clauses {
		found = true
		// the element width variable: assigned from <...>.ElementType.Bits
		var width types.Object
		ast.Inspect(cc, func(n ast.Node) bool {
			as, ok := n.(*ast.AssignStmt)
			if !ok || len(as.Lhs) != 1 || len(as.Rhs) != 1 {
				return true
			}
			if strings.HasSuffix(types.ExprString(ast.Unparen(unwrapConv(as.Rhs[0]))), "ElementType.Bits") {
				if id, ok := as.Lhs[0].(*ast.Ident); ok {
					width = info.ObjectOf(id)
				}
			}
			return true
		})
		// the extraction loop: a for statement whose body calls Rsh with a count that multiplies the loop
		// variable by the width
		var loop *ast.ForStmt
		ast.Inspect(cc, func(n ast.Node) bool {
			fs, ok := n.(*ast.ForStmt)
			if !ok || loop != nil {
				return true
			}
			ast.Inspect(fs.Body, func(m ast.Node) bool {
				c, ok := m.(*ast.CallExpr)
				if !ok || len(c.Args) != 2 {
					return true
				}
				if _, name, _ := callName(c); name != "Rsh" {
					return true
				}
				mul := false
				ast.Inspect(c.Args[1], func(q ast.Node) bool {
					if be, ok := q.(*ast.BinaryExpr); ok && be.Op == token.MUL {
						for _, side := range []ast.Expr{be.X, be.Y} {
							if id, ok := ast.Unparen(side).(*ast.Ident); ok && width != nil && info.ObjectOf(id) == width {
								mul = true
							}
						}
					}
					return true
				})
				if mul {
					loop = fs
				}
				return true
			})
			return true
		})
		key := "Result/array arm"
		if loop == nil || width == nil {
			run.Undecided(rule, key, p.Rel(cc.Pos()), "the per-element extraction loop (Rsh by index times element width) was not found")
			continue
		}
		run.Count("array-extraction-loops", 1)
		bad := ""
		var visit func(n ast.Node, pinned bool)
		visit = func(n ast.Node, pinned bool) {
			switch t := n.(type) {
			case *ast.FuncLit:
				return
			case *ast.ReturnStmt:
				if t.Pos() < loop.Pos() && !pinned {
					bad = p.Rel(t.Pos())
				}
				return
			case *ast.IfStmt:
				pin := pinned
				// an equality of the width with a constant anywhere in a conjunction pins it
				var conj func(e ast.Expr)
				conj = func(e ast.Expr) {
					e = ast.Unparen(e)
					be, ok := e.(*ast.BinaryExpr)
					if !ok {
						return
					}
					if be.Op == token.LAND {
						conj(be.X)
						conj(be.Y)
						return
					}
					if be.Op == token.EQL {
						for _, side := range [][2]ast.Expr{{be.X, be.Y}, {be.Y, be.X}} {
							if id, ok := ast.Unparen(side[0]).(*ast.Ident); ok && info.ObjectOf(id) == width {
								if tv, ok := info.Types[side[1]]; ok && tv.Value != nil {
									pin = true
								}
							}
						}
					}
				}
				conj(t.Cond)
				if t.Init != nil {
					visit(t.Init, pinned)
				}
				visit(t.Body, pin)
				if t.Else != nil {
					visit(t.Else, pinned)
				}
				return
			}
			ast.Inspect(n, func(m ast.Node) bool {
				if m == n || m == nil {
					return true
				}
				switch m.(type) {
				case *ast.IfStmt, *ast.ReturnStmt, *ast.FuncLit:
					visit(m, pinned)
					return false
				}
				return true
			})
		}
		for _, st := range cc.Body {
			visit(st, false)
		}
		if bad != "" {
			run.Violate(rule, key, bad, "this return of the array arm is reached without the per-element extraction and without an equality test of the element width: for element widths below the unit it hands out, neighbouring elements are merged", nil)
		} else {
			run.OK(rule, key, p.Rel(loop.Pos()), "every return follows the extraction loop or is pinned to one width")
		}
	}
	if !found {
		run.Undecided(rule, "Result", p.Rel(fd.Pos()), "no arm for array and slice types found")
	}
	run.Floor("array-extraction-loops", 1)
}

var _ = load.Module
