package props

import (
	"fmt"
	"go/token"
	"strings"

	"golang.org/x/tools/go/ssa"

	"mpcverif/internal/load"
	"mpcverif/internal/report"
)

// C13clear: the accumulator handed to the recursive input encoder is zero.
//
// IOArg.set and its helpers write a value into a *big.Int bit by bit and return
// the offset behind it.  Some arms advance the offset past bits they never
// write (a fixed-size array given fewer elements than declared: `return ofs +
// count*elementBits`; an empty array).  Those bits are the caller's
// accumulator as it was, so Set(result, v) equals Parse(v) and Set(nil, v) only
// if every entry into the family starts from a zero integer: a fresh one, or
// one cleared on that path.  The rule is decided on the SSA form: for every
// call of IOArg.set from outside the family, every origin of the accumulator
// argument (through phis) is an allocation, big.NewInt, or a value on which a
// clearing call (SetInt64(0), SetUint64(0), SetBits(nil)) dominates the edge.
// It applies while the family has an advance without a write; if it has none
// the rule reports that and demands nothing.
func C13clear(p *load.Program, run *report.Run) {
	const rule = "accumulator-starts-zero"
	run.Rule(rule, "while IOArg.set can advance its offset past bits it does not write, every call of IOArg.set from outside its own family passes a *big.Int that is fresh or cleared (SetInt64(0), SetUint64(0), SetBits(nil)) on every path")
	var set *ssa.Function
	ioarg, err := p.Type("circuit", "IOArg")
	if err == nil {
		if sp, e2 := p.Pkg("circuit"); e2 == nil {
			set = p.SSA.LookupMethod(ioarg, sp.Pkg, "set")
		}
	}
	if set == nil || set.Synthetic != "" || set.Blocks == nil {
		run.Undecided(rule, "circuit.IOArg.set", "", "the recursive encoder IOArg.set was not found as a value-receiver method")
		return
	}
	isBig := func(v ssa.Value) bool { return strings.HasSuffix(v.Type().String(), "*math/big.Int") }
	// the family: module functions reachable from set by static calls that take a *big.Int
	family := map[*ssa.Function]bool{}
	var grow func(f *ssa.Function)
	grow = func(f *ssa.Function) {
		if family[f] || !load.InModule(f) {
			return
		}
		has := false
		for _, prm := range f.Params {
			if isBig(prm) {
				has = true
			}
		}
		if !has {
			return
		}
		family[f] = true
		for _, b := range f.Blocks {
			for _, ins := range b.Instrs {
				if c, ok := ins.(*ssa.Call); ok && c.Call.StaticCallee() != nil {
					grow(c.Call.StaticCallee())
				}
			}
		}
	}
	grow(set)
	run.Count("encoder-family-functions", len(family))
	// an advance without a write: a family function that never calls SetBit/Or/Lsh on the accumulator itself
	// returns its integer parameter plus something
	skips := 0
	for f := range family {
		writes := false
		for _, b := range f.Blocks {
			for _, ins := range b.Instrs {
				if c, ok := ins.(*ssa.Call); ok && c.Call.StaticCallee() != nil && c.Call.StaticCallee().Pkg != nil && c.Call.StaticCallee().Pkg.Pkg.Path() == "math/big" {
					switch c.Call.StaticCallee().Name() {
					case "SetBit", "Or", "Lsh", "Add", "SetBits", "Set":
						writes = true
					}
				}
			}
		}
		if writes {
			continue
		}
		for _, b := range f.Blocks {
			if b == f.Recover {
				continue
			}
			for _, ins := range b.Instrs {
				r, ok := ins.(*ssa.Return)
				if !ok {
					continue
				}
				for _, v := range load.Results(r) {
					if bo, ok := v.(*ssa.BinOp); ok && bo.Op == token.ADD {
						for _, side := range []ssa.Value{bo.X, bo.Y} {
							if _, isP := side.(*ssa.Parameter); isP {
								skips++
							}
						}
					}
				}
			}
		}
	}
	run.Count("advances-without-write", skips)
	if skips == 0 {
		run.OK(rule, "circuit.IOArg.set", p.Rel(set.Pos()), "no arm advances the offset past bits it does not write: the accumulator's previous contents cannot show")
		return
	}
	// the entries
	entries := 0
	for _, f := range p.AllFunctions() {
		if !load.InModule(f) || family[f] || f.Blocks == nil || strings.HasSuffix(p.Fset.Position(f.Pos()).Filename, "_test.go") {
			continue
		}
		for _, b := range f.Blocks {
			for _, ins := range b.Instrs {
				c, ok := ins.(*ssa.Call)
				if !ok || c.Call.StaticCallee() != set {
					continue
				}
				entries++
				key := strings.ReplaceAll(f.RelString(nil), load.Module+"/", "") + "/set"
				var acc ssa.Value
				for _, a := range c.Call.Args {
					if isBig(a) {
						acc = a
					}
				}
				if acc == nil {
					run.Undecided(rule, key, p.Rel(c.Pos()), "no *big.Int argument at the call")
					continue
				}
				var bad []string
				// cleared(v, at): a clearing call on v in a block that dominates `at` (or is `at`)
				cleared := func(v ssa.Value, at *ssa.BasicBlock) bool {
					refs := v.Referrers()
					if refs == nil {
						return false
					}
					for _, r := range *refs {
						// *v = big.Int{}: a store of a freshly made zero value
						if st, ok := r.(*ssa.Store); ok && st.Addr == v {
							if ld, ok := st.Val.(*ssa.UnOp); ok && ld.Op == token.MUL {
								if al, ok := ld.X.(*ssa.Alloc); ok && al.Referrers() != nil && len(*al.Referrers()) == 1 && (st.Block() == at || st.Block().Dominates(at)) {
									return true
								}
							}
						}
						cc, ok := r.(*ssa.Call)
						if !ok || cc.Call.StaticCallee() == nil || len(cc.Call.Args) < 2 || cc.Call.Args[0] != v {
							continue
						}
						cal := cc.Call.StaticCallee()
						if cal.Pkg == nil || cal.Pkg.Pkg.Path() != "math/big" {
							continue
						}
						zero := false
						switch cal.Name() {
						case "SetInt64", "SetUint64":
							if k, ok := cc.Call.Args[1].(*ssa.Const); ok && k.Value != nil && k.Int64() == 0 {
								zero = true
							}
						case "SetBits":
							if k, ok := cc.Call.Args[1].(*ssa.Const); ok && k.IsNil() {
								zero = true
							}
						}
						if zero && (cc.Block() == at || cc.Block().Dominates(at)) {
							return true
						}
					}
					return false
				}
				var origin func(v ssa.Value, at *ssa.BasicBlock, depth int, seen map[ssa.Value]bool)
				origin = func(v ssa.Value, at *ssa.BasicBlock, depth int, seen map[ssa.Value]bool) {
					if seen[v] || depth > 10 {
						return
					}
					seen[v] = true
					if cleared(v, at) {
						return
					}
					switch t := v.(type) {
					case *ssa.Alloc:
						return
					case *ssa.Phi:
						for i, e := range t.Edges {
							origin(e, t.Block().Preds[i], depth+1, seen)
						}
					case *ssa.Call:
						cal := t.Call.StaticCallee()
						if cal != nil && cal.Pkg != nil && cal.Pkg.Pkg.Path() == "math/big" && cal.Name() == "NewInt" {
							if k, ok := t.Call.Args[0].(*ssa.Const); ok && k.Int64() == 0 {
								return
							}
						}
						bad = append(bad, "comes from a call whose result is not known to be zero at "+p.Rel(t.Pos()))
					case *ssa.Parameter:
						bad = append(bad, fmt.Sprintf("is the caller's %s as it was handed in on a path without a clearing call", t.Name()))
					default:
						bad = append(bad, fmt.Sprintf("has an origin the rule does not follow (%T)", v))
					}
				}
				origin(acc, c.Block(), 0, map[ssa.Value]bool{})
				if len(bad) > 0 {
					run.Violate(rule, key, p.Rel(c.Pos()), "the accumulator "+bad[0]+": the encoder advances past bits it does not write (short fixed-size arrays, empty arrays), so a reused result keeps bits of the previous value and Set differs from Parse", bad)
				} else {
					run.OK(rule, key, p.Rel(c.Pos()), "fresh or cleared on every path")
				}
			}
		}
	}
	run.Count("encoder-entries", entries)
	run.Floor("encoder-entries", 1)
	run.Floor("encoder-family-functions", 4)
}
