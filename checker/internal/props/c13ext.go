package props

import (
	"fmt"
	"go/ast"
	"go/types"
	"strings"

	"mpcverif/internal/dispatch"
	"mpcverif/internal/load"
	"mpcverif/internal/report"
)

// C13ext: an integer member set from a Go value is the two's-complement extension of that value.
//
// circuit.setInt turns a Go integer (int8 ... uint64) into the bits of a member that may be narrower or
// wider than the Go type.  The member must hold the value: bit i is bit i of the Go value below the Go
// type's width, and above it the sign bit for signed types and 0 for unsigned ones — in particular a
// uint64 with its top bit set is *not* sign extended into a member wider than 64 bits, although an int64
// is.  The function is interpreted from source for each of the eight Go types and member widths around
// the boundaries (1, 7, 8, 9, 16, 31, 32, 33, 63, 64, 65, 100, 128) with the value's bits as atoms; the
// bits it stores are compared with that reference.  Widths and types are shape parameters: no value is
// ever computed.
func C13ext(p *load.Program, run *report.Run) {
	const rule = "integer-extension"
	run.Rule(rule, "circuit.setInt, interpreted for int8..uint64 and member widths {1,7,8,9,16,31,32,33,63,64,65,100,128} with the value's bits as atoms, stores bit i of the value for i below the Go type's width and the sign bit (signed types) or 0 (unsigned types) above it, at offsets ofs..ofs+width-1, and returns ofs+width")
	pkg, fd := dispatch.FindFunc(p, "circuit", "", "setInt")
	if pkg == nil || fd == nil {
		run.Undecided(rule, "circuit.setInt", "", "function not found")
		return
	}
	info := pkg.TypesInfo
	var infoParam, resParam, valParam, ofsParam string
	for _, f := range fd.Type.Params.List {
		for _, n := range f.Names {
			t := info.TypeOf(n)
			switch {
			case strings.HasSuffix(t.String(), "/types.Info"):
				infoParam = cx(n)
			case strings.HasSuffix(t.String(), "math/big.Int"):
				resParam = cx(n)
			case types.IsInterface(t):
				valParam = cx(n)
			default:
				if b, ok := t.Underlying().(*types.Basic); ok && b.Info()&types.IsInteger != 0 {
					ofsParam = cx(n)
				}
			}
		}
	}
	if infoParam == "" || resParam == "" || valParam == "" || ofsParam == "" {
		run.Undecided(rule, "circuit.setInt", p.Rel(fd.Pos()), "parameters (type info, result, value, offset) not identified")
		return
	}
	goTypes := []types.BasicKind{types.Int8, types.Uint8, types.Int16, types.Uint16, types.Int32, types.Uint32, types.Int64, types.Uint64}
	gw := map[types.BasicKind]int{types.Int8: 8, types.Uint8: 8, types.Int16: 16, types.Uint16: 16, types.Int32: 32, types.Uint32: 32, types.Int64: 64, types.Uint64: 64}
	widths := []int{1, 7, 8, 9, 16, 31, 32, 33, 63, 64, 65, 100, 128}
	const base = 5 // the offset the member starts at
	for _, k := range goTypes {
		T := types.Typ[k]
		signed := T.Info()&types.IsUnsigned == 0
		w0 := gw[k]
		bad := ""
		und := ""
		run.Count("extension-cells", len(widths))
		for _, B := range widths {
			val := make(wword, 64)
			for i := range val {
				switch {
				case i < w0:
					val[i] = fmt.Sprintf("v%d", i)
				case signed:
					val[i] = fmt.Sprintf("v%d", w0-1)
				default:
					val[i] = "0"
				}
			}
			w := &wInterp{pkg: pkg, dynType: T, dynValue: val}
			w.push()
			w.set(infoParam+".Bits", int64(B), true)
			w.set(ofsParam, int64(base), true)
			w.set(resParam, "RESULT", true)
			w.set(valParam, "VALUE", true)
			stored := map[int64]string{}
			w.hook = func(name string, c *ast.CallExpr) (wv, bool) {
				if name != "SetBit" || len(c.Args) != 3 {
					return nil, false
				}
				idx, ok := w.expr(c.Args[1]).(int64)
				if !ok {
					return w.bad("SetBit position %s is not a known integer", cx(c.Args[1])), true
				}
				var atom string
				switch b := w.expr(c.Args[2]).(type) {
				case int64:
					if b != 0 && b != 1 {
						return w.bad("SetBit value %d", b), true
					}
					atom = fmt.Sprint(b)
				case wword:
					for _, hi := range b[1:] {
						if hi != "0" {
							return w.bad("SetBit is given a value that is not a single bit (%s at a higher position): it panics for such a value", hi), true
						}
					}
					atom = b[0]
				default:
					return w.bad("SetBit value %s not modelled", cx(c.Args[2])), true
				}
				stored[idx] = atom
				return "RESULT", true
			}
			var ret wv
			o := wOutcome{}
			for _, st := range fd.Body.List {
				if r, ok := st.(*ast.ReturnStmt); ok && len(r.Results) == 2 {
					ret = w.expr(r.Results[0])
					o = wOutcome{kind: "return"}
					break
				}
				if o = w.stmt(st); o.kind != "" || w.fail != "" {
					break
				}
			}
			if w.fail != "" {
				und = fmt.Sprintf("width %d: not interpreted: %s", B, w.fail)
				break
			}
			if o.kind != "return" || o.err {
				bad = fmt.Sprintf("width %d: the value is rejected (or the function does not return)", B)
				break
			}
			if ret != nil {
				if k, ok := ret.(int64); !ok || k != int64(base+B) {
					bad = fmt.Sprintf("width %d: the returned offset is %v, the member ends at ofs+%d", B, ret, B)
					break
				}
			}
			for i := 0; i < B && bad == ""; i++ {
				want := "0"
				switch {
				case i < w0:
					want = fmt.Sprintf("v%d", i)
				case signed:
					want = fmt.Sprintf("v%d", w0-1)
				}
				got, ok := stored[int64(base+i)]
				if !ok {
					bad = fmt.Sprintf("width %d: bit %d of the member is not written", B, i)
				} else if got != want {
					bad = fmt.Sprintf("width %d: bit %d of the member is %s, the value's extension has %s there", B, i, got, want)
				}
			}
			for pos := range stored {
				if (pos < base || pos >= int64(base+B)) && bad == "" {
					bad = fmt.Sprintf("width %d: position ofs%+d outside the member is written", B, pos-base)
				}
			}
			if bad != "" {
				break
			}
		}
		key := "circuit.setInt/" + T.Name()
		switch {
		case und != "":
			run.Undecided(rule, key, p.Rel(fd.Pos()), und)
		case bad != "":
			run.Violate(rule, key, p.Rel(fd.Pos()), bad+": Set and Parse put different bits on the wires for this Go type", nil)
		default:
			run.OK(rule, key, p.Rel(fd.Pos()), fmt.Sprintf("%d widths", len(widths)))
		}
	}
	run.Floor("extension-cells", 8*len(widths))
}
