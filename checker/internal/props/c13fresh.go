package props

import (
	"fmt"
	"go/types"
	"strings"

	"golang.org/x/tools/go/ssa"

	"mpcverif/internal/load"
	"mpcverif/internal/report"
)

// C13fresh: the elements of a decoded array do not share one big integer.
//
// Result returns the *big.Int it was given for widths above 64 bits, so what the
// array arm passes to the recursive call becomes an element of the decoded
// value.  A call of Result inside a loop must therefore be given an integer that
// is allocated in that loop: one allocated before the loop (a reused scratch
// value) or the caller's own argument makes every element the same pointer,
// showing the bits of the last element.
func C13fresh(p *load.Program, run *report.Run) {
	run.Rule("decoded-elements-fresh", "mpc.Result returns its *big.Int argument on some path; every call of Result inside a loop of Result passes a *big.Int whose allocation (new(big.Int), traced through the receiver-returning math/big methods and phis) lies inside that loop")
	fn, err := p.Func("", "Result")
	if err != nil {
		run.Undecided("decoded-elements-fresh", "Result", "", err.Error())
		return
	}
	// does Result return its argument?
	var param ssa.Value
	for _, pr := range fn.Params {
		if strings.Contains(pr.Type().String(), "math/big.Int") {
			param = pr
		}
	}
	if param == nil {
		run.Undecided("decoded-elements-fresh", "Result", p.Rel(fn.Pos()), "no *big.Int parameter")
		return
	}
	returnsArg := false
	for _, b := range fn.Blocks {
		if b == fn.Recover {
			continue
		}
		for _, ins := range b.Instrs {
			if r, ok := ins.(*ssa.Return); ok {
				for _, v := range load.Results(r) {
					if flowsFrom(v, param, 0) {
						returnsArg = true
					}
				}
			}
		}
	}
	run.Count("decoder-returns-argument", map[bool]int{true: 1}[returnsArg])
	if !returnsArg {
		run.OK("decoded-elements-fresh", "Result", p.Rel(fn.Pos()), "Result never returns its argument: elements cannot alias it")
		return
	}
	// loops: strongly connected blocks
	inLoop := func(a, b *ssa.BasicBlock) bool { return blockReaches(a, b) && blockReaches(b, a) }
	calls := 0
	for _, b := range fn.Blocks {
		for _, ins := range b.Instrs {
			c, ok := ins.(*ssa.Call)
			if !ok || c.Call.StaticCallee() != fn || !blockReaches(b, b) {
				continue
			}
			calls++
			run.Count("recursive-decoder-calls-in-loops", 1)
			key := fmt.Sprintf("Result/recursive call #%d", calls)
			var bad []string
			var origins func(v ssa.Value, depth int, seen map[ssa.Value]bool)
			origins = func(v ssa.Value, depth int, seen map[ssa.Value]bool) {
				if seen[v] || depth > 12 {
					return
				}
				seen[v] = true
				switch t := v.(type) {
				case *ssa.Alloc:
					if !inLoop(t.Block(), b) {
						bad = append(bad, "allocated once at "+p.Rel(t.Pos())+", outside the loop")
					}
				case *ssa.Phi:
					for _, e := range t.Edges {
						origins(e, depth+1, seen)
					}
				case *ssa.Call:
					callee := t.Call.StaticCallee()
					if callee != nil && callee.Signature.Recv() != nil && strings.Contains(callee.Signature.Recv().Type().String(), "math/big.Int") && len(t.Call.Args) > 0 {
						origins(t.Call.Args[0], depth+1, seen)
						return
					}
					if callee != nil && callee.Pkg != nil && callee.Pkg.Pkg.Path() == "math/big" && callee.Name() == "NewInt" {
						if !inLoop(t.Block(), b) {
							bad = append(bad, "allocated once at "+p.Rel(t.Pos())+", outside the loop")
						}
						return
					}
					bad = append(bad, "comes from a call whose result is not known to be fresh at "+p.Rel(t.Pos()))
				case *ssa.Parameter:
					bad = append(bad, "is the caller's own argument "+t.Name())
				default:
					bad = append(bad, fmt.Sprintf("has an origin the rule does not follow (%T)", v))
				}
			}
			origins(c.Call.Args[0], 0, map[ssa.Value]bool{})
			if len(bad) > 0 {
				run.Violate("decoded-elements-fresh", key, p.Rel(c.Pos()), "the integer passed to the element decoder "+bad[0]+": Result returns it for widths above 64 bits, so all elements of the decoded array are one pointer", bad)
			} else {
				run.OK("decoded-elements-fresh", key, p.Rel(c.Pos()), "allocated per iteration")
			}
		}
	}
	run.Floor("recursive-decoder-calls-in-loops", 1)
}

func flowsFrom(v, src ssa.Value, depth int) bool {
	if v == src {
		return true
	}
	if depth > 8 {
		return false
	}
	switch t := v.(type) {
	case *ssa.Phi:
		for _, e := range t.Edges {
			if flowsFrom(e, src, depth+1) {
				return true
			}
		}
	case *ssa.MakeInterface:
		return flowsFrom(t.X, src, depth+1)
	case *ssa.ChangeType:
		return flowsFrom(t.X, src, depth+1)
	}
	return false
}

func blockReaches(a, b *ssa.BasicBlock) bool {
	seen := map[*ssa.BasicBlock]bool{}
	stack := append([]*ssa.BasicBlock{}, a.Succs...)
	for len(stack) > 0 {
		x := stack[len(stack)-1]
		stack = stack[:len(stack)-1]
		if seen[x] {
			continue
		}
		seen[x] = true
		if x == b {
			return true
		}
		stack = append(stack, x.Succs...)
	}
	return false
}

var _ = types.Typ
