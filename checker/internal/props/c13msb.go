package props

import (
	"fmt"
	"go/ast"
	"go/token"
	"go/types"
	"sort"
	"strings"

	"mpcverif/internal/dispatch"
	"mpcverif/internal/load"
	"mpcverif/internal/report"
)

// C13msb: a literal is read most-significant element first from where its elements really are.
//
// IOArg.Parse reads an array literal as one number whose most significant element is element 0.  Element i
// of a number that holds E elements of w bits sits at bit (E-i-1)·w.  E is the literal's own element count,
// plus whatever the number has been shifted left by since (a literal shorter than the array is left-aligned
// by count-valElCount elements first).  The extraction `Rsh(val, (L-i-1)·w)` is right exactly when L = E as
// linear forms over the function's variables: drop the alignment shift and keep L = count, and a short
// literal is read from above its own bits (all zeros); keep the shift and use L = valElCount, and it is
// read from the padding.  The rule evaluates both sides symbolically (single-assignment locals are expanded).
func C13msb(p *load.Program, run *report.Run) {
	const rule = "msb-first-extraction-index"
	run.Rule(rule, "in IOArg.Parse, for the array/slice arm's extraction Rsh(val, uint((L-i-1)*w)) inside `for i`: L equals, as a linear form over the function's variables, the element count of the literal (the variable assigned from bitLen / w) plus the element counts of every val.Lsh(val, uint(P*w)) that precedes the loop")
	pkg, fd := dispatch.FindFunc(p, "circuit", "IOArg", "Parse")
	if fd == nil {
		run.Undecided(rule, "circuit.IOArg.Parse", "", "function not found")
		return
	}
	info := pkg.TypesInfo
	// single-assignment locals: name -> defining expression
	defs := map[string]ast.Expr{}
	count := map[string]int{}
	ast.Inspect(fd.Body, func(n ast.Node) bool {
		switch t := n.(type) {
		case *ast.AssignStmt:
			for i, l := range t.Lhs {
				if id, ok := l.(*ast.Ident); ok {
					count[id.Name]++
					if t.Tok == token.DEFINE && len(t.Rhs) == len(t.Lhs) {
						defs[id.Name] = t.Rhs[i]
					}
				}
			}
		case *ast.IncDecStmt:
			if id, ok := t.X.(*ast.Ident); ok {
				count[id.Name]++
			}
		}
		return true
	})
	type lin map[string]int64
	var eval func(e ast.Expr, depth int) (lin, bool)
	eval = func(e ast.Expr, depth int) (lin, bool) {
		e = ast.Unparen(unwrapConv(e))
		if depth > 8 {
			return nil, false
		}
		if tv, ok := info.Types[e]; ok && tv.Value != nil {
			if k, ok := constOf(pkg, e); ok {
				return lin{"": k}, true
			}
		}
		switch t := e.(type) {
		case *ast.Ident:
			if d, ok := defs[t.Name]; ok && count[t.Name] == 1 {
				if l, ok := eval(d, depth+1); ok {
					return l, true
				}
			}
			return lin{t.Name: 1}, true
		case *ast.BinaryExpr:
			a, ok1 := eval(t.X, depth+1)
			b, ok2 := eval(t.Y, depth+1)
			if !ok1 || !ok2 {
				return nil, false
			}
			out := lin{}
			switch t.Op {
			case token.ADD, token.SUB:
				for k, v := range a {
					out[k] += v
				}
				for k, v := range b {
					if t.Op == token.ADD {
						out[k] += v
					} else {
						out[k] -= v
					}
				}
				return out, true
			}
			return nil, false
		case *ast.SelectorExpr, *ast.CallExpr:
			return lin{types.ExprString(e): 1}, true
		}
		return nil, false
	}
	render := func(l lin) string {
		var ks []string
		for k, v := range l {
			if v != 0 {
				if k == "" {
					ks = append(ks, fmt.Sprint(v))
				} else {
					ks = append(ks, fmt.Sprintf("%d*%s", v, k))
				}
			}
		}
		sort.Strings(ks)
		return strings.Join(ks, " + ")
	}
	same := func(a, b lin) bool {
		for k, v := range a {
			if b[k] != v {
				return false
			}
		}
		for k, v := range b {
			if a[k] != v {
				return false
			}
		}
		return true
	}
	// factor: e == X * w  -> X
	factor := func(e ast.Expr, w string) ast.Expr {
		be, ok := ast.Unparen(unwrapConv(e)).(*ast.BinaryExpr)
		if !ok || be.Op != token.MUL {
			return nil
		}
		if types.ExprString(ast.Unparen(be.Y)) == w {
			return be.X
		}
		if types.ExprString(ast.Unparen(be.X)) == w {
			return be.Y
		}
		return nil
	}
	sites := 0
	ast.Inspect(fd.Body, func(n ast.Node) bool {
		cc, ok := n.(*ast.CaseClause)
		if !ok {
			return true
		}
		isArr := false
		for _, e := range cc.List {
			if strings.HasSuffix(types.ExprString(e), "TArray") || strings.HasSuffix(types.ExprString(e), "TSlice") {
				isArr = true
			}
		}
		if !isArr {
			return true
		}
		// the literal's element count and width: X := bitLen / w
		elems, width := "", ""
		ast.Inspect(cc, func(m ast.Node) bool {
			as, ok := m.(*ast.AssignStmt)
			if !ok || len(as.Lhs) != 1 || len(as.Rhs) != 1 {
				return true
			}
			if be, ok := ast.Unparen(as.Rhs[0]).(*ast.BinaryExpr); ok && be.Op == token.QUO {
				if id, ok := as.Lhs[0].(*ast.Ident); ok && elems == "" {
					if _, isId := ast.Unparen(be.Y).(*ast.Ident); isId {
						elems, width = id.Name, types.ExprString(ast.Unparen(be.Y))
					}
				}
			}
			return true
		})
		if elems == "" {
			return false
		}
		// statements of the arm in order: alignment shifts, then the extraction loop
		have := lin{elems: 1}
		for _, st := range cc.Body {
			if es, ok := st.(*ast.ExprStmt); ok {
				if call, ok := es.X.(*ast.CallExpr); ok {
					if sel, ok := call.Fun.(*ast.SelectorExpr); ok && sel.Sel.Name == "Lsh" && len(call.Args) == 2 && types.ExprString(sel.X) == types.ExprString(call.Args[0]) {
						if x := factor(call.Args[1], width); x != nil {
							if l, ok := eval(x, 0); ok {
								for k, v := range l {
									have[k] += v
								}
							}
						}
					}
				}
			}
			fs, ok := st.(*ast.ForStmt)
			if !ok {
				continue
			}
			iv := ""
			if as, ok := fs.Init.(*ast.AssignStmt); ok && len(as.Lhs) == 1 {
				iv = types.ExprString(as.Lhs[0])
			}
			ast.Inspect(fs.Body, func(m ast.Node) bool {
				call, ok := m.(*ast.CallExpr)
				if !ok || len(call.Args) != 2 {
					return true
				}
				if sel, ok := call.Fun.(*ast.SelectorExpr); !ok || sel.Sel.Name != "Rsh" {
					return true
				}
				x := factor(call.Args[1], width)
				if x == nil {
					return true
				}
				l, ok := eval(x, 0)
				if !ok || l[iv] != -1 {
					return true
				}
				// L = the form + i + 1
				l[iv] = 0
				l[""]++
				sites++
				key := "circuit.IOArg.Parse/array literal"
				// expand the literal's own count in `have` too (it is usually assigned more than once: ++)
				if same(l, have) {
					run.OK(rule, key, p.Rel(call.Pos()), "element i is read at ("+render(have)+" - i - 1) elements from the bottom")
				} else {
					run.Violate(rule, key, p.Rel(call.Pos()), fmt.Sprintf("element i is read at (%s - i - 1)·%s, the number holds %s elements at that point: a literal with fewer elements than the array is read from the wrong bits", render(l), width, render(have)), nil)
				}
				return true
			})
		}
		return false
	})
	run.Count("msb-first-extractions", sites)
	// no floor: the extraction may legitimately be written another way; the rule then says nothing
	if sites == 0 {
		run.OK(rule, "circuit.IOArg.Parse", p.Rel(fd.Pos()), "no Rsh(val, (L-i-1)*w) extraction in the array arm: the rule does not apply")
	}
}
