package props

import (
	"fmt"
	"go/token"
	"go/types"
	"strings"

	"golang.org/x/tools/go/ssa"

	"mpcverif/internal/load"
	"mpcverif/internal/report"
)

// C13offsets: the members of a struct are laid out by a running offset.
//
// Wherever a loop stores a loop-carried accumulator into the Offset field of a
// member's types.Info (types.Info.InstantiateWithSizes for main's arguments,
// ast.Package.defineType for declarations), every addition that advances the
// accumulator must come after such a store on its path: a path that adds a
// member's width without writing its offset leaves the member at the offset it
// had when the widths of the earlier members were different (unsized members
// count as 0 bits at declaration time).
func C13offsets(p *load.Program, run *report.Run) {
	run.Rule("running-offset", "in types and compiler/ast, for every loop-carried accumulator stored into the Offset field of a types.Info, each addition advancing the accumulator is dominated by a store of the pre-increment accumulator into an Offset field: no member is counted without being placed")
	sites := 0
	for _, fn := range p.AllFunctions() {
		if fn.Pkg == nil || fn.Blocks == nil {
			continue
		}
		path := fn.Pkg.Pkg.Path()
		if path != load.Module+"/types" && path != load.Module+"/compiler/ast" {
			continue
		}
		// Offset stores of a phi
		type ostore struct {
			st  *ssa.Store
			acc ssa.Value
		}
		var stores []ostore
		for _, b := range fn.Blocks {
			for _, ins := range b.Instrs {
				st, ok := ins.(*ssa.Store)
				if !ok {
					continue
				}
				fa, ok := st.Addr.(*ssa.FieldAddr)
				if !ok || structFieldName(fa.X.Type(), fa.Field) != "Offset" || !strings.HasSuffix(typeNameOf(fa.X.Type()), "types.Info") {
					continue
				}
				stores = append(stores, ostore{st, st.Val})
			}
		}
		// group by the loop-header phi the stored value is (or merges into)
		done := map[*ssa.Phi]bool{}
		for _, os := range stores {
			phi, ok := os.acc.(*ssa.Phi)
			if !ok || !blockReaches(phi.Block(), phi.Block()) || done[phi] {
				continue
			}
			done[phi] = true
			sites++
			run.Count("running-offset-loops", 1)
			name := strings.ReplaceAll(fn.RelString(nil), load.Module+"/", "")
			// the additions advancing phi
			var adds []*ssa.BinOp
			seen := map[ssa.Value]bool{}
			var back func(v ssa.Value)
			back = func(v ssa.Value) {
				if seen[v] || v == ssa.Value(phi) {
					return
				}
				seen[v] = true
				switch t := v.(type) {
				case *ssa.Phi:
					for _, e := range t.Edges {
						back(e)
					}
				case *ssa.BinOp:
					if t.Op == token.ADD {
						adds = append(adds, t)
						back(t.X)
					}
				}
			}
			for i, e := range phi.Edges {
				if blockReaches(phi.Block(), phi.Block().Preds[i]) || phi.Block().Preds[i] == phi.Block() {
					back(e)
				}
			}
			var bad []string
			for _, a := range adds {
				ok := false
				for _, os2 := range stores {
					if os2.acc != a.X {
						continue
					}
					sb, ab := os2.st.Block(), a.Block()
					if sb == ab {
						si, ai := -1, -1
						for k, ins := range sb.Instrs {
							if ins == ssa.Instruction(os2.st) {
								si = k
							}
							if ins == ssa.Instruction(a) {
								ai = k
							}
						}
						ok = ok || si < ai
					} else if sb.Dominates(ab) {
						ok = true
					}
				}
				if !ok {
					bad = append(bad, fmt.Sprintf("the addition at %s advances the offset on a path that has not stored it into a member", p.Rel(a.Pos())))
				}
			}
			if len(adds) == 0 {
				run.Undecided("running-offset", name, p.Rel(os.st.Pos()), "the accumulator stored into Offset is never advanced in the loop")
			} else if len(bad) > 0 {
				run.Violate("running-offset", name, p.Rel(os.st.Pos()), "a member is counted without being placed: it keeps the offset computed when the earlier members had other widths", bad)
			} else {
				run.OK("running-offset", name, p.Rel(os.st.Pos()), fmt.Sprintf("%d addition(s), each after the store of the member's offset", len(adds)))
			}
		}
	}
	_ = sites
	run.Floor("running-offset-loops", 2)
}

func typeNameOf(t types.Type) string {
	if p, ok := t.Underlying().(*types.Pointer); ok {
		t = p.Elem()
	}
	if n, ok := t.(*types.Named); ok && n.Obj().Pkg() != nil {
		return n.Obj().Pkg().Name() + "." + n.Obj().Name()
	}
	return t.String()
}
