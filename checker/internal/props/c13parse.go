package props

import (
	"fmt"
	"go/types"

	"mpcverif/internal/dispatch"
	"mpcverif/internal/load"
	"mpcverif/internal/report"
)

// C13parse: the footprint of the compound branch of circuit.IOArg.Parse.
//
// A compound argument (struct, or main's argument list) is assembled from its
// members' values: member k occupies exactly bits [offset(k), offset(k)+width(k))
// of the result.  A member value parsed from text can be longer than the member
// (a negative literal is sign extended by math/big, an over-wide literal is just
// long), so the assembly must cut it at the member's width.  The branch is
// evaluated on abstract bit vectors, each member value carrying 9 excess bits,
// for small width tuples; every excess bit that reaches the result lands on a
// neighbouring member (or beyond the argument) and is reported.
func C13parse(p *load.Program, run *report.Run) {
	run.Rule("member-footprint", "IOArg.Parse, compound branch: member k of the value text occupies exactly result bits [offset(k), offset(k)+width(k)); bits of a member value above its width reach no wire (width tuples of 1-3 members from {1,3,8,13})")
	pkg, fd := dispatch.FindFunc(p, "circuit", "IOArg", "Parse")
	if fd == nil {
		run.Undecided("member-footprint", "circuit.IOArg.Parse", "", "function not found")
		return
	}
	info := pkg.TypesInfo
	var tuples [][]int
	ws := []int{1, 3, 8, 13}
	if Deep {
		ws = []int{1, 2, 3, 7, 8, 9, 13, 16, 31}
	}
	for _, a := range ws {
		tuples = append(tuples, []int{a})
		for _, b := range ws {
			tuples = append(tuples, []int{a, b})
		}
	}
	for _, a := range []int{1, 5, 8} {
		for _, b := range []int{1, 5, 8} {
			for _, c := range []int{1, 5, 8} {
				tuples = append(tuples, []int{a, b, c})
			}
		}
	}
	for _, widths := range tuples {
		key := fmt.Sprintf("circuit.IOArg.Parse/compound/widths=%v", widths)
		ev := &swEval{info: info, widths: widths, big: map[string]bitvec{}, elemOf: map[types.Object]int{},
			ints: map[types.Object]int{}, locals: map[types.Object]bitvec{}, memberCall: "Parse", seqSuffix: ".Compound"}
		ev.lenOf = map[types.Object]int{}
		for _, f := range fd.Type.Params.List {
			for _, n := range f.Names {
				if _, ok := info.TypeOf(n).Underlying().(*types.Slice); ok {
					ev.lenOf[info.ObjectOf(n)] = len(widths) // one value text per member
				}
			}
		}
		ev.block(fd.Body.List)
		run.Count("parse-shapes", 1)
		if ev.fail != "" || !ev.returned || ev.ret == nil {
			why := ev.fail
			if why == "" {
				why = "no big-integer result returned on the compound path"
			}
			run.Undecided("member-footprint", key, p.Rel(fd.Pos()), why)
			continue
		}
		want := bitvec{}
		ofs := 0
		for k, w := range widths {
			for i := 0; i < w; i++ {
				want[ofs+i] = fmt.Sprintf("in%d.b%d", k, i)
			}
			ofs += w
		}
		bad := ""
		for pos, a := range ev.ret {
			if want[pos] != a {
				bad = fmt.Sprintf("result bit %d holds %s, expected %s", pos, a, orZero(want[pos]))
				break
			}
		}
		for pos, a := range want {
			if ev.ret[pos] != a && bad == "" {
				bad = fmt.Sprintf("result bit %d holds %s, expected %s", pos, orZero(ev.ret[pos]), a)
			}
		}
		if bad != "" {
			run.Violate("member-footprint", key, p.Rel(fd.Pos()), bad+": a member's bits above its width disturb another member", nil)
		} else {
			run.OK("member-footprint", key, p.Rel(fd.Pos()), "exact footprint")
		}
	}
	run.Floor("parse-shapes", 40)
}
