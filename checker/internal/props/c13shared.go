package props

import (
	"fmt"
	"go/types"
	"strings"

	"golang.org/x/tools/go/ssa"

	"mpcverif/internal/load"
	"mpcverif/internal/report"
)

// C13shared: a types.Info is passed and stored by value, but its Struct slice is
// a reference: the declared type, the copy returned by Resolve and every
// instance made from it share the fields.  A method that writes a field
// (member sizes, offsets, concreteness) therefore changes the declaration and
// all other instances, unless it has first given the receiver its own copy of
// the slice.  The rule covers every pointer-receiver method of types.Info:
// a store through an element of recv.Struct, or a call of a pointer-receiver
// method of Info on such an element, must be dominated by a store of a freshly
// made slice into recv.Struct.
func C13shared(p *load.Program, run *report.Run) {
	run.Rule("shared-struct-fields", "in every pointer-receiver method of types.Info, a store through an element of the receiver's Struct slice, or a call of a pointer-receiver Info method on such an element, is dominated by a store of a slice made in the method (make/append) into the receiver's Struct field: instantiating one argument never writes into the declaration or into another argument of the same struct type")
	infoT, err := p.Type("types", "Info")
	if err != nil {
		run.Undecided("shared-struct-fields", "types.Info", "", err.Error())
		return
	}
	ms := p.SSA.MethodSets.MethodSet(types.NewPointer(infoT))
	methods := 0
	for i := 0; i < ms.Len(); i++ {
		fn := p.SSA.MethodValue(ms.At(i))
		if fn == nil || fn.Blocks == nil || fn.Synthetic != "" || len(fn.Params) == 0 {
			continue
		}
		if _, isPtr := fn.Signature.Recv().Type().(*types.Pointer); !isPtr {
			continue
		}
		methods++
		recv := fn.Params[0]
		// loads of recv.Struct
		isStructField := func(v ssa.Value) bool {
			fa, ok := v.(*ssa.FieldAddr)
			return ok && fa.X == ssa.Value(recv) && structFieldName(fa.X.Type(), fa.Field) == "Struct"
		}
		elemOfStruct := func(v ssa.Value) bool {
			for depth := 0; depth < 6; depth++ {
				switch t := v.(type) {
				case *ssa.FieldAddr:
					v = t.X
				case *ssa.IndexAddr:
					if l, ok := t.X.(*ssa.UnOp); ok && isStructField(l.X) {
						return true
					}
					v = t.X
				default:
					return false
				}
			}
			return false
		}
		var fresh []*ssa.Store
		for _, b := range fn.Blocks {
			for _, ins := range b.Instrs {
				if st, ok := ins.(*ssa.Store); ok && isStructField(st.Addr) {
					switch v := st.Val.(type) {
					case *ssa.MakeSlice:
						fresh = append(fresh, st)
					case *ssa.Call:
						if bi, ok := v.Call.Value.(*ssa.Builtin); ok && bi.Name() == "append" {
							if c, isConst := v.Call.Args[0].(*ssa.Const); isConst && c.IsNil() {
								fresh = append(fresh, st)
							}
						}
					case *ssa.Slice:
						if _, ok := v.X.(*ssa.Alloc); ok {
							fresh = append(fresh, st)
						}
					}
				}
			}
		}
		dominated := func(ins ssa.Instruction) bool {
			for _, st := range fresh {
				if st.Block() == ins.Block() {
					for _, x := range st.Block().Instrs {
						if x == ssa.Instruction(st) {
							return true
						}
						if x == ins {
							break
						}
					}
				} else if st.Block().Dominates(ins.Block()) {
					return true
				}
			}
			return false
		}
		name := "types.Info." + fn.Name()
		var bad []string
		writes := 0
		for _, b := range fn.Blocks {
			for _, ins := range b.Instrs {
				switch t := ins.(type) {
				case *ssa.Store:
					if elemOfStruct(t.Addr) {
						writes++
						if !dominated(ins) {
							bad = append(bad, "store through a shared field at "+p.Rel(t.Pos()))
						}
					}
				case ssa.CallInstruction:
					cc := t.Common()
					callee := cc.StaticCallee()
					if callee == nil || callee.Signature.Recv() == nil || len(cc.Args) == 0 {
						continue
					}
					if pt, ok := callee.Signature.Recv().Type().(*types.Pointer); !ok || !strings.HasSuffix(typeNameOf(pt), "types.Info") {
						continue
					}
					if elemOfStruct(cc.Args[0]) && writesReceiver(callee) {
						writes++
						if !dominated(ins) {
							bad = append(bad, fmt.Sprintf("%s called on a shared field at %s", callee.Name(), p.Rel(ins.Pos())))
						}
					}
				}
			}
		}
		if writes == 0 {
			continue
		}
		run.Count("methods-writing-struct-fields", 1)
		if len(bad) > 0 {
			run.Violate("shared-struct-fields", name, p.Rel(fn.Pos()), "the method writes into the Struct fields it shares with the declared type and its other copies, without first taking its own copy of the slice", bad)
		} else {
			run.OK("shared-struct-fields", name, p.Rel(fn.Pos()), fmt.Sprintf("%d write(s), all after the receiver got its own fields", writes))
		}
	}
	run.Count("info-pointer-methods", methods)
	run.Floor("info-pointer-methods", 3)
	run.Floor("methods-writing-struct-fields", 1)
}

// writesReceiver: the method stores through its receiver (directly).
func writesReceiver(fn *ssa.Function) bool {
	if len(fn.Params) == 0 {
		return false
	}
	recv := fn.Params[0]
	for _, b := range fn.Blocks {
		for _, ins := range b.Instrs {
			if st, ok := ins.(*ssa.Store); ok {
				v := st.Addr
				for depth := 0; depth < 6; depth++ {
					if v == ssa.Value(recv) {
						return true
					}
					switch t := v.(type) {
					case *ssa.FieldAddr:
						v = t.X
					case *ssa.IndexAddr:
						v = t.X
					default:
						depth = 6
					}
				}
			}
		}
	}
	return false
}
