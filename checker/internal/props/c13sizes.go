package props

import (
	"fmt"
	"go/ast"
	"go/token"
	"go/types"

	"mpcverif/internal/dispatch"
	"mpcverif/internal/load"
	"mpcverif/internal/report"
)

// C13sizes: the inferred size of an unsized array or slice argument.
//
// InstantiateWithSizes turns the bit size inferred from an input value into the
// concrete type of the argument.  The element count is rounded up, and the
// argument gets Bits wires; IOArg.Parse/Set encode ArraySize whole elements.  So
// Bits must be ArraySize * ElementType.Bits — the raw inferred size is smaller
// whenever it is not a multiple of the element width, and the upper bits of the
// last element then have no wire.
func C13sizes(p *load.Program, run *report.Run) {
	run.Rule("array-bits-are-count-times-width", "in types.Info.InstantiateWithSizes every assignment of Bits in the array and slice arms stores ArraySize * ElementType.Bits of the same type value")
	pkg, fd := dispatch.FindFunc(p, "types", "Info", "InstantiateWithSizes")
	if fd == nil {
		run.Undecided("array-bits-are-count-times-width", "types.Info.InstantiateWithSizes", "", "function not found")
		return
	}
	info := pkg.TypesInfo
	ast.Inspect(fd.Body, func(n ast.Node) bool {
		cc, ok := n.(*ast.CaseClause)
		if !ok {
			return true
		}
		arm := ""
		for _, e := range cc.List {
			if id := lastIdent(e); id.Name == "TArray" || id.Name == "TSlice" {
				if _, isConst := info.ObjectOf(id).(*types.Const); isConst {
					arm = id.Name
				}
			}
		}
		if arm == "" {
			return true
		}
		ast.Inspect(cc, func(m ast.Node) bool {
			as, ok := m.(*ast.AssignStmt)
			if !ok || len(as.Lhs) != 1 || len(as.Rhs) != 1 {
				return true
			}
			sel, ok := as.Lhs[0].(*ast.SelectorExpr)
			if !ok || sel.Sel.Name != "Bits" {
				return true
			}
			if _, isElem := sel.X.(*ast.SelectorExpr); isElem {
				return true // an element type's Bits
			}
			run.Count("array-size-assignments", 1)
			base := types.ExprString(sel.X)
			key := fmt.Sprintf("types.Info.InstantiateWithSizes/%s/Bits", arm)
			good := false
			if be, ok := ast.Unparen(as.Rhs[0]).(*ast.BinaryExpr); ok && be.Op == token.MUL {
				x, y := types.ExprString(ast.Unparen(be.X)), types.ExprString(ast.Unparen(be.Y))
				a, b := base+".ArraySize", base+".ElementType.Bits"
				good = (x == a && y == b) || (x == b && y == a)
			}
			if good {
				run.OK("array-bits-are-count-times-width", key, p.Rel(as.Pos()), "")
			} else {
				run.Violate("array-bits-are-count-times-width", key, p.Rel(as.Pos()), "Bits is assigned "+types.ExprString(as.Rhs[0])+", not ArraySize * ElementType.Bits: with a size that is not a multiple of the element width the argument gets fewer wires than its elements occupy", nil)
			}
			return true
		})
		return false
	})
	run.Floor("array-size-assignments", 2)
}
