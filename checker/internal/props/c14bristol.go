package props

import (
	"fmt"
	"go/ast"
	"go/token"
	"go/types"
	"golang.org/x/tools/go/packages"
	"sort"
	"strconv"
	"strings"

	"mpcverif/internal/dispatch"
	"mpcverif/internal/load"
	"mpcverif/internal/report"
)

// C14bristol: gate names and arities agree across the writers and readers of both circuit formats.
func C14bristol(p *load.Program, run *report.Run) {
	run.Rule("gate-name-roundtrip", "the name Operation.String prints for each gate operation is the name ParseBristol maps back to the same operation")
	run.Rule("gate-arity-table", "Gate.Inputs, Marshal, ParseMPCLC and ParseBristol agree on the number of inputs of every gate operation")
	pkg := p.ByPath[load.Module+"/circuit"]
	_, fdStr := dispatch.FindFunc(p, "circuit", "Operation", "String")
	_, fdPB := dispatch.FindFunc(p, "circuit", "", "ParseBristol")
	_, fdIn := dispatch.FindFunc(p, "circuit", "Gate", "Inputs")
	_, fdM := dispatch.FindFunc(p, "circuit", "Circuit", "Marshal")
	_, fdPM := dispatch.FindFunc(p, "circuit", "", "ParseMPCLC")
	if pkg == nil || fdStr == nil || fdPB == nil || fdIn == nil || fdM == nil || fdPM == nil {
		run.Undecided("gate-name-roundtrip", "circuit", "", "anchor functions not found")
		return
	}
	ops := []string{"XOR", "XNOR", "AND", "OR", "INV"}
	// names printed
	printed := map[string]string{} // op const -> name
	ast.Inspect(fdStr.Body, func(n ast.Node) bool {
		cc, ok := n.(*ast.CaseClause)
		if !ok {
			return true
		}
		for _, st := range cc.Body {
			if r, ok := st.(*ast.ReturnStmt); ok && len(r.Results) == 1 {
				if bl, ok := r.Results[0].(*ast.BasicLit); ok && bl.Kind == token.STRING {
					name, _ := strconv.Unquote(bl.Value)
					for _, c := range caseNames(cc) {
						printed[c] = name
					}
				}
			}
		}
		return true
	})
	// the table form: String returns T[op] for a package-level table T keyed by the operation constants
	tables := map[string]map[string]string{} // table name -> op const -> name
	for _, f := range pkg.Syntax {
		for _, d := range f.Decls {
			gd, ok := d.(*ast.GenDecl)
			if !ok || gd.Tok != token.VAR {
				continue
			}
			for _, sp := range gd.Specs {
				vs, ok := sp.(*ast.ValueSpec)
				if !ok || len(vs.Names) != 1 || len(vs.Values) != 1 {
					continue
				}
				cl, ok := vs.Values[0].(*ast.CompositeLit)
				if !ok {
					continue
				}
				t := map[string]string{}
				for _, el := range cl.Elts {
					kv, ok := el.(*ast.KeyValueExpr)
					if !ok {
						continue
					}
					if bl, ok := kv.Value.(*ast.BasicLit); ok && bl.Kind == token.STRING {
						name, _ := strconv.Unquote(bl.Value)
						t[types.ExprString(kv.Key)] = name
					}
				}
				if len(t) > 0 {
					tables[vs.Names[0].Name] = t
				}
			}
		}
	}
	nameTable := ""
	if len(printed) == 0 {
		ast.Inspect(fdStr.Body, func(n ast.Node) bool {
			if r, ok := n.(*ast.ReturnStmt); ok && len(r.Results) == 1 {
				if ix, ok := r.Results[0].(*ast.IndexExpr); ok {
					if t := tables[types.ExprString(ix.X)]; t != nil {
						nameTable = types.ExprString(ix.X)
						for k, v := range t {
							printed[k] = v
						}
					}
				}
			}
			return true
		})
	}
	// names parsed and their arity in ParseBristol: case "XOR": op = XOR; numInputs = 2
	parsed := map[string]string{}
	arityPB := map[string]int64{}
	ast.Inspect(fdPB.Body, func(n ast.Node) bool {
		cc, ok := n.(*ast.CaseClause)
		if !ok || len(cc.List) != 1 {
			return true
		}
		bl, ok := cc.List[0].(*ast.BasicLit)
		if !ok || bl.Kind != token.STRING {
			return true
		}
		name, _ := strconv.Unquote(bl.Value)
		opc := ""
		for _, st := range cc.Body {
			if as, ok := st.(*ast.AssignStmt); ok && len(as.Lhs) == 1 {
				switch types.ExprString(as.Lhs[0]) {
				case "op":
					opc = types.ExprString(as.Rhs[0])
				case "numInputs":
					if k, ok := constOf(pkg, as.Rhs[0]); ok && opc != "" {
						arityPB[opc] = k
					}
				}
			}
		}
		if opc != "" {
			parsed[name] = opc
		}
		return true
	})
	// the lookup form: a helper of the package walks a range of operations and compares the table's name
	// (for op := LO; op < HI; op++ { if T[op] == name { return op, true } }), or ranges over the table
	defaultArity := int64(0)
	if len(parsed) == 0 {
		for _, f := range pkg.Syntax {
			for _, d := range f.Decls {
				hd, ok := d.(*ast.FuncDecl)
				if !ok || hd.Body == nil || hd.Recv != nil {
					continue
				}
				called := false
				ast.Inspect(fdPB.Body, func(n ast.Node) bool {
					if c, ok := n.(*ast.CallExpr); ok {
						if id, ok := c.Fun.(*ast.Ident); ok && id.Name == hd.Name.Name {
							called = true
						}
					}
					return !called
				})
				if !called {
					continue
				}
				ast.Inspect(hd.Body, func(n ast.Node) bool {
					switch t := n.(type) {
					case *ast.ForStmt:
						as, ok1 := t.Init.(*ast.AssignStmt)
						cond, ok2 := t.Cond.(*ast.BinaryExpr)
						if !ok1 || !ok2 || len(as.Rhs) != 1 || (cond.Op != token.LSS && cond.Op != token.LEQ) {
							return true
						}
						lo, okL := constOf(pkg, as.Rhs[0])
						hi, okH := constOf(pkg, cond.Y)
						if !okL || !okH {
							return true
						}
						if cond.Op == token.LEQ {
							hi++
						}
						// which table does the body compare with?
						var tbl map[string]string
						ast.Inspect(t.Body, func(m ast.Node) bool {
							if ix, ok := m.(*ast.IndexExpr); ok && tbl == nil {
								tbl = tables[types.ExprString(ix.X)]
							}
							return true
						})
						for opc, name := range tbl {
							if v, ok := pkgConst(pkg, opc); ok && v >= lo && v < hi {
								parsed[name] = opc
							}
						}
					case *ast.RangeStmt:
						if tbl := tables[types.ExprString(t.X)]; tbl != nil {
							for opc, name := range tbl {
								parsed[name] = opc
							}
						}
					}
					return true
				})
			}
		}
		// the arity: `numInputs := 2; if op == INV { numInputs = 1 }`
		ast.Inspect(fdPB.Body, func(n ast.Node) bool {
			switch t := n.(type) {
			case *ast.AssignStmt:
				if len(t.Lhs) == 1 && types.ExprString(t.Lhs[0]) == "numInputs" && t.Tok == token.DEFINE {
					if k, ok := constOf(pkg, t.Rhs[0]); ok {
						defaultArity = k
					}
				}
			case *ast.IfStmt:
				be, ok := t.Cond.(*ast.BinaryExpr)
				if !ok || be.Op != token.EQL || types.ExprString(be.X) != "op" {
					return true
				}
				for _, st := range t.Body.List {
					if as, ok := st.(*ast.AssignStmt); ok && len(as.Lhs) == 1 && types.ExprString(as.Lhs[0]) == "numInputs" {
						if k, ok := constOf(pkg, as.Rhs[0]); ok {
							arityPB[types.ExprString(be.Y)] = k
						}
					}
				}
			}
			return true
		})
		for _, op := range ops {
			if _, ok := arityPB[op]; !ok && defaultArity > 0 {
				arityPB[op] = defaultArity
			}
		}
	}
	_ = nameTable
	// every name the reader accepts is the name of a gate operation
	isOp := map[string]bool{}
	for _, op := range ops {
		isOp[op] = true
	}
	var foreign []string
	for name, opc := range parsed {
		if !isOp[opc] {
			foreign = append(foreign, fmt.Sprintf("%q -> %s", name, opc))
		}
	}
	sort.Strings(foreign)
	if len(foreign) > 0 {
		run.Violate("gate-name-roundtrip", "circuit.ParseBristol/accepted names", p.Rel(fdPB.Pos()), "the reader accepts a name that is not the name of a gate operation: "+strings.Join(foreign, ", ")+" — the parsed circuit has a gate no evaluator and no writer knows", nil)
	} else {
		run.OK("gate-name-roundtrip", "circuit.ParseBristol/accepted names", p.Rel(fdPB.Pos()), fmt.Sprintf("%d names, all of gate operations", len(parsed)))
	}
	for _, op := range ops {
		run.Count("gate-operations", 1)
		name, ok := printed[op]
		switch {
		case !ok:
			run.Violate("gate-name-roundtrip", "circuit.Operation.String/"+op, p.Rel(fdStr.Pos()), "the operation has no printed name", nil)
		case parsed[name] != op:
			run.Violate("gate-name-roundtrip", "circuit.Operation.String/"+op, p.Rel(fdPB.Pos()), fmt.Sprintf("printed as %q, which ParseBristol reads as %q", name, parsed[name]), nil)
		default:
			run.OK("gate-name-roundtrip", "circuit.Operation.String/"+op, p.Rel(fdStr.Pos()), fmt.Sprintf("%q", name))
		}
	}
	// arity in Gate.Inputs: length of the returned literal
	arityIn := map[string]int64{}
	ast.Inspect(fdIn.Body, func(n ast.Node) bool {
		cc, ok := n.(*ast.CaseClause)
		if !ok {
			return true
		}
		for _, st := range cc.Body {
			if r, ok := st.(*ast.ReturnStmt); ok && len(r.Results) == 1 {
				if cl, ok := r.Results[0].(*ast.CompositeLit); ok {
					for _, c := range caseNames(cc) {
						arityIn[c] = int64(len(cl.Elts))
					}
				}
			}
		}
		return true
	})
	// arity in Marshal: number of uint32(...) wire conversions in the arm's literal minus the output
	arityM := map[string]int64{}
	inspectWithHelpers(p, pkg, fdM, func(n ast.Node) bool {
		cc, ok := n.(*ast.CaseClause)
		if !ok || len(caseNames(cc)) == 0 {
			return true
		}
		cnt := int64(0)
		ast.Inspect(cc, func(m ast.Node) bool {
			if sel, ok := m.(*ast.SelectorExpr); ok && namedType(pkg.TypesInfo, sel.X) == "Gate" && len(sel.Sel.Name) > 5 && sel.Sel.Name[:5] == "Input" {
				cnt++
			}
			return true
		})
		for _, c := range caseNames(cc) {
			arityM[c] = cnt
		}
		return true
	})
	// arity in ParseMPCLC: Input fields of the struct the arm reads
	arityPM := map[string]int64{}
	inspectWithHelpers(p, pkg, fdPM, func(n ast.Node) bool {
		cc, ok := n.(*ast.CaseClause)
		if !ok || len(caseNames(cc)) == 0 {
			return true
		}
		cnt := int64(-1)
		ast.Inspect(cc, func(m ast.Node) bool {
			if st, ok := m.(*ast.StructType); ok && cnt < 0 {
				cnt = 0
				for _, f := range st.Fields.List {
					for _, nm := range f.Names {
						if len(nm.Name) > 5 && nm.Name[:5] == "Input" {
							cnt++
						}
					}
				}
			}
			return true
		})
		if cnt >= 0 {
			for _, c := range caseNames(cc) {
				if _, dup := arityPM[c]; !dup {
					arityPM[c] = cnt
				}
			}
		}
		return true
	})
	for _, op := range ops {
		key := "circuit/arity/" + op
		vals := map[string]int64{"Gate.Inputs": arityIn[op], "Marshal": arityM[op], "ParseMPCLC": arityPM[op], "ParseBristol": arityPB[op]}
		same := true
		for _, v := range vals {
			if v != arityIn[op] || v == 0 {
				same = false
			}
		}
		if same {
			run.OK("gate-arity-table", key, "", fmt.Sprintf("%d inputs at four sites", arityIn[op]))
		} else {
			run.Violate("gate-arity-table", key, p.Rel(fdIn.Pos()), fmt.Sprintf("sites disagree: %v", vals), nil)
		}
	}
	run.Floor("gate-operations", 5)
}

// C14gaterecord: the wire fields of a gate are written and read in the same order (all are uint32, so the type sequence cannot tell).
func C14gaterecord(p *load.Program, run *report.Run) {
	run.Rule("gate-record-field-order", "Marshal writes the wires of a gate in the order in which ParseMPCLC's record struct declares them, and ParseMPCLC copies each record field into the Gate field of the same name")
	pkg := p.ByPath[load.Module+"/circuit"]
	_, fdM := dispatch.FindFunc(p, "circuit", "Circuit", "Marshal")
	_, fdP := dispatch.FindFunc(p, "circuit", "", "ParseMPCLC")
	if pkg == nil || fdM == nil || fdP == nil {
		run.Undecided("gate-record-field-order", "circuit.Marshal/ParseMPCLC", "", "function not found")
		return
	}
	// writer: per arm, the g.<Field> sequence
	written := map[string][]string{}
	inspectWithHelpers(p, pkg, fdM, func(n ast.Node) bool {
		cc, ok := n.(*ast.CaseClause)
		if !ok || len(caseNames(cc)) == 0 {
			return true
		}
		var seq []string
		ast.Inspect(cc, func(m ast.Node) bool {
			if sel, ok := m.(*ast.SelectorExpr); ok && namedType(pkg.TypesInfo, sel.X) == "Gate" && sel.Sel.Name != "Op" {
				seq = append(seq, sel.Sel.Name)
			}
			return true
		})
		for _, c := range caseNames(cc) {
			written[c] = seq
		}
		return true
	})
	// reader: per arm, the record struct's field order and the Gate literal's mapping
	type rd struct {
		decl    []string
		mapping map[string]string // Gate field -> record field
	}
	read := map[string]rd{}
	inspectWithHelpers(p, pkg, fdP, func(n ast.Node) bool {
		cc, ok := n.(*ast.CaseClause)
		if !ok || len(caseNames(cc)) == 0 {
			return true
		}
		r := rd{mapping: map[string]string{}}
		ast.Inspect(cc, func(m ast.Node) bool {
			switch t := m.(type) {
			case *ast.StructType:
				if len(r.decl) == 0 {
					for _, f := range t.Fields.List {
						for _, nm := range f.Names {
							r.decl = append(r.decl, nm.Name)
						}
					}
				}
			case *ast.CompositeLit:
				if types.ExprString(t.Type) == "Gate" {
					for _, e := range t.Elts {
						if kv, ok := e.(*ast.KeyValueExpr); ok {
							r.mapping[types.ExprString(kv.Key)] = fieldSuffix(unwrapConv(kv.Value))
						}
					}
				}
			}
			return true
		})
		if len(r.decl) > 0 {
			for _, c := range caseNames(cc) {
				if _, dup := read[c]; !dup {
					read[c] = r
				}
			}
		}
		return true
	})
	for _, op := range []string{"XOR", "XNOR", "AND", "OR", "INV"} {
		key := "circuit.Marshal/ParseMPCLC/" + op
		run.Count("gate-record-arms", 1)
		w, r := written[op], read[op]
		bad := ""
		switch {
		case len(w) == 0 || len(r.decl) == 0:
			run.Undecided("gate-record-field-order", key, "", "arm not found on one side")
			continue
		case fmt.Sprint(w) != fmt.Sprint(r.decl):
			bad = fmt.Sprintf("written as %v, read into a record declared as %v", w, r.decl)
		default:
			for _, f := range r.decl {
				if r.mapping[f] != f {
					bad = fmt.Sprintf("record field %s is copied into Gate.%s", r.mapping[f], f)
				}
			}
		}
		if bad != "" {
			run.Violate("gate-record-field-order", key, p.Rel(fdM.Pos()), bad, nil)
		} else {
			run.OK("gate-record-field-order", key, p.Rel(fdM.Pos()), fmt.Sprint(w))
		}
	}
	run.Floor("gate-record-arms", 5)

	// header: five uint32 in a row
	run.Rule("header-field-order", "Marshal writes magic, gate count, wire count, input count, output count in the order in which ParseMPCLC's header struct declares them, and the parser builds the circuit from the fields of the same meaning")
	var hdr []string
	inspectWithHelpers(p, pkg, fdM, func(n ast.Node) bool {
		cl, ok := n.(*ast.CompositeLit)
		if !ok || len(hdr) > 0 || len(cl.Elts) != 5 {
			return true
		}
		for _, e := range cl.Elts {
			x := types.ExprString(unwrapConv(e))
			switch {
			case strings.HasSuffix(x, ".NumGates"):
				hdr = append(hdr, "NumGates")
			case strings.HasSuffix(x, ".NumWires"):
				hdr = append(hdr, "NumWires")
			case strings.Contains(x, "Inputs"):
				hdr = append(hdr, "NumInputs")
			case strings.Contains(x, "Outputs"):
				hdr = append(hdr, "NumOutputs")
			default:
				hdr = append(hdr, "Magic")
			}
		}
		return true
	})
	var decl []string
	inspectWithHelpers(p, pkg, fdP, func(n ast.Node) bool {
		if st, ok := n.(*ast.StructType); ok && len(decl) == 0 && len(st.Fields.List) == 5 {
			for _, f := range st.Fields.List {
				for _, nm := range f.Names {
					decl = append(decl, nm.Name)
				}
			}
		}
		return true
	})
	// the variable of that struct type
	hdrVar := ""
	inspectWithHelpers(p, pkg, fdP, func(n ast.Node) bool {
		if vs, ok := n.(*ast.ValueSpec); ok && hdrVar == "" && len(vs.Names) == 1 {
			if st, ok := vs.Type.(*ast.StructType); ok && len(st.Fields.List) == 5 {
				hdrVar = vs.Names[0].Name
			}
		}
		return true
	})
	uses := map[string]string{} // Circuit field -> header field
	inspectWithHelpers(p, pkg, fdP, func(n ast.Node) bool {
		if cl, ok := n.(*ast.CompositeLit); ok && strings.HasSuffix(types.ExprString(cl.Type), "Circuit") {
			for _, e := range cl.Elts {
				if kv, ok := e.(*ast.KeyValueExpr); ok {
					v := types.ExprString(unwrapConv(kv.Value))
					if hdrVar != "" && strings.HasPrefix(v, hdrVar+".") {
						uses[types.ExprString(kv.Key)] = strings.TrimPrefix(v, hdrVar+".")
					}
				}
			}
		}
		return true
	})
	switch {
	case len(hdr) != 5 || len(decl) != 5:
		run.Undecided("header-field-order", "circuit.Marshal/ParseMPCLC/header", "", "header literal or header struct not found")
	case fmt.Sprint(hdr) != fmt.Sprint(decl):
		run.Violate("header-field-order", "circuit.Marshal/ParseMPCLC/header", p.Rel(fdM.Pos()), fmt.Sprintf("written as %v, read as %v", hdr, decl), nil)
	case uses["NumGates"] != "NumGates" || uses["NumWires"] != "NumWires":
		run.Violate("header-field-order", "circuit.Marshal/ParseMPCLC/header", p.Rel(fdP.Pos()), fmt.Sprintf("the circuit is built from %v", uses), nil)
	default:
		run.OK("header-field-order", "circuit.Marshal/ParseMPCLC/header", p.Rel(fdM.Pos()), fmt.Sprint(hdr))
	}
}

func unwrapConv(e ast.Expr) ast.Expr {
	for {
		c, ok := ast.Unparen(e).(*ast.CallExpr)
		if !ok || len(c.Args) != 1 {
			return e
		}
		e = c.Args[0]
	}
}

// inspectWithHelpers walks the body of fd and the bodies of the functions of the same package it calls
// (two levels): where a maintainer moved the per-gate switch of a codec function into a helper, the rule
// still finds it.
func inspectWithHelpers(p *load.Program, pkg *packages.Package, fd *ast.FuncDecl, f func(ast.Node) bool) {
	ast.Inspect(fd.Body, f)
	for _, ref := range calleeDecls(p, pkg, fd, 2) {
		if ref.pkg == pkg {
			ast.Inspect(ref.fd.Body, f)
		}
	}
}
