package props

import (
	"go/ast"
	"go/types"
	"strings"

	"golang.org/x/tools/go/packages"

	"mpcverif/internal/codec"
	"mpcverif/internal/dispatch"
	"mpcverif/internal/load"
	"mpcverif/internal/proto"
	"mpcverif/internal/report"
)

func basicEvent(t types.Type, dir string) []string {
	if p, ok := t.(*types.Pointer); ok {
		t = p.Elem()
	}
	switch u := t.Underlying().(type) {
	case *types.Basic:
		switch u.Kind() {
		case types.Uint8:
			return []string{dir + "U8"}
		case types.Uint16:
			return []string{dir + "U16"}
		case types.Uint32:
			return []string{dir + "U32"}
		case types.Uint64:
			return []string{dir + "U64"}
		}
	case *types.Struct:
		var out []string
		for i := 0; i < u.NumFields(); i++ {
			out = append(out, basicEvent(u.Field(i).Type(), dir)...)
		}
		return out
	}
	return []string{dir + "?" + t.String()}
}

// accumulators: the []byte expressions of a package that are appended to in place (`B = append(B, ...)`,
// `B = bo.AppendUint32(B, ...)`): scratch buffers of an encoder.  Writing such a buffer out is a flush of
// fields already counted at the appends, not a field of its own.
var accumulatorsMemo = map[*packages.Package]map[string]bool{}

func accumulators(pkg *packages.Package) map[string]bool {
	if m, ok := accumulatorsMemo[pkg]; ok {
		return m
	}
	m := map[string]bool{}
	for _, f := range pkg.Syntax {
		ast.Inspect(f, func(n ast.Node) bool {
			as, ok := n.(*ast.AssignStmt)
			if !ok || len(as.Lhs) != 1 || len(as.Rhs) != 1 {
				return true
			}
			call, ok := as.Rhs[0].(*ast.CallExpr)
			if !ok || len(call.Args) == 0 {
				return true
			}
			name := types.ExprString(call.Fun)
			if name != "append" && !strings.Contains(name, ".AppendUint") {
				return true
			}
			if t := pkg.TypesInfo.TypeOf(as.Lhs[0]); t == nil || t.Underlying().String() != "[]byte" {
				return true
			}
			if types.ExprString(as.Lhs[0]) == types.ExprString(call.Args[0]) {
				m[types.ExprString(as.Lhs[0])] = true
			}
			return true
		})
	}
	accumulatorsMemo[pkg] = m
	return m
}

// mpclcEvents recognises the primitive writes/reads of the MPCLC codec.
func mpclcEvents(pkg *packages.Package, call *ast.CallExpr) ([]string, bool) {
	name := types.ExprString(call.Fun)
	isBytes := func(e ast.Expr) bool {
		t := pkg.TypesInfo.TypeOf(e)
		return t != nil && t.Underlying().String() == "[]byte"
	}
	switch {
	case name == "binary.Write" && len(call.Args) == 3:
		// the value is either typed directly or an element of a []interface{} literal (handled by the range over data)
		t := pkg.TypesInfo.TypeOf(call.Args[2])
		if t != nil {
			if _, isIface := t.Underlying().(*types.Interface); isIface {
				return []string{"!ELEM"}, true
			}
			return basicEvent(t, "!"), true
		}
	case name == "binary.Read" && len(call.Args) == 3:
		if t := pkg.TypesInfo.TypeOf(call.Args[2]); t != nil {
			return basicEvent(t, "?"), true
		}
	case strings.HasSuffix(name, ".AppendUint16") && len(call.Args) == 2 && accumulators(pkg)[types.ExprString(call.Args[0])]:
		return []string{"!U16"}, true
	case strings.HasSuffix(name, ".AppendUint32") && len(call.Args) == 2 && accumulators(pkg)[types.ExprString(call.Args[0])]:
		return []string{"!U32"}, true
	case strings.HasSuffix(name, ".AppendUint64") && len(call.Args) == 2 && accumulators(pkg)[types.ExprString(call.Args[0])]:
		return []string{"!U64"}, true
	case name == "append" && len(call.Args) >= 2 && isBytes(call.Args[0]) && accumulators(pkg)[types.ExprString(call.Args[0])]:
		if call.Ellipsis.IsValid() {
			return []string{"!Bytes"}, true
		}
		var out []string
		for range call.Args[1:] {
			out = append(out, "!U8")
		}
		return out, true
	case strings.HasSuffix(name, ".ReadByte") && len(call.Args) == 0:
		return []string{"?U8"}, true
	case strings.HasSuffix(name, ".Write") && len(call.Args) == 1 && isBytes(call.Args[0]):
		if accumulators(pkg)[types.ExprString(call.Args[0])] {
			return nil, true // flush of the scratch buffer
		}
		return []string{"!Bytes"}, true
	case name == "io.WriteString" && len(call.Args) == 2:
		return []string{"!Bytes"}, true
	case name == "io.ReadFull" && len(call.Args) == 2:
		// a fixed-size scratch array read in full is an integer field of that width
		if sl, ok := ast.Unparen(call.Args[1]).(*ast.SliceExpr); ok && sl.Low == nil && sl.High == nil {
			if t := pkg.TypesInfo.TypeOf(sl.X); t != nil {
				if arr, ok := t.Underlying().(*types.Array); ok {
					switch arr.Len() {
					case 1:
						return []string{"?U8"}, true
					case 2:
						return []string{"?U16"}, true
					case 4:
						return []string{"?U32"}, true
					case 8:
						return []string{"?U64"}, true
					}
				}
			}
		}
		return []string{"?Bytes"}, true
	case name == "r.Read":
		return []string{"?Bytes"}, true
	case strings.HasPrefix(name, "fmt."), strings.HasPrefix(name, "types."), strings.HasPrefix(name, "wiresSeen."):
		return nil, true
	}
	return nil, false
}

// ifaceLiteral: a []interface{} literal whose elements are written by a following
// `for _, v := range data { binary.Write(out, bo, v) }`: the typed sequence is
// emitted at the literal (no events lie between the literal and the loop).
func ifaceLiteral(pkg *packages.Package, lit *ast.CompositeLit) []string {
	at, ok := lit.Type.(*ast.ArrayType)
	if !ok || types.ExprString(at.Elt) != "interface{}" {
		return nil
	}
	var seq []string
	for _, e := range lit.Elts {
		seq = append(seq, basicEvent(pkg.TypesInfo.TypeOf(e), "!")...)
	}
	return seq
}

// C14codec compares the field sequences of Marshal and ParseMPCLC.
func C14codec(p *load.Program, run *report.Run) {
	run.Rule("mpclc-field-agreement", "the field sequence written by Circuit.Marshal (marshalIOArg, marshalString) equals the sequence read by ParseMPCLC (parseIOArg, parseString)")
	pkg, marshal := dispatch.FindFunc(p, "circuit", "Circuit", "Marshal")
	_, parse := dispatch.FindFunc(p, "circuit", "", "ParseMPCLC")
	if marshal == nil || parse == nil {
		run.Undecided("mpclc-field-agreement", "circuit.Marshal/ParseMPCLC", "", "function not found")
		return
	}
	ev := func(pk *packages.Package, call *ast.CallExpr) ([]string, bool) {
		evs, handled := mpclcEvents(pk, call)
		if len(evs) == 1 && evs[0] == "!ELEM" {
			return nil, true // element of an interface literal: emitted at the literal
		}
		return evs, handled
	}
	w := codec.NewBuilder(p, ev)
	w.Literal = ifaceLiteral
	wn := w.Automaton(pkg, marshal)
	r := codec.NewBuilder(p, ev)
	rn := r.Automaton(pkg, parse)
	run.Count("codec-sites", w.Sites+r.Sites)
	key := "circuit.Circuit.Marshal <-> circuit.ParseMPCLC"
	// a variable-length byte field may be empty: the reader skips it for length 0
	opt := func(s string) bool { return strings.HasSuffix(s, "Bytes") }
	ok, trace, why := proto.Equivalent(proto.Optional(wn, opt), proto.Optional(rn, opt), map[string]string{"parseIOArg": "marshalIOArg"})
	if len(trace) > 14 {
		trace = append([]string{"..."}, trace[len(trace)-14:]...)
	}
	if ok {
		run.OK("mpclc-field-agreement", key, p.Rel(marshal.Pos()), "")
	} else {
		run.Violate("mpclc-field-agreement", key, p.Rel(marshal.Pos())+" / "+p.Rel(parse.Pos()), why, map[string]any{"after": trace})
	}
	run.Floor("codec-sites", 20)
}
