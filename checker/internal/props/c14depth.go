package props

import (
	"fmt"
	"go/token"
	"go/types"
	"strings"

	"golang.org/x/tools/go/ssa"

	"mpcverif/internal/load"
	"mpcverif/internal/report"
)

// C14depth: the recursive parts of the circuit-file parsers bound their depth.
//
// The nesting of an argument's compound members and of the array prefixes of a
// type text is chosen by the file.  A parser that recurses once per level with
// no bound can be driven as deep as the file is long: types.Parse re-runs two
// regular expressions over the remaining text at every level (24 KB of "[1]"
// took 3.3 s, growth above quadratic: a 1 MB type text within the property's
// premise is a hang) and parseIOArg overflows the stack.  Every function of
// circuit/parser.go and types/parse.go that calls itself must carry an integer
// parameter that it compares with a constant and passes on increased.
func C14depth(p *load.Program, run *report.Run) {
	run.Rule("recursive-parsers-depth-bounded", "every self-recursive function of the circuit and types packages reachable from ParseMPCLC/ParseBristol/types.Parse has an integer parameter that is compared with a constant and that every recursive call passes as parameter + positive constant — or keeps the depth in an integer field of its pointer receiver that is compared with a constant on a branch ending in an error and incremented before every recursive call")
	var roots []*ssa.Function
	for _, r := range [][2]string{{"circuit", "ParseMPCLC"}, {"circuit", "ParseBristol"}, {"types", "Parse"}, {"circuit", "Parse"}} {
		if f, err := p.Func(r[0], r[1]); err == nil {
			roots = append(roots, f)
		}
	}
	if len(roots) < 3 {
		run.Undecided("recursive-parsers-depth-bounded", "parsers", "", "entry points not found")
		return
	}
	reach := p.ModuleReach(roots...)
	for fn := range reach {
		if fn.Blocks == nil || fn.Pkg == nil {
			continue
		}
		path := fn.Pkg.Pkg.Path()
		if path != load.Module+"/circuit" && path != load.Module+"/types" {
			continue
		}
		var rec []*ssa.Call
		for _, b := range fn.Blocks {
			for _, ins := range b.Instrs {
				if c, ok := ins.(*ssa.Call); ok && c.Call.StaticCallee() == fn {
					rec = append(rec, c)
				}
			}
		}
		// recursion through one helper of the package: fn -> g -> fn.  The depth travels through g: fn hands
		// g its depth parameter (or that plus a constant), g hands it back plus a constant
		type viaT struct {
			out  *ssa.Call // fn's call of g
			back *ssa.Call // g's call of fn
		}
		var via []viaT
		if len(rec) == 0 {
			for _, b := range fn.Blocks {
				for _, ins := range b.Instrs {
					c, ok := ins.(*ssa.Call)
					if !ok {
						continue
					}
					g := c.Call.StaticCallee()
					if g == nil || g == fn || g.Blocks == nil || g.Pkg != fn.Pkg {
						continue
					}
					for _, gb := range g.Blocks {
						for _, gi := range gb.Instrs {
							if bc, ok := gi.(*ssa.Call); ok && bc.Call.StaticCallee() == fn {
								via = append(via, viaT{c, bc})
							}
						}
					}
				}
			}
		}
		if len(rec) == 0 && len(via) == 0 {
			continue
		}
		run.Count("recursive-parser-functions", 1)
		if len(rec) == 0 {
			name := strings.ReplaceAll(fn.RelString(nil), load.Module+"/", "")
			okVia := false
			for pi, prm := range fn.Params {
				if b, isB := prm.Type().Underlying().(*types.Basic); !isB || b.Info()&types.IsInteger == 0 {
					continue
				}
				compared := false
				for _, r := range *prm.Referrers() {
					if bo, isBO := r.(*ssa.BinOp); isBO && (bo.Op == token.GTR || bo.Op == token.GEQ || bo.Op == token.LSS || bo.Op == token.LEQ) {
						_, c1 := bo.Y.(*ssa.Const)
						_, c2 := bo.X.(*ssa.Const)
						if c1 && bo.X == ssa.Value(prm) || c2 && bo.Y == ssa.Value(prm) {
							compared = true
						}
					}
				}
				cmpConst := func(x *ssa.Parameter) bool {
					if x.Referrers() == nil {
						return false
					}
					for _, r := range *x.Referrers() {
						if bo, isBO := r.(*ssa.BinOp); isBO && (bo.Op == token.GTR || bo.Op == token.GEQ || bo.Op == token.LSS || bo.Op == token.LEQ) {
							_, c1 := bo.Y.(*ssa.Const)
							_, c2 := bo.X.(*ssa.Const)
							if c1 && bo.X == ssa.Value(x) || c2 && bo.Y == ssa.Value(x) {
								return true
							}
						}
					}
					return false
				}
				plus := func(v, base ssa.Value) (int64, bool) {
					if v == base {
						return 0, true
					}
					if bo, ok := v.(*ssa.BinOp); ok && bo.Op == token.ADD && bo.X == base {
						if k, ok := bo.Y.(*ssa.Const); ok && k.Value != nil {
							return k.Int64(), true
						}
					}
					return 0, false
				}
				all := true
				for _, v := range via {
					g := v.out.Call.StaticCallee()
					total, found := int64(0), false
					for gi, a := range v.out.Call.Args {
						k1, ok1 := plus(a, prm)
						if !ok1 || gi >= len(g.Params) || pi >= len(v.back.Call.Args) {
							continue
						}
						k2, ok2 := plus(v.back.Call.Args[pi], g.Params[gi])
						// the bound may sit in either function of the cycle
						if ok2 && k1 >= 0 && k2 >= 0 && (compared || cmpConst(g.Params[gi])) {
							total, found = k1+k2, true
						}
					}
					if !found || total <= 0 {
						all = false
					}
				}
				if all {
					okVia = true
				}
			}
			if okVia {
				run.OK("recursive-parsers-depth-bounded", name, p.Rel(fn.Pos()), "recursion through a helper: the depth parameter is compared with a constant and grows around the cycle")
			} else {
				run.Violate("recursive-parsers-depth-bounded", name, p.Rel(fn.Pos()), "the function calls itself through a helper without a depth that is compared with a constant and grows around the cycle: nesting in the input is unbounded", nil)
			}
			continue
		}
		name := strings.ReplaceAll(fn.RelString(nil), load.Module+"/", "")
		ok := false
		for pi, prm := range fn.Params {
			if b, isB := prm.Type().Underlying().(*types.Basic); !isB || b.Info()&types.IsInteger == 0 {
				continue
			}
			compared := false
			for _, r := range *prm.Referrers() {
				if bo, isBO := r.(*ssa.BinOp); isBO {
					switch bo.Op {
					case token.GTR, token.GEQ, token.LSS, token.LEQ:
						if _, isC := bo.Y.(*ssa.Const); isC && bo.X == ssa.Value(prm) {
							compared = true
						}
						if _, isC := bo.X.(*ssa.Const); isC && bo.Y == ssa.Value(prm) {
							compared = true
						}
					}
				}
			}
			if !compared {
				continue
			}
			all := true
			for _, c := range rec {
				arg := c.Call.Args[pi]
				bo, isBO := arg.(*ssa.BinOp)
				if !isBO || bo.Op != token.ADD || bo.X != ssa.Value(prm) {
					all = false
					continue
				}
				k, isC := bo.Y.(*ssa.Const)
				if !isC || k.Int64() <= 0 {
					all = false
				}
			}
			if all {
				ok = true
			}
		}
		if !ok && fn.Signature.Recv() != nil && len(fn.Params) > 0 {
			// the depth is kept in an integer field of the pointer receiver: compared with a constant on a
			// branch that ends in an error, and incremented before every recursive call
			type fk struct{ field int }
			fieldOf := func(v ssa.Value) (int, bool) {
				ld, isLd := v.(*ssa.UnOp)
				if !isLd || ld.Op != token.MUL {
					return 0, false
				}
				fa, isFA := ld.X.(*ssa.FieldAddr)
				if !isFA || fa.X != ssa.Value(fn.Params[0]) {
					return 0, false
				}
				if b, isB := ld.Type().Underlying().(*types.Basic); !isB || b.Info()&types.IsInteger == 0 {
					return 0, false
				}
				return fa.Field, true
			}
			bounded := map[int]bool{}
			for _, b := range fn.Blocks {
				iff, isIf := b.Instrs[len(b.Instrs)-1].(*ssa.If)
				if !isIf {
					continue
				}
				bo, isBO := iff.Cond.(*ssa.BinOp)
				if !isBO {
					continue
				}
				switch bo.Op {
				case token.GTR, token.GEQ, token.LSS, token.LEQ:
				default:
					continue
				}
				for _, side := range [][2]ssa.Value{{bo.X, bo.Y}, {bo.Y, bo.X}} {
					f, isF := fieldOf(side[0])
					if _, isC := side[1].(*ssa.Const); isF && isC && (errorExit(b.Succs[0]) || errorExit(b.Succs[1])) {
						bounded[f] = true
					}
				}
			}
			unbalanced := false
			for f := range bounded {
				all := true
				for _, c := range rec {
					inc := false
					for _, x := range fn.Blocks {
						for _, ins := range x.Instrs {
							st, isSt := ins.(*ssa.Store)
							if !isSt {
								continue
							}
							fa, isFA := st.Addr.(*ssa.FieldAddr)
							if !isFA || fa.X != ssa.Value(fn.Params[0]) || fa.Field != f {
								continue
							}
							add, isAdd := st.Val.(*ssa.BinOp)
							if !isAdd || add.Op != token.ADD {
								continue
							}
							k, isC := add.Y.(*ssa.Const)
							if g, isF := fieldOf(add.X); !isF || g != f || !isC || k.Int64() <= 0 {
								continue
							}
							if (x == c.Block() && instrIndex(st) < instrIndex(c)) || (x != c.Block() && x.Dominates(c.Block())) {
								inc = true
								// the level is given back: no successful return is reachable from the increment
								// without a decrement of the same field (a sibling argument is not one level deeper)
								if !depthRestored(fn, st, f) {
									unbalanced = true
								}
							}
						}
					}
					if !inc {
						all = false
					}
				}
				if all {
					ok = true
				}
			}
			if ok && unbalanced {
				run.Violate("recursive-parsers-depth-bounded", name+"/restore", p.Rel(fn.Pos()), "the nesting depth kept in the receiver is incremented for the members of an argument and not decremented again on the way to a successful return: every compound argument makes all later arguments look one level deeper, and a valid file with enough of them is rejected", nil)
				continue
			}
		}
		if ok {
			run.OK("recursive-parsers-depth-bounded", name, p.Rel(fn.Pos()), fmt.Sprintf("%d recursive call(s) pass the depth on", len(rec)))
		} else {
			run.Violate("recursive-parsers-depth-bounded", name, p.Rel(fn.Pos()), "the function calls itself once per nesting level chosen by the file and has no depth bound: a long chain of levels makes the parser hang (work per level grows with the remaining text) or overflow the stack instead of returning an error", nil)
		}
	}
	run.Floor("recursive-parser-functions", 1)
}

// depthRestored: from the increment inc of receiver field f, every path to a successful return passes a
// store that decrements the same field.
func depthRestored(fn *ssa.Function, inc *ssa.Store, f int) bool {
	isDec := func(ins ssa.Instruction) bool {
		st, ok := ins.(*ssa.Store)
		if !ok {
			return false
		}
		fa, ok := st.Addr.(*ssa.FieldAddr)
		if !ok || fa.X != ssa.Value(fn.Params[0]) || fa.Field != f {
			return false
		}
		bo, ok := st.Val.(*ssa.BinOp)
		if !ok {
			return false
		}
		k, isC := bo.Y.(*ssa.Const)
		if !isC || k.Value == nil {
			return false
		}
		return (bo.Op == token.SUB && k.Int64() > 0) || (bo.Op == token.ADD && k.Int64() < 0)
	}
	success := map[*ssa.BasicBlock]bool{}
	for _, b := range successBlocks(fn) {
		success[b] = true
	}
	seen := map[*ssa.BasicBlock]bool{}
	var walk func(b *ssa.BasicBlock, from int) bool
	walk = func(b *ssa.BasicBlock, from int) bool {
		for i := from; i < len(b.Instrs); i++ {
			if isDec(b.Instrs[i]) {
				return true
			}
		}
		if success[b] {
			return false
		}
		for _, s := range b.Succs {
			if seen[s] {
				continue
			}
			seen[s] = true
			if !walk(s, 0) {
				return false
			}
		}
		return true
	}
	return walk(inc.Block(), instrIndex(inc)+1)
}
