package props

import (
	"fmt"
	"go/token"
	"go/types"
	"strings"

	"golang.org/x/tools/go/ssa"

	"mpcverif/internal/load"
	"mpcverif/internal/report"
)

// C14depth: the recursive parts of the circuit-file parsers bound their depth.
//
// The nesting of an argument's compound members and of the array prefixes of a
// type text is chosen by the file.  A parser that recurses once per level with
// no bound can be driven as deep as the file is long: types.Parse re-runs two
// regular expressions over the remaining text at every level (24 KB of "[1]"
// took 3.3 s, growth above quadratic: a 1 MB type text within the property's
// premise is a hang) and parseIOArg overflows the stack.  Every function of
// circuit/parser.go and types/parse.go that calls itself must carry an integer
// parameter that it compares with a constant and passes on increased.
func C14depth(p *load.Program, run *report.Run) {
	run.Rule("recursive-parsers-depth-bounded", "every self-recursive function of the circuit and types packages reachable from ParseMPCLC/ParseBristol/types.Parse has an integer parameter that is compared with a constant and that every recursive call passes as parameter + positive constant")
	var roots []*ssa.Function
	for _, r := range [][2]string{{"circuit", "ParseMPCLC"}, {"circuit", "ParseBristol"}, {"types", "Parse"}, {"circuit", "Parse"}} {
		if f, err := p.Func(r[0], r[1]); err == nil {
			roots = append(roots, f)
		}
	}
	if len(roots) < 3 {
		run.Undecided("recursive-parsers-depth-bounded", "parsers", "", "entry points not found")
		return
	}
	reach := p.ModuleReach(roots...)
	for fn := range reach {
		if fn.Blocks == nil || fn.Pkg == nil {
			continue
		}
		path := fn.Pkg.Pkg.Path()
		if path != load.Module+"/circuit" && path != load.Module+"/types" {
			continue
		}
		var rec []*ssa.Call
		for _, b := range fn.Blocks {
			for _, ins := range b.Instrs {
				if c, ok := ins.(*ssa.Call); ok && c.Call.StaticCallee() == fn {
					rec = append(rec, c)
				}
			}
		}
		if len(rec) == 0 {
			continue
		}
		run.Count("recursive-parser-functions", 1)
		name := strings.ReplaceAll(fn.RelString(nil), load.Module+"/", "")
		ok := false
		for pi, prm := range fn.Params {
			if b, isB := prm.Type().Underlying().(*types.Basic); !isB || b.Info()&types.IsInteger == 0 {
				continue
			}
			compared := false
			for _, r := range *prm.Referrers() {
				if bo, isBO := r.(*ssa.BinOp); isBO {
					switch bo.Op {
					case token.GTR, token.GEQ, token.LSS, token.LEQ:
						if _, isC := bo.Y.(*ssa.Const); isC && bo.X == ssa.Value(prm) {
							compared = true
						}
						if _, isC := bo.X.(*ssa.Const); isC && bo.Y == ssa.Value(prm) {
							compared = true
						}
					}
				}
			}
			if !compared {
				continue
			}
			all := true
			for _, c := range rec {
				arg := c.Call.Args[pi]
				bo, isBO := arg.(*ssa.BinOp)
				if !isBO || bo.Op != token.ADD || bo.X != ssa.Value(prm) {
					all = false
					continue
				}
				k, isC := bo.Y.(*ssa.Const)
				if !isC || k.Int64() <= 0 {
					all = false
				}
			}
			if all {
				ok = true
			}
		}
		if ok {
			run.OK("recursive-parsers-depth-bounded", name, p.Rel(fn.Pos()), fmt.Sprintf("%d recursive call(s) pass the depth on", len(rec)))
		} else {
			run.Violate("recursive-parsers-depth-bounded", name, p.Rel(fn.Pos()), "the function calls itself once per nesting level chosen by the file and has no depth bound: a long chain of levels makes the parser hang (work per level grows with the remaining text) or overflow the stack instead of returning an error", nil)
		}
	}
	run.Floor("recursive-parser-functions", 2)
}
