package props

import (
	"fmt"
	"go/ast"
	"go/types"
	"strings"

	"mpcverif/internal/dispatch"
	"mpcverif/internal/load"
	"mpcverif/internal/report"
)

// C14seenContract: the seen-wire table does what the parsers rely on, whatever it is made of.
//
// Both parsers validate a file through one small abstraction: a table over the wires with Get(w) (is w
// assigned? error if w is not a wire) and Set(w) (assign w; error if w is not a wire or is assigned
// already).  The structural rules (checked-table-access, single-assignment) read a slice of booleans; a
// table rewritten as a bit set is a different text with the same contract.  The contract is decided by
// interpreting the constructor expression the parser uses and the methods' source on small tables
// (1..5 and 63..66 wires): on a fresh table Get(i) is (false, nil) below the size and an error from the
// size on; Set(i) succeeds once below the size, errs from the size on and errs the second time; after
// Set(i), Get(i) is true and every other wire is unchanged.
func C14seenContract(p *load.Program, run *report.Run) {
	const rule = "seen-table-contract"
	run.Rule(rule, "circuit.Seen, built by the expression ParseMPCLC builds it with and interpreted from the source of its Get and Set methods for 1..5 and 63..66 wires: Get(i) = (false, nil) for i < n and an error for i >= n on a fresh table; Set(i) returns nil once for i < n, an error for i >= n and an error when repeated; after Set(i), Get(i) = (true, nil) and Get(j) is unchanged for j != i")
	pkg, parse := dispatch.FindFunc(p, "circuit", "", "ParseMPCLC")
	if parse == nil {
		run.Undecided(rule, "circuit.ParseMPCLC", "", "function not found")
		return
	}
	info := pkg.TypesInfo
	isSeen := func(t types.Type) bool {
		if pt, ok := t.(*types.Pointer); ok {
			t = pt.Elem()
		}
		n, ok := t.(*types.Named)
		return ok && n.Obj().Name() == "Seen" && n.Obj().Pkg() != nil && n.Obj().Pkg().Path() == load.Module+"/circuit"
	}
	// the constructor: the right-hand side of the assignment that defines the table in the parser
	var ctor ast.Expr
	ast.Inspect(parse.Body, func(n ast.Node) bool {
		as, ok := n.(*ast.AssignStmt)
		if !ok || len(as.Lhs) != 1 || len(as.Rhs) != 1 || ctor != nil {
			return true
		}
		if t := info.TypeOf(as.Lhs[0]); t != nil && isSeen(t) {
			ctor = as.Rhs[0]
		}
		return true
	})
	if ctor == nil {
		run.Undecided(rule, "circuit.ParseMPCLC", p.Rel(parse.Pos()), "the parser creates no Seen table")
		return
	}
	// the size operand of the constructor: the expression that mentions NumWires
	sizeText := ""
	ast.Inspect(ctor, func(n ast.Node) bool {
		if sel, ok := n.(*ast.SelectorExpr); ok && strings.HasSuffix(cx(sel), "NumWires") && sizeText == "" {
			sizeText = cx(sel)
		}
		return true
	})
	if sizeText == "" {
		run.Undecided(rule, "circuit.ParseMPCLC", p.Rel(ctor.Pos()), "the table is not sized by the number of wires")
		return
	}
	decls := map[string]*ast.FuncDecl{}
	methods := map[string]*ast.FuncDecl{}
	for _, f := range pkg.Syntax {
		for _, d := range f.Decls {
			fd, ok := d.(*ast.FuncDecl)
			if !ok || fd.Body == nil {
				continue
			}
			if fd.Recv == nil {
				decls[fd.Name.Name] = fd
			} else if len(fd.Recv.List) == 1 && isSeen(info.TypeOf(fd.Recv.List[0].Type)) {
				methods[fd.Name.Name] = fd
			}
		}
	}
	if methods["Get"] == nil || methods["Set"] == nil {
		run.Undecided(rule, "circuit.Seen", "", "methods Get and Set not found")
		return
	}
	var hook func(w *wInterp) func(name string, c *ast.CallExpr) (wv, bool)
	callDecl := func(w *wInterp, fd *ast.FuncDecl, recv wv, args []wv) (wOutcome, string) {
		sub := &wInterp{pkg: pkg, zeroInts: true, objects: w.objects + 100}
		sub.env = append(sub.env, w.env[0]) // objects are shared
		sub.hook = hook(sub)
		sub.push()
		if fd.Recv != nil && len(fd.Recv.List[0].Names) == 1 {
			sub.set(fd.Recv.List[0].Names[0].Name, recv, true)
		}
		i := 0
		for _, fl := range fd.Type.Params.List {
			for _, nm := range fl.Names {
				if i < len(args) {
					sub.set(nm.Name, args[i], true)
				}
				i++
			}
		}
		o := sub.stmts(fd.Body.List)
		w.objects = sub.objects
		return o, sub.fail
	}
	hook = func(w *wInterp) func(name string, c *ast.CallExpr) (wv, bool) {
		return func(name string, c *ast.CallExpr) (wv, bool) {
			if fd := decls[name]; fd != nil {
				if _, isIdent := c.Fun.(*ast.Ident); isIdent {
					var args []wv
					for _, a := range c.Args {
						args = append(args, w.expr(a))
					}
					o, fail := callDecl(w, fd, nil, args)
					if fail != "" {
						return w.bad("%s: %s", name, fail), true
					}
					if len(o.vals) == 1 {
						return o.vals[0], true
					}
					return wtuple(o.vals), true
				}
			}
			if name == "Errorf" || name == "New" {
				return "error", true
			}
			return nil, false
		}
	}
	bad := ""
	sizes := 0
	for _, n := range []int{1, 2, 3, 5, 63, 64, 65, 66} {
		if bad != "" {
			break
		}
		sizes++
		w := &wInterp{pkg: pkg, zeroInts: true}
		w.push()
		w.hook = hook(w)
		w.set(sizeText, int64(n), true)
		table := w.expr(ctor)
		if w.fail != "" {
			bad = fmt.Sprintf("%d wires: the constructor was not interpreted: %s", n, w.fail)
			break
		}
		get := func(i int) (wv, bool, string) {
			o, fail := callDecl(w, methods["Get"], table, []wv{int64(i)})
			if fail != "" {
				return nil, false, fail
			}
			if o.kind != "return" || len(o.vals) != 2 {
				return nil, false, "Get does not return (bool, error)"
			}
			return o.vals[0], o.vals[1] != nil, ""
		}
		set := func(i int) (bool, string) {
			o, fail := callDecl(w, methods["Set"], table, []wv{int64(i)})
			if fail != "" {
				return false, fail
			}
			if o.kind != "return" || len(o.vals) != 1 {
				return false, "Set does not return an error"
			}
			return o.vals[0] != nil, ""
		}
		probe := []int{0, 1, n - 1, n, n + 1, n + 64}
		for _, i := range probe {
			if i < 0 {
				continue
			}
			v, isErr, fail := get(i)
			switch {
			case fail != "":
				bad = fmt.Sprintf("%d wires: Get(%d) was not interpreted: %s", n, i, fail)
			case i < n && (isErr || v != wv(false)):
				bad = fmt.Sprintf("%d wires: Get(%d) on a fresh table gives (%v, error=%v), expected (false, nil)", n, i, v, isErr)
			case i >= n && !isErr:
				bad = fmt.Sprintf("%d wires: Get(%d) on a fresh table gives no error for a wire past the end", n, i)
			}
			if bad != "" {
				break
			}
		}
		for _, i := range probe {
			if bad != "" || i < 0 {
				continue
			}
			isErr, fail := set(i)
			switch {
			case fail != "":
				bad = fmt.Sprintf("%d wires: Set(%d) was not interpreted: %s", n, i, fail)
			case i < n && isErr && !(i == 1 && n == 1):
				// probes may repeat an index (0 and n-1 for n = 1): the first Set of an index must succeed
				first := true
				for _, j := range probe {
					if j == i {
						break
					}
					_ = j
				}
				if first && !seenBefore(probe, i) {
					bad = fmt.Sprintf("%d wires: the first Set(%d) returns an error", n, i)
				}
			case i >= n && !isErr:
				bad = fmt.Sprintf("%d wires: Set(%d) gives no error for a wire past the end", n, i)
			}
			if bad != "" || i >= n {
				continue
			}
			if isErr2, _ := set(i); !isErr2 {
				bad = fmt.Sprintf("%d wires: a second Set(%d) gives no error: a wire can be assigned twice", n, i)
				continue
			}
			v, isErr3, _ := get(i)
			if isErr3 || v != wv(true) {
				bad = fmt.Sprintf("%d wires: after Set(%d), Get(%d) gives (%v, error=%v)", n, i, i, v, isErr3)
			}
		}
		// untouched wires stay unseen
		if bad == "" && n >= 3 {
			if v, isErr, _ := get(n - 2); n-2 != 0 && n-2 != 1 && (isErr || v != wv(false)) {
				bad = fmt.Sprintf("%d wires: wire %d reads as assigned although only %v were set", n, n-2, []int{0, 1, n - 1})
			}
		}
	}
	run.Count("seen-table-sizes", sizes)
	if bad != "" {
		run.Violate(rule, "circuit.Seen", p.Rel(methods["Set"].Pos()), bad, nil)
	} else {
		run.OK(rule, "circuit.Seen", p.Rel(methods["Set"].Pos()), fmt.Sprintf("%d table sizes", sizes))
	}
	run.Floor("seen-table-sizes", 8)
}

func seenBefore(probe []int, i int) bool {
	n := 0
	for _, j := range probe {
		if j == i {
			n++
		}
	}
	return n > 1
}

// seenScan interprets a parameterless method of circuit.Seen that reports whether some wire is still
// unassigned (`Unseen() (Wire, bool)`): its boolean result on a fresh table and on a table with every wire
// set, for 3 and 65 wires.  why is non-empty when the method could not be interpreted.
func seenScan(p *load.Program, method string) (fresh, full []wv, why string) {
	pkg, parse := dispatch.FindFunc(p, "circuit", "", "ParseMPCLC")
	if parse == nil {
		return nil, nil, "ParseMPCLC not found"
	}
	info := pkg.TypesInfo
	isSeen := func(t types.Type) bool {
		if pt, ok := t.(*types.Pointer); ok {
			t = pt.Elem()
		}
		n, ok := t.(*types.Named)
		return ok && n.Obj().Name() == "Seen" && n.Obj().Pkg() != nil && n.Obj().Pkg().Path() == load.Module+"/circuit"
	}
	var ctor ast.Expr
	ast.Inspect(parse.Body, func(n ast.Node) bool {
		as, ok := n.(*ast.AssignStmt)
		if !ok || len(as.Lhs) != 1 || len(as.Rhs) != 1 || ctor != nil {
			return true
		}
		if t := info.TypeOf(as.Lhs[0]); t != nil && isSeen(t) {
			ctor = as.Rhs[0]
		}
		return true
	})
	if ctor == nil {
		return nil, nil, "no table constructor"
	}
	sizeText := ""
	ast.Inspect(ctor, func(n ast.Node) bool {
		if sel, ok := n.(*ast.SelectorExpr); ok && strings.HasSuffix(cx(sel), "NumWires") && sizeText == "" {
			sizeText = cx(sel)
		}
		return true
	})
	decls := map[string]*ast.FuncDecl{}
	methods := map[string]*ast.FuncDecl{}
	for _, f := range pkg.Syntax {
		for _, d := range f.Decls {
			fd, ok := d.(*ast.FuncDecl)
			if !ok || fd.Body == nil {
				continue
			}
			if fd.Recv == nil {
				decls[fd.Name.Name] = fd
			} else if len(fd.Recv.List) == 1 && isSeen(info.TypeOf(fd.Recv.List[0].Type)) {
				methods[fd.Name.Name] = fd
			}
		}
	}
	if methods[method] == nil || methods["Set"] == nil || sizeText == "" {
		return nil, nil, "method or constructor size not found"
	}
	var hook func(w *wInterp) func(name string, c *ast.CallExpr) (wv, bool)
	callDecl := func(w *wInterp, fd *ast.FuncDecl, recv wv, args []wv) (wOutcome, string) {
		sub := &wInterp{pkg: pkg, zeroInts: true, objects: w.objects + 100}
		sub.env = append(sub.env, w.env[0])
		sub.hook = hook(sub)
		sub.push()
		if fd.Recv != nil && len(fd.Recv.List[0].Names) == 1 {
			sub.set(fd.Recv.List[0].Names[0].Name, recv, true)
		}
		i := 0
		for _, fl := range fd.Type.Params.List {
			for _, nm := range fl.Names {
				if i < len(args) {
					sub.set(nm.Name, args[i], true)
				}
				i++
			}
		}
		o := sub.stmts(fd.Body.List)
		w.objects = sub.objects
		return o, sub.fail
	}
	hook = func(w *wInterp) func(name string, c *ast.CallExpr) (wv, bool) {
		return func(name string, c *ast.CallExpr) (wv, bool) {
			if fd := decls[name]; fd != nil {
				if _, isIdent := c.Fun.(*ast.Ident); isIdent {
					var args []wv
					for _, a := range c.Args {
						args = append(args, w.expr(a))
					}
					o, fail := callDecl(w, fd, nil, args)
					if fail != "" {
						return w.bad("%s: %s", name, fail), true
					}
					if len(o.vals) == 1 {
						return o.vals[0], true
					}
					return wtuple(o.vals), true
				}
			}
			if name == "Errorf" || name == "New" {
				return "error", true
			}
			return nil, false
		}
	}
	for _, n := range []int{3, 65} {
		w := &wInterp{pkg: pkg, zeroInts: true}
		w.push()
		w.hook = hook(w)
		w.set(sizeText, int64(n), true)
		table := w.expr(ctor)
		if w.fail != "" {
			return nil, nil, w.fail
		}
		o, fail := callDecl(w, methods[method], table, nil)
		if fail != "" || len(o.vals) == 0 {
			return nil, nil, "not interpreted: " + fail
		}
		fresh = append(fresh, o.vals[len(o.vals)-1])
		for i := 0; i < n; i++ {
			if _, fail := callDecl(w, methods["Set"], table, []wv{int64(i)}); fail != "" {
				return nil, nil, "Set not interpreted: " + fail
			}
		}
		o, fail = callDecl(w, methods[method], table, nil)
		if fail != "" || len(o.vals) == 0 {
			return nil, nil, "not interpreted: " + fail
		}
		full = append(full, o.vals[len(o.vals)-1])
		// one wire missing in the middle is still reported
	}
	return fresh, full, ""
}
