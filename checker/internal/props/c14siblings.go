package props

import (
	"fmt"
	"go/types"
	"sort"
	"strings"

	"golang.org/x/tools/go/ssa"

	"mpcverif/internal/load"
	"mpcverif/internal/report"
)

// fieldPath renders the field path of an address rooted at a value of the named type.
func fieldPath(v ssa.Value, rootType string) (string, bool) {
	var parts []string
	for {
		switch t := v.(type) {
		case *ssa.FieldAddr:
			st := t.X.Type().Underlying().(*types.Pointer).Elem().Underlying().(*types.Struct)
			parts = append([]string{st.Field(t.Field).Name()}, parts...)
			v = t.X
			continue
		case *ssa.IndexAddr:
			v = t.X
			continue
		}
		break
	}
	pt, ok := v.Type().Underlying().(*types.Pointer)
	if !ok {
		return "", false
	}
	n, ok := pt.Elem().(*types.Named)
	if !ok || n.Obj().Name() != rootType || len(parts) == 0 {
		return "", false
	}
	return strings.Join(parts, "."), true
}

// C14siblings: the two decoders of an argument description restore the same fields.
func C14siblings(p *load.Program, run *report.Run) {
	run.Rule("argument-decoders-agree", "circuit.parseIOArg (circuit files) and circuit.receiveArgument (streaming session) decode the same description — name, type text, size, members — and must restore the same fields of the IOArg, including the sizes the type text does not carry")
	var sets [2]map[string]bool
	names := []string{"parseIOArg", "receiveArgument"}
	fnsByRole := [2]*ssa.Function{}
	// the two decoders by role: the self-recursive function returning an IOArg that the file parser reaches,
	// and the one the streaming evaluator reaches (whatever they are called, function or method)
	for i, root := range []string{"ParseMPCLC", "StreamEvaluator"} {
		rf, err := p.Func("circuit", root)
		if err != nil {
			continue
		}
		var cands []*ssa.Function
		for fn := range p.ModuleReach(rf) {
			if fn.Blocks == nil || fn.Pkg == nil || fn.Pkg.Pkg.Path() != load.Module+"/circuit" {
				continue
			}
			res := fn.Signature.Results()
			if res.Len() == 0 || !strings.HasSuffix(res.At(0).Type().String(), "/circuit.IOArg") {
				continue
			}
			self := false
			for _, b := range fn.Blocks {
				for _, ins := range b.Instrs {
					if c, ok := ins.(*ssa.Call); ok && c.Call.StaticCallee() == fn {
						self = true
					}
				}
			}
			if self {
				cands = append(cands, fn)
			}
		}
		if len(cands) == 1 {
			fnsByRole[i] = cands[0]
			names[i] = cands[0].Name()
		}
	}
	for i, name := range names {
		fn := fnsByRole[i]
		var err error
		if fn == nil {
			fn, err = p.Func("circuit", name)
		}
		if err != nil {
			run.Undecided("argument-decoders-agree", "circuit."+name, "", err.Error())
			return
		}
		fnsByRole[i] = fn
		sets[i] = map[string]bool{}
		for _, b := range fn.Blocks {
			for _, ins := range b.Instrs {
				if st, ok := ins.(*ssa.Store); ok {
					if path, ok := fieldPath(st.Addr, "IOArg"); ok {
						sets[i][path] = true
					}
				}
			}
		}
		run.Count("argument-decoders", 1)
	}
	list := func(m map[string]bool) []string {
		var out []string
		for k := range m {
			out = append(out, k)
		}
		sort.Strings(out)
		return out
	}
	okAll := true
	for i := 0; i < 2; i++ {
		for f := range sets[1-i] {
			if !sets[i][f] {
				okAll = false
				fn := fnsByRole[i]
				run.Violate("argument-decoders-agree", "circuit."+names[i]+"/"+f, p.Rel(fn.Pos()),
					fmt.Sprintf("%s restores %s, %s does not: the same description decodes to different signatures", names[1-i], f, names[i]), nil)
			}
		}
	}
	if okAll {
		run.OK("argument-decoders-agree", "circuit.parseIOArg/receiveArgument", "", strings.Join(list(sets[0]), ", "))
	}
	run.Floor("argument-decoders", 2)
}
