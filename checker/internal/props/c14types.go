package props

import (
	"fmt"
	"go/ast"
	"go/constant"
	"go/token"
	"go/types"
	"regexp"
	"sort"
	"strconv"
	"strings"

	"mpcverif/internal/dispatch"
	"mpcverif/internal/load"
	"mpcverif/internal/report"
)

// C14types: the type spellings written into circuit files are read back as the same types.
func C14types(p *load.Program, run *report.Run) {
	run.Rule("type-names-injective", "the name table types.Types maps distinct names to distinct types (Type.String searches it by value, so a second name for a type would make the spelling depend on map order)")
	run.Rule("type-spelling-roundtrip", "for every type that can occur in a circuit signature the spelling Info.String prints is accepted by types.Parse and yields the same Type (scalars by name, arrays and slices by the bracket forms)")
	pkg := p.ByPath[load.Module+"/types"]
	if pkg == nil {
		run.Undecided("anchor", "types", "", "package not loaded")
		return
	}
	// 1. the Types table
	names := map[string]string{} // name -> const
	byConst := map[string][]string{}
	for _, f := range pkg.Syntax {
		ast.Inspect(f, func(n ast.Node) bool {
			vs, ok := n.(*ast.ValueSpec)
			if !ok || len(vs.Names) != 1 || vs.Names[0].Name != "Types" || len(vs.Values) != 1 {
				return true
			}
			if cl, ok := vs.Values[0].(*ast.CompositeLit); ok {
				for _, e := range cl.Elts {
					kv := e.(*ast.KeyValueExpr)
					k, _ := strconv.Unquote(kv.Key.(*ast.BasicLit).Value)
					v := types.ExprString(kv.Value)
					names[k] = v
					byConst[v] = append(byConst[v], k)
				}
			}
			return false
		})
	}
	if len(names) == 0 {
		run.Undecided("type-names-injective", "types.Types", "", "table not found")
		return
	}
	run.Count("type-names", len(names))
	dups := []string{}
	for c, ns := range byConst {
		if len(ns) > 1 {
			sort.Strings(ns)
			dups = append(dups, fmt.Sprintf("%s: %v", c, ns))
		}
	}
	if len(dups) > 0 {
		sort.Strings(dups)
		run.Violate("type-names-injective", "types.Types", "", "several names for one type: "+strings.Join(dups, "; "), nil)
	} else {
		run.OK("type-names-injective", "types.Types", "", fmt.Sprintf("%d names", len(names)))
	}
	// 2. Parse's scalar table
	_, fd := dispatch.FindFunc(p, "types", "", "Parse")
	fd = unwrapFunc(p, "types", fd)
	if fd == nil {
		run.Undecided("type-spelling-roundtrip", "types.Parse", "", "function not found")
		return
	}
	parsed := map[string]string{}
	ast.Inspect(fd.Body, func(n ast.Node) bool {
		sw, ok := n.(*ast.SwitchStmt)
		if !ok || sw.Tag == nil || types.ExprString(sw.Tag) != "m[1]" {
			return true
		}
		for _, st := range sw.Body.List {
			cc := st.(*ast.CaseClause)
			tconst := ""
			for _, b := range cc.Body {
				if as, ok := b.(*ast.AssignStmt); ok && isSel(as.Lhs[0], "Type") {
					tconst = types.ExprString(as.Rhs[0])
				}
			}
			for _, e := range cc.List {
				if bl, ok := e.(*ast.BasicLit); ok && bl.Kind == token.STRING {
					k, _ := strconv.Unquote(bl.Value)
					parsed[k] = tconst
				}
			}
		}
		return false
	})
	// regexps of the parser
	res := map[string]*regexp.Regexp{}
	for _, f := range pkg.Syntax {
		ast.Inspect(f, func(n ast.Node) bool {
			vs, ok := n.(*ast.ValueSpec)
			if !ok || len(vs.Names) != 1 || len(vs.Values) != 1 {
				return true
			}
			if c, ok := vs.Values[0].(*ast.CallExpr); ok && strings.HasPrefix(types.ExprString(c.Fun), "regexp.MustCompile") && len(c.Args) == 1 {
				if tv, ok := pkg.TypesInfo.Types[c.Args[0]]; ok && tv.Value != nil {
					if re, err := regexp.CompilePOSIX(constant.StringVal(tv.Value)); err == nil {
						res[vs.Names[0].Name] = re
					}
				}
			}
			return true
		})
	}
	reSized, reArr := res["reSized"], res["reArr"]
	if reSized == nil || reArr == nil {
		run.Undecided("type-spelling-roundtrip", "types.reSized/reArr", "", "parser regular expressions not found")
		return
	}
	for _, tc := range []string{"TBool", "TInt", "TUint", "TString", "TStruct"} {
		key := "types.Info.String/" + tc
		run.Count("signature-types", 1)
		ns := byConst[tc]
		if len(ns) != 1 {
			run.Violate("type-spelling-roundtrip", key, "", fmt.Sprintf("%s has %d names in types.Types", tc, len(ns)), nil)
			continue
		}
		sample := ns[0] + "17"
		m := reSized.FindStringSubmatch(sample)
		switch {
		case m == nil || m[1] != ns[0] || m[2] != "17":
			run.Violate("type-spelling-roundtrip", key, "", fmt.Sprintf("%q is not split into name and size by the parser", sample), nil)
		case parsed[ns[0]] != tc:
			run.Violate("type-spelling-roundtrip", key, p.Rel(fd.Pos()), fmt.Sprintf("Info.String prints %q, types.Parse reads that name as %q", ns[0], parsed[ns[0]]), nil)
		default:
			run.OK("type-spelling-roundtrip", key, p.Rel(fd.Pos()), fmt.Sprintf("%q", ns[0]))
		}
	}
	// arrays and slices: the format literals of Info.String
	_, fs := dispatch.FindFunc(p, "types", "Info", "String")
	if fs == nil {
		run.Undecided("type-spelling-roundtrip", "types.Info.String", "", "function not found")
		return
	}
	formats := map[string]string{}
	ast.Inspect(fs.Body, func(n ast.Node) bool {
		cc, ok := n.(*ast.CaseClause)
		if !ok {
			return true
		}
		for _, e := range cc.List {
			ast.Inspect(cc, func(m ast.Node) bool {
				if c, ok := m.(*ast.CallExpr); ok && types.ExprString(c.Fun) == "fmt.Sprintf" {
					if bl, ok := c.Args[0].(*ast.BasicLit); ok {
						f, _ := strconv.Unquote(bl.Value)
						formats[types.ExprString(e)] = f
					}
				}
				return true
			})
		}
		return true
	})
	for tc, wantSize := range map[string]string{"TArray": "3", "TSlice": ""} {
		key := "types.Info.String/" + tc
		run.Count("signature-types", 1)
		f, ok := formats[tc]
		if !ok {
			run.Undecided("type-spelling-roundtrip", key, p.Rel(fs.Pos()), "format not found")
			continue
		}
		sample := strings.NewReplacer("%d", "3", "%s", "uint8").Replace(f)
		m := reArr.FindStringSubmatch(sample)
		if m == nil || m[1] != wantSize || m[2] != "uint8" {
			run.Violate("type-spelling-roundtrip", key, p.Rel(fs.Pos()), fmt.Sprintf("Info.String prints %q, which types.Parse does not read as size %q and element %q", sample, wantSize, "uint8"), nil)
		} else {
			run.OK("type-spelling-roundtrip", key, p.Rel(fs.Pos()), fmt.Sprintf("%q", sample))
		}
	}
	run.Floor("signature-types", 7)
	run.Floor("type-names", 8)
}
