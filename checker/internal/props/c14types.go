package props

import (
	"fmt"
	"go/ast"
	"go/constant"
	"go/token"
	"go/types"
	"golang.org/x/tools/go/packages"
	"regexp"
	"sort"
	"strconv"
	"strings"

	"mpcverif/internal/dispatch"
	"mpcverif/internal/load"
	"mpcverif/internal/report"
)

// C14types: the type spellings written into circuit files are read back as the same types.
func C14types(p *load.Program, run *report.Run) {
	run.Rule("type-names-injective", "the name table types.Types maps distinct names to distinct types (Type.String searches it by value, so a second name for a type would make the spelling depend on map order)")
	run.Rule("type-spelling-roundtrip", "for every type that can occur in a circuit signature the spelling Info.String prints is accepted by types.Parse and yields the same Type (scalars by name, arrays and slices by the bracket forms)")
	pkg := p.ByPath[load.Module+"/types"]
	if pkg == nil {
		run.Undecided("anchor", "types", "", "package not loaded")
		return
	}
	// 1. the Types table
	names := map[string]string{} // name -> const
	byConst := map[string][]string{}
	for _, f := range pkg.Syntax {
		ast.Inspect(f, func(n ast.Node) bool {
			vs, ok := n.(*ast.ValueSpec)
			if !ok || len(vs.Names) != 1 || vs.Names[0].Name != "Types" || len(vs.Values) != 1 {
				return true
			}
			if cl, ok := vs.Values[0].(*ast.CompositeLit); ok {
				for _, e := range cl.Elts {
					kv := e.(*ast.KeyValueExpr)
					k, _ := strconv.Unquote(kv.Key.(*ast.BasicLit).Value)
					v := types.ExprString(kv.Value)
					names[k] = v
					byConst[v] = append(byConst[v], k)
				}
			}
			return false
		})
	}
	if len(names) == 0 {
		run.Undecided("type-names-injective", "types.Types", "", "table not found")
		return
	}
	run.Count("type-names", len(names))
	dups := []string{}
	for c, ns := range byConst {
		if len(ns) > 1 {
			sort.Strings(ns)
			dups = append(dups, fmt.Sprintf("%s: %v", c, ns))
		}
	}
	if len(dups) > 0 {
		sort.Strings(dups)
		run.Violate("type-names-injective", "types.Types", "", "several names for one type: "+strings.Join(dups, "; "), nil)
	} else {
		run.OK("type-names-injective", "types.Types", "", fmt.Sprintf("%d names", len(names)))
	}
	// 2. Parse's scalar table
	_, fd := dispatch.FindFunc(p, "types", "", "Parse")
	fd = unwrapFunc(p, "types", fd)
	if fd == nil {
		run.Undecided("type-spelling-roundtrip", "types.Parse", "", "function not found")
		return
	}
	parsed := readerNameTable(pkg, fd)
	// the sized branch yields scalar kinds only: an array, slice or pointer Info needs an ElementType, which
	// only the bracket and star forms fill in
	run.Rule("sized-names-are-scalars", "no name that types.Parse accepts in front of a size maps to TArray, TSlice or TPtr: those kinds carry an ElementType that the sized branch leaves nil, and the circuit parser dereferences it")
	{
		var bad []string
		for name, ty := range parsed {
			if ty == "TArray" || ty == "TSlice" || ty == "TPtr" {
				bad = append(bad, fmt.Sprintf("%q -> %s", name, ty))
			}
		}
		sort.Strings(bad)
		run.Count("reader-type-names", len(parsed))
		if len(bad) > 0 {
			run.Violate("sized-names-are-scalars", "types.Parse/sized names", p.Rel(fd.Pos()), "the sized branch accepts "+strings.Join(bad, ", ")+": the returned Info has a nil ElementType", nil)
		} else {
			run.OK("sized-names-are-scalars", "types.Parse/sized names", p.Rel(fd.Pos()), fmt.Sprintf("%d names, all scalar kinds", len(parsed)))
		}
		run.Floor("reader-type-names", 5)
	}
	// regexps of the parser
	res := map[string]*regexp.Regexp{}
	for _, f := range pkg.Syntax {
		ast.Inspect(f, func(n ast.Node) bool {
			vs, ok := n.(*ast.ValueSpec)
			if !ok || len(vs.Names) != 1 || len(vs.Values) != 1 {
				return true
			}
			if c, ok := vs.Values[0].(*ast.CallExpr); ok && strings.HasPrefix(types.ExprString(c.Fun), "regexp.MustCompile") && len(c.Args) == 1 {
				if tv, ok := pkg.TypesInfo.Types[c.Args[0]]; ok && tv.Value != nil {
					if re, err := regexp.CompilePOSIX(constant.StringVal(tv.Value)); err == nil {
						res[vs.Names[0].Name] = re
					}
				}
			}
			return true
		})
	}
	reSized, reArr := res["reSized"], res["reArr"]
	if len(res) == 0 {
		// a parser written by hand has no grammar to read off: the names it accepts are decided from its
		// name table (type-text-grammar, sized-names-are-scalars); the spelling of sizes and array prefixes
		// is not decided by this rule then
		run.OK("type-spelling-roundtrip", "types.Parse", "", "the parser uses no regular expressions: its accepted names are decided from its name table; size and array spellings are not decided here")
		return
	}
	typeDimensionOrder(p, run, pkg)
	if reSized == nil {
		run.Undecided("type-spelling-roundtrip", "types.reSized", "", "the parser's regular expression for sized names was not found")
		return
	}
	for _, tc := range []string{"TBool", "TInt", "TUint", "TString", "TStruct"} {
		key := "types.Info.String/" + tc
		run.Count("signature-types", 1)
		ns := byConst[tc]
		if len(ns) != 1 {
			run.Violate("type-spelling-roundtrip", key, "", fmt.Sprintf("%s has %d names in types.Types", tc, len(ns)), nil)
			continue
		}
		sample := ns[0] + "17"
		m := reSized.FindStringSubmatch(sample)
		switch {
		case m == nil || m[1] != ns[0] || m[2] != "17":
			run.Violate("type-spelling-roundtrip", key, "", fmt.Sprintf("%q is not split into name and size by the parser", sample), nil)
		case parsed[ns[0]] != tc:
			run.Violate("type-spelling-roundtrip", key, p.Rel(fd.Pos()), fmt.Sprintf("Info.String prints %q, types.Parse reads that name as %q", ns[0], parsed[ns[0]]), nil)
		default:
			run.OK("type-spelling-roundtrip", key, p.Rel(fd.Pos()), fmt.Sprintf("%q", ns[0]))
		}
	}
	// arrays and slices: the format literals of Info.String
	_, fs := dispatch.FindFunc(p, "types", "Info", "String")
	if fs == nil {
		run.Undecided("type-spelling-roundtrip", "types.Info.String", "", "function not found")
		return
	}
	formats := map[string]string{}
	ast.Inspect(fs.Body, func(n ast.Node) bool {
		cc, ok := n.(*ast.CaseClause)
		if !ok {
			return true
		}
		for _, e := range cc.List {
			ast.Inspect(cc, func(m ast.Node) bool {
				if c, ok := m.(*ast.CallExpr); ok && types.ExprString(c.Fun) == "fmt.Sprintf" {
					if bl, ok := c.Args[0].(*ast.BasicLit); ok {
						f, _ := strconv.Unquote(bl.Value)
						formats[types.ExprString(e)] = f
					}
				}
				return true
			})
		}
		return true
	})
	for tc, wantSize := range map[string]string{"TArray": "3", "TSlice": ""} {
		key := "types.Info.String/" + tc
		run.Count("signature-types", 1)
		if reArr == nil {
			// the bracket prefixes are taken apart by hand: their spelling is not decided here (the order in which
			// the dimensions are put back together is: array-dimensions-in-text-order)
			run.OK("type-spelling-roundtrip", key, p.Rel(fs.Pos()), "bracket prefixes parsed without a regular expression: spelling not decided here")
			continue
		}
		f, ok := formats[tc]
		if !ok {
			run.Undecided("type-spelling-roundtrip", key, p.Rel(fs.Pos()), "format not found")
			continue
		}
		sample := strings.NewReplacer("%d", "3", "%s", "uint8").Replace(f)
		m := reArr.FindStringSubmatch(sample)
		if m == nil || m[1] != wantSize || m[2] != "uint8" {
			run.Violate("type-spelling-roundtrip", key, p.Rel(fs.Pos()), fmt.Sprintf("Info.String prints %q, which types.Parse does not read as size %q and element %q", sample, wantSize, "uint8"), nil)
		} else {
			run.OK("type-spelling-roundtrip", key, p.Rel(fs.Pos()), fmt.Sprintf("%q", sample))
		}
	}
	run.Floor("signature-types", 7)
	run.Floor("type-names", 8)
}

// readerNameTable extracts the names types.Parse accepts in front of a size and the type constant each
// yields.  Two shapes: a switch over the matched name with string cases that assign the type, or lookups
// of the matched name in package-level map[string]Type literals (tried in source order, the first hit
// wins), optionally filtered by a switch over the looked-up type whose accepting arms assign it.
func readerNameTable(pkg *packages.Package, fd *ast.FuncDecl) map[string]string {
	out := readerNameTable1(pkg, fd)
	if len(out) > 0 {
		return out
	}
	// the scalar names read in a helper of the package (parseBasic)
	decls := map[string]*ast.FuncDecl{}
	for _, f := range pkg.Syntax {
		for _, d := range f.Decls {
			if h, ok := d.(*ast.FuncDecl); ok && h.Recv == nil && h.Body != nil {
				decls[h.Name.Name] = h
			}
		}
	}
	ast.Inspect(fd.Body, func(n ast.Node) bool {
		if c, ok := n.(*ast.CallExpr); ok {
			if id, ok := c.Fun.(*ast.Ident); ok && decls[id.Name] != nil && decls[id.Name] != fd {
				for k, v := range readerNameTable1(pkg, decls[id.Name]) {
					if _, dup := out[k]; !dup {
						out[k] = v
					}
				}
			}
		}
		return true
	})
	return out
}

func readerNameTable1(pkg *packages.Package, fd *ast.FuncDecl) map[string]string {
	info := pkg.TypesInfo
	out := map[string]string{}
	// shape 1
	ast.Inspect(fd.Body, func(n ast.Node) bool {
		sw, ok := n.(*ast.SwitchStmt)
		if !ok || sw.Tag == nil {
			return true
		}
		for _, st := range sw.Body.List {
			cc := st.(*ast.CaseClause)
			ty := ""
			for _, b := range cc.Body {
				if as, ok := b.(*ast.AssignStmt); ok && len(as.Lhs) == 1 && len(as.Rhs) == 1 && strings.HasSuffix(types.ExprString(as.Lhs[0]), ".Type") {
					ty = types.ExprString(as.Rhs[0])
				}
			}
			if ty == "" {
				continue
			}
			for _, e := range cc.List {
				if tv, ok := info.Types[e]; ok && tv.Value != nil && tv.Value.Kind() == constant.String {
					out[constant.StringVal(tv.Value)] = ty
				}
			}
		}
		return true
	})
	if len(out) > 0 {
		return out
	}
	// shape 2: package-level tables
	tables := map[string]map[string]string{}
	for _, f := range pkg.Syntax {
		for _, d := range f.Decls {
			gd, ok := d.(*ast.GenDecl)
			if !ok || gd.Tok != token.VAR {
				continue
			}
			for _, sp := range gd.Specs {
				vs := sp.(*ast.ValueSpec)
				for i, nm := range vs.Names {
					if i >= len(vs.Values) {
						continue
					}
					cl, ok := vs.Values[i].(*ast.CompositeLit)
					if !ok {
						continue
					}
					if _, isMap := info.TypeOf(cl).Underlying().(*types.Map); !isMap {
						continue
					}
					t := map[string]string{}
					for _, el := range cl.Elts {
						kv, ok := el.(*ast.KeyValueExpr)
						if !ok {
							continue
						}
						if tv, ok := info.Types[kv.Key]; ok && tv.Value != nil && tv.Value.Kind() == constant.String {
							t[constant.StringVal(tv.Value)] = types.ExprString(kv.Value)
						}
					}
					if len(t) > 0 {
						tables[nm.Name] = t
					}
				}
			}
		}
	}
	var order []string
	lookupVar := ""
	ast.Inspect(fd.Body, func(n ast.Node) bool {
		as, ok := n.(*ast.AssignStmt)
		if !ok || len(as.Rhs) != 1 || len(as.Lhs) == 0 {
			return true
		}
		ix, ok := ast.Unparen(as.Rhs[0]).(*ast.IndexExpr)
		if !ok {
			return true
		}
		id, ok := ix.X.(*ast.Ident)
		if !ok || tables[id.Name] == nil {
			return true
		}
		if _, isIdx := ast.Unparen(ix.Index).(*ast.IndexExpr); !isIdx {
			return true // the key is the matched name m[1]
		}
		order = append(order, id.Name)
		lookupVar = types.ExprString(as.Lhs[0])
		return true
	})
	if len(order) == 0 {
		return out
	}
	// the filter
	var accepted map[string]bool
	ast.Inspect(fd.Body, func(n ast.Node) bool {
		sw, ok := n.(*ast.SwitchStmt)
		if !ok || sw.Tag == nil || types.ExprString(sw.Tag) != lookupVar {
			return true
		}
		accepted = map[string]bool{}
		for _, st := range sw.Body.List {
			cc := st.(*ast.CaseClause)
			assigns := false
			for _, b := range cc.Body {
				if as, ok := b.(*ast.AssignStmt); ok && len(as.Lhs) == 1 && len(as.Rhs) == 1 && strings.HasSuffix(types.ExprString(as.Lhs[0]), ".Type") && types.ExprString(as.Rhs[0]) == lookupVar {
					assigns = true
				}
			}
			if assigns {
				for _, e := range cc.List {
					accepted[types.ExprString(e)] = true
				}
			}
		}
		return false
	})
	for i := len(order) - 1; i >= 0; i-- {
		for name, ty := range tables[order[i]] {
			if accepted == nil || accepted[ty] {
				out[name] = ty
			} else {
				delete(out, name)
			}
		}
	}
	return out
}

// typeDimensionOrder: `[2][3]uint4` is an array of two arrays of three.  A parser that descends recursively
// (strip the first bracket, parse the rest, wrap) gets that by construction.  One that first collects the
// dimensions in text order and then wraps the element type in a loop makes the dimension it wraps *last* the
// outermost, so the wrapping loop has to run from the last collected dimension to the first.
func typeDimensionOrder(p *load.Program, run *report.Run, pkg *packages.Package) {
	const rule = "array-dimensions-in-text-order"
	run.Rule(rule, "in package types, a function that appends array dimensions to a slice while it strips bracket prefixes and later wraps an element type (a composite literal with ElementType) in a loop over that slice runs that loop from the last dimension to the first; a recursive-descent parser has nothing to check")
	n := 0
	for _, f := range pkg.Syntax {
		if strings.HasSuffix(p.Fset.Position(f.Pos()).Filename, "_test.go") {
			continue
		}
		for _, d := range f.Decls {
			fd, ok := d.(*ast.FuncDecl)
			if !ok || fd.Body == nil {
				continue
			}
			// slices appended to inside a loop
			collected := map[string]bool{}
			ast.Inspect(fd.Body, func(x ast.Node) bool {
				loop, ok := x.(*ast.ForStmt)
				if !ok {
					return true
				}
				ast.Inspect(loop.Body, func(y ast.Node) bool {
					as, ok := y.(*ast.AssignStmt)
					if !ok || len(as.Lhs) != 1 || len(as.Rhs) != 1 {
						return true
					}
					if c, ok := as.Rhs[0].(*ast.CallExpr); ok && types.ExprString(c.Fun) == "append" && len(c.Args) == 2 && types.ExprString(c.Args[0]) == types.ExprString(as.Lhs[0]) {
						collected[types.ExprString(as.Lhs[0])] = true
					}
					return true
				})
				return true
			})
			if len(collected) == 0 {
				continue
			}
			wraps := func(body *ast.BlockStmt) bool {
				found := false
				ast.Inspect(body, func(y ast.Node) bool {
					if cl, ok := y.(*ast.CompositeLit); ok {
						for _, el := range cl.Elts {
							if kv, ok := el.(*ast.KeyValueExpr); ok && types.ExprString(kv.Key) == "ElementType" {
								found = true
							}
						}
					}
					return !found
				})
				return found
			}
			ast.Inspect(fd.Body, func(x ast.Node) bool {
				switch t := x.(type) {
				case *ast.RangeStmt:
					if collected[types.ExprString(t.X)] && wraps(t.Body) {
						n++
						run.Violate(rule, "types."+fd.Name.Name+"/"+types.ExprString(t.X), p.Rel(t.Pos()), "the dimensions collected in text order are wrapped around the element type from the first to the last: the first dimension of the text becomes the innermost, `[2][3]T` is read as `[3][2]T`", nil)
					}
				case *ast.ForStmt:
					if !wraps(t.Body) {
						return true
					}
					idx := ""
					for name := range collected {
						used := false
						ast.Inspect(t.Body, func(y ast.Node) bool {
							if ix, ok := y.(*ast.IndexExpr); ok && types.ExprString(ix.X) == name {
								used = true
							}
							return !used
						})
						if used {
							idx = name
						}
					}
					if idx == "" {
						return true
					}
					n++
					down := false
					if inc, ok := t.Post.(*ast.IncDecStmt); ok && inc.Tok == token.DEC {
						if as, ok := t.Init.(*ast.AssignStmt); ok && len(as.Rhs) == 1 && strings.Contains(types.ExprString(as.Rhs[0]), "len("+idx+")") {
							down = true
						}
					}
					key := "types." + fd.Name.Name + "/" + idx
					if down {
						run.OK(rule, key, p.Rel(t.Pos()), "wrapped from the last collected dimension to the first")
					} else {
						run.Violate(rule, key, p.Rel(t.Pos()), "the dimensions collected in text order are not wrapped from the last to the first: the first dimension of the text does not become the outermost", nil)
					}
				}
				return true
			})
		}
	}
	if n == 0 {
		run.OK(rule, "types", "", "no parser collects dimensions before wrapping them (recursive descent)")
	}
}
