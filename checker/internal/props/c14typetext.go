package props

import (
	"fmt"
	"go/ast"
	"go/constant"
	"go/token"
	"go/types"
	"regexp"
	"sort"
	"strconv"
	"strings"

	"mpcverif/internal/dispatch"
	"mpcverif/internal/load"
	"mpcverif/internal/report"
)

// C14typetext: the type text written into a circuit file is in the grammar its reader accepts.
//
// The native format stores every argument's type as Info.String(); ParseMPCLC
// reads it with types.Parse.  The reader is the reference: its two regular
// expressions and the table of names in its switch define the types a file can
// carry (bool, int, uint, string, struct, arrays and slices of those).  For
// each of them the rule takes the text Info.String() produces — the constant
// format of the arm of its switch that covers the type, with %d as digits,
// i.Type as the type's name in types.Types and an element type as a valid
// element text — and runs the reader's grammar over it: the text must match,
// and must map back to the same type.
func C14typetext(p *load.Program, run *report.Run) {
	run.Rule("type-text-grammar", "for every type in the table of types.Parse (the names of its switch, arrays and slices), each text an arm of Info.String() can return for it — formats with %d as digits, i.Type as the name from types.Types, element types as valid texts, other arguments as a placeholder word — matches the reader's regular expressions (read from types/parse.go) and maps back to the same types.Type")
	pkg := p.ByPath[load.Module+"/types"]
	_, parse := dispatch.FindFunc(p, "types", "", "Parse")
	parse = unwrapFunc(p, "types", parse)
	_, str := dispatch.FindFunc(p, "types", "Info", "String")
	if pkg == nil || parse == nil || str == nil {
		run.Undecided("type-text-grammar", "types.Parse/Info.String", "", "functions not found")
		return
	}
	info := pkg.TypesInfo
	// the reader's regular expressions
	res := map[string]*regexp.Regexp{}
	for _, f := range pkg.Syntax {
		for _, d := range f.Decls {
			gd, ok := d.(*ast.GenDecl)
			if !ok || gd.Tok != token.VAR {
				continue
			}
			for _, sp := range gd.Specs {
				vs := sp.(*ast.ValueSpec)
				for i, n := range vs.Names {
					if i >= len(vs.Values) {
						continue
					}
					call, ok := vs.Values[i].(*ast.CallExpr)
					if !ok || len(call.Args) != 1 {
						continue
					}
					if _, name, _ := callName(call); name != "MustCompilePOSIX" && name != "MustCompile" {
						continue
					}
					tv, ok := info.Types[call.Args[0]]
					if !ok || tv.Value == nil {
						continue
					}
					pat := constant.StringVal(tv.Value)
					var re *regexp.Regexp
					var err error
					if _, name, _ := callName(call); name == "MustCompilePOSIX" {
						re, err = regexp.CompilePOSIX(pat)
					} else {
						re, err = regexp.Compile(pat)
					}
					if err == nil {
						res[n.Name] = re
					}
				}
			}
		}
	}
	// the reader's name table: case "i", "int": info.Type = TInt, under which regexp's match
	names := map[string]string{} // name -> type constant
	var sizedRe, arrRe *regexp.Regexp
	ast.Inspect(parse.Body, func(n ast.Node) bool {
		as, ok := n.(*ast.AssignStmt)
		if ok && len(as.Rhs) == 1 {
			if call, ok := as.Rhs[0].(*ast.CallExpr); ok {
				if sel, ok := call.Fun.(*ast.SelectorExpr); ok && sel.Sel.Name == "FindStringSubmatch" {
					if id, ok := sel.X.(*ast.Ident); ok && res[id.Name] != nil {
						if sizedRe == nil {
							sizedRe = res[id.Name]
						} else if arrRe == nil {
							arrRe = res[id.Name]
						}
					}
				}
			}
		}
		return true
	})
	names = readerNameTable(pkg, parse)
	if (len(res) == 0 || sizedRe == nil || arrRe == nil) && len(names) > 0 {
		// a reader written (partly) by hand: there is no complete grammar to read off its source.  What remains decidable is
		// the name table: every name the writer prints for a scalar kind is a name the reader maps to that
		// kind.  Size and array spellings are not decided here.
		wnames := map[string]string{}
		for _, f := range pkg.Syntax {
			ast.Inspect(f, func(n ast.Node) bool {
				vs, ok := n.(*ast.ValueSpec)
				if !ok || len(vs.Names) != 1 || vs.Names[0].Name != "Types" || len(vs.Values) != 1 {
					return true
				}
				if cl, ok := vs.Values[0].(*ast.CompositeLit); ok {
					for _, el := range cl.Elts {
						if kv, ok := el.(*ast.KeyValueExpr); ok {
							if tv, ok := info.Types[kv.Key]; ok && tv.Value != nil {
								wnames[constant.StringVal(tv.Value)] = types.ExprString(kv.Value)
							}
						}
					}
				}
				return true
			})
		}
		bad := ""
		checked := 0
		for _, tc := range []string{"TBool", "TInt", "TUint", "TString", "TStruct"} {
			for name, c := range wnames {
				if c != tc {
					continue
				}
				checked++
				if names[name] != tc {
					bad = fmt.Sprintf("the writer names %s %q, the reader maps that name to %q", tc, name, names[name])
				}
			}
		}
		run.Count("type-texts", checked)
		if bad != "" {
			run.Violate("type-text-grammar", "types.Parse/names", p.Rel(parse.Pos()), bad, nil)
		} else {
			run.OK("type-text-grammar", "types.Parse/names", p.Rel(parse.Pos()), fmt.Sprintf("hand-written reader: %d writer names are in its name table with the same kind; size and array spellings not decided", checked))
		}
		return
	}
	if sizedRe == nil || arrRe == nil || len(names) == 0 {
		run.Undecided("type-text-grammar", "types.Parse", p.Rel(parse.Pos()), "the reader's regular expressions or name table were not recognised")
		return
	}
	// the writer's names: types.Types
	typeName := map[string]string{} // constant -> name
	for _, f := range pkg.Syntax {
		ast.Inspect(f, func(n ast.Node) bool {
			vs, ok := n.(*ast.ValueSpec)
			if !ok || len(vs.Names) != 1 || vs.Names[0].Name != "Types" || len(vs.Values) != 1 {
				return true
			}
			if cl, ok := vs.Values[0].(*ast.CompositeLit); ok {
				for _, el := range cl.Elts {
					kv := el.(*ast.KeyValueExpr)
					if tv, ok := info.Types[kv.Key]; ok && tv.Value != nil {
						typeName[types.ExprString(kv.Value)] = constant.StringVal(tv.Value)
					}
				}
			}
			return true
		})
	}
	// the reader's judgement of a text
	var read func(s string, depth int) (string, bool)
	read = func(s string, depth int) (string, bool) {
		if depth > 4 {
			return "", false
		}
		if m := sizedRe.FindStringSubmatch(s); m != nil {
			ty, ok := names[m[1]]
			return ty, ok
		}
		m := arrRe.FindStringSubmatch(s)
		if m == nil {
			return "", false
		}
		if _, ok := read(m[2], depth+1); !ok {
			return "", false
		}
		if m[1] != "" {
			return "TArray", true
		}
		return "TSlice", true
	}
	// the writer: arms of the switch on i.Type in Info.String
	var sw *ast.SwitchStmt
	for _, s := range allSwitches(str, "recv.Type") {
		sw = s
	}
	if sw == nil {
		run.Undecided("type-text-grammar", "types.Info.String", p.Rel(str.Pos()), "switch on the type not found")
		return
	}
	armOf := func(ty string) []*ast.CaseClause {
		var deflt, hit int = -1, -1
		for i, st := range sw.Body.List {
			cc := st.(*ast.CaseClause)
			if cc.List == nil {
				deflt = i
			}
			for _, e := range cc.List {
				if types.ExprString(e) == ty {
					hit = i
				}
			}
		}
		if hit < 0 {
			hit = deflt
		}
		if hit < 0 {
			return nil
		}
		var out []*ast.CaseClause
		for i := hit; i < len(sw.Body.List); i++ {
			cc := sw.Body.List[i].(*ast.CaseClause)
			out = append(out, cc)
			ft := false
			if n := len(cc.Body); n > 0 {
				if b, ok := cc.Body[n-1].(*ast.BranchStmt); ok && b.Tok == token.FALLTHROUGH {
					ft = true
				}
			}
			if !ft {
				break
			}
		}
		return out
	}
	texts := func(ty string) ([]string, string) {
		var out []string
		fail := ""
		for _, cc := range armOf(ty) {
			for _, b := range cc.Body {
				ast.Inspect(b, func(n ast.Node) bool {
					r, ok := n.(*ast.ReturnStmt)
					if !ok || len(r.Results) != 1 {
						return true
					}
					call, ok := ast.Unparen(r.Results[0]).(*ast.CallExpr)
					if !ok {
						fail = "a return of Info.String that is not a call"
						return true
					}
					_, name, _ := callName(call)
					if name == "String" && len(call.Args) == 0 {
						out = append(out, typeName[ty])
						return true
					}
					if name != "Sprintf" || len(call.Args) == 0 {
						fail = "a return of Info.String through " + name
						return true
					}
					tv, ok := info.Types[call.Args[0]]
					if !ok || tv.Value == nil {
						fail = "a non-constant format"
						return true
					}
					format := constant.StringVal(tv.Value)
					var sb strings.Builder
					arg := 1
					for i := 0; i < len(format); i++ {
						if format[i] != '%' || i+1 >= len(format) {
							sb.WriteByte(format[i])
							continue
						}
						i++
						switch format[i] {
						case '%':
							sb.WriteByte('%')
						case 'd':
							sb.WriteString("7")
							arg++
						case 's', 'v':
							a := ""
							if arg < len(call.Args) {
								a = types.ExprString(call.Args[arg])
							}
							arg++
							switch {
							case strings.HasSuffix(a, ".Type"):
								sb.WriteString(typeName[ty])
							case strings.HasSuffix(a, ".ElementType"):
								sb.WriteString("uint8")
							default:
								sb.WriteString("word1")
							}
						default:
							fail = "format verb %" + string(format[i])
						}
					}
					out = append(out, sb.String())
					return true
				})
			}
		}
		return out, fail
	}
	// the reader's types
	readerTypes := map[string]bool{"TArray": true, "TSlice": true}
	for _, ty := range names {
		readerTypes[ty] = true
	}
	var list []string
	for ty := range readerTypes {
		list = append(list, ty)
	}
	sort.Strings(list)
	for _, ty := range list {
		run.Count("reader-types", 1)
		key := "types.Info.String/" + ty
		ts, fail := texts(ty)
		if fail != "" || len(ts) == 0 {
			run.Undecided("type-text-grammar", key, p.Rel(sw.Pos()), "the writer's text could not be derived: "+fail)
			continue
		}
		bad := ""
		for _, t := range ts {
			got, ok := read(t, 0)
			if !ok {
				bad = fmt.Sprintf("the writer prints %s for this type, which types.Parse rejects", strconv.Quote(t))
			} else if got != ty {
				bad = fmt.Sprintf("the writer prints %s for this type, which types.Parse reads as %s", strconv.Quote(t), got)
			}
		}
		if bad != "" {
			run.Violate("type-text-grammar", key, p.Rel(sw.Pos()), bad+": a marshalled circuit with such an argument cannot be parsed back", nil)
		} else {
			run.OK("type-text-grammar", key, p.Rel(sw.Pos()), strings.Join(ts, ", "))
		}
	}
	run.Floor("reader-types", 7)
}
