package props

import (
	"fmt"
	"go/token"
	"go/types"

	"golang.org/x/tools/go/ssa"

	"mpcverif/internal/load"
	"mpcverif/internal/report"
)

// passEdges: the block is reached only with v true (want=true) or false.
func impliedBool(v ssa.Value, want bool, at *ssa.BasicBlock) bool {
	for _, b := range at.Parent().Blocks {
		iff, ok := b.Instrs[len(b.Instrs)-1].(*ssa.If)
		if !ok || b.Succs[0] == b.Succs[1] {
			continue
		}
		cond, neg := iff.Cond, false
		if u, ok := cond.(*ssa.UnOp); ok && u.Op == token.NOT {
			cond, neg = u.X, true
		}
		if cond != v {
			continue
		}
		idx := 0
		if want == neg {
			idx = 1
		}
		s := b.Succs[idx]
		if len(s.Preds) == 1 && s.Dominates(at) {
			return true
		}
	}
	return false
}

// errNilAt: the error value e is known nil at block at (false edge of e != nil dominates it).
func errNilAt(e ssa.Value, at *ssa.BasicBlock) bool {
	for _, b := range at.Parent().Blocks {
		iff, ok := b.Instrs[len(b.Instrs)-1].(*ssa.If)
		if !ok || b.Succs[0] == b.Succs[1] {
			continue
		}
		bo, ok := iff.Cond.(*ssa.BinOp)
		if !ok || bo.X != e {
			continue
		}
		c, isC := bo.Y.(*ssa.Const)
		if !isC || !c.IsNil() {
			continue
		}
		idx := 1
		if bo.Op == token.EQL {
			idx = 0
		} else if bo.Op != token.NEQ {
			continue
		}
		s := b.Succs[idx]
		if len(s.Preds) == 1 && s.Dominates(at) {
			return true
		}
	}
	return false
}

func stripConv(v ssa.Value) ssa.Value {
	for {
		switch t := v.(type) {
		case *ssa.Convert:
			v = t.X
		case *ssa.ChangeType:
			v = t.X
		default:
			return v
		}
	}
}

// cellOfLoad: v is a load of a field of a local struct cell.
func cellOfLoad(v ssa.Value) (alloc *ssa.Alloc, field int, ok bool) {
	u, isU := v.(*ssa.UnOp)
	if !isU || u.Op != token.MUL {
		return nil, 0, false
	}
	fa, isF := u.X.(*ssa.FieldAddr)
	if !isF {
		return nil, 0, false
	}
	a, isA := fa.X.(*ssa.Alloc)
	return a, fa.Field, isA
}

func sameSource(a, b ssa.Value) bool {
	a, b = stripConv(a), stripConv(b)
	if a == b {
		return true
	}
	a1, f1, ok1 := cellOfLoad(a)
	a2, f2, ok2 := cellOfLoad(b)
	return ok1 && ok2 && a1 == a2 && f1 == f2
}

type validator struct {
	fn    *ssa.Function
	seen  map[ssa.Value]bool
	why   string
	depth int
}

// validated: at block at, the wire value v has passed Seen.<kind> successfully.
func (vd *validator) validated(v ssa.Value, kind string, at *ssa.BasicBlock) bool {
	v = stripConv(v)
	if _, ok := v.(*ssa.Const); ok {
		return true // the zero wire of an unused operand
	}
	if vd.seen[v] {
		return true
	}
	vd.seen[v] = true
	defer delete(vd.seen, v)
	switch t := v.(type) {
	case *ssa.Phi:
		for i, e := range t.Edges {
			if !vd.validated(e, kind, t.Block().Preds[i]) {
				return false
			}
		}
		return true
	case *ssa.UnOp:
		if ia, ok := t.X.(*ssa.IndexAddr); ok && t.Op == token.MUL {
			return vd.sliceValidated(ia.X, kind)
		}
	}
	// a dominating successful Seen.<kind>(v)
	for _, b := range vd.fn.Blocks {
		for _, ins := range b.Instrs {
			c, ok := ins.(*ssa.Call)
			if !ok || c.Call.StaticCallee() == nil || c.Call.StaticCallee().String() != "("+load.Module+"/circuit.Seen)."+kind {
				continue
			}
			if !sameSource(c.Call.Args[1], v) {
				continue
			}
			var errV, okV ssa.Value
			if kind == "Set" {
				errV = c
			}
			for _, r := range *c.Referrers() {
				if ex, isEx := r.(*ssa.Extract); isEx {
					if ex.Index == 0 {
						okV = ex
					} else {
						errV = ex
					}
				}
			}
			if errV == nil || !errNilAt(errV, at) {
				continue
			}
			if kind == "Get" && (okV == nil || !impliedBool(okV, true, at)) {
				continue
			}
			return true
		}
	}
	// a helper that validates its wire argument before it can return nil
	if vd.depth < 2 {
		for _, b := range vd.fn.Blocks {
			for _, ins := range b.Instrs {
				c, ok := ins.(*ssa.Call)
				if !ok || c.Call.StaticCallee() == nil || c.Call.StaticCallee().Blocks == nil || !load.InModule(c.Call.StaticCallee()) {
					continue
				}
				callee := c.Call.StaticCallee()
				sig := callee.Signature
				if sig.Results().Len() != 1 || sig.Results().At(0).Type().String() != "error" {
					continue
				}
				for i, a := range c.Call.Args {
					if !sameSource(a, v) || i >= len(callee.Params) {
						continue
					}
					if !errNilAt(c, at) {
						continue
					}
					sub := &validator{fn: callee, seen: map[ssa.Value]bool{}, depth: vd.depth + 1}
					okAll, n := true, 0
					for _, sb := range successBlocks(callee) {
						n++
						if !sub.validated(callee.Params[i], kind, sb) {
							okAll = false
						}
					}
					if okAll && n > 0 {
						return true
					}
				}
			}
		}
	}
	vd.why = fmt.Sprintf("%s has not passed Seen.%s on every path", v.Name(), kind)
	return false
}

// sliceValidated: every element ever appended to the slice was validated where it was appended.
func (vd *validator) sliceValidated(s ssa.Value, kind string) bool {
	if vd.seen[s] {
		return true
	}
	vd.seen[s] = true
	defer delete(vd.seen, s)
	switch t := s.(type) {
	case *ssa.Const:
		return true
	case *ssa.Phi:
		for _, e := range t.Edges {
			if !vd.sliceValidated(e, kind) {
				return false
			}
		}
		return true
	case *ssa.Call:
		if b, ok := t.Call.Value.(*ssa.Builtin); ok && b.Name() == "append" {
			if !vd.sliceValidated(t.Call.Args[0], kind) {
				return false
			}
			// appended elements: a slice literal built from an array cell
			sl, ok := t.Call.Args[1].(*ssa.Slice)
			if !ok {
				vd.why = "append of an unknown slice"
				return false
			}
			arr, ok := sl.X.(*ssa.Alloc)
			if !ok {
				vd.why = "append of an unknown slice"
				return false
			}
			for _, r := range *arr.Referrers() {
				ia, ok := r.(*ssa.IndexAddr)
				if !ok {
					continue
				}
				for _, r2 := range *ia.Referrers() {
					if st, ok := r2.(*ssa.Store); ok && !vd.validated(st.Val, kind, t.Block()) {
						return false
					}
				}
			}
			return true
		}
	}
	vd.why = fmt.Sprintf("slice %s is not built by appending validated wires", s.Name())
	return false
}

// C14valid: gates are constructed from validated wires only; success implies all wires assigned and the declared gate count.
func C14valid(p *load.Program, run *report.Run) {
	run.Rule("gate-wires-validated", "every Gate stored into the result has its inputs passed through Seen.Get (no error, seen) and its output through Seen.Set (no error) on every path")
	run.Rule("success-after-all-seen", "the successful return is reached only after the all-wires-seen loop and the gate-count comparison")
	for _, name := range []string{"ParseMPCLC", "ParseBristol"} {
		fn, err := p.Func("circuit", name)
		if err != nil {
			run.Undecided("gate-wires-validated", "circuit."+name, "", err.Error())
			continue
		}
		vd := &validator{fn: fn, seen: map[ssa.Value]bool{}}
		stores := 0
		for _, b := range fn.Blocks {
			for _, ins := range b.Instrs {
				st, ok := ins.(*ssa.Store)
				if !ok {
					continue
				}
				ia, ok := st.Addr.(*ssa.IndexAddr)
				if !ok {
					continue
				}
				et, ok := ia.X.Type().Underlying().(*types.Slice)
				if !ok {
					continue
				}
				nt, ok := et.Elem().(*types.Named)
				if !ok || nt.Obj().Name() != "Gate" {
					continue
				}
				stores++
				// the literal: field stores into the temporary the stored value is loaded from
				fields := map[string]ssa.Value{}
				if u, ok := st.Val.(*ssa.UnOp); ok {
					if lit, ok := u.X.(*ssa.Alloc); ok {
						for _, r := range *lit.Referrers() {
							if fa, ok := r.(*ssa.FieldAddr); ok {
								for _, r2 := range *fa.Referrers() {
									if s2, ok := r2.(*ssa.Store); ok {
										fields[fieldName(fa)] = s2.Val
									}
								}
							}
						}
					}
				}
				key := fmt.Sprintf("circuit.%s/gates[]=#%d", name, stores)
				if len(fields) == 0 {
					run.Undecided("gate-wires-validated", key, p.Rel(st.Pos()), "stored gate is not a composite literal")
					continue
				}
				okAll := true
				for fld, v := range fields {
					kind := ""
					switch fld {
					case "Input0", "Input1":
						kind = "Get"
					case "Output":
						kind = "Set"
					default:
						continue
					}
					run.Count("gate-wire-fields", 1)
					if !vd.validated(v, kind, b) {
						run.Violate("gate-wires-validated", key+"/"+fld, p.Rel(st.Pos()), vd.why, nil)
						okAll = false
					}
				}
				if _, has := fields["Output"]; !has {
					run.Violate("gate-wires-validated", key+"/Output", p.Rel(st.Pos()), "gate stored without an output wire", nil)
					okAll = false
				}
				if okAll {
					run.OK("gate-wires-validated", key, p.Rel(st.Pos()), "")
				}
			}
		}
		run.Count("gate-stores", stores)
		// success return
		for _, b := range fn.Blocks {
			ret, ok := b.Instrs[len(b.Instrs)-1].(*ssa.Return)
			if !ok || len(load.Results(ret)) != 2 {
				continue
			}
			if c, ok := load.Results(ret)[1].(*ssa.Const); !ok || !c.IsNil() {
				continue
			}
			if c, ok := load.Results(ret)[0].(*ssa.Const); ok && c.IsNil() {
				continue
			}
			key := "circuit." + name + "/success"
			// all-seen loop: an If on !wiresSeen[i] inside a cycle whose error side returns; the loop header dominates the return, the return is outside
			allSeen, countCmp := false, false
			for _, lb := range fn.Blocks {
				iff, ok := lb.Instrs[len(lb.Instrs)-1].(*ssa.If)
				if !ok {
					continue
				}
				if u, ok := iff.Cond.(*ssa.UnOp); ok && u.Op == token.MUL {
					if ia, ok := u.X.(*ssa.IndexAddr); ok {
						if nt, ok := ia.X.Type().(*types.Named); ok && nt.Obj().Name() == "Seen" && blockInCycle(lb) && fullScan(lb, ia.X, b) {
							allSeen = true
						}
					}
				}
				if bo, ok := iff.Cond.(*ssa.BinOp); ok && (bo.Op == token.NEQ || bo.Op == token.EQL) {
					// gate counter against the declared count: one side is the gate-loop phi
					isGate := func(v ssa.Value) bool {
						// the counter is the loop variable that indexes the stores into the []Gate slice
						ph, ok := stripConv(v).(*ssa.Phi)
						if !ok || ph.Referrers() == nil {
							return false
						}
						for _, r := range *ph.Referrers() {
							if ia, ok := r.(*ssa.IndexAddr); ok && ia.Index == ph {
								if sl, ok := ia.X.Type().Underlying().(*types.Slice); ok && typeName(sl.Elem()) == "Gate" {
									return true
								}
							}
						}
						return false
					}
					if (isGate(bo.X) || isGate(bo.Y)) && lb.Dominates(b) {
						idx := 1
						if bo.Op == token.EQL {
							idx = 0
						}
						if lb.Succs[idx].Dominates(b) {
							countCmp = true
						}
					}
				}
			}
			switch {
			case !allSeen:
				run.Violate("success-after-all-seen", key, p.Rel(ret.Pos()), "a circuit is returned without checking that every wire is assigned", nil)
			case !countCmp:
				run.Violate("success-after-all-seen", key, p.Rel(ret.Pos()), "a circuit is returned without comparing the number of gates read with the declared count", nil)
			default:
				run.OK("success-after-all-seen", key, p.Rel(ret.Pos()), "")
			}
			run.Count("success-returns", 1)
		}
	}
	run.Floor("gate-stores", 3)
	run.Floor("gate-wire-fields", 8)
	run.Floor("success-returns", 2)
}

// fullScan: lb tests seen[i] inside a loop over i < len(seen) that can only be left through its header or through
// an error return, and ret is reached only after that loop.
func fullScan(lb *ssa.BasicBlock, seenSlice ssa.Value, ret *ssa.BasicBlock) bool {
	fn := lb.Parent()
	// blocks of the cycle through lb
	reach := func(from *ssa.BasicBlock) map[*ssa.BasicBlock]bool {
		m := map[*ssa.BasicBlock]bool{}
		var walk func(x *ssa.BasicBlock)
		walk = func(x *ssa.BasicBlock) {
			for _, s := range x.Succs {
				if !m[s] {
					m[s] = true
					walk(s)
				}
			}
		}
		walk(from)
		return m
	}
	fromLb := reach(lb)
	loop := map[*ssa.BasicBlock]bool{}
	for _, b := range fn.Blocks {
		if fromLb[b] && reach(b)[lb] {
			loop[b] = true
		}
	}
	var header *ssa.BasicBlock
	for b := range loop {
		all := true
		for o := range loop {
			if !b.Dominates(o) {
				all = false
			}
		}
		if all {
			header = b
		}
	}
	if header == nil || loop[ret] || !header.Dominates(ret) {
		return false
	}
	// header condition: i < len(seen)
	iff, ok := header.Instrs[len(header.Instrs)-1].(*ssa.If)
	if !ok {
		return false
	}
	bo, ok := iff.Cond.(*ssa.BinOp)
	if !ok || bo.Op != token.LSS {
		return false
	}
	c, ok := bo.Y.(*ssa.Call)
	if !ok {
		return false
	}
	if bi, ok := c.Call.Value.(*ssa.Builtin); !ok || bi.Name() != "len" || c.Call.Args[0] != seenSlice {
		return false
	}
	for b := range loop {
		for _, s := range b.Succs {
			if loop[s] || b == header {
				continue
			}
			// leaving from the body: must be an error return
			r, ok := s.Instrs[len(s.Instrs)-1].(*ssa.Return)
			if !ok {
				return false
			}
			if k, isC := load.Results(r)[len(load.Results(r))-1].(*ssa.Const); isC && k.IsNil() {
				return false
			}
		}
	}
	return true
}
