package props

import (
	"fmt"
	"go/token"
	"go/types"
	"strings"

	"golang.org/x/tools/go/ssa"

	"mpcverif/internal/load"
	"mpcverif/internal/report"
)

// passEdges: the block is reached only with v true (want=true) or false.
func impliedBool(v ssa.Value, want bool, at *ssa.BasicBlock) bool {
	for _, b := range at.Parent().Blocks {
		iff, ok := b.Instrs[len(b.Instrs)-1].(*ssa.If)
		if !ok || b.Succs[0] == b.Succs[1] {
			continue
		}
		cond, neg := iff.Cond, false
		if u, ok := cond.(*ssa.UnOp); ok && u.Op == token.NOT {
			cond, neg = u.X, true
		}
		if cond != v {
			continue
		}
		idx := 0
		if want == neg {
			idx = 1
		}
		s := b.Succs[idx]
		if len(s.Preds) == 1 && s.Dominates(at) {
			return true
		}
	}
	return false
}

// errNilAt: the error value e is known nil at block at (false edge of e != nil dominates it).
func errNilAt(e ssa.Value, at *ssa.BasicBlock) bool {
	for _, b := range at.Parent().Blocks {
		iff, ok := b.Instrs[len(b.Instrs)-1].(*ssa.If)
		if !ok || b.Succs[0] == b.Succs[1] {
			continue
		}
		bo, ok := iff.Cond.(*ssa.BinOp)
		if !ok || bo.X != e {
			continue
		}
		c, isC := bo.Y.(*ssa.Const)
		if !isC || !c.IsNil() {
			continue
		}
		idx := 1
		if bo.Op == token.EQL {
			idx = 0
		} else if bo.Op != token.NEQ {
			continue
		}
		s := b.Succs[idx]
		if len(s.Preds) == 1 && s.Dominates(at) {
			return true
		}
	}
	return false
}

func stripConv(v ssa.Value) ssa.Value {
	for {
		switch t := v.(type) {
		case *ssa.Convert:
			v = t.X
		case *ssa.ChangeType:
			v = t.X
		default:
			return v
		}
	}
}

// cellOfLoad: v is a load of a field of a local struct cell.
func cellOfLoad(v ssa.Value) (alloc *ssa.Alloc, field int, ok bool) {
	u, isU := v.(*ssa.UnOp)
	if !isU || u.Op != token.MUL {
		return nil, 0, false
	}
	fa, isF := u.X.(*ssa.FieldAddr)
	if !isF {
		return nil, 0, false
	}
	a, isA := fa.X.(*ssa.Alloc)
	return a, fa.Field, isA
}

func sameSource(a, b ssa.Value) bool {
	a, b = stripConv(a), stripConv(b)
	if a == b {
		return true
	}
	a1, f1, ok1 := cellOfLoad(a)
	a2, f2, ok2 := cellOfLoad(b)
	if ok1 && ok2 && a1 == a2 && f1 == f2 {
		return true
	}
	// a is read back from the field of a local struct that b was stored into (g.Output after
	// g := Gate{Output: b}, also through the temporary of the literal)
	if ok1 && b.Referrers() != nil {
		for _, r := range *b.Referrers() {
			st, isSt := r.(*ssa.Store)
			if !isSt || st.Val != b {
				continue
			}
			fa, isFA := st.Addr.(*ssa.FieldAddr)
			if !isFA || fa.Field != f1 {
				continue
			}
			al, isAl := fa.X.(*ssa.Alloc)
			if !isAl {
				continue
			}
			if al == a1 {
				return true
			}
			// the literal's temporary copied whole into the variable
			if al.Referrers() != nil {
				for _, r2 := range *al.Referrers() {
					if ld, isLd := r2.(*ssa.UnOp); isLd && ld.Op == token.MUL && ld.X == ssa.Value(al) && ld.Referrers() != nil {
						for _, r3 := range *ld.Referrers() {
							if s3, isS3 := r3.(*ssa.Store); isS3 && s3.Val == ssa.Value(ld) && s3.Addr == ssa.Value(a1) {
								return true
							}
						}
					}
				}
			}
		}
	}
	return false
}

type validator struct {
	fn    *ssa.Function
	seen  map[ssa.Value]bool
	why   string
	depth int
	// boundAt: where the field was assigned, if that is not on every path to the store of the gate (an index
	// into the decoded wires is judged there)
	boundAt *ssa.BasicBlock
}

// validated: at block at, the wire value v has passed Seen.<kind> successfully.
func (vd *validator) validated(v ssa.Value, kind string, at *ssa.BasicBlock) bool {
	v = stripConv(v)
	if _, ok := v.(*ssa.Const); ok {
		return true // the zero wire of an unused operand
	}
	if vd.seen[v] {
		return true
	}
	vd.seen[v] = true
	defer delete(vd.seen, v)
	switch t := v.(type) {
	case *ssa.Phi:
		for i, e := range t.Edges {
			if !vd.validated(e, kind, t.Block().Preds[i]) {
				return false
			}
		}
		return true
	case *ssa.UnOp:
		if ia, ok := t.X.(*ssa.IndexAddr); ok && t.Op == token.MUL {
			if al, isArr := ia.X.(*ssa.Alloc); isArr {
				if k, isConst := ia.Index.(*ssa.Const); isConst && k.Value != nil && vd.arrayValidated(al, k.Int64(), kind, at) {
					return true
				}
				// an element of a local array: it may still be checked by itself below
				break
			}
			return vd.sliceValidated(ia.X, kind)
		}
	}
	// a dominating successful Seen.<kind>(v)
	for _, b := range vd.fn.Blocks {
		for _, ins := range b.Instrs {
			c, ok := ins.(*ssa.Call)
			if !ok || c.Call.StaticCallee() == nil || (c.Call.StaticCallee().String() != "("+load.Module+"/circuit.Seen)."+kind && c.Call.StaticCallee().String() != "(*"+load.Module+"/circuit.Seen)."+kind) {
				continue
			}
			if !sameSource(c.Call.Args[1], v) {
				continue
			}
			var errV, okV ssa.Value
			if kind == "Set" {
				errV = c
			}
			for _, r := range *c.Referrers() {
				if ex, isEx := r.(*ssa.Extract); isEx {
					if ex.Index == 0 {
						okV = ex
					} else {
						errV = ex
					}
				}
			}
			if errV == nil || !errNilAt(errV, at) {
				continue
			}
			if kind == "Get" && (okV == nil || !impliedBool(okV, true, at)) {
				continue
			}
			return true
		}
	}
	// a helper that validates its wire argument before it can return nil
	if vd.depth < 2 {
		for _, b := range vd.fn.Blocks {
			for _, ins := range b.Instrs {
				c, ok := ins.(*ssa.Call)
				if !ok || c.Call.StaticCallee() == nil || c.Call.StaticCallee().Blocks == nil || !load.InModule(c.Call.StaticCallee()) {
					continue
				}
				callee := c.Call.StaticCallee()
				sig := callee.Signature
				if sig.Results().Len() != 1 || sig.Results().At(0).Type().String() != "error" {
					continue
				}
				for i, a := range c.Call.Args {
					if !sameSource(a, v) || i >= len(callee.Params) {
						continue
					}
					if !errNilAt(c, at) {
						continue
					}
					sub := &validator{fn: callee, seen: map[ssa.Value]bool{}, depth: vd.depth + 1}
					okAll, n := true, 0
					for _, sb := range successBlocks(callee) {
						n++
						if !sub.validated(callee.Params[i], kind, sb) {
							okAll = false
						}
					}
					if okAll && n > 0 {
						return true
					}
				}
			}
		}
	}
	vd.why = fmt.Sprintf("%s has not passed Seen.%s on every path", v.Name(), kind)
	return false
}

// sliceValidated: every element ever appended to the slice was validated where it was appended.
func (vd *validator) sliceValidated(s ssa.Value, kind string) bool {
	if vd.seen[s] {
		return true
	}
	vd.seen[s] = true
	defer delete(vd.seen, s)
	switch t := s.(type) {
	case *ssa.Const:
		return true
	case *ssa.Phi:
		for _, e := range t.Edges {
			if !vd.sliceValidated(e, kind) {
				return false
			}
		}
		return true
	case *ssa.Call:
		if b, ok := t.Call.Value.(*ssa.Builtin); ok && b.Name() == "append" {
			if !vd.sliceValidated(t.Call.Args[0], kind) {
				return false
			}
			// appended elements: a slice literal built from an array cell
			sl, ok := t.Call.Args[1].(*ssa.Slice)
			if !ok {
				vd.why = "append of an unknown slice"
				return false
			}
			arr, ok := sl.X.(*ssa.Alloc)
			if !ok {
				vd.why = "append of an unknown slice"
				return false
			}
			for _, r := range *arr.Referrers() {
				ia, ok := r.(*ssa.IndexAddr)
				if !ok {
					continue
				}
				for _, r2 := range *ia.Referrers() {
					if st, ok := r2.(*ssa.Store); ok && !vd.validated(st.Val, kind, t.Block()) {
						return false
					}
				}
			}
			return true
		}
	}
	vd.why = fmt.Sprintf("slice %s is not built by appending validated wires", s.Name())
	return false
}

// C14valid: gates are constructed from validated wires only; success implies all wires assigned and the declared gate count.
func C14valid(p *load.Program, run *report.Run) {
	run.Rule("gate-wires-validated", "every Gate stored into the result has its inputs passed through Seen.Get (no error, seen) and its output through Seen.Set (no error) on every path")
	run.Rule("success-after-all-seen", "the successful return is reached only after the all-wires-seen check — a loop over the whole table with an error exit for an unset wire, or a method of the table whose 'some wire unassigned' answer ends the parser with an error and which, interpreted on a fresh and on a completely assigned table, answers yes and no — and after the gate-count comparison")
	for _, name := range []string{"ParseMPCLC", "ParseBristol"} {
		fn, err := p.Func("circuit", name)
		if err != nil {
			run.Undecided("gate-wires-validated", "circuit."+name, "", err.Error())
			continue
		}
		vd := &validator{fn: fn, seen: map[ssa.Value]bool{}}
		stores := 0
		for _, b := range fn.Blocks {
			for _, ins := range b.Instrs {
				st, ok := ins.(*ssa.Store)
				if !ok {
					continue
				}
				ia, ok := st.Addr.(*ssa.IndexAddr)
				if !ok {
					continue
				}
				et, ok := ia.X.Type().Underlying().(*types.Slice)
				if !ok {
					continue
				}
				nt, ok := et.Elem().(*types.Named)
				if !ok || nt.Obj().Name() != "Gate" {
					continue
				}
				stores++
				// the literal: field stores into the temporary the stored value is loaded from
				fields := map[string]ssa.Value{}
				// a field assigned only on some paths (g.Input1 = … under `if n1 > 1`) is judged where it is assigned
				fieldAt := map[string]*ssa.BasicBlock{}
				var collect func(lit *ssa.Alloc, depth int)
				collect = func(lit *ssa.Alloc, depth int) {
					if lit.Referrers() == nil || depth > 2 {
						return
					}
					// the variable was first given a whole literal: `g := Gate{…}` copies a temporary
					for _, r := range *lit.Referrers() {
						if s0, ok := r.(*ssa.Store); ok && s0.Addr == ssa.Value(lit) {
							if u0, ok := s0.Val.(*ssa.UnOp); ok {
								if lit0, ok := u0.X.(*ssa.Alloc); ok && lit0 != lit {
									collect(lit0, depth+1)
								}
							}
						}
					}
					for _, r := range *lit.Referrers() {
						if fa, ok := r.(*ssa.FieldAddr); ok && fa.Referrers() != nil {
							for _, r2 := range *fa.Referrers() {
								if s2, ok := r2.(*ssa.Store); ok && s2.Addr == ssa.Value(fa) {
									fields[fieldName(fa)] = s2.Val
									if !s2.Block().Dominates(b) {
										fieldAt[fieldName(fa)] = s2.Block()
									} else {
										delete(fieldAt, fieldName(fa))
									}
								}
							}
						}
					}
				}
				if u, ok := st.Val.(*ssa.UnOp); ok {
					if lit, ok := u.X.(*ssa.Alloc); ok {
						collect(lit, 0)
					}
				}
				key := fmt.Sprintf("circuit.%s/gates[]=#%d", name, stores)
				// the gate is validated as a whole after it has been stored: a call of a function that checks
				// every input of the gate (Seen.Get: no error, seen) and then marks its output (Seen.Set), given
				// the address of this element, lies on every path from the store to a return, and its error
				// ends the parser
				if why, done := gateValidatedAfterStore(fn, st, ia); done {
					run.Count("gate-wire-fields", 3)
					if why == "" {
						run.OK("gate-wires-validated", key, p.Rel(st.Pos()), "validated as a whole by a checking helper on every path after the store")
					} else {
						run.Violate("gate-wires-validated", key, p.Rel(st.Pos()), why, nil)
					}
					continue
				}
				if len(fields) == 0 {
					run.Undecided("gate-wires-validated", key, p.Rel(st.Pos()), "stored gate is not a composite literal")
					continue
				}
				okAll := true
				for fld, v := range fields {
					kind := ""
					switch fld {
					case "Input0", "Input1":
						kind = "Get"
					case "Output":
						kind = "Set"
					default:
						continue
					}
					run.Count("gate-wire-fields", 1)
					vd.boundAt = fieldAt[fld]
					if !vd.validated(v, kind, b) {
						run.Violate("gate-wires-validated", key+"/"+fld, p.Rel(st.Pos()), vd.why, nil)
						okAll = false
					}
				}
				if _, has := fields["Output"]; !has {
					run.Violate("gate-wires-validated", key+"/Output", p.Rel(st.Pos()), "gate stored without an output wire", nil)
					okAll = false
				}
				if okAll {
					run.OK("gate-wires-validated", key, p.Rel(st.Pos()), "")
				}
			}
		}
		run.Count("gate-stores", stores)
		// success return
		for _, b := range fn.Blocks {
			ret, ok := b.Instrs[len(b.Instrs)-1].(*ssa.Return)
			if !ok || len(load.Results(ret)) != 2 {
				continue
			}
			if c, ok := load.Results(ret)[1].(*ssa.Const); !ok || !c.IsNil() {
				continue
			}
			if c, ok := load.Results(ret)[0].(*ssa.Const); ok && c.IsNil() {
				continue
			}
			key := "circuit." + name + "/success"
			// all-seen loop: an If on !wiresSeen[i] inside a cycle whose error side returns; the loop header dominates the return, the return is outside
			allSeen, countCmp := false, false
			for _, lb := range fn.Blocks {
				iff, ok := lb.Instrs[len(lb.Instrs)-1].(*ssa.If)
				if !ok {
					continue
				}
				if u, ok := iff.Cond.(*ssa.UnOp); ok && u.Op == token.MUL {
					if ia, ok := u.X.(*ssa.IndexAddr); ok {
						if nt, ok := ia.X.Type().(*types.Named); ok && nt.Obj().Name() == "Seen" && blockInCycle(lb) && fullScan(lb, ia.X, b) {
							allSeen = true
						}
					}
				}
				// the scan is a method of the table: `if w, ok := seen.Unseen(); ok { return error }` — the edge that
				// does not end in an error dominates the return, and the method, interpreted on a fresh and on a
				// completely assigned table, reports "some wire unassigned" exactly on the fresh one
				{
					cond := iff.Cond
					neg := false
					if u, ok := cond.(*ssa.UnOp); ok && u.Op == token.NOT {
						cond, neg = u.X, true
					}
					if ex, ok := cond.(*ssa.Extract); ok {
						if c, ok := ex.Tuple.(*ssa.Call); ok && c.Call.StaticCallee() != nil && c.Call.StaticCallee().Signature.Recv() != nil &&
							strings.HasSuffix(strings.TrimPrefix(c.Call.StaticCallee().Signature.Recv().Type().String(), "*"), "/circuit.Seen") && len(c.Call.Args) == 1 {
							errEdge, okEdge := 0, 1
							if neg {
								errEdge, okEdge = 1, 0
							}
							if errorExit(lb.Succs[errEdge]) && lb.Succs[okEdge].Dominates(b) {
								fresh, full, why := seenScan(p, c.Call.StaticCallee().Name())
								good := why == "" && len(fresh) == 2
								for i := range fresh {
									// the parser errs when the flag is true (or false if negated)
									if fresh[i] != wv(!neg) || full[i] != wv(neg) {
										good = false
									}
								}
								if good {
									allSeen = true
								}
							}
						}
					}
				}
				if bo, ok := iff.Cond.(*ssa.BinOp); ok && (bo.Op == token.NEQ || bo.Op == token.EQL) {
					// gate counter against the declared count: one side is the gate-loop phi
					isGate := func(v ssa.Value) bool {
						// the counter is the loop variable that indexes the stores into the []Gate slice
						ph, ok := stripConv(v).(*ssa.Phi)
						if !ok || ph.Referrers() == nil {
							return false
						}
						for _, r := range *ph.Referrers() {
							if ia, ok := r.(*ssa.IndexAddr); ok && ia.Index == ph {
								if sl, ok := ia.X.Type().Underlying().(*types.Slice); ok && typeName(sl.Elem()) == "Gate" {
									return true
								}
							}
						}
						return false
					}
					if (isGate(bo.X) || isGate(bo.Y)) && lb.Dominates(b) {
						idx := 1
						if bo.Op == token.EQL {
							idx = 0
						}
						if lb.Succs[idx].Dominates(b) {
							countCmp = true
						}
					}
				}
			}
			switch {
			case !allSeen:
				run.Violate("success-after-all-seen", key, p.Rel(ret.Pos()), "a circuit is returned without checking that every wire is assigned", nil)
			case !countCmp:
				run.Violate("success-after-all-seen", key, p.Rel(ret.Pos()), "a circuit is returned without comparing the number of gates read with the declared count", nil)
			default:
				run.OK("success-after-all-seen", key, p.Rel(ret.Pos()), "")
			}
			run.Count("success-returns", 1)
		}
	}
	run.Floor("gate-stores", 3)
	run.Floor("gate-wire-fields", 8)
	run.Floor("success-returns", 2)
}

// fullScan: lb tests seen[i] inside a loop over i < len(seen) that can only be left through its header or through
// an error return, and ret is reached only after that loop.
func fullScan(lb *ssa.BasicBlock, seenSlice ssa.Value, ret *ssa.BasicBlock) bool {
	fn := lb.Parent()
	// blocks of the cycle through lb
	reach := func(from *ssa.BasicBlock) map[*ssa.BasicBlock]bool {
		m := map[*ssa.BasicBlock]bool{}
		var walk func(x *ssa.BasicBlock)
		walk = func(x *ssa.BasicBlock) {
			for _, s := range x.Succs {
				if !m[s] {
					m[s] = true
					walk(s)
				}
			}
		}
		walk(from)
		return m
	}
	fromLb := reach(lb)
	loop := map[*ssa.BasicBlock]bool{}
	for _, b := range fn.Blocks {
		if fromLb[b] && reach(b)[lb] {
			loop[b] = true
		}
	}
	var header *ssa.BasicBlock
	for b := range loop {
		all := true
		for o := range loop {
			if !b.Dominates(o) {
				all = false
			}
		}
		if all {
			header = b
		}
	}
	if header == nil || loop[ret] || !header.Dominates(ret) {
		return false
	}
	// header condition: i < len(seen)
	iff, ok := header.Instrs[len(header.Instrs)-1].(*ssa.If)
	if !ok {
		return false
	}
	bo, ok := iff.Cond.(*ssa.BinOp)
	if !ok || bo.Op != token.LSS {
		return false
	}
	c, ok := bo.Y.(*ssa.Call)
	if !ok {
		return false
	}
	if bi, ok := c.Call.Value.(*ssa.Builtin); !ok || bi.Name() != "len" || c.Call.Args[0] != seenSlice {
		return false
	}
	for b := range loop {
		for _, s := range b.Succs {
			if loop[s] || b == header {
				continue
			}
			// leaving from the body: must be an error return
			r, ok := s.Instrs[len(s.Instrs)-1].(*ssa.Return)
			if !ok {
				return false
			}
			if k, isC := load.Results(r)[len(load.Results(r))-1].(*ssa.Const); isC && k.IsNil() {
				return false
			}
		}
	}
	return true
}

// gateValidatedAfterStore: after the store st into gates[idx], every path to a return passes a call of a gate
// validator on &gates[idx] whose error ends the function.  done is false when no such call exists at all
// (the per-field rule then applies); why is non-empty when one exists but does not do the job.
func gateValidatedAfterStore(fn *ssa.Function, st *ssa.Store, ia *ssa.IndexAddr) (why string, done bool) {
	var calls []*ssa.Call
	for _, b := range fn.Blocks {
		for _, ins := range b.Instrs {
			c, ok := ins.(*ssa.Call)
			if !ok || c.Call.StaticCallee() == nil || c.Call.StaticCallee().Blocks == nil || !load.InModule(c.Call.StaticCallee()) {
				continue
			}
			for _, a := range c.Call.Args {
				ia2, ok := a.(*ssa.IndexAddr)
				if !ok || !sameSource(ia2.X, ia.X) || stripConv(ia2.Index) != stripConv(ia.Index) {
					continue
				}
				res := c.Call.StaticCallee().Signature.Results()
				if res.Len() == 1 && res.At(0).Type().String() == "error" {
					calls = append(calls, c)
				}
			}
		}
	}
	if len(calls) == 0 {
		return "", false
	}
	isCall := func(x ssa.Instruction) bool {
		for _, c := range calls {
			if x == ssa.Instruction(c) {
				return true
			}
		}
		return false
	}
	if !mustPassBefore(st.Block(), instrIndex(st)+1, isCall, func(ssa.Instruction) bool { return false }) {
		return "the gate is stored and a return is reachable without the checking helper having seen it", true
	}
	for _, c := range calls {
		// the error ends the parser
		ended := false
		if c.Referrers() != nil {
			for _, r := range *c.Referrers() {
				bo, ok := r.(*ssa.BinOp)
				if !ok || (bo.Op != token.NEQ && bo.Op != token.EQL) || bo.Referrers() == nil {
					continue
				}
				for _, r2 := range *bo.Referrers() {
					if iff, ok := r2.(*ssa.If); ok {
						eb := iff.Block().Succs[0]
						if bo.Op == token.EQL {
							eb = iff.Block().Succs[1]
						}
						if errorExit(eb) {
							ended = true
						}
					}
				}
			}
		}
		if !ended {
			return "the error of " + c.Call.StaticCallee().Name() + " does not end the parser", true
		}
		if w := gateValidatorWhy(c.Call.StaticCallee()); w != "" {
			return c.Call.StaticCallee().Name() + " " + w, true
		}
	}
	return "", true
}

// gateValidatorWhy: callee checks every input of its *Gate parameter with Seen.Get (an error or "not seen"
// ends it with an error) in a loop over g.Inputs(), and calls Seen.Set on g.Output only after that loop,
// returning Set's error.  The order matters: marking the output first lets a gate read its own output.
func gateValidatorWhy(callee *ssa.Function) string {
	var gets, sets []*ssa.Call
	for _, b := range callee.Blocks {
		for _, ins := range b.Instrs {
			c, ok := ins.(*ssa.Call)
			if !ok || c.Call.StaticCallee() == nil || c.Call.StaticCallee().Signature.Recv() == nil {
				continue
			}
			if !strings.HasSuffix(strings.TrimPrefix(c.Call.StaticCallee().Signature.Recv().Type().String(), "*"), "/circuit.Seen") {
				continue
			}
			switch c.Call.StaticCallee().Name() {
			case "Get":
				gets = append(gets, c)
			case "Set":
				sets = append(sets, c)
			}
		}
	}
	if len(gets) == 0 || len(sets) == 0 {
		return "does not check the inputs with Seen.Get and mark the output with Seen.Set"
	}
	for _, g := range gets {
		// the checked wire is an element of g.Inputs()
		fromInputs := false
		var walk func(v ssa.Value, d int)
		walk = func(v ssa.Value, d int) {
			if d > 6 || fromInputs {
				return
			}
			switch t := v.(type) {
			case *ssa.UnOp:
				walk(t.X, d+1)
			case *ssa.IndexAddr:
				walk(t.X, d+1)
			case *ssa.Index:
				walk(t.X, d+1)
			case *ssa.Convert:
				walk(t.X, d+1)
			case *ssa.ChangeType:
				walk(t.X, d+1)
			case *ssa.Call:
				if cal := t.Call.StaticCallee(); cal != nil && cal.Name() == "Inputs" {
					fromInputs = true
				}
			}
		}
		if len(g.Call.Args) >= 2 {
			walk(g.Call.Args[1], 0)
		}
		if !fromInputs {
			return "checks a wire that is not an element of the gate's Inputs()"
		}
		// err != nil and !seen end with an error
		okErr, okSeen := false, false
		if g.Referrers() != nil {
			for _, r := range *g.Referrers() {
				ex, ok := r.(*ssa.Extract)
				if !ok || ex.Referrers() == nil {
					continue
				}
				for _, r2 := range *ex.Referrers() {
					switch t := r2.(type) {
					case *ssa.BinOp:
						if t.Referrers() == nil {
							continue
						}
						for _, r3 := range *t.Referrers() {
							if iff, ok := r3.(*ssa.If); ok && ex.Index == 1 {
								eb := iff.Block().Succs[0]
								if t.Op == token.EQL {
									eb = iff.Block().Succs[1]
								}
								if errorExit(eb) {
									okErr = true
								}
							}
						}
					case *ssa.If:
						if ex.Index == 0 && errorExit(t.Block().Succs[1]) {
							okSeen = true
						}
					case *ssa.UnOp:
						if t.Op == token.NOT && t.Referrers() != nil && ex.Index == 0 {
							for _, r3 := range *t.Referrers() {
								if iff, ok := r3.(*ssa.If); ok && errorExit(iff.Block().Succs[0]) {
									okSeen = true
								}
							}
						}
					}
				}
			}
		}
		if !okErr || !okSeen {
			return "goes on when an input is out of range or not yet assigned"
		}
	}
	for _, st := range sets {
		for _, g := range gets {
			if st.Block() == g.Block() && instrIndex(st) < instrIndex(g) || st.Block() != g.Block() && blockReaches(st.Block(), g.Block()) {
				return "marks the output wire as assigned before the inputs are checked: a gate that reads its own output is accepted"
			}
		}
	}
	return ""
}

// arrayValidated: the wires of a gate were decoded into a local array; a loop over arr[:H] has validated
// every element below H (each passed Seen.<kind> where the loop goes on), the loop is over at `at`, and the
// element asked for has an index below H there.
func (vd *validator) arrayValidated(arr *ssa.Alloc, k int64, kind string, at *ssa.BasicBlock) bool {
	if arr.Referrers() == nil {
		return false
	}
	for _, r := range *arr.Referrers() {
		var elems []*ssa.IndexAddr
		var high ssa.Value
		switch t := r.(type) {
		case *ssa.Slice:
			if t.Low != nil || t.Referrers() == nil {
				continue
			}
			high = t.High
			for _, r2 := range *t.Referrers() {
				if ia, ok := r2.(*ssa.IndexAddr); ok {
					elems = append(elems, ia)
				}
			}
		default:
			continue
		}
		for _, ia := range elems {
			ph, ok := ia.Index.(*ssa.Phi)
			if !ok {
				// the index of a range loop may be a +1 of the carried value
				if bo, isBO := ia.Index.(*ssa.BinOp); isBO {
					ph, ok = bo.X.(*ssa.Phi)
				}
				if !ok {
					continue
				}
			}
			header := ph.Block()
			if !header.Dominates(at) || ia.Referrers() == nil {
				continue
			}
			// the block from which the loop goes round again
			var back *ssa.BasicBlock
			for _, p := range header.Preds {
				if header.Dominates(p) {
					back = p
				}
			}
			if back == nil || back.Dominates(at) {
				continue
			}
			okElem := false
			for _, r3 := range *ia.Referrers() {
				if ld, ok := r3.(*ssa.UnOp); ok && ld.Op == token.MUL {
					sub := &validator{fn: vd.fn, seen: map[ssa.Value]bool{}, depth: vd.depth}
					// the element itself must pass the check, not (recursively) the array rule
					if sub.directlyValidated(ld, kind, back) || sub.validatedOnEdge(ld, kind, back, header) {
						okElem = true
					}
				}
			}
			if !okElem {
				continue
			}
			if high == nil {
				return true
			}
			bat := at
			if vd.boundAt != nil {
				bat = vd.boundAt
			}
			if atLeast(high, k+1, bat, 0) {
				return true
			}
		}
	}
	return false
}

// directlyValidated: a dominating successful Seen.<kind>(v), without the structural fallbacks.
func (vd *validator) directlyValidated(v ssa.Value, kind string, at *ssa.BasicBlock) bool {
	for _, b := range vd.fn.Blocks {
		for _, ins := range b.Instrs {
			c, ok := ins.(*ssa.Call)
			if !ok || c.Call.StaticCallee() == nil || (c.Call.StaticCallee().String() != "("+load.Module+"/circuit.Seen)."+kind && c.Call.StaticCallee().String() != "(*"+load.Module+"/circuit.Seen)."+kind) {
				continue
			}
			if !sameSource(c.Call.Args[1], v) {
				continue
			}
			var errV, okV ssa.Value
			if kind == "Set" {
				errV = c
			}
			if c.Referrers() != nil {
				for _, r := range *c.Referrers() {
					if ex, isEx := r.(*ssa.Extract); isEx {
						if ex.Index == 0 {
							okV = ex
						} else {
							errV = ex
						}
					}
				}
			}
			if errV == nil || !errNilAt(errV, at) {
				continue
			}
			if kind == "Get" && (okV == nil || !impliedBool(okV, true, at)) {
				continue
			}
			return true
		}
	}
	return false
}

// atLeast: the integer v is at least m wherever block at is reached.
func atLeast(v ssa.Value, m int64, at *ssa.BasicBlock, depth int) bool {
	if depth > 4 {
		return false
	}
	v = stripConv(v)
	switch t := v.(type) {
	case *ssa.Const:
		return t.Value != nil && t.Int64() >= m
	case *ssa.Phi:
		if len(t.Edges) == 0 {
			return false
		}
		for _, e := range t.Edges {
			if !atLeast(e, m, at, depth+1) {
				return false
			}
		}
		return true
	}
	fn := at.Parent()
	for _, b := range fn.Blocks {
		iff, ok := b.Instrs[len(b.Instrs)-1].(*ssa.If)
		if !ok {
			continue
		}
		bo, ok := iff.Cond.(*ssa.BinOp)
		if !ok {
			continue
		}
		for side, succ := range b.Succs {
			if len(succ.Preds) != 1 || !(succ == at || succ.Dominates(at)) {
				continue
			}
			taken := side == 0
			x, y := stripConv(bo.X), stripConv(bo.Y)
			cx, isCx := x.(*ssa.Const)
			cy, isCy := y.(*ssa.Const)
			switch {
			case bo.Op == token.GTR && x == v && isCy && taken && cy.Int64()+1 >= m:
				return true
			case bo.Op == token.LSS && y == v && isCx && taken && cx.Int64()+1 >= m:
				return true
			case bo.Op == token.GEQ && x == v && isCy && taken && cy.Int64() >= m:
				return true
			case bo.Op == token.LEQ && y == v && isCx && taken && cx.Int64() >= m:
				return true
			case bo.Op == token.LEQ && x == v && isCy && !taken && cy.Int64()+1 >= m:
				return true
			case bo.Op == token.LSS && x == v && isCy && !taken && cy.Int64() >= m:
				return true
			case bo.Op == token.NEQ && !taken, bo.Op == token.EQL && taken:
				// v == w here
				var w ssa.Value
				if x == v {
					w = y
				} else if y == v {
					w = x
				}
				if w != nil && atLeast(w, m, at, depth+1) {
					return true
				}
			}
		}
	}
	return false
}

// validatedOnEdge: as directlyValidated, where the last test (`if !seen { return … }`) sits at the end of
// the block from which the loop goes round: the outcome that leads back to the header is the good one.
func (vd *validator) validatedOnEdge(v ssa.Value, kind string, from, to *ssa.BasicBlock) bool {
	iff, ok := from.Instrs[len(from.Instrs)-1].(*ssa.If)
	if !ok || len(from.Succs) != 2 {
		return false
	}
	for _, b := range vd.fn.Blocks {
		for _, ins := range b.Instrs {
			c, ok := ins.(*ssa.Call)
			if !ok || c.Call.StaticCallee() == nil || (c.Call.StaticCallee().String() != "("+load.Module+"/circuit.Seen)."+kind && c.Call.StaticCallee().String() != "(*"+load.Module+"/circuit.Seen)."+kind) {
				continue
			}
			if !sameSource(c.Call.Args[1], v) || c.Referrers() == nil {
				continue
			}
			var errV, okV ssa.Value
			if kind == "Set" {
				errV = c
			}
			for _, r := range *c.Referrers() {
				if ex, isEx := r.(*ssa.Extract); isEx {
					if ex.Index == 0 {
						okV = ex
					} else {
						errV = ex
					}
				}
			}
			if errV == nil || kind != "Get" || okV == nil {
				continue
			}
			// err == nil on the way into `from`, and the edge from -> to is the one on which seen holds
			if !errNilAt(errV, from) {
				continue
			}
			cond := iff.Cond
			neg := false
			if u, isU := cond.(*ssa.UnOp); isU && u.Op == token.NOT {
				cond, neg = u.X, true
			}
			if cond != okV {
				continue
			}
			if (!neg && from.Succs[0] == to) || (neg && from.Succs[1] == to) {
				return true
			}
		}
	}
	return false
}
