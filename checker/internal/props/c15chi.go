package props

import (
	"fmt"
	"go/token"
	"go/types"
	"sort"
	"strings"

	"golang.org/x/tools/go/ssa"

	"mpcverif/internal/flow"
	"mpcverif/internal/load"
	"mpcverif/internal/report"
)

// C15chi: both ends of the consistency check weigh the same rows with the same pseudo-random coefficients.
//
// The facts are read from the SSA form of the two role functions with their module helpers flattened at the
// call sites (a check moved into `verify`, accumulators kept in the sender, a shared `accumulate` helper
// change nothing): the ordered sequence of coefficient draws (prgLabels) and inner products
// (vectorInnPrdtSumNoRed), each product classified by which extension batch of the role its vector comes
// from, and where the seed of the coefficient stream comes from.
func C15chi(p *load.Program, run *report.Run) {
	run.Rule("chi-stream-agreement", "sender and receiver seed the coefficient stream with one value that travels between them (one side sends it, the other receives it), and consume it in the same order: the coefficients drawn for the rows of the first extension batch multiply those rows, the ones drawn afterwards multiply the rows of the check batch (helpers of the module are followed; the stride of the draws is irrelevant, the stream is sequential)")
	fs, e1 := p.Method("ot", "IKNPSender", "Send")
	fr, e2 := p.Method("ot", "IKNPReceiver", "Receive")
	key := "ot.IKNPSender.Send/IKNPReceiver.Receive/chi"
	if e1 != nil || e2 != nil {
		run.Undecided("chi-stream-agreement", key, "", "function not found")
		return
	}
	type event struct {
		pos  []int // source positions of the call chain, for ordering
		text string
	}
	extract := func(role *ssa.Function, ext string) (seq []string, seedVia string) {
		// the extension calls of the role, in source order
		var batches []*ssa.Call
		for _, b := range role.Blocks {
			for _, ins := range b.Instrs {
				if c, ok := ins.(*ssa.Call); ok && c.Call.StaticCallee() != nil && c.Call.StaticCallee().Name() == ext {
					batches = append(batches, c)
				}
			}
		}
		sort.Slice(batches, func(i, j int) bool { return batches[i].Pos() < batches[j].Pos() })
		// a window of local storage that a batch call is handed stands for that batch: two batches may share
		// one allocation (labels[:n] and labels[n:count])
		batchArg := map[ssa.Value]bool{}
		for _, bc := range batches {
			for _, a := range bc.Call.Args {
				if sl, ok := a.(*ssa.Slice); ok && (sl.Low != nil || sl.High != nil) {
					batchArg[a] = true
				}
			}
		}
		rootOf := func(v ssa.Value) ssa.Value {
			for d := 0; d < 8; d++ {
				if batchArg[v] {
					return v
				}
				switch t := v.(type) {
				case *ssa.Slice:
					v = t.X
					continue
				case *ssa.UnOp:
					if al, ok := t.X.(*ssa.Alloc); ok {
						return al
					}
				}
				break
			}
			return v
		}
		type bindT = struct {
			callee *ssa.Function
			call   ssa.CallInstruction
		}
		var curBinds []bindT
		resolve := func(v ssa.Value) ssa.Value {
			r := rootOf(v)
			for d := 0; d < 4; d++ {
				prm, ok := r.(*ssa.Parameter)
				if !ok {
					break
				}
				moved := false
				for _, bd := range curBinds {
					for i, cp := range bd.callee.Params {
						if cp == prm && i < len(bd.call.Common().Args) {
							r = rootOf(bd.call.Common().Args[i])
							moved = true
						}
					}
				}
				if !moved {
					break
				}
			}
			return r
		}
		var classOf func(x *flow.XSlice, vec ssa.Value) string
		classOf = func(x *flow.XSlice, vec ssa.Value) string {
			// rows appended to rows: the vector is the first followed by the second
			if r := resolve(vec); r != nil {
				if ap, ok := r.(*ssa.Call); ok {
					if bi, ok := ap.Call.Value.(*ssa.Builtin); ok && bi.Name() == "append" && len(ap.Call.Args) == 2 {
						part := func(v ssa.Value) string {
							// an empty vector made to be appended to contributes no rows
							if ms, ok := v.(*ssa.MakeSlice); ok {
								if k, ok := ms.Len.(*ssa.Const); ok && k.Int64() == 0 {
									return ""
								}
							}
							x2 := flow.NewXSlice(load.InModule)
							for _, bd := range curBinds {
								x2.Enter(bd.callee, bd.call)
							}
							x2.Add(v)
							return classOf(x2, v)
						}
						a, b := part(ap.Call.Args[0]), part(ap.Call.Args[1])
						switch {
						case a == "":
							return b
						case b == "":
							return a
						}
						return a + "+" + b
					}
				}
			}
			var hit []string
			// the vector is the very window a batch call filled: that batch, whatever else shares the storage
			if rv := resolve(vec); batchArg[rv] {
				for i, bc := range batches {
					for _, a := range bc.Call.Args {
						if a == rv {
							hit = append(hit, fmt.Sprintf("batch%d", i+1))
						}
					}
				}
				if len(hit) > 0 {
					return strings.Join(hit, "&")
				}
			}
			for i, bc := range batches {
				in := x.Set[bc]
				// the extension fills a vector it is handed: the same storage is an argument of the batch call
				for _, a := range bc.Call.Args {
					if r := rootOf(a); r == resolve(vec) {
						if _, isSlice := a.Type().Underlying().(*types.Slice); isSlice {
							in = true
						}
					}
				}
				if in {
					hit = append(hit, fmt.Sprintf("batch%d", i+1))
				}
			}
			if len(hit) == 0 {
				return "other"
			}
			return strings.Join(hit, "&")
		}
		var events []event
		var walk func(g *ssa.Function, chain []int, binds []struct {
			callee *ssa.Function
			call   ssa.CallInstruction
		}, depth int)
		walk = func(g *ssa.Function, chain []int, binds []struct {
			callee *ssa.Function
			call   ssa.CallInstruction
		}, depth int) {
			for _, b := range g.Blocks {
				for _, ins := range b.Instrs {
					c, ok := ins.(*ssa.Call)
					if !ok || c.Call.StaticCallee() == nil {
						continue
					}
					callee := c.Call.StaticCallee()
					at := append(append([]int{}, chain...), int(c.Pos()))
					switch callee.Name() {
					case "prgLabels":
						events = append(events, event{at, "draw"})
						continue
					case "newPrg":
						if depth == 0 && len(c.Call.Args) == 1 && !strings.HasSuffix(c.Call.Args[0].Type().String(), "/ot.Label") {
							continue
						}
						if blockReaches(c.Block(), c.Block()) {
							events = append(events, event{at, "seed(in a loop)"})
						} else {
							events = append(events, event{at, "seed"})
						}
						if len(c.Call.Args) == 1 {
							// where the seed comes from: the variable it is read from is filled by ReceiveLabel, or
							// its value is what the role hands to SendLabel (parameters continue at the call sites)
							var dir func(v ssa.Value, depth int) string
							dir = func(v ssa.Value, depth int) string {
								if depth > 4 {
									return ""
								}
								sentBy := func(val ssa.Value) bool {
									if val.Referrers() == nil {
										return false
									}
									for _, r := range *val.Referrers() {
										if ci, ok := r.(ssa.CallInstruction); ok && ci.Common().IsInvoke() && ci.Common().Method.Name() == "SendLabel" && len(ci.Common().Args) > 0 && ci.Common().Args[0] == val {
											return true
										}
									}
									return false
								}
								switch t := v.(type) {
								case *ssa.Parameter:
									for _, bd := range binds {
										for i, prm := range bd.callee.Params {
											if prm == t && i < len(bd.call.Common().Args) {
												if d := dir(bd.call.Common().Args[i], depth+1); d != "" {
													return d
												}
											}
										}
									}
								case *ssa.UnOp:
									if t.Op != token.MUL {
										break
									}
									cell := t.X
									if cell.Referrers() != nil {
										for _, r := range *cell.Referrers() {
											if ci, ok := r.(ssa.CallInstruction); ok && ci.Common().IsInvoke() && ci.Common().Method.Name() == "ReceiveLabel" && len(ci.Common().Args) > 0 && ci.Common().Args[0] == cell {
												return "ReceiveLabel"
											}
										}
										for _, r := range *cell.Referrers() {
											if ld, ok := r.(*ssa.UnOp); ok && ld.Op == token.MUL && sentBy(ld) {
												return "SendLabel"
											}
											if st, ok := r.(*ssa.Store); ok && st.Addr == cell {
												if d := dir(st.Val, depth+1); d != "" {
													return d
												}
											}
										}
									}
								case *ssa.Extract:
									if sentBy(t) {
										return "SendLabel"
									}
								case *ssa.Call:
									if sentBy(t) {
										return "SendLabel"
									}
								}
								if sentBy(v) {
									return "SendLabel"
								}
								return ""
							}
							if d := dir(c.Call.Args[0], 0); d != "" {
								seedVia = d
							}
						}
						continue
					case "vectorInnPrdtSumNoRed":
						if len(c.Call.Args) == 2 {
							x := flow.NewXSlice(load.InModule)
							for _, bd := range binds {
								x.Enter(bd.callee, bd.call)
							}
							x.Add(c.Call.Args[1])
							curBinds = curBinds[:0]
							for _, bd := range binds {
								curBinds = append(curBinds, bindT{bd.callee, bd.call})
							}
							events = append(events, event{at, "weigh(" + classOf(x, c.Call.Args[1]) + ")"})
						}
						continue
					}
					if load.InModule(callee) && callee.Blocks != nil && depth < 2 && callee.Name() != ext && callee.Pkg == role.Pkg {
						nb := append(append([]struct {
							callee *ssa.Function
							call   ssa.CallInstruction
						}{}, binds...), struct {
							callee *ssa.Function
							call   ssa.CallInstruction
						}{callee, c})
						walk(callee, at, nb, depth+1)
					}
				}
			}
		}
		walk(role, nil, nil, 0)
		sort.SliceStable(events, func(i, j int) bool {
			a, b := events[i].pos, events[j].pos
			for k := 0; k < len(a) && k < len(b); k++ {
				if a[k] != b[k] {
					return a[k] < b[k]
				}
			}
			return len(a) < len(b)
		})
		for _, e := range events {
			seq = append(seq, e.text)
		}
		return
	}
	seqS, seedS := extract(fs, "send")
	seqR, seedR := extract(fr, "receive")
	run.Count("chi-draw-groups", len(seqS)+len(seqR))
	// the rows weighed, in order: a product over rows a followed by rows b is the product over a then over b
	// (the coefficient stream is sequential, so how the draws are grouped does not matter)
	weighs := func(seq []string) (out []string) {
		for _, s := range seq {
			if strings.HasPrefix(s, "weigh(") {
				for _, part := range strings.Split(strings.TrimSuffix(strings.TrimPrefix(s, "weigh("), ")"), "+") {
					out = append(out, "weigh("+part+")")
				}
			}
		}
		return
	}
	shape := func(seq []string) string {
		// seed once, then draws and products alternating with a draw before every product
		if len(seq) == 0 || seq[0] != "seed" {
			return "no single seeding of the stream before the draws"
		}
		for i, s := range seq[1:] {
			if s == "seed" || strings.HasPrefix(s, "seed(") {
				return "the stream is seeded again"
			}
			if strings.HasPrefix(s, "weigh") && (i == 0 || seq[i] != "draw") {
				return "a product without coefficients drawn for it"
			}
		}
		return ""
	}
	switch {
	case !((seedS == "ReceiveLabel" && seedR == "SendLabel") || (seedS == "SendLabel" && seedR == "ReceiveLabel")):
		run.Violate("chi-stream-agreement", key, p.Rel(fs.Pos()), fmt.Sprintf("the stream is seeded from a value the sender got by %q and the receiver by %q: the two streams differ", seedS, seedR), nil)
	case len(weighs(seqS)) == 0 || fmt.Sprint(weighs(seqS)) != fmt.Sprint(weighs(seqR)):
		run.Violate("chi-stream-agreement", key, p.Rel(fs.Pos()), fmt.Sprintf("the sender's check runs %v, the receiver's %v: the coefficients do not weigh the same rows on both sides", seqS, seqR), nil)
	case shape(seqS) != "" || shape(seqR) != "":
		run.Violate("chi-stream-agreement", key, p.Rel(fs.Pos()), fmt.Sprintf("the sender's check runs %v, the receiver's %v: %s%s — one stream is seeded once and every group of rows gets coefficients drawn for it from that stream; a stream restarted or coefficients used twice let two alterations cancel", seqS, seqR, shape(seqS), shape(seqR)), nil)
	case fmt.Sprint(weighs(seqS)) != "[weigh(batch1) weigh(batch2)]":
		run.Violate("chi-stream-agreement", key, p.Rel(fs.Pos()), fmt.Sprintf("the check weighs %v, expected the rows of the first extension batch and then those of the check batch", weighs(seqS)), nil)
	default:
		run.OK("chi-stream-agreement", key, p.Rel(fs.Pos()), strings.Join(seqS, ", "))
	}
	run.Floor("chi-draw-groups", 4)
}
