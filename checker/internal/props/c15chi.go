package props

import (
	"fmt"
	"go/ast"
	"go/types"
	"strings"

	"mpcverif/internal/dispatch"
	"mpcverif/internal/load"
	"mpcverif/internal/report"
)

// C15chi: both ends of the consistency check weigh the same rows with the same pseudo-random coefficients.
func C15chi(p *load.Program, run *report.Run) {
	run.Rule("chi-stream-agreement", "sender and receiver seed the coefficient stream with the value the receiver sent, and consume it in the same order: the coefficients drawn for the result rows multiply the result rows, those drawn afterwards multiply the extra rows (the stride of the draws is irrelevant, the stream is sequential)")
	_, fs := dispatch.FindFunc(p, "ot", "IKNPSender", "Send")
	_, fr := dispatch.FindFunc(p, "ot", "IKNPReceiver", "Receive")
	if fs == nil || fr == nil {
		run.Undecided("chi-stream-agreement", "ot.IKNPSender.Send/IKNPReceiver.Receive", "", "function not found")
		return
	}
	type draw struct{ seedFrom, target string }
	extract := func(fd *ast.FuncDecl) (seed string, seq []string) {
		prgSeed := ""
		var pending string // the buffer last filled by prgLabels
		ast.Inspect(fd.Body, func(n ast.Node) bool {
			switch t := n.(type) {
			case *ast.AssignStmt:
				if len(t.Rhs) == 1 {
					if c, ok := t.Rhs[0].(*ast.CallExpr); ok {
						_, name, _ := callName(c)
						if name == "newPrg" && len(c.Args) == 1 {
							prgSeed = types.ExprString(c.Args[0])
						}
						if name == "vectorInnPrdtSumNoRed" && len(c.Args) == 2 {
							if baseName(c.Args[0]) == pending {
								seq = append(seq, baseName(c.Args[1]))
							} else {
								seq = append(seq, "stale-coefficients:"+baseName(c.Args[1]))
							}
							pending = "" // coefficients are used once
						}
					}
				}
			case *ast.ExprStmt:
				if c, ok := t.X.(*ast.CallExpr); ok {
					if _, name, _ := callName(c); name == "prgLabels" && len(c.Args) == 2 {
						pending = baseName(c.Args[1])
					}
				}
			}
			return true
		})
		// where the seed comes from
		ast.Inspect(fd.Body, func(n ast.Node) bool {
			c, ok := n.(*ast.CallExpr)
			if !ok {
				return true
			}
			_, name, _ := callName(c)
			if (name == "ReceiveLabel" || name == "SendLabel") && len(c.Args) >= 1 && strings.TrimPrefix(types.ExprString(c.Args[0]), "&") == prgSeed {
				seed = name
			}
			return true
		})
		return
	}
	seedS, seqS := extract(fs)
	seedR, seqR := extract(fr)
	key := "ot.IKNPSender.Send/IKNPReceiver.Receive/chi"
	run.Count("chi-draw-groups", len(seqS)+len(seqR))
	switch {
	case seedS != "ReceiveLabel" || seedR != "SendLabel":
		run.Violate("chi-stream-agreement", key, p.Rel(fs.Pos()), fmt.Sprintf("the stream is seeded from a value the sender got by %q and the receiver by %q: the two streams differ", seedS, seedR), nil)
	case len(seqS) == 0 || fmt.Sprint(seqS) != fmt.Sprint(seqR):
		run.Violate("chi-stream-agreement", key, p.Rel(fs.Pos()), fmt.Sprintf("coefficients weigh %v at the sender and %v at the receiver", seqS, seqR), nil)
	default:
		run.OK("chi-stream-agreement", key, p.Rel(fs.Pos()), strings.Join(seqS, ", then "))
	}
	run.Floor("chi-draw-groups", 4)
	_ = load.Module
}
