package props

import (
	"fmt"
	"go/token"
	"go/types"
	"sort"
	"strings"

	"golang.org/x/tools/go/ssa"

	"mpcverif/internal/flow"
	"mpcverif/internal/load"
	"mpcverif/internal/report"
)

func isConnReceive(c ssa.CallInstruction) bool {
	cc := c.Common()
	name := ""
	if cc.IsInvoke() {
		name = cc.Method.Name()
		if !strings.HasSuffix(cc.Value.Type().String(), "/ot.IO") {
			return false
		}
	} else if callee := cc.StaticCallee(); callee != nil && callee.Signature.Recv() != nil &&
		strings.HasSuffix(callee.Signature.Recv().Type().String(), "/p2p.Conn") {
		name = callee.Name()
	}
	if strings.HasPrefix(name, "Receive") {
		return true
	}
	// a wrapper of one receive (errWriter idiom): its call is the receive
	if !cc.IsInvoke() {
		return recvWrapper(cc.StaticCallee()) != ""
	}
	return false
}

// c16ctx holds the summaries of helper functions the garbler roles delegate label decisions to.  A module
// function is a *deciding helper* when, with its label-typed parameters taken as peer data, none of its
// non-error results depends on them except through BitFromLabel / Label.Equal (or another deciding
// helper), and it contains at least one such test.  A call of a deciding helper is then a declassifier in
// its caller exactly like a direct call of BitFromLabel, provided its other arguments are clean.
type c16ctx struct {
	p    *load.Program
	memo map[*ssa.Function]*c16sum
	used map[*ssa.Function]bool
}

type c16sum struct {
	clean bool
	nsan  int
	ta    *flow.Taint
}

func c16base(callee *ssa.Function) bool {
	if callee == nil {
		return false
	}
	s := callee.String()
	if s == load.Module+"/circuit.BitFromLabel" || s == "("+load.Module+"/ot.Label).Equal" {
		return true
	}
	// a function that resolves a label against a wire and that the three-case evaluation accepts
	return labelDecider(callee).ok
}

func labelTyped(t types.Type) bool { return strings.Contains(t.String(), "/ot.Label") }

func c16sources(ins ssa.Instruction) []ssa.Value {
	c, ok := ins.(ssa.CallInstruction)
	if !ok || !isConnReceive(c) {
		return nil
	}
	var out []ssa.Value
	if v, ok := ins.(ssa.Value); ok {
		out = append(out, v)
	}
	for _, a := range c.Common().Args {
		if b := flow.BaseOf(a); b != nil {
			out = append(out, b)
		}
	}
	return out
}

func (cx *c16ctx) summary(h *ssa.Function, depth int) *c16sum {
	if s, ok := cx.memo[h]; ok {
		return s
	}
	s := &c16sum{}
	cx.memo[h] = s // recursion: not a helper while being computed
	if depth > 3 || h.Blocks == nil || !load.InModule(h) {
		return s
	}
	var seed []ssa.Value
	for _, prm := range h.Params {
		if labelTyped(prm.Type()) {
			seed = append(seed, prm)
		}
	}
	if len(seed) == 0 {
		return s
	}
	ta, nsan := cx.taint(h, seed, depth+1, true)
	s.ta, s.nsan = ta, nsan
	s.clean = nsan > 0 && len(ta.TaintedReturns()) == 0
	return s
}

// taint runs the analysis of fn; nsan counts the declassifying calls (direct or through deciding helpers).
func (cx *c16ctx) taint(fn *ssa.Function, seed []ssa.Value, depth int, cleanLen bool) (*flow.Taint, int) {
	ta := &flow.Taint{Fn: fn, Seed: seed, CleanLen: cleanLen,
		KeepClean: func(t types.Type) bool { return t.String() == "error" },
		Source:    c16sources,
	}
	helper := func(c ssa.CallInstruction) bool {
		callee := c.Common().StaticCallee()
		if callee == nil || c16base(callee) || callee == fn {
			return false
		}
		hasLabel := false
		for _, a := range c.Common().Args {
			if labelTyped(a.Type()) {
				hasLabel = true
			}
		}
		if !hasLabel || !cx.summary(callee, depth).clean {
			return false
		}
		// the other arguments must be clean: the summary vouches for the label contents only
		for _, a := range c.Common().Args {
			if !labelTyped(a.Type()) && ta.T[a] {
				return false
			}
		}
		return true
	}
	ta.CleanValue = func(v ssa.Value) bool {
		_, ok := xorFoldVerdict(v)
		return ok
	}
	ta.Sanitizer = func(c ssa.CallInstruction) bool {
		if c16base(c.Common().StaticCallee()) {
			return true
		}
		if helper(c) {
			cx.used[c.Common().StaticCallee()] = true
			return true
		}
		return false
	}
	ta.Run()
	nsan := 0
	for _, b := range fn.Blocks {
		for _, ins := range b.Instrs {
			if c, ok := ins.(ssa.CallInstruction); ok && ta.Sanitizer(c) {
				nsan++
			}
			if v, ok := ins.(ssa.Value); ok {
				if _, isVerdict := xorFoldVerdict(v); isVerdict {
					nsan++
				}
			}
		}
	}
	return ta, nsan
}

// xorFoldVerdict: v is `z == 0` or `z != 0` where z is the OR of the two words of a local label d, and d
// is the received label XORed with a wire's L0 or L1 (d := label; d.Xor(wire.L0); z := d.D0 | d.D1): the
// comparison is the verdict "the label is (not) that wire label" — full-label equality spelled with
// arithmetic.  idx is 0 or 1.
func xorFoldVerdict(v ssa.Value) (idx int, ok bool) {
	bo, isBO := v.(*ssa.BinOp)
	if !isBO || (bo.Op != token.EQL && bo.Op != token.NEQ) {
		return 0, false
	}
	var z ssa.Value
	if k, isC := bo.Y.(*ssa.Const); isC && k.Value != nil && k.Value.String() == "0" {
		z = bo.X
	} else if k, isC := bo.X.(*ssa.Const); isC && k.Value != nil && k.Value.String() == "0" {
		z = bo.Y
	}
	or, isOr := z.(*ssa.BinOp)
	if !isOr || or.Op != token.OR {
		return 0, false
	}
	word := func(x ssa.Value) (*ssa.Alloc, string) {
		ld, ok := x.(*ssa.UnOp)
		if !ok || ld.Op != token.MUL {
			return nil, ""
		}
		fa, ok := ld.X.(*ssa.FieldAddr)
		if !ok {
			return nil, ""
		}
		al, ok := fa.X.(*ssa.Alloc)
		if !ok || !labelTyped(al.Type()) {
			return nil, ""
		}
		return al, structFieldName(fa.X.Type(), fa.Field)
	}
	a1, f1 := word(or.X)
	a2, f2 := word(or.Y)
	if a1 == nil || a1 != a2 || f1 == f2 || a1.Referrers() == nil {
		return 0, false
	}
	// the local was XORed with a wire label
	for _, r := range *a1.Referrers() {
		c, isCall := r.(*ssa.Call)
		if !isCall || c.Call.StaticCallee() == nil || c.Call.StaticCallee().Name() != "Xor" || len(c.Call.Args) != 2 || c.Call.Args[0] != ssa.Value(a1) {
			continue
		}
		if !labelTyped(c.Call.Args[1].Type()) {
			continue
		}
		switch t := c.Call.Args[1].(type) {
		case *ssa.Field:
			if st, ok := t.X.Type().Underlying().(*types.Struct); ok {
				switch st.Field(t.Field).Name() {
				case "L0":
					return 0, true
				case "L1":
					return 1, true
				}
			}
		case *ssa.UnOp:
			if fa, ok := t.X.(*ssa.FieldAddr); ok && t.Op == token.MUL {
				switch structFieldName(fa.X.Type(), fa.Field) {
				case "L0":
					return 0, true
				case "L1":
					return 1, true
				}
			}
		}
	}
	return 0, false
}

// C16 decides that received data reaches the garbler's result only through full-label equality.
func C16(p *load.Program, run *report.Run) {
	run.Rule("result-from-equality", "in the garbler roles, data received from the peer influences the returned values only as the compared operand of BitFromLabel / Label.Equal")
	cx := &c16ctx{p: p, memo: map[*ssa.Function]*c16sum{}, used: map[*ssa.Function]bool{}}
	type ref struct{ pkg, typ, name string }
	for _, r := range []ref{{"circuit", "", "Garbler"}, {"compiler/ssa", "Program", "Stream"}} {
		var f *ssa.Function
		var err error
		if r.typ == "" {
			f, err = p.Func(r.pkg, r.name)
		} else {
			f, err = p.Method(r.pkg, r.typ, r.name)
		}
		key := strings.TrimPrefix(r.pkg+"."+r.typ+"."+r.name, ".")
		key = strings.ReplaceAll(key, "..", ".")
		if err != nil {
			run.Undecided("result-from-equality", key, "", err.Error())
			continue
		}
		nrecv := 0
		for _, b := range f.Blocks {
			for _, ins := range b.Instrs {
				if c, ok := ins.(ssa.CallInstruction); ok && isConnReceive(c) {
					nrecv++
				}
			}
		}
		ta, nsan := cx.taint(f, nil, 0, false)
		// a helper that is handed the connection and does both — receives the labels and resolves them by
		// equality, returning nothing that depends on them otherwise — is part of the role; what it reports
		// (its error result) must then end the role with an error
		for _, b := range f.Blocks {
			for _, ins := range b.Instrs {
				c, ok := ins.(ssa.CallInstruction)
				if !ok {
					continue
				}
				h := c.Common().StaticCallee()
				if h == nil || h == f || h.Blocks == nil || !load.InModule(h) || c16base(h) || isConnReceive(c) {
					continue
				}
				hrecv := 0
				for _, hb := range h.Blocks {
					for _, hi := range hb.Instrs {
						if hc, ok := hi.(ssa.CallInstruction); ok && isConnReceive(hc) {
							hrecv++
						}
					}
				}
				if hrecv == 0 {
					continue
				}
				hta, hnsan := cx.taint(h, nil, 1, false)
				if hnsan == 0 || len(hta.TaintedReturns()) > 0 {
					continue
				}
				nrecv += hrecv
				nsan += hnsan
				hkey := key + "/" + h.Name()
				if why := verdictDropped(f, c); why != "" {
					run.Violate("result-from-equality", hkey, p.Rel(c.Pos()), why, nil)
				} else {
					run.OK("result-from-equality", hkey, p.Rel(c.Pos()), fmt.Sprintf("helper with %d receive sites and %d equality tests; its error ends the role", hrecv, hnsan))
				}
			}
		}
		run.Count("receive-sites", nrecv)
		run.Count("equality-sites", nsan)
		bad := ta.TaintedReturns()
		if nrecv == 0 || nsan == 0 {
			run.Violate("result-from-equality", key, p.Rel(f.Pos()), fmt.Sprintf("the role has %d receive sites and %d full-label equality tests; both must exist", nrecv, nsan), nil)
			continue
		}
		if len(bad) == 0 {
			run.OK("result-from-equality", key, p.Rel(f.Pos()), fmt.Sprintf("%d receive sites, %d equality tests", nrecv, nsan))
			continue
		}
		for _, r := range bad {
			var why []string
			for _, v := range load.Results(r) {
				if ta.T[v] {
					why = ta.Why(v, 8)
					break
				}
			}
			run.Violate("result-from-equality", key, p.Rel(r.Pos()), "a returned value depends on received data outside a full-label equality", why)
		}
	}
	c16branches(p, run, cx)
	run.Floor("receive-sites", 4)
	run.Floor("equality-sites", 2)
}

// C15 decides the structure of the KOS consistency check.
func C15(p *load.Program, run *report.Run) {
	run.Rule("kos-check-dominates-success", "with malicious set, IKNPSender.Send returns success only over the true edges of both q.Equal(t) tests — its own, or those of a helper of the package that returns a nil error only over them and whose error Send tests")
	run.Rule("kos-check-dependence", "the compared value depends on Delta, on both extension batches and on the received x; t0,t1 come from the wire, and the seed of the coefficients is received from or sent to the peer (the slice follows helpers of the module and state kept in fields of the sender)")
	f, err := p.Method("ot", "IKNPSender", "Send")
	if err != nil {
		run.Undecided("kos-check-dominates-success", "ot.IKNPSender.Send", "", err.Error())
		return
	}
	key := "ot.IKNPSender.Send"
	equalsOf := func(g *ssa.Function) []*eqTest { return labelEqualities(g) }
	successesOf := func(g *ssa.Function) []*ssa.Return {
		var out []*ssa.Return
		for _, b := range g.Blocks {
			if b == g.Recover {
				continue // the block a recovered panic resumes at returns whatever the result cells hold
			}
			if r, ok := b.Instrs[len(b.Instrs)-1].(*ssa.Return); ok {
				rs := load.Results(r)
				if len(rs) == 0 {
					continue
				}
				if c, ok := rs[len(rs)-1].(*ssa.Const); ok && c.Value == nil {
					out = append(out, r)
				}
			}
		}
		return out
	}
	// dominated: every success return of g needs the equality to be true (after cutting the edges in base)
	dominated := func(g *ssa.Function, base map[[2]int]bool, trueEdges [][2]int) bool {
		cut := map[[2]int]bool{}
		for k := range base {
			cut[k] = true
		}
		for _, e := range trueEdges {
			cut[e] = true
		}
		if len(trueEdges) == 0 {
			return false
		}
		for _, r := range successesOf(g) {
			if flow.ReachableWithoutEdges(g, cut, r.Block()) {
				return false
			}
		}
		return true
	}
	equals := equalsOf(f)
	// a helper that holds the check: a module function called from Send whose nil-error returns need both of
	// its own equality tests; the edges on which Send sees its error as nil stand for the tests
	type helperCheck struct {
		call   *ssa.Call
		callee *ssa.Function
		eqs    []*eqTest
	}
	var helper *helperCheck
	if len(equals) < 2 {
		for _, b := range f.Blocks {
			for _, ins := range b.Instrs {
				c, ok := ins.(*ssa.Call)
				if !ok || c.Call.StaticCallee() == nil || !load.InModule(c.Call.StaticCallee()) || c.Call.StaticCallee().Blocks == nil {
					continue
				}
				h := c.Call.StaticCallee()
				res := h.Signature.Results()
				if res.Len() == 0 || res.At(res.Len()-1).Type().String() != "error" {
					continue
				}
				if eqs := equalsOf(h); len(eqs) >= 2 {
					helper = &helperCheck{c, h, eqs}
				}
			}
		}
	}
	var malicious ssa.Value
	for _, prm := range f.Params {
		if b, ok := prm.Type().Underlying().(*types.Basic); ok && b.Kind() == types.Bool {
			malicious = prm
		}
	}
	if malicious == nil || (len(equals) < 2 && helper == nil) {
		run.Count("equality-tests", len(equals))
		run.Violate("kos-check-dominates-success", key, p.Rel(f.Pos()), fmt.Sprintf("expected a boolean mode parameter and two label equality tests in Send or in a helper it calls, found %d", len(equals)), nil)
		return
	}
	cutBase := map[[2]int]bool{}
	for _, e := range flow.TrueEdges(f, malicious) {
		// TrueEdges gives the edge where malicious is true; cut the opposite edge
		cutBase[[2]int{e[0], 1 - e[1]}] = true
	}
	var sliceRoots []ssa.Value
	xs := flow.NewXSlice(load.InModule)
	if helper == nil {
		run.Count("equality-tests", len(equals))
		for i, eq := range equals {
			k := fmt.Sprintf("%s/equal#%d", key, i)
			if eq.alias != "" {
				run.Violate("kos-check-dominates-success", k+"/operands", p.Rel(eq.Pos()), eq.alias, nil)
			}
			if dominated(f, cutBase, eq.trueEdges(f)) {
				run.OK("kos-check-dominates-success", k, p.Rel(eq.Pos()), "every malicious-mode success return needs this test to be true")
			} else {
				run.Violate("kos-check-dominates-success", k, p.Rel(eq.Pos()), "a success return is reachable in malicious mode without this equality being true", nil)
			}
			sliceRoots = append(sliceRoots, eq.operands...)
		}
	} else {
		run.Count("equality-tests", len(helper.eqs))
		hname := strings.ReplaceAll(helper.callee.RelString(nil), load.Module+"/", "")
		for i, eq := range helper.eqs {
			k := fmt.Sprintf("%s/%s/equal#%d", key, hname, i)
			if eq.alias != "" {
				run.Violate("kos-check-dominates-success", k+"/operands", p.Rel(eq.Pos()), eq.alias, nil)
			}
			if dominated(helper.callee, nil, eq.trueEdges(helper.callee)) {
				run.OK("kos-check-dominates-success", k, p.Rel(eq.Pos()), "the helper returns a nil error only over this test")
			} else {
				run.Violate("kos-check-dominates-success", k, p.Rel(eq.Pos()), "the helper can return a nil error without this equality being true", nil)
			}
			sliceRoots = append(sliceRoots, eq.operands...)
		}
		// the edges of Send on which the helper's error is nil
		var errv ssa.Value = helper.call
		if helper.callee.Signature.Results().Len() > 1 {
			errv = nil
			if helper.call.Referrers() != nil {
				for _, r := range *helper.call.Referrers() {
					if ex, ok := r.(*ssa.Extract); ok && ex.Index == helper.callee.Signature.Results().Len()-1 {
						errv = ex
					}
				}
			}
		}
		var nilEdges [][2]int
		if errv != nil && errv.Referrers() != nil {
			for _, r := range *errv.Referrers() {
				bo, ok := r.(*ssa.BinOp)
				if !ok || (bo.Op != token.NEQ && bo.Op != token.EQL) || bo.Referrers() == nil {
					continue
				}
				for _, r2 := range *bo.Referrers() {
					if iff, ok := r2.(*ssa.If); ok {
						if bo.Op == token.NEQ {
							nilEdges = append(nilEdges, [2]int{iff.Block().Index, 1})
						} else {
							nilEdges = append(nilEdges, [2]int{iff.Block().Index, 0})
						}
					}
				}
			}
		}
		k := fmt.Sprintf("%s/%s", key, hname)
		if dominated(f, cutBase, nilEdges) {
			run.OK("kos-check-dominates-success", k, p.Rel(helper.call.Pos()), "every malicious-mode success return needs the helper's error to be nil")
		} else {
			run.Violate("kos-check-dominates-success", k, p.Rel(helper.call.Pos()), "a success return is reachable in malicious mode without the error of the check being tested and nil", nil)
		}
		xs.Enter(helper.callee, helper.call)
	}
	// dependence
	xs.Add(sliceRoots...)
	need := map[string]bool{"Delta": false, "send#1": false, "send#2": false, "receive x,t0,t1": false, "challenge seed exchanged": false, "mul128": false, "inner product": false}
	recvs := 0
	for ins := range xs.Set {
		switch t := ins.(type) {
		case *ssa.FieldAddr:
			if structFieldName(t.X.Type(), t.Field) == "Delta" {
				need["Delta"] = true
			}
		case ssa.CallInstruction:
			callee := t.Common().StaticCallee()
			if callee != nil {
				switch callee.Name() {
				case "mul128":
					need["mul128"] = true
				case "vectorInnPrdtSumNoRed":
					need["inner product"] = true
				}
			}
			if t.Common().IsInvoke() && t.Common().Method.Name() == "ReceiveLabel" {
				recvs++
			}
		}
	}
	// the extension batches must enter the check: both calls of the extension (`send`) made by Send are in the slice
	batch := 0
	for ins := range xs.Set {
		if c, ok := ins.(*ssa.Call); ok && c.Parent() == f {
			if callee := c.Call.StaticCallee(); callee != nil && callee.Name() == "send" {
				batch++
			}
		}
	}
	need["send#1"] = batch >= 1
	need["send#2"] = batch >= 2
	need["receive x,t0,t1"] = recvs >= 3
	// the seed of the challenge coefficients is a fourth received label, or a value of the slice that Send sends
	sentSeed := false
	for _, b := range f.Blocks {
		for _, ins := range b.Instrs {
			if ci, ok := ins.(ssa.CallInstruction); ok && ci.Common().IsInvoke() && ci.Common().Method.Name() == "SendLabel" && len(ci.Common().Args) > 0 {
				if in, ok := ci.Common().Args[0].(ssa.Instruction); ok && xs.Set[in] {
					sentSeed = true
				}
			}
		}
	}
	need["challenge seed exchanged"] = recvs >= 4 || sentSeed
	for what, ok := range need {
		k := key + "/depends-on " + what
		if ok {
			run.OK("kos-check-dependence", k, p.Rel(f.Pos()), "")
		} else {
			run.Violate("kos-check-dependence", k, p.Rel(f.Pos()), "the compared values do not depend on "+what, nil)
		}
	}
	run.Floor("equality-tests", 2)
}

// c16branches: control dependence.  A branch whose condition is computed from
// received data (other than the verdict of a full-label equality) may only
// *validate*: one of its two sides must be unable to reach a success return.  If
// both sides can still succeed, the peer's bytes steer which success is
// returned — e.g. a loop that decodes as many result labels as a received count
// says returns a truncated value without an error.
func c16branches(p *load.Program, run *report.Run, cx *c16ctx) {
	run.Rule("received-data-steers-only-to-errors", "in the garbler roles, and in the helper functions they hand received labels to, every branch on a value derived from received data, other than the verdict of BitFromLabel / Label.Equal, has a side from which no success return is reachable (it validates, it does not choose between successes)")
	type unit struct {
		f   *ssa.Function
		key string
		ta  *flow.Taint
	}
	var units []unit
	type ref struct{ pkg, typ, name string }
	for _, r := range []ref{{"circuit", "", "Garbler"}, {"compiler/ssa", "Program", "Stream"}} {
		var f *ssa.Function
		var err error
		if r.typ == "" {
			f, err = p.Func(r.pkg, r.name)
		} else {
			f, err = p.Method(r.pkg, r.typ, r.name)
		}
		key := strings.ReplaceAll(strings.TrimPrefix(r.pkg+"."+r.typ+"."+r.name, "."), "..", ".")
		if err != nil {
			run.Undecided("received-data-steers-only-to-errors", key, "", err.Error())
			continue
		}
		ta, _ := cx.taint(f, nil, 0, false)
		units = append(units, unit{f, key, ta})
	}
	var helpers []*ssa.Function
	for h := range cx.used {
		helpers = append(helpers, h)
	}
	sort.Slice(helpers, func(i, j int) bool { return helpers[i].Pos() < helpers[j].Pos() })
	for _, h := range helpers {
		if s := cx.memo[h]; s != nil && s.ta != nil {
			units = append(units, unit{h, strings.ReplaceAll(h.RelString(nil), load.Module+"/", ""), s.ta})
		}
	}
	run.Count("label-helpers", len(helpers))
	for _, u := range units {
		f, key, ta := u.f, u.key, u.ta
		// blocks from which a success return is reachable
		succ := map[*ssa.BasicBlock]bool{}
		for _, b := range successBlocks(f) {
			succ[b] = true
		}
		for changed := true; changed; {
			changed = false
			for _, b := range f.Blocks {
				if succ[b] {
					continue
				}
				for _, s := range b.Succs {
					if succ[s] {
						succ[b] = true
						changed = true
					}
				}
			}
		}
		n := 0
		for _, b := range f.Blocks {
			iff, ok := b.Instrs[len(b.Instrs)-1].(*ssa.If)
			if !ok || !ta.T[iff.Cond] {
				continue
			}
			// the error value of a receive is not peer data: `err != nil` after a receive is transport state
			if bo, ok := iff.Cond.(*ssa.BinOp); ok && bo.X.Type().String() == "error" {
				continue
			}
			n++
			k := fmt.Sprintf("%s/branch at %s", key, condShape(iff.Cond))
			// a received value that an earlier test pinned to a local value (if v != local { error }) is no
			// longer the peer's choice on the surviving path
			if pinned(f, ta, succ, iff.Cond, b) {
				run.OK("received-data-steers-only-to-errors", k, p.Rel(iff.Cond.Pos()), "the received value was compared for equality with a local value before; the other outcome is an error")
				continue
			}
			if succ[b.Succs[0]] && succ[b.Succs[1]] {
				run.Violate("received-data-steers-only-to-errors", k, p.Rel(iff.Cond.Pos()), "both sides of a branch on received data can reach a success return: the peer's bytes choose which value is returned as a success", ta.Why(iff.Cond, 6))
			} else {
				run.OK("received-data-steers-only-to-errors", k, p.Rel(iff.Cond.Pos()), "one side cannot succeed")
			}
		}
		run.Count("received-data-branches", n)
	}
	run.Floor("received-data-branches", 2)
}

// pinned: every tainted integer operand of cond is, on the way to block at, known to equal an untainted
// value: a dominating `if v != X` (or ==) whose unequal side cannot reach a success return.
func pinned(f *ssa.Function, ta *flow.Taint, succ map[*ssa.BasicBlock]bool, cond ssa.Value, at *ssa.BasicBlock) bool {
	bo, ok := cond.(*ssa.BinOp)
	if !ok {
		return false
	}
	strip := func(v ssa.Value) ssa.Value {
		for {
			switch t := v.(type) {
			case *ssa.Convert:
				v = t.X
			case *ssa.ChangeType:
				v = t.X
			default:
				return v
			}
		}
	}
	isPinned := func(v ssa.Value) bool {
		v = strip(v)
		for _, d := range f.Blocks {
			iff, ok := d.Instrs[len(d.Instrs)-1].(*ssa.If)
			if !ok || d == at || !d.Dominates(at) {
				continue
			}
			c, ok := iff.Cond.(*ssa.BinOp)
			if !ok || (c.Op != token.EQL && c.Op != token.NEQ) {
				continue
			}
			var other ssa.Value
			switch {
			case strip(c.X) == v:
				other = c.Y
			case strip(c.Y) == v:
				other = c.X
			default:
				continue
			}
			if ta.T[other] {
				continue
			}
			eqSide, neSide := d.Succs[0], d.Succs[1]
			if c.Op == token.NEQ {
				eqSide, neSide = d.Succs[1], d.Succs[0]
			}
			if succ[neSide] {
				continue
			}
			if eqSide == at || eqSide.Dominates(at) {
				return true
			}
		}
		return false
	}
	any := false
	for _, op := range []ssa.Value{bo.X, bo.Y} {
		if ta.T[op] {
			if !isPinned(op) {
				return false
			}
			any = true
		}
	}
	return any
}

func condShape(v ssa.Value) string {
	if bo, ok := v.(*ssa.BinOp); ok {
		return fmt.Sprintf("<%s> %s <%s>", bo.X.Type().String(), bo.Op, bo.Y.Type().String())
	}
	return fmt.Sprintf("<%T>", v)
}

// eqTest is one test "these two labels are equal": Label.Equal, or a byte comparison (bytes.Equal,
// subtle.ConstantTimeCompare(...) == 1) of the two labels' serialisations.
type eqTest struct {
	ins      ssa.Instruction
	cond     ssa.Value // the boolean that is true when the labels are equal
	negated  bool      // cond is true when they differ
	operands []ssa.Value
	alias    string // non-empty: the two serialisations share one buffer, the comparison compares a buffer with itself
}

func (e *eqTest) Pos() token.Pos { return e.ins.Pos() }

func (e *eqTest) trueEdges(g *ssa.Function) [][2]int {
	edges := flow.TrueEdges(g, e.cond)
	if e.negated {
		for i := range edges {
			edges[i][1] = 1 - edges[i][1]
		}
	}
	return edges
}

func labelEqualities(g *ssa.Function) []*eqTest {
	var out []*eqTest
	// the label a byte slice is the serialisation of: x.Bytes(&buf) (value or pointer receiver), possibly sliced
	serial := func(v ssa.Value) (label ssa.Value, buf ssa.Value, ok bool) {
		for d := 0; d < 4; d++ {
			switch t := v.(type) {
			case *ssa.Slice:
				v = t.X
				continue
			case *ssa.Call:
				callee := t.Call.StaticCallee()
				if callee != nil && callee.Name() == "Bytes" && callee.Signature.Recv() != nil && strings.HasSuffix(strings.TrimPrefix(callee.Signature.Recv().Type().String(), "*"), "/ot.Label") && len(t.Call.Args) == 2 {
					return t.Call.Args[0], t.Call.Args[1], true
				}
			}
			break
		}
		return nil, nil, false
	}
	for _, b := range g.Blocks {
		for _, ins := range b.Instrs {
			c, ok := ins.(*ssa.Call)
			if !ok {
				continue
			}
			callee := c.Call.StaticCallee()
			if callee == nil {
				continue
			}
			switch callee.String() {
			case "(" + load.Module + "/ot.Label).Equal":
				out = append(out, &eqTest{ins: c, cond: c, operands: c.Call.Args})
			case "bytes.Equal", "crypto/subtle.ConstantTimeCompare":
				if len(c.Call.Args) != 2 {
					continue
				}
				l0, b0, ok0 := serial(c.Call.Args[0])
				l1, b1, ok1 := serial(c.Call.Args[1])
				if !ok0 || !ok1 {
					continue
				}
				t := &eqTest{ins: c, cond: c, operands: []ssa.Value{l0, l1}}
				if b0 == b1 {
					t.alias = "both labels are serialised into the same buffer before they are compared: Label.Bytes returns a view of its argument, so the comparison sees the second label twice and always succeeds"
				}
				if callee.Name() == "ConstantTimeCompare" {
					// the verdict is (result == 1) or !(result != 1)
					t.cond = nil
					// through `ok &= other` (both are 0 or 1, the conjunction is 1 only if each is)
					var follow func(v ssa.Value, depth int)
					follow = func(v ssa.Value, depth int) {
						if v.Referrers() == nil || depth > 3 {
							return
						}
						for _, r := range *v.Referrers() {
							bo, ok := r.(*ssa.BinOp)
							if !ok {
								continue
							}
							switch bo.Op {
							case token.AND:
								follow(bo, depth+1)
							case token.EQL, token.NEQ:
								if k, ok := bo.Y.(*ssa.Const); ok && k.Value != nil && k.Value.String() == "1" {
									t.cond, t.negated = bo, bo.Op == token.NEQ
								} else if k, ok := bo.Y.(*ssa.Const); ok && k.Value != nil && k.Value.String() == "0" && depth == 0 {
									t.cond, t.negated = bo, bo.Op == token.EQL
								}
							}
						}
					}
					follow(c, 0)
					if t.cond == nil {
						continue
					}
				}
				out = append(out, t)
			}
		}
	}
	return out
}

// verdictDropped: the error result of the call c in f is the verdict of a label-resolving helper.  On every
// path on which it is non-nil the function must return a non-nil error: starting after the call, branches on
// `err != nil` / `err == nil` are followed only where the error is non-nil, and a return whose error result
// is the constant nil is reached with the verdict dropped.
func verdictDropped(f *ssa.Function, c ssa.CallInstruction) string {
	v, ok := c.(ssa.Value)
	if !ok {
		return "the helper's result is discarded: its verdict on the received labels is dropped"
	}
	res := c.Common().Signature().Results()
	if res.Len() == 0 || res.At(res.Len()-1).Type().String() != "error" {
		return ""
	}
	var errv ssa.Value
	if res.Len() == 1 {
		errv = v
	} else if v.Referrers() != nil {
		for _, r := range *v.Referrers() {
			if ex, ok := r.(*ssa.Extract); ok && ex.Index == res.Len()-1 {
				errv = ex
			}
		}
	}
	if errv == nil {
		return "the helper's error result is not taken: its verdict on the received labels is dropped"
	}
	isErr := func(x ssa.Value) bool {
		if x == errv {
			return true
		}
		// the error stored in a variable and read back
		if ld, ok := x.(*ssa.UnOp); ok && ld.Op == token.MUL {
			if al, ok := ld.X.(*ssa.Alloc); ok && al.Referrers() != nil {
				for _, r := range *al.Referrers() {
					if st, ok := r.(*ssa.Store); ok && st.Val == errv {
						return true
					}
				}
			}
		}
		if ph, ok := x.(*ssa.Phi); ok {
			for _, e := range ph.Edges {
				if e == errv {
					return true
				}
			}
		}
		return false
	}
	seen := map[*ssa.BasicBlock]bool{}
	var walk func(b *ssa.BasicBlock) string
	walk = func(b *ssa.BasicBlock) string {
		if seen[b] {
			return ""
		}
		seen[b] = true
		last := b.Instrs[len(b.Instrs)-1]
		switch t := last.(type) {
		case *ssa.Return:
			if len(t.Results) == 0 {
				return ""
			}
			e := t.Results[len(t.Results)-1]
			if k, isConst := e.(*ssa.Const); isConst && k.IsNil() {
				return "the helper reports an unknown label through its error result, but a path on which that error is non-nil reaches this function's `return …, nil`: the verdict is dropped and a value that was not derived from label equality is returned as success"
			}
			return ""
		case *ssa.If:
			if bo, ok := t.Cond.(*ssa.BinOp); ok && (bo.Op == token.NEQ || bo.Op == token.EQL) {
				var other ssa.Value
				if isErr(bo.X) {
					other = bo.Y
				} else if isErr(bo.Y) {
					other = bo.X
				}
				if k, isConst := other.(*ssa.Const); isConst && k.IsNil() {
					// follow only the side on which the error is non-nil
					side := 0
					if bo.Op == token.EQL {
						side = 1
					}
					return walk(b.Succs[side])
				}
			}
		}
		for _, s := range b.Succs {
			if why := walk(s); why != "" {
				return why
			}
		}
		return ""
	}
	// start after the call: the rest of its block is straight-line, then the successors
	blk := c.Block()
	seen[blk] = false
	last := blk.Instrs[len(blk.Instrs)-1]
	if _, isRet := last.(*ssa.Return); isRet {
		return walk(blk)
	}
	if iff, ok := last.(*ssa.If); ok {
		_ = iff
		return walk(blk)
	}
	for _, s := range blk.Succs {
		if why := walk(s); why != "" {
			return why
		}
	}
	return ""
}
