package props

import (
	"strings"

	"golang.org/x/tools/go/ssa"

	"mpcverif/internal/flow"
	"mpcverif/internal/load"
	"mpcverif/internal/report"
)

// C16descriptor: the evaluator does not lay out its own input by unverified bytes of the peer.
//
// In streaming mode the evaluator has no program: the garbler sends the description of the evaluator's
// argument (name, type text, size, members), and the evaluator converts its input strings with it
// (`in2.Parse(inputFlag)`): member k goes to the sum of the sizes of the members before it, while the
// number of wires it then obtains by OT comes from the top-level size.  One corrupted byte in a member's
// size field moves the evaluator's values to other wires without changing any count: OT, streaming and the
// result exchange complete with valid labels, the garbler's label comparison holds — and the garbler
// returns, without an error, the function of another evaluator input.  The label check of C16 protects
// what the evaluator *returns*; nothing protects the description of what it *feeds in*.  The rule states
// the dependency as it is: the receiver of an IOArg.Parse call in the evaluator role must not be data
// received from the peer.  (A check that the member sizes add up to the argument's size would turn
// single-field corruptions into errors; a consistent change of two fields would still pass, so the rule
// does not accept such a check as a discharge.)
func C16descriptor(p *load.Program, run *report.Run) {
	const rule = "evaluator-input-layout-not-from-peer"
	run.Rule(rule, "in circuit.StreamEvaluator the IOArg on which Parse is called to convert the evaluator's own input strings does not depend (cross-function data slice) on a Receive* call on the connection")
	fn, err := p.Func("circuit", "StreamEvaluator")
	if err != nil {
		run.Undecided(rule, "circuit.StreamEvaluator", "", err.Error())
		return
	}
	sites := 0
	for _, b := range fn.Blocks {
		for _, ins := range b.Instrs {
			c, ok := ins.(*ssa.Call)
			if !ok || c.Call.StaticCallee() == nil || c.Call.StaticCallee().Name() != "Parse" || c.Call.StaticCallee().Signature.Recv() == nil {
				continue
			}
			if !strings.HasSuffix(strings.TrimPrefix(c.Call.StaticCallee().Signature.Recv().Type().String(), "*"), "/circuit.IOArg") {
				continue
			}
			sites++
			xs := flow.NewXSlice(load.InModule)
			xs.Add(c.Call.Args[0])
			fromPeer := ""
			for in := range xs.Set {
				ci, ok := in.(ssa.CallInstruction)
				if !ok {
					continue
				}
				if isConnReceive(ci) {
					fromPeer = p.Rel(in.Pos())
				}
			}
			key := "circuit.StreamEvaluator/IOArg.Parse"
			if fromPeer != "" {
				run.Violate(rule, key, p.Rel(c.Pos()), "the evaluator converts its input with an argument description received from the garbler ("+fromPeer+"): a corrupted member size moves its values to other wires, every later check passes, and the garbler returns a wrong result as if the run had succeeded", nil)
			} else {
				run.OK(rule, key, p.Rel(c.Pos()), "the description is local")
			}
		}
	}
	run.Count("evaluator-input-conversions", sites)
	run.Floor("evaluator-input-conversions", 1)
}
