package props

import (
	"fmt"
	"go/constant"
	"go/token"

	"golang.org/x/tools/go/ssa"
)

// flaggedAndTested: on the unknown branch a variable that starts as a sentinel constant c0 is given a value that
// cannot be c0 (a loop index that starts above c0 and only grows, or another constant), the only other way
// through the unknown branch keeps a value that a test has just shown to differ from c0, and every success return
// lies on the side of a test of the variable that c0 takes and none of the other possible values takes, the
// other side being an error.  `idx := 0 … idx = i … if idx != 0` fails this: the first index is the sentinel.
func flaggedAndTested(f *ssa.Function, unknownBlocks []*ssa.BasicBlock) string {
	inUnknown := map[*ssa.BasicBlock]bool{}
	for _, b := range unknownBlocks {
		inUnknown[b] = true
	}
	intConst := func(v ssa.Value) (int64, bool) {
		k, ok := v.(*ssa.Const)
		if !ok || k.Value == nil || k.Value.Kind() != constant.Int {
			return 0, false
		}
		x, exact := constant.Int64Val(k.Value)
		return x, exact
	}
	// lower bound of a value: a constant, or an induction phi `init const, + positive constant`
	lower := func(v ssa.Value) (lo int64, exact bool, ok bool) {
		if k, isC := intConst(v); isC {
			return k, true, true
		}
		ph, isPhi := v.(*ssa.Phi)
		if !isPhi {
			return 0, false, false
		}
		have := false
		for _, e := range ph.Edges {
			if k, isC := intConst(e); isC {
				if have && k != lo {
					return 0, false, false
				}
				lo, have = k, true
				continue
			}
			bo, isBin := e.(*ssa.BinOp)
			if !isBin || bo.Op != token.ADD || bo.X != ssa.Value(ph) {
				return 0, false, false
			}
			if st, isC := intConst(bo.Y); !isC || st <= 0 {
				return 0, false, false
			}
		}
		return lo, false, have
	}
	holds := func(op token.Token, x, k int64) bool {
		switch op {
		case token.LSS:
			return x < k
		case token.LEQ:
			return x <= k
		case token.GTR:
			return x > k
		case token.GEQ:
			return x >= k
		case token.EQL:
			return x == k
		case token.NEQ:
			return x != k
		}
		return false
	}
	var last string
	for _, hb := range f.Blocks {
		for _, ins := range hb.Instrs {
			flag, ok := ins.(*ssa.Phi)
			if !ok {
				continue
			}
			// the family of phis that carry the variable round the loop
			fam := map[ssa.Value]bool{flag: true}
			var c0 int64
			haveC0, okFam := false, true
			type assign struct {
				v    ssa.Value
				from *ssa.BasicBlock
			}
			var assigns []assign
			var grow func(ph *ssa.Phi, d int)
			grow = func(ph *ssa.Phi, d int) {
				for i, e := range ph.Edges {
					if fam[e] {
						continue
					}
					if k, isC := intConst(e); isC && !inUnknown[ph.Block().Preds[i]] {
						if haveC0 && k != c0 {
							okFam = false
						}
						c0, haveC0 = k, true
						continue
					}
					if inUnknown[ph.Block().Preds[i]] {
						assigns = append(assigns, assign{e, ph.Block().Preds[i]})
						continue
					}
					if p2, isPhi := e.(*ssa.Phi); isPhi && d < 4 {
						fam[p2] = true
						grow(p2, d+1)
						continue
					}
					okFam = false
				}
			}
			grow(flag, 0)
			if !okFam || !haveC0 || len(assigns) == 0 {
				continue
			}
			// every assignment cannot be the sentinel
			lo, exactAll, good, first := int64(0), true, true, true
			for _, a := range assigns {
				if fam[a.v] {
					continue // kept: see below
				}
				l, exact, ok := lower(a.v)
				if !ok {
					good = false
					break
				}
				if exact && l == c0 || !exact && l <= c0 {
					last = fmt.Sprintf("the variable that remembers an unknown label starts as %d and is given a value that can be %d: an unknown label at that position is forgotten", c0, c0)
					good = false
					break
				}
				if first || l < lo {
					lo = l
				}
				first = false
				exactAll = exactAll && exact
			}
			if !good || first {
				continue
			}
			tests := func(cond ssa.Value) (op token.Token, k int64, ok bool) {
				bo, isBin := cond.(*ssa.BinOp)
				if !isBin {
					return 0, 0, false
				}
				if fam[bo.X] {
					if c, isC := intConst(bo.Y); isC {
						return bo.Op, c, true
					}
				}
				if fam[bo.Y] {
					if c, isC := intConst(bo.X); isC {
						flip := map[token.Token]token.Token{token.LSS: token.GTR, token.GTR: token.LSS, token.LEQ: token.GEQ, token.GEQ: token.LEQ, token.EQL: token.EQL, token.NEQ: token.NEQ}
						return flip[bo.Op], c, true
					}
				}
				return 0, 0, false
			}
			// for every remembered value x (x >= lo, or x == lo when all assignments are that constant): does
			// `x op k` have one value?
			always := func(op token.Token, k int64) (val bool, ok bool) {
				if exactAll {
					return holds(op, lo, k), true
				}
				switch op {
				case token.GEQ:
					return true, lo >= k
				case token.GTR:
					return true, lo > k
				case token.LSS:
					return false, lo >= k
				case token.LEQ:
					return false, lo > k
				case token.NEQ:
					return true, lo > k
				case token.EQL:
					return false, lo > k
				}
				return false, false
			}
			// a way through the unknown branch that keeps the variable does so under a test that shows it is not c0
			kept := true
			for _, a := range assigns {
				if !fam[a.v] {
					continue
				}
				shown := false
				for _, ub := range unknownBlocks {
					iff, isIf := ub.Instrs[len(ub.Instrs)-1].(*ssa.If)
					if !isIf {
						continue
					}
					op, k, isTest := tests(iff.Cond)
					if !isTest {
						continue
					}
					c0side := 1
					if holds(op, c0, k) {
						c0side = 0
					}
					other := ub.Succs[1-c0side]
					// the keeping edge leaves from the side c0 cannot take
					if a.from == ub && len(other.Preds) > 1 || other == a.from || other.Dominates(a.from) && len(other.Preds) == 1 {
						shown = true
					}
				}
				if !shown {
					kept = false
				}
			}
			if !kept {
				last = "on the branch for an unknown label the variable can keep its sentinel"
				continue
			}
			// every success return behind a test that c0 passes and no remembered value passes
			var guardOK []*ssa.BasicBlock
			for _, b := range f.Blocks {
				if inUnknown[b] {
					continue
				}
				iff, isIf := b.Instrs[len(b.Instrs)-1].(*ssa.If)
				if !isIf {
					continue
				}
				op, k, isTest := tests(iff.Cond)
				if !isTest {
					continue
				}
				v, ok := always(op, k)
				if !ok || v == holds(op, c0, k) {
					continue
				}
				okSide, errSide := 1, 0
				if holds(op, c0, k) {
					okSide, errSide = 0, 1
				}
				if errorExit(b.Succs[errSide]) {
					guardOK = append(guardOK, b.Succs[okSide])
				}
			}
			all := len(successBlocks(f)) > 0
			for _, sb := range successBlocks(f) {
				dom := false
				for _, g := range guardOK {
					if len(g.Preds) == 1 && (g == sb || g.Dominates(sb)) {
						dom = true
					}
				}
				if !dom {
					all = false
				}
			}
			if all {
				return ""
			}
			last = "an unknown label is remembered, but a success return is reachable without a test that separates the sentinel from the remembered values and whose other side is an error"
		}
	}
	if last == "" {
		return "no variable remembers the unknown label"
	}
	return last
}
