package props

import (
	"fmt"
	"go/constant"
	"go/token"
	"go/types"
	"sort"
	"strings"

	"golang.org/x/tools/go/ssa"

	"mpcverif/internal/load"
	"mpcverif/internal/report"
)

// isLabelEqual recognises a call of (ot.Label).Equal and returns which label
// of a wire it compares with (0 for L0, 1 for L1, -1 if neither).
func isLabelEqual(v ssa.Value) (*ssa.Call, int) {
	c, ok := v.(*ssa.Call)
	if !ok {
		return nil, -1
	}
	callee := c.Call.StaticCallee()
	if callee == nil || callee.String() != "("+load.Module+"/ot.Label).Equal" {
		return nil, -1
	}
	idx := -1
	for _, a := range c.Call.Args {
		var fieldOf func(ssa.Value) (string, bool)
		fieldOf = func(x ssa.Value) (string, bool) {
			switch t := x.(type) {
			case *ssa.UnOp:
				if t.Op == token.MUL {
					return fieldOf(t.X)
				}
			case *ssa.FieldAddr:
				st := t.X.Type().Underlying().(*types.Pointer).Elem().Underlying().(*types.Struct)
				return st.Field(t.Field).Name(), true
			case *ssa.Field:
				st := t.X.Type().Underlying().(*types.Struct)
				return st.Field(t.Field).Name(), true
			}
			return "", false
		}
		if n, ok := fieldOf(a); ok {
			switch n {
			case "L0":
				idx = 0
			case "L1":
				idx = 1
			}
		}
	}
	return c, idx
}

// errorExit: every path from b reaches, through at most a few straight-line
// blocks, a return whose error result is not the nil constant.
func errorExit(b *ssa.BasicBlock) bool {
	return errorExitFrom(b, map[ssa.Value]ssa.Value{}, 0)
}

func errorExitFrom(b *ssa.BasicBlock, stored map[ssa.Value]ssa.Value, start int) bool {
	// stores met on the straight-line way to the return: a named error result is only as good as what was
	// stored into it on this path
	for hops := start; hops < 4 && b != nil; hops++ {
		for _, ins := range b.Instrs {
			if st, ok := ins.(*ssa.Store); ok {
				// `*cell = *cell` (the result spill around rundefers) sets nothing
				if ld, isLd := st.Val.(*ssa.UnOp); isLd && ld.Op == token.MUL && ld.X == st.Addr {
					continue
				}
				stored[st.Addr] = st.Val
			}
		}
		switch t := b.Instrs[len(b.Instrs)-1].(type) {
		case *ssa.Return:
			if len(load.Results(t)) == 0 {
				return false
			}
			last := load.Results(t)[len(load.Results(t))-1]
			if last.Type().String() != "error" {
				return false
			}
			if c, ok := last.(*ssa.Const); ok && c.IsNil() {
				return false
			}
			// `return result, err` with err a named result (a cell): it must have been given an error on this path
			if ld, ok := last.(*ssa.UnOp); ok && ld.Op == token.MUL {
				if al, ok := ld.X.(*ssa.Alloc); ok {
					v, set := stored[al]
					if !set {
						return false
					}
					if c, ok := v.(*ssa.Const); ok && c.IsNil() {
						return false
					}
				}
			}
			return true
		case *ssa.Jump:
			b = b.Succs[0]
		case *ssa.If:
			// a fork on the way out (`if err := conn.Flush(); err != nil { return nil, err }; return nil, fmt.Errorf(…)`):
			// both sides must leave with an error
			for _, s := range b.Succs {
				cp := map[ssa.Value]ssa.Value{}
				for k, v := range stored {
					cp[k] = v
				}
				if s == b || !errorExitFrom(s, cp, hops+1) {
					return false
				}
			}
			return true
		default:
			return false
		}
	}
	return false
}

// C16label: a received output label decides a result bit only by being equal to
// one of the two labels of its wire; any other label ends the run with an error.
func C16label(p *load.Program, run *report.Run) {
	run.Rule("unknown-label-rejected", "wherever an output label is compared with a wire's labels (BitFromLabel, the streamer's result loop, a helper of ot/circuit/compiler/ssa that takes a wire and a label) the branch on which neither comparison holds leaves the function with a non-nil error, L0 yields 0/false and L1 yields 1/true — for a function that takes a wire and a label and returns (bit, ok|error), decided by evaluating it on the three cases label = L0, label = L1, label = neither, with Label.Bytes writing into the buffer it is given; and every caller of such a function tests its error/ok and leaves with an error when it is set")
	decider := map[*ssa.Function]int{}
	var scan []*ssa.Function
	required := map[*ssa.Function]bool{}
	if f, err := p.Func("circuit", "BitFromLabel"); err == nil {
		required[f] = true
	} else {
		run.Undecided("unknown-label-rejected", "circuit.BitFromLabel", "", err.Error())
	}
	var roles []*ssa.Function
	roleKey := map[*ssa.Function]string{}
	if f, err := p.Func("circuit", "Garbler"); err == nil {
		roles = append(roles, f)
		roleKey[f] = "circuit.Garbler"
	} else {
		run.Undecided("unknown-label-rejected", "circuit.Garbler", "", err.Error())
	}
	if f, err := p.Method("compiler/ssa", "Program", "Stream"); err == nil {
		roles = append(roles, f)
		roleKey[f] = "compiler/ssa.Stream"
	} else {
		run.Undecided("unknown-label-rejected", "compiler/ssa.Stream", "", err.Error())
	}
	// every function of the two packages may hold a comparison chain (the roles, BitFromLabel, or a helper
	// a role delegates to)
	for _, fn := range p.AllFunctions() {
		if !load.InModule(fn) || fn.Blocks == nil || fn.Pkg == nil {
			continue
		}
		if pp := fn.Pkg.Pkg.Path(); pp != load.Module+"/circuit" && pp != load.Module+"/compiler/ssa" && pp != load.Module+"/ot" {
			continue
		}
		if strings.HasSuffix(p.Fset.Position(fn.Pos()).Filename, "_test.go") {
			continue
		}
		scan = append(scan, fn)
	}
	sort.Slice(scan, func(i, j int) bool { return scan[i].Pos() < scan[j].Pos() })
	// functions that resolve a label against a wire, however they are written: evaluated on the three cases
	tabled := map[*ssa.Function]*deciderTable{}
	for _, f := range scan {
		t := labelDecider(f)
		if !t.shape {
			continue
		}
		key := fn16key(f) + "/cases"
		switch {
		case t.ok:
			tabled[f] = t
			run.Count("label-comparisons", 2)
			run.Count("evaluated-deciders", 1)
			run.OK("unknown-label-rejected", key, p.Rel(f.Pos()), "evaluated on a label equal to L0, to L1 and to neither: 0, 1, rejected")
		case strings.HasPrefix(t.why, "not evaluable"):
			// left to the comparison-chain analysis below
		default:
			run.Violate("unknown-label-rejected", key, p.Rel(f.Pos()), "the function resolves a label against a wire, and evaluated on the three cases "+t.why, nil)
		}
	}
	for _, f := range scan {
		key := fn16key(f)
		chains := 0
		if f.Pkg.Pkg.Path() == load.Module+"/ot" {
			// package ot compares labels for its own purposes (the extension's consistency check); only its
			// wire-resolving helpers, evaluated above, concern this rule
			if tabled[f] != nil {
				decider[f]++
			}
			continue
		}
		for _, b := range f.Blocks {
			iff, ok := b.Instrs[len(b.Instrs)-1].(*ssa.If)
			if !ok {
				continue
			}
			cond, tEdge, fEdge := iff.Cond, b.Succs[0], b.Succs[1]
			if u, ok := cond.(*ssa.UnOp); ok && u.Op == token.NOT {
				cond, tEdge, fEdge = u.X, fEdge, tEdge
			}
			call, idx := isLabelEqual(cond)
			if call == nil {
				continue
			}
			run.Count("label-comparisons", 1)
			ckey := fmt.Sprintf("%s/Equal(L%d)", key, idx)
			if idx < 0 {
				// the label is compared with the wire's label *for a bit b* (a selector such as LabelForBit):
				// whatever chose b, equality proves the label is that of b — the function may then answer b, and
				// has to leave with an error otherwise
				if bit := selectedLabelBit(call); bit != nil {
					okBit := false
					if ret, ok := tEdge.Instrs[len(tEdge.Instrs)-1].(*ssa.Return); ok && len(load.Results(ret)) == 2 {
						if load.Results(ret)[0] == bit {
							if c, ok := load.Results(ret)[1].(*ssa.Const); ok && c.IsNil() {
								okBit = true
							}
						}
					}
					switch {
					case !okBit:
						run.Violate("unknown-label-rejected", key+"/Equal(selected)", p.Rel(call.Pos()), "the label is compared with the wire's label for a chosen bit, but the function does not answer that bit when they are equal", nil)
					case !errorExit(fEdge):
						run.Violate("unknown-label-rejected", key+"/Equal(selected)", p.Rel(call.Pos()), "when the label differs from the wire's label for the chosen bit the function does not leave with an error: a corrupted output label is turned into a result bit", nil)
					default:
						chains++
						run.OK("unknown-label-rejected", key+"/Equal(selected)", p.Rel(call.Pos()), "compared with the wire's label for the chosen bit: equal answers that bit, otherwise an error")
					}
					continue
				}
				run.Undecided("unknown-label-rejected", key+"/Equal", p.Rel(call.Pos()), "the compared operand is not a wire's L0 or L1")
				continue
			}
			// the value chosen on the true edge
			want := idx == 1
			okVal, seen := true, false
			tb := tEdge
			if ret, ok := tb.Instrs[len(tb.Instrs)-1].(*ssa.Return); ok && len(load.Results(ret)) == 2 {
				if c, ok := load.Results(ret)[0].(*ssa.Const); ok && c.Value != nil && c.Value.Kind() == constant.Bool {
					seen = true
					okVal = constant.BoolVal(c.Value) == want
				}
			} else {
				// a phi fed over the true edge with a constant: 0/1 or false/true.  The
				// true block may have been fused away, then the edge comes from b itself.
				for _, ob := range f.Blocks {
					for _, ins := range ob.Instrs {
						ph, ok := ins.(*ssa.Phi)
						if !ok {
							continue
						}
						for i, pred := range ob.Preds {
							if !(pred == tb || ob == tb && pred == b) {
								continue
							}
							c, ok := ph.Edges[i].(*ssa.Const)
							if !ok || c.Value == nil {
								continue
							}
							switch c.Value.Kind() {
							case constant.Int:
								k, _ := constant.Int64Val(c.Value)
								seen = true
								if (k == 1) != want || k > 1 || k < 0 {
									okVal = false
								}
							case constant.Bool:
								seen = true
								if constant.BoolVal(c.Value) != want {
									okVal = false
								}
							}
						}
					}
				}
			}
			// `result.SetBit(result, i, 1)` on the arm for L1; the arm for L0 then sets nothing (the bits of a fresh
			// integer are zero)
			if !seen {
				setsOn := func(blk *ssa.BasicBlock) (int64, bool) {
					for _, ins := range blk.Instrs {
						c, ok := ins.(*ssa.Call)
						if !ok || c.Call.StaticCallee() == nil || c.Call.StaticCallee().Name() != "SetBit" || len(c.Call.Args) != 4 {
							continue
						}
						if k, ok := c.Call.Args[3].(*ssa.Const); ok && k.Value != nil && k.Value.Kind() == constant.Int {
							v, _ := constant.Int64Val(k.Value)
							return v, true
						}
					}
					return 0, false
				}
				if v, ok := setsOn(tb); ok {
					seen = true
					okVal = (v == 1) == want && v >= 0 && v <= 1
				} else if idx == 0 {
					// nothing is set for L0: fine if the chain's arm for L1 sets the bit
					for _, ob := range f.Blocks {
						if oi, ok := ob.Instrs[len(ob.Instrs)-1].(*ssa.If); ok {
							oc, ot := oi.Cond, ob.Succs[0]
							if u, ok := oc.(*ssa.UnOp); ok && u.Op == token.NOT {
								oc, ot = u.X, ob.Succs[1]
							}
							if c2, i2 := isLabelEqual(oc); c2 != nil && i2 == 1 {
								if v, ok := setsOn(ot); ok && v == 1 {
									seen = true
								}
							}
						}
					}
				}
			}
			// the false edge: another comparison, or the rejection
			fb := fEdge
			next := false
			if fi, ok := fb.Instrs[len(fb.Instrs)-1].(*ssa.If); ok {
				if c2, _ := isLabelEqual(fi.Cond); c2 != nil {
					next = true
				}
			}
			switch {
			case !seen:
				run.Undecided("unknown-label-rejected", ckey, p.Rel(call.Pos()), "the value chosen when the comparison holds was not found")
			case !okVal:
				run.Violate("unknown-label-rejected", ckey, p.Rel(call.Pos()), fmt.Sprintf("equality with L%d selects the wrong bit value", idx), nil)
			case next:
				run.OK("unknown-label-rejected", ckey, p.Rel(call.Pos()), "followed by the comparison with the other label")
			case errorExit(fb):
				chains++
				run.OK("unknown-label-rejected", ckey, p.Rel(call.Pos()), "neither label: error return")
			default:
				// the rejection put off to the end of the message: counted, or remembered in a variable that holds a
				// sentinel until then
				var ub []*ssa.BasicBlock
				if len(fb.Preds) == 1 {
					for _, x := range f.Blocks {
						if x == fb || fb.Dominates(x) {
							ub = append(ub, x)
						}
					}
				}
				why2 := ""
				if len(ub) > 0 {
					if why1 := countedAndTested(f, ub); why1 == "" {
						chains++
						run.OK("unknown-label-rejected", ckey, p.Rel(call.Pos()), "neither label: counted, and the count is tested before every success return")
						continue
					}
					if why2 = flaggedAndTested(f, ub); why2 == "" {
						chains++
						run.OK("unknown-label-rejected", ckey, p.Rel(call.Pos()), "neither label: remembered in a variable that otherwise keeps its sentinel, tested before every success return")
						continue
					}
				}
				msg := "when the label equals neither L0 nor L1 the function does not leave with an error: a corrupted output label is turned into a result bit"
				if why2 != "" && !strings.HasPrefix(why2, "no variable") {
					msg += " (" + why2 + ")"
				}
				run.Violate("unknown-label-rejected", ckey, p.Rel(call.Pos()), msg, nil)
			}
		}
		decider[f] += chains
		if tabled[f] != nil {
			decider[f]++
		}
		if required[f] && chains == 0 && tabled[f] == nil {
			run.Violate("unknown-label-rejected", key, p.Rel(f.Pos()), "no comparison chain of the received label that ends in an error return", nil)
		}
	}
	// callers of a deciding function (BitFromLabel, or a helper that itself rejects unknown labels): the error
	// must be tested and must end the caller with an error; such a caller is a deciding function in turn
	checkedCalls := map[*ssa.Call]bool{}
	for round := 0; round < 4; round++ {
		grew := false
		for _, fn := range scan {
			for _, b := range fn.Blocks {
				for _, ins := range b.Instrs {
					c, ok := ins.(*ssa.Call)
					if !ok || c.Call.StaticCallee() == nil || c.Call.StaticCallee() == fn || decider[c.Call.StaticCallee()] == 0 || checkedCalls[c] {
						continue
					}
					if tabled[fn] != nil {
						// the three-case evaluation of fn has followed this call and what fn does with its verdict
						continue
					}
					callee := c.Call.StaticCallee()
					res := callee.Signature.Results()
					if tabled[callee] != nil && tabled[callee].sticky != "" {
						// the verdict is left in an error field of the receiver: the caller has to look at that
						// field, and leave with an error when it is set, before it can return success
						checkedCalls[c] = true
						run.Count("label-check-callers", 1)
						key := fn.Pkg.Pkg.Name() + "." + fn.Name() + "/" + callee.Name()
						var checks []*ssa.BasicBlock
						for _, h := range fn.Blocks {
							iff, ok := h.Instrs[len(h.Instrs)-1].(*ssa.If)
							if !ok {
								continue
							}
							bo, ok := iff.Cond.(*ssa.BinOp)
							if !ok || (bo.Op != token.NEQ && bo.Op != token.EQL) {
								continue
							}
							ld, ok := bo.X.(*ssa.UnOp)
							if !ok || ld.Op != token.MUL {
								continue
							}
							fa, ok := ld.X.(*ssa.FieldAddr)
							if !ok || structFieldName(fa.X.Type(), fa.Field) != tabled[callee].sticky {
								continue
							}
							eb := h.Succs[0]
							if bo.Op == token.EQL {
								eb = h.Succs[1]
							}
							if errorExit(eb) && (h == b || blockReaches(b, h)) {
								checks = append(checks, h)
							}
						}
						okAll := len(checks) > 0
						for _, sb := range successBlocks(fn) {
							if !(sb == b || blockReaches(b, sb)) {
								continue
							}
							dom := false
							for _, h := range checks {
								if h.Dominates(sb) {
									dom = true
								}
							}
							if !dom {
								okAll = false
							}
						}
						if okAll {
							decider[fn]++
							grew = true
							run.OK("unknown-label-rejected", key, p.Rel(c.Pos()), "the recorded error is tested, and ends the function, before any success return")
						} else {
							run.Violate("unknown-label-rejected", key, p.Rel(c.Pos()), callee.Name()+" leaves its verdict in the field "+tabled[callee].sticky+", which this function does not test (with an error return) on every path to success", nil)
						}
						continue
					}
					boolOK := tabled[callee] != nil && tabled[callee].boolOK
					if res.Len() == 0 || (res.At(res.Len()-1).Type().String() != "error" && !boolOK) {
						continue
					}
					checkedCalls[c] = true
					run.Count("label-check-callers", 1)
					key := fn.Pkg.Pkg.Name() + "." + fn.Name() + "/" + callee.Name()
					var errv ssa.Value
					if res.Len() == 1 {
						errv = c
					} else if c.Referrers() != nil {
						for _, rf := range *c.Referrers() {
							if ex, ok := rf.(*ssa.Extract); ok && ex.Index == res.Len()-1 {
								errv = ex
							}
						}
					}
					if errv == nil || errv.Referrers() == nil {
						run.Violate("unknown-label-rejected", key, p.Rel(c.Pos()), "the error of "+callee.Name()+" is discarded: an unknown label is read as the bit 0", nil)
						continue
					}
					checked := false
					if boolOK {
						// `bit, ok := helper(...); if !ok { return …, err }`
						for _, rf := range *errv.Referrers() {
							var iff *ssa.If
							neg := false
							switch t := rf.(type) {
							case *ssa.If:
								iff = t
							case *ssa.UnOp:
								if t.Op == token.NOT && t.Referrers() != nil {
									for _, r2 := range *t.Referrers() {
										if i2, ok := r2.(*ssa.If); ok {
											iff, neg = i2, true
										}
									}
								}
							}
							if iff == nil {
								continue
							}
							eb := iff.Block().Succs[1]
							if neg {
								eb = iff.Block().Succs[0]
							}
							if errorExit(eb) {
								checked = true
							}
						}
					}
					for _, rf := range *errv.Referrers() {
						bo, ok := rf.(*ssa.BinOp)
						if !ok || (bo.Op != token.NEQ && bo.Op != token.EQL) {
							continue
						}
						for _, r2 := range *bo.Referrers() {
							iff, ok := r2.(*ssa.If)
							if !ok {
								continue
							}
							eb := iff.Block().Succs[0]
							if bo.Op == token.EQL {
								eb = iff.Block().Succs[1]
							}
							if errorExit(eb) {
								checked = true
							}
						}
					}
					// `return helper(...)`: the error is the caller's own error result
					if !checked {
						for _, rf := range *errv.Referrers() {
							if r, ok := rf.(*ssa.Return); ok {
								rs := load.Results(r)
								if len(rs) > 0 && rs[len(rs)-1] == errv {
									checked = true
								}
							}
						}
					}
					deferred := ""
					if !checked && !boolOK {
						// the rejection is put off: the failure is counted and the count is tested before any success
						var ub []*ssa.BasicBlock
						for _, rf := range *errv.Referrers() {
							bo, ok := rf.(*ssa.BinOp)
							if !ok || (bo.Op != token.NEQ && bo.Op != token.EQL) {
								continue
							}
							for _, r2 := range *bo.Referrers() {
								iff, ok := r2.(*ssa.If)
								if !ok {
									continue
								}
								eb := iff.Block().Succs[0]
								if bo.Op == token.EQL {
									eb = iff.Block().Succs[1]
								}
								if len(eb.Preds) != 1 {
									continue
								}
								for _, x := range fn.Blocks {
									if x == eb || eb.Dominates(x) {
										ub = append(ub, x)
									}
								}
							}
						}
						if len(ub) > 0 {
							if why := countedAndTested(fn, ub); why == "" {
								checked = true
								deferred = "failure counted; the count is tested against zero before every success return, the other side is an error"
							} else {
								deferred = why
							}
						}
					}
					if checked && deferred != "" {
						decider[fn]++
						grew = true
						run.OK("unknown-label-rejected", key, p.Rel(c.Pos()), deferred)
					} else if !checked && deferred != "" {
						run.Violate("unknown-label-rejected", key, p.Rel(c.Pos()), "the error of "+callee.Name()+" does not end the function with an error, and "+deferred, nil)
					} else if checked {
						decider[fn]++
						grew = true
						run.OK("unknown-label-rejected", key, p.Rel(c.Pos()), "error tested, error return")
					} else {
						run.Violate("unknown-label-rejected", key, p.Rel(c.Pos()), "the error of "+callee.Name()+" does not end the function with an error", nil)
					}
				}
			}
		}
		if !grew {
			break
		}
	}
	for _, rf := range roles {
		role := roleKey[rf]
		if decider[rf] == 0 {
			// equality spelled with arithmetic, the unknown labels counted, and the count ending the role
			if why, found := accumulatedRejection(rf); found {
				if why == "" {
					decider[rf]++
					run.OK("unknown-label-rejected", role+"/counted", p.Rel(rf.Pos()), "a label that equals neither L0 nor L1 (both XOR folds non-zero) advances a counter, and a non-zero counter ends the role with an error")
				} else {
					run.Violate("unknown-label-rejected", role+"/counted", p.Rel(rf.Pos()), why, nil)
					continue
				}
			}
		}
		run.Count("result-decisions", decider[rf])
		if decider[rf] == 0 {
			run.Violate("unknown-label-rejected", role, "", "the role decides no result bit through a label comparison that rejects unknown labels (neither a local comparison chain nor a checked call of a function that has one)", nil)
		} else {
			run.OK("unknown-label-rejected", role, "", fmt.Sprintf("%d rejecting label decisions", decider[rf]))
		}
	}
	run.Floor("label-comparisons", 2)
}

func fn16key(f *ssa.Function) string {
	pp := strings.TrimPrefix(f.Pkg.Pkg.Path(), load.Module+"/")
	return pp + "." + f.Name()
}

// selectedLabelBit: one operand of the Equal call is the result of a selector F(wire, b) of the module
// that returns the wire's L1 when b holds and its L0 otherwise; the bit b is returned.
func selectedLabelBit(eq *ssa.Call) ssa.Value {
	for _, a := range eq.Call.Args {
		c, ok := a.(*ssa.Call)
		if !ok {
			continue
		}
		f := c.Call.StaticCallee()
		if f == nil || f.Blocks == nil || !load.InModule(f) || len(f.Params) != 2 || len(c.Call.Args) != 2 {
			continue
		}
		if b, isBasic := f.Params[1].Type().Underlying().(*types.Basic); !isBasic || b.Kind() != types.Bool {
			continue
		}
		// the selector: an If on its bool parameter whose true side returns field L1 and false side L0 of the wire parameter
		fieldRet := func(blk *ssa.BasicBlock) string {
			ret, ok := blk.Instrs[len(blk.Instrs)-1].(*ssa.Return)
			if !ok || len(ret.Results) != 1 {
				return ""
			}
			switch t := ret.Results[0].(type) {
			case *ssa.Field:
				if t.X == ssa.Value(f.Params[0]) {
					return t.X.Type().Underlying().(*types.Struct).Field(t.Field).Name()
				}
			case *ssa.UnOp:
				if fa, ok := t.X.(*ssa.FieldAddr); ok && t.Op == token.MUL {
					return structFieldName(fa.X.Type(), fa.Field)
				}
			}
			return ""
		}
		for _, blk := range f.Blocks {
			iff, ok := blk.Instrs[len(blk.Instrs)-1].(*ssa.If)
			if !ok || iff.Cond != ssa.Value(f.Params[1]) {
				continue
			}
			if fieldRet(blk.Succs[0]) == "L1" && fieldRet(blk.Succs[1]) == "L0" {
				return c.Call.Args[1]
			}
		}
	}
	return nil
}

// accumulatedRejection: the role compares the received label with both wire labels by XOR folds and keeps
// a count of the labels that are neither.  found reports that the role has such folds; why is empty when
//   - some block is reached only if both folds are non-zero (the label is unknown), and in it a loop-carried
//     integer that starts at 0 is increased by a positive constant (or a flag is set), and
//   - after the loop every success return lies behind a test of that value against 0 whose other side ends
//     in an error.
func accumulatedRejection(f *ssa.Function) (why string, found bool) {
	type test struct {
		blk  *ssa.BasicBlock
		idx  int
		neqT int // successor index on which the fold is non-zero
	}
	var tests []test
	for _, b := range f.Blocks {
		iff, ok := b.Instrs[len(b.Instrs)-1].(*ssa.If)
		if !ok {
			continue
		}
		idx, isV := xorFoldVerdict(iff.Cond)
		if !isV {
			continue
		}
		bo := iff.Cond.(*ssa.BinOp)
		t := test{blk: b, idx: idx}
		if bo.Op == token.EQL {
			t.neqT = 1
		}
		tests = append(tests, t)
	}
	has := map[int]bool{}
	for _, t := range tests {
		has[t.idx] = true
	}
	if !has[0] || !has[1] {
		return "", false
	}
	found = true
	// blocks reached only with both folds non-zero
	var unknownBlocks []*ssa.BasicBlock
	for _, x := range f.Blocks {
		d0, d1 := false, false
		for _, t := range tests {
			s := t.blk.Succs[t.neqT]
			if len(s.Preds) == 1 && (s == x || s.Dominates(x)) {
				if t.idx == 0 {
					d0 = true
				} else {
					d1 = true
				}
			}
		}
		if d0 && d1 {
			unknownBlocks = append(unknownBlocks, x)
		}
	}
	if len(unknownBlocks) == 0 {
		return "the label is compared with both wire labels by XOR folds, but no branch is taken exactly when both folds are non-zero: the outcomes are combined with arithmetic on the folded words (two non-zero words can AND to zero), so a label that is neither L0 nor L1 is not reliably rejected", true
	}
	return countedAndTested(f, unknownBlocks), true
}

// countedAndTested: the blocks in unknownBlocks are reached exactly when a label was not recognised.  Something
// is counted or flagged there, and every success return lies behind a test of that count against zero whose
// other side is an error.  The tested value may be derived from the count by steps that keep non-zero
// non-zero: min(count, K) with K > 0, and a conversion that does not narrow (or narrows a value already capped
// within the narrow type).  A narrowing conversion of the count itself wraps: 256 unknown labels read as none.
func countedAndTested(f *ssa.Function, unknownBlocks []*ssa.BasicBlock) (why string) {
	found := true
	_ = found
	// the counter: a phi with a constant-zero edge and an edge that is phi + positive constant computed in an unknown block
	var counter *ssa.Phi
	for _, b := range f.Blocks {
		for _, ins := range b.Instrs {
			ph, ok := ins.(*ssa.Phi)
			if !ok {
				continue
			}
			zero, grows := false, false
			var visit func(v ssa.Value, d int)
			seen := map[ssa.Value]bool{}
			visit = func(v ssa.Value, d int) {
				if d > 4 || seen[v] {
					return
				}
				seen[v] = true
				switch t := v.(type) {
				case *ssa.Const:
					if t.Value != nil && (t.Value.String() == "0" || t.Value.String() == "false") {
						zero = true
					}
				case *ssa.BinOp:
					if t.Op == token.ADD || t.Op == token.OR {
						if k, isC := t.Y.(*ssa.Const); isC && k.Value != nil && k.Value.String() != "0" {
							for _, ub := range unknownBlocks {
								if t.Block() == ub {
									grows = true
								}
							}
						}
					}
				case *ssa.Phi:
					for _, e := range t.Edges {
						visit(e, d+1)
					}
				}
			}
			for _, e := range ph.Edges {
				visit(e, 0)
			}
			if zero && grows && counter == nil {
				counter = ph
			}
		}
	}
	if counter == nil {
		return "nothing is counted or flagged on the branch taken for a label that is neither of the wire's two"
	}
	// success returns lie behind `counter == 0`
	related := func(v ssa.Value) bool {
		seen := map[ssa.Value]bool{}
		var walk func(x ssa.Value, d int) bool
		walk = func(x ssa.Value, d int) bool {
			if x == ssa.Value(counter) {
				return true
			}
			if d > 4 || seen[x] {
				return false
			}
			seen[x] = true
			switch t := x.(type) {
			case *ssa.Phi:
				for _, e := range t.Edges {
					if walk(e, d+1) {
						return true
					}
				}
			case *ssa.Call:
				// min(count, K), K > 0
				if bi, ok := t.Call.Value.(*ssa.Builtin); ok && bi.Name() == "min" {
					rel := false
					for _, a := range t.Call.Args {
						if k, isC := a.(*ssa.Const); isC {
							if k.Value == nil || k.Value.Kind() != constant.Int || constant.Sign(k.Value) <= 0 {
								return false
							}
							continue
						}
						if !walk(a, d+1) {
							return false
						}
						rel = true
					}
					return rel
				}
			case *ssa.Convert:
				from, ok1 := t.X.Type().Underlying().(*types.Basic)
				to, ok2 := t.Type().Underlying().(*types.Basic)
				if !ok1 || !ok2 || from.Info()&types.IsInteger == 0 || to.Info()&types.IsInteger == 0 {
					return false
				}
				sizes := types.SizesFor("gc", "amd64")
				if sizes.Sizeof(to) >= sizes.Sizeof(from) {
					return walk(t.X, d+1)
				}
				// narrowing: only of a value capped within the narrow type
				if c, ok := t.X.(*ssa.Call); ok {
					if bi, ok := c.Call.Value.(*ssa.Builtin); ok && bi.Name() == "min" {
						bits := uint(8 * sizes.Sizeof(to))
						if to.Info()&types.IsUnsigned == 0 {
							bits--
						}
						for _, a := range c.Call.Args {
							if k, isC := a.(*ssa.Const); isC && k.Value != nil && k.Value.Kind() == constant.Int {
								if v, exact := constant.Uint64Val(k.Value); exact && v < 1<<bits {
									return walk(c, d+1)
								}
							}
						}
					}
				}
				return false
			}
			return false
		}
		return walk(v, 0)
	}
	var guardOK []*ssa.BasicBlock
	for _, b := range f.Blocks {
		iff, ok := b.Instrs[len(b.Instrs)-1].(*ssa.If)
		if !ok {
			continue
		}
		bo, ok := iff.Cond.(*ssa.BinOp)
		if !ok || (bo.Op != token.NEQ && bo.Op != token.EQL && bo.Op != token.GTR && bo.Op != token.LSS) {
			continue
		}
		var other ssa.Value
		if related(bo.X) {
			other = bo.Y
		} else if related(bo.Y) {
			other = bo.X
		}
		k, isC := other.(*ssa.Const)
		if !isC || k.Value == nil || k.Value.String() != "0" {
			continue
		}
		zeroSide := 1 // NEQ / GTR / (0 < c): the false side has the counter at zero
		if bo.Op == token.EQL {
			zeroSide = 0
		}
		if errorExit(b.Succs[1-zeroSide]) {
			guardOK = append(guardOK, b.Succs[zeroSide])
		}
	}
	for _, sb := range successBlocks(f) {
		ok := false
		for _, g := range guardOK {
			if len(g.Preds) == 1 && (g == sb || g.Dominates(sb)) {
				ok = true
			}
		}
		if !ok {
			return "unknown labels are counted, but a success return is reachable without the count having been tested against zero on a branch whose other side is an error (a count that was narrowed first wraps: 256 unknown labels read as none)"
		}
	}
	return ""
}
