package props

import (
	"fmt"
	"strings"

	"golang.org/x/tools/go/ssa"

	"mpcverif/internal/load"
	"mpcverif/internal/report"
)

// C17explicit: a garbling's scratch goes back to the pool only when the holder says so.
//
// "A garbling stays valid until it is released": the exported slices of a
// Garbled (Gates, Wires) point into pooled memory and callers keep them after
// dropping the handle (sha2pc's round 3).  So nothing but an explicit call may
// run Release: it is never used as a function value (finalizer, timer or
// goroutine callback, deferred method value), and no *Garbled is handed to
// runtime.SetFinalizer, runtime.AddCleanup or time.AfterFunc.
func C17explicit(p *load.Program, run *report.Run) {
	run.Rule("release-only-by-explicit-call", "(*circuit.Garbled).Release is only ever the static callee of a call (a deferred call included): it is never referenced as a function value or bound method, and no value of type *Garbled is passed to runtime.SetFinalizer, runtime.AddCleanup or time.AfterFunc anywhere in the module")
	rel, err := p.Method("circuit", "Garbled", "Release")
	if err != nil {
		run.Undecided("release-only-by-explicit-call", "circuit.Garbled.Release", "", err.Error())
		return
	}
	run.Count("release-methods", 1)
	isRelease := func(v ssa.Value) bool {
		switch t := v.(type) {
		case *ssa.Function:
			if t == rel {
				return true
			}
			// bound-method and thunk wrappers
			if t.Synthetic != "" && strings.Contains(t.Name(), "Release") && strings.Contains(t.String(), "Garbled") {
				return true
			}
		case *ssa.MakeClosure:
			if f, ok := t.Fn.(*ssa.Function); ok {
				return f == rel || (f.Synthetic != "" && strings.Contains(f.Name(), "Release") && strings.Contains(f.String(), "Garbled"))
			}
		}
		return false
	}
	var bad []string
	calls := 0
	for _, fn := range p.AllFunctions() {
		if !load.InModule(fn) || fn.Synthetic != "" {
			continue
		}
		for _, b := range fn.Blocks {
			for _, ins := range b.Instrs {
				if c, ok := ins.(ssa.CallInstruction); ok {
					cc := c.Common()
					if cc.StaticCallee() == rel {
						calls++
					}
					if callee := cc.StaticCallee(); callee != nil && callee.Pkg != nil {
						q := callee.Pkg.Pkg.Path() + "." + callee.Name()
						if q == "runtime.SetFinalizer" || q == "runtime.AddCleanup" || q == "time.AfterFunc" {
							for _, a := range cc.Args {
								x := a
								if mi, ok := x.(*ssa.MakeInterface); ok {
									x = mi.X
								}
								if strings.HasSuffix(x.Type().String(), "circuit.Garbled") && !isNilConst(cc.Args[len(cc.Args)-1]) {
									bad = append(bad, fmt.Sprintf("%s is given a garbling at %s", q, p.Rel(ins.Pos())))
								}
							}
						}
					}
				}
				for _, op := range ins.Operands(nil) {
					if op == nil || *op == nil || !isRelease(*op) {
						continue
					}
					if c, ok := ins.(ssa.CallInstruction); ok && c.Common().Value == *op {
						continue // the callee position
					}
					bad = append(bad, fmt.Sprintf("Release is used as a value at %s in %s", p.Rel(ins.Pos()), strings.ReplaceAll(fn.RelString(nil), load.Module+"/", "")))
				}
			}
		}
	}
	run.Count("explicit-release-calls", calls)
	if len(bad) > 0 {
		run.Violate("release-only-by-explicit-call", "circuit.Garbled.Release", p.Rel(rel.Pos()), "the scratch of a garbling can be returned to the pool without the holder calling Release: the tables and wires a caller still uses are overwritten by the next Garble on the circuit", bad)
	} else {
		run.OK("release-only-by-explicit-call", "circuit.Garbled.Release", p.Rel(rel.Pos()), fmt.Sprintf("%d direct call(s), no other reference", calls))
	}
	run.Floor("release-methods", 1)
}

func isNilConst(v ssa.Value) bool {
	if mi, ok := v.(*ssa.MakeInterface); ok {
		v = mi.X
	}
	c, ok := v.(*ssa.Const)
	return ok && c.IsNil()
}
