package props

import (
	"fmt"
	"strings"

	"golang.org/x/tools/go/ssa"

	"mpcverif/internal/flow"
	"mpcverif/internal/load"
	"mpcverif/internal/report"
)

// C17handle: lifetime rules around the pooled garbling scratch.
//
//   - publish-after-init: the lazily built pool becomes visible to other
//     goroutines at the atomic CompareAndSwap/Store.  Every variable its New
//     closure captures must have received its last write before that call (the
//     write dominates it), and the pool object itself is not written afterwards.
//     Otherwise a concurrent first Garble can run New while the size it reads is
//     still being computed — only under a simultaneous first use.
//   - handle-fresh: the *Garbled that Garble returns is a newly allocated
//     object, not an address inside the pooled scratch.  A handle that lives in
//     the scratch is recycled with it: the next Garble that obtains the scratch
//     hands out the same handle, and a second Release of the old one releases the
//     new garbling.
//   - release-escape: a function that releases a garbling it obtained (directly,
//     or deferred so that it runs when the function returns) must not let memory
//     derived from that garbling (Wires, Gates, rows) reach its results: the next
//     Garble overwrites it.
func C17handle(p *load.Program, run *report.Run) {
	run.Rule("publish-after-init", "in garbleScratchPool no write to a variable captured by the pool's New closure, and no write to the pool object, can execute after the atomic publication (CompareAndSwap/Store) of the pool")
	run.Rule("handle-fresh", "every *Garbled that Circuit.Garble returns on success is a fresh allocation, not an address inside memory obtained from the pool")
	run.Rule("release-escape", "a function that releases a garbling it obtained from Circuit.Garble (also by a deferred Release) returns nothing derived from it")
	gsp, e1 := p.Method("circuit", "Circuit", "garbleScratchPool")
	garble, e2 := p.Method("circuit", "Circuit", "Garble")
	release, e3 := p.Method("circuit", "Garbled", "Release")
	for _, e := range []error{e1, e2, e3} {
		if e != nil {
			run.Undecided("anchor", "circuit", "", e.Error())
			return
		}
	}

	// publish-after-init
	{
		key := "circuit.Circuit.garbleScratchPool"
		var pubs []*ssa.Call
		for _, b := range gsp.Blocks {
			for _, ins := range b.Instrs {
				c, ok := ins.(*ssa.Call)
				if !ok || c.Call.StaticCallee() == nil {
					continue
				}
				n := c.Call.StaticCallee().String()
				if strings.Contains(n, "sync/atomic.Pointer[") && (strings.HasSuffix(n, ".CompareAndSwap") || strings.HasSuffix(n, ".Store") || strings.HasSuffix(n, ".Swap")) {
					pubs = append(pubs, c)
				}
				// a table shared by all circuits publishes what it is handed
				if n == "(*sync.Map).LoadOrStore" || n == "(*sync.Map).Store" {
					pubs = append(pubs, c)
				}
			}
		}
		run.Count("pool-publications", len(pubs))
		if len(pubs) == 0 {
			run.Undecided("publish-after-init", key, p.Rel(gsp.Pos()), "no atomic publication of the pool found")
		}
		for _, pub := range pubs {
			// the published object: the last pointer argument
			obj := pub.Call.Args[len(pub.Call.Args)-1]
			if mi, ok := obj.(*ssa.MakeInterface); ok {
				obj = mi.X
			}
			// an object taken out of the shared table was published by the table
			fromTable := false
			{
				v := obj
				for d := 0; d < 4; d++ {
					switch t := v.(type) {
					case *ssa.TypeAssert:
						v = t.X
						continue
					case *ssa.Extract:
						v = t.Tuple
						continue
					case *ssa.Phi:
						if len(t.Edges) > 0 {
							v = t.Edges[len(t.Edges)-1]
							continue
						}
					case *ssa.Call:
						if cal := t.Call.StaticCallee(); cal != nil && (cal.String() == "(*sync.Map).LoadOrStore" || cal.String() == "(*sync.Map).Load") {
							fromTable = true
						}
					}
					break
				}
			}
			if fromTable {
				run.OK("publish-after-init", key+"/from the shared table", p.Rel(pub.Pos()), "the pool remembered on the circuit was taken out of the shared table, which published it")
				continue
			}
			al, _ := obj.(*ssa.Alloc)
			// cells captured by closures stored into the object
			cells := map[ssa.Value]string{}
			if al != nil {
				cells[al] = "the pool object"
				for _, b := range gsp.Blocks {
					for _, ins := range b.Instrs {
						st, ok := ins.(*ssa.Store)
						if !ok {
							continue
						}
						fa, ok := st.Addr.(*ssa.FieldAddr)
						if !ok || fa.X != ssa.Value(al) {
							continue
						}
						v := st.Val
						if mi, ok := v.(*ssa.MakeInterface); ok {
							v = mi.X
						}
						if mc, ok := v.(*ssa.MakeClosure); ok {
							for k, bnd := range mc.Bindings {
								name := "captured variable"
								if fn, ok := mc.Fn.(*ssa.Function); ok && k < len(fn.FreeVars) {
									name = "captured variable " + fn.FreeVars[k].Name()
								}
								cells[bnd] = name
							}
						}
					}
				}
			}
			bad := ""
			// blocks reachable from the publication
			reachAfter := map[*ssa.BasicBlock]bool{}
			stack := append([]*ssa.BasicBlock{}, pub.Block().Succs...)
			for len(stack) > 0 {
				x := stack[len(stack)-1]
				stack = stack[:len(stack)-1]
				if reachAfter[x] {
					continue
				}
				reachAfter[x] = true
				stack = append(stack, x.Succs...)
			}
			for _, b := range gsp.Blocks {
				for i, ins := range b.Instrs {
					st, ok := ins.(*ssa.Store)
					if !ok {
						continue
					}
					root := st.Addr
					for {
						if fa, ok := root.(*ssa.FieldAddr); ok {
							root = fa.X
							continue
						}
						if ia, ok := root.(*ssa.IndexAddr); ok {
							root = ia.X
							continue
						}
						break
					}
					what, isCell := cells[root]
					if !isCell {
						continue
					}
					// can this store execute after the publication?
					after := false
					if b == pub.Block() && i > instrIndex(pub) {
						after = true
					}
					if reachAfter[b] {
						after = true
					}
					if after {
						bad = fmt.Sprintf("%s is written at %s, which can execute after the pool is published", what, p.Rel(st.Pos()))
					}
				}
			}
			if al == nil {
				run.Undecided("publish-after-init", key, p.Rel(pub.Pos()), "the published pool is not a local allocation")
			} else if bad != "" {
				run.Violate("publish-after-init", key, p.Rel(pub.Pos()), bad+": another goroutine can run the pool's New with a half-computed value", nil)
			} else {
				run.OK("publish-after-init", key, p.Rel(pub.Pos()), fmt.Sprintf("%d cells written only before the publication", len(cells)))
			}
		}
		run.Floor("pool-publications", 1)
	}

	// handle-fresh
	{
		key := "circuit.Circuit.Garble"
		var gets []ssa.Value
		for _, b := range garble.Blocks {
			for _, ins := range b.Instrs {
				if c, ok := isPoolCall(ins, "Get"); ok {
					gets = append(gets, c)
				}
			}
		}
		der := flow.Derived(garble, gets...)
		n := 0
		bad := ""
		for _, b := range successBlocks(garble) {
			r := b.Instrs[len(b.Instrs)-1].(*ssa.Return)
			v := load.Results(r)[0]
			n++
			var check func(v ssa.Value, depth int)
			check = func(v ssa.Value, depth int) {
				switch t := v.(type) {
				case *ssa.Alloc:
					if !t.Heap {
						bad = "the handle is not a heap allocation"
					}
				case *ssa.Phi:
					if depth < 4 {
						for _, e := range t.Edges {
							check(e, depth+1)
						}
					}
				case *ssa.Const:
					// with named results the error returns cannot be told from the successes here: a nil handle
					// is no handle
					if !t.IsNil() {
						bad = fmt.Sprintf("the returned handle is not a fresh allocation (%T at %s)", v, p.Rel(r.Pos()))
					}
				default:
					if der[v] {
						bad = "the returned handle is an address inside memory obtained from the pool (" + p.Rel(r.Pos()) + ")"
					} else {
						bad = fmt.Sprintf("the returned handle is not a fresh allocation (%T at %s)", v, p.Rel(r.Pos()))
					}
				}
			}
			check(v, 0)
		}
		run.Count("garble-success-returns", n)
		if bad != "" {
			run.Violate("handle-fresh", key, p.Rel(garble.Pos()), bad+": it is recycled together with the scratch, so a stale handle and a live garbling become one object", nil)
		} else {
			run.OK("handle-fresh", key, p.Rel(garble.Pos()), fmt.Sprintf("%d success returns hand out a new Garbled", n))
		}
		run.Floor("garble-success-returns", 1)
	}

	// release-escape
	for _, fn := range p.AllFunctions() {
		if !load.InModule(fn) || fn.Blocks == nil || strings.HasSuffix(p.Fset.Position(fn.Pos()).Filename, "_test.go") {
			continue
		}
		for _, b := range fn.Blocks {
			for _, ins := range b.Instrs {
				c, ok := ins.(*ssa.Call)
				if !ok || c.Call.StaticCallee() != garble {
					continue
				}
				run.Count("garble-call-sites", 1)
				key := fn.RelString(nil) + "/Garble"
				// the handle: extract #0
				var handle ssa.Value
				for _, ref := range *c.Referrers() {
					if ex, ok := ref.(*ssa.Extract); ok && ex.Index == 0 {
						handle = ex
					}
				}
				if handle == nil {
					run.OK("release-escape", key, p.Rel(c.Pos()), "result unused")
					continue
				}
				der := flow.Derived(fn, handle)
				deferred, direct := false, []*ssa.Call(nil)
				for _, b2 := range fn.Blocks {
					for _, i2 := range b2.Instrs {
						switch t := i2.(type) {
						case *ssa.Defer:
							if t.Call.StaticCallee() == release && len(t.Call.Args) > 0 && der[t.Call.Args[0]] {
								deferred = true
							}
						case *ssa.Call:
							if t.Call.StaticCallee() == release && len(t.Call.Args) > 0 && der[t.Call.Args[0]] {
								direct = append(direct, t)
							}
						}
					}
				}
				if !deferred && len(direct) == 0 {
					run.OK("release-escape", key, p.Rel(c.Pos()), "the garbling is not released here")
					continue
				}
				bad := ""
				if deferred {
					for _, rb := range fn.Blocks {
						if rb == fn.Recover {
							continue
						}
						r, ok := rb.Instrs[len(rb.Instrs)-1].(*ssa.Return)
						if !ok {
							continue
						}
						for _, v := range load.Results(r) {
							if escapes(fn, v, der, 0) {
								bad = fmt.Sprintf("the value returned at %s holds memory of the garbling, which a deferred Release hands back to the pool at that very return", p.Rel(r.Pos()))
							}
						}
					}
				}
				for _, d := range direct {
					seen := map[*ssa.BasicBlock]bool{}
					var walk func(x *ssa.BasicBlock, from int)
					walk = func(x *ssa.BasicBlock, from int) {
						for k := from; k < len(x.Instrs) && bad == ""; k++ {
							if _, isPhi := x.Instrs[k].(*ssa.Phi); isPhi {
								continue
							}
							if r, ok := x.Instrs[k].(*ssa.Return); ok {
								for _, v := range load.Results(r) {
									if escapes(fn, v, der, 0) {
										bad = fmt.Sprintf("the value returned at %s holds memory of the garbling released at %s", p.Rel(r.Pos()), p.Rel(d.Pos()))
									}
								}
								continue
							}
							if usesAny(x.Instrs[k], der) {
								if c2, ok := x.Instrs[k].(*ssa.Call); ok && c2.Call.StaticCallee() == release {
									continue
								}
								bad = fmt.Sprintf("%s uses the garbling after it was released at %s", p.Rel(x.Instrs[k].Pos()), p.Rel(d.Pos()))
							}
						}
						for _, s := range x.Succs {
							if !seen[s] {
								seen[s] = true
								walk(s, 0)
							}
						}
					}
					walk(d.Block(), instrIndex(d)+1)
				}
				if bad != "" {
					run.Violate("release-escape", key, p.Rel(c.Pos()), bad+": the next Garble on the circuit overwrites it", nil)
				} else {
					run.OK("release-escape", key, p.Rel(c.Pos()), "released without derived memory escaping")
				}
			}
		}
	}
	run.Floor("garble-call-sites", 2)
}

// escapes: v is derived from the garbling, or is a local composite (struct value
// built in a cell, a struct literal) one of whose stored fields is.
func escapes(fn *ssa.Function, v ssa.Value, der map[ssa.Value]bool, depth int) bool {
	if der[v] {
		return true
	}
	if depth > 3 {
		return false
	}
	switch t := v.(type) {
	case *ssa.UnOp:
		// a struct loaded from a local cell: any derived value stored into the cell's fields
		if al, ok := t.X.(*ssa.Alloc); ok {
			return cellHolds(fn, al, der)
		}
	case *ssa.Alloc:
		return cellHolds(fn, t, der)
	case *ssa.Phi:
		for _, e := range t.Edges {
			if escapes(fn, e, der, depth+1) {
				return true
			}
		}
	case *ssa.MakeInterface:
		return escapes(fn, t.X, der, depth+1)
	}
	return false
}

func cellHolds(fn *ssa.Function, al *ssa.Alloc, der map[ssa.Value]bool) bool {
	for _, b := range fn.Blocks {
		for _, ins := range b.Instrs {
			st, ok := ins.(*ssa.Store)
			if !ok || !der[st.Val] {
				continue
			}
			root := st.Addr
			for {
				if fa, ok := root.(*ssa.FieldAddr); ok {
					root = fa.X
					continue
				}
				if ia, ok := root.(*ssa.IndexAddr); ok {
					root = ia.X
					continue
				}
				break
			}
			if root == ssa.Value(al) {
				return true
			}
		}
	}
	return false
}
