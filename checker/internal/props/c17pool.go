package props

import (
	"fmt"
	"go/ast"
	"go/token"
	"go/types"
	"strings"

	"golang.org/x/tools/go/ssa"

	"mpcverif/internal/dispatch"
	"mpcverif/internal/flow"
	"mpcverif/internal/load"
	"mpcverif/internal/report"
)

func isPoolCall(ins ssa.Instruction, name string) (*ssa.Call, bool) {
	c, ok := ins.(*ssa.Call)
	if !ok || c.Call.StaticCallee() == nil {
		return nil, false
	}
	return c, c.Call.StaticCallee().String() == "(*sync.Pool)."+name
}

// handleFieldUse: ins uses (other than comparing with nil or taking len/cap) the value loaded from a
// slice-, pointer- or map-typed field of the method's receiver; the field's name is returned.
func handleFieldUse(ins ssa.Instruction, fn *ssa.Function) string {
	if len(fn.Params) == 0 {
		return ""
	}
	recv := fn.Params[0]
	switch t := ins.(type) {
	case *ssa.BinOp:
		if t.Op == token.EQL || t.Op == token.NEQ {
			return ""
		}
	case *ssa.Call:
		if b, ok := t.Call.Value.(*ssa.Builtin); ok && (b.Name() == "len" || b.Name() == "cap") {
			return ""
		}
		if _, ok := isPoolCall(ins, "Put"); ok {
			return ""
		}
	case *ssa.Phi, *ssa.FieldAddr:
		return ""
	case *ssa.Store:
		// storing a value into a field of the handle is not a use of the memory behind it
		if _, isFA := t.Addr.(*ssa.FieldAddr); isFA {
			return ""
		}
	}
	for _, op := range ins.Operands(nil) {
		if *op == nil {
			continue
		}
		ld, ok := (*op).(*ssa.UnOp)
		if !ok || ld.Op != token.MUL {
			continue
		}
		fa, ok := ld.X.(*ssa.FieldAddr)
		if !ok || fa.X != ssa.Value(recv) {
			continue
		}
		switch ld.Type().Underlying().(type) {
		case *types.Slice, *types.Pointer, *types.Map:
			if strings.HasSuffix(ld.Type().String(), "sync.Pool") {
				continue
			}
			return fieldName(fa)
		}
	}
	return ""
}

// usesAny reports whether ins reads one of the values.
func usesAny(ins ssa.Instruction, set map[ssa.Value]bool) bool {
	for _, op := range ins.Operands(nil) {
		if *op != nil && set[*op] {
			return true
		}
	}
	return false
}

// C17pool: typestate of the scratch pool and sizing of the slab.
func C17pool(p *load.Program, run *report.Run) {
	run.Rule("no-use-after-put", "after pool.Put(x) no value derived from x is read, written or returned on any path")
	run.Rule("put-sites", "a scratch held in a struct field is returned to the pool only where that field is cleared on every path afterwards")
	run.Rule("release-idempotent", "Release: the nil-pool guard dominates Put, and pool, scratch, Wires and Gates are cleared on every path after Put")
	run.Rule("slab-size", "the rows garbleScratchPool reserves per operation are at least the rows Gate.garbleInto produces for it")
	pkg, err := p.Pkg("circuit")
	if err != nil {
		run.Undecided("anchor", "circuit", "", err.Error())
		return
	}
	_, e1 := p.Method("circuit", "Circuit", "Garble")
	release, e2 := p.Method("circuit", "Garbled", "Release")
	for _, e := range []error{e1, e2} {
		if e != nil {
			run.Undecided("anchor", "circuit", "", e.Error())
			return
		}
	}
	// put sites in the package
	var fns []*ssa.Function
	for _, m := range pkg.Members {
		switch t := m.(type) {
		case *ssa.Function:
			fns = append(fns, t)
		case *ssa.Type:
			for _, recv := range []types.Type{t.Type(), types.NewPointer(t.Type())} {
				ms := p.SSA.MethodSets.MethodSet(recv)
				for i := 0; i < ms.Len(); i++ {
					if f := p.SSA.MethodValue(ms.At(i)); f != nil && f.Blocks != nil && f.Pkg == pkg && f.Synthetic == "" {
						fns = append(fns, f)
					}
				}
			}
		}
	}
	seenFn := map[*ssa.Function]bool{}
	puts := 0
	for _, f := range fns {
		if seenFn[f] {
			continue
		}
		seenFn[f] = true
		for _, g := range append([]*ssa.Function{f}, f.AnonFuncs...) {
			for _, b := range g.Blocks {
				for i, ins := range b.Instrs {
					c, ok := isPoolCall(ins, "Put")
					if !ok {
						continue
					}
					puts++
					key := fmt.Sprintf("circuit.%s/Put#%d", g.Name(), puts)
					if fld := fieldOfLoad(unwrapIface(c.Call.Args[1])); fld != "" && g != release {
						// the object lives in a field that outlives the call: the field must be cleared after Put
						cleared := mustPass(b, i+1, func(x ssa.Instruction) bool {
							st, ok := x.(*ssa.Store)
							if !ok {
								return false
							}
							fa, ok := st.Addr.(*ssa.FieldAddr)
							cst, isC := st.Val.(*ssa.Const)
							return ok && fieldName(fa) == fld && isC && cst.IsNil()
						}, false)
						if !cleared {
							run.Violate("put-sites", "circuit."+g.Name()+"/Put:"+fld, p.Rel(c.Pos()), "the field "+fld+" keeps referring to the scratch after it was returned to the pool", nil)
							continue
						}
					}
					// derived values of the object put
					obj := c.Call.Args[1]
					if mi, ok := obj.(*ssa.MakeInterface); ok {
						obj = mi.X
					}
					der := flow.Derived(g, obj)
					// walk forward
					bad := ""
					seen := map[*ssa.BasicBlock]bool{}
					var walk func(x *ssa.BasicBlock, from int)
					walk = func(x *ssa.BasicBlock, from int) {
						for k := from; k < len(x.Instrs) && bad == ""; k++ {
							in2 := x.Instrs[k]
							if g == release {
								// Release may clear the fields that held the scratch: stores of nil are not uses
								if st, ok := in2.(*ssa.Store); ok {
									if cst, ok := st.Val.(*ssa.Const); ok && cst.IsNil() {
										continue
									}
								}
								if _, ok := in2.(*ssa.FieldAddr); ok {
									continue
								}
							}
							if usesAny(in2, der) {
								if _, isPhi := in2.(*ssa.Phi); isPhi {
									continue
								}
								bad = fmt.Sprintf("%s uses the scratch after Put", p.Rel(in2.Pos()))
							}
							// the handle's exported slices are views into the scratch: reading or writing their
							// elements after the Put races with the next Garble that took the scratch
							if g == release && bad == "" {
								if fld := handleFieldUse(in2, g); fld != "" {
									bad = fmt.Sprintf("%s touches the memory behind the handle's field %s after the scratch was returned to the pool: a concurrent Garble may already own it", p.Rel(in2.Pos()), fld)
								}
							}
						}
						for _, s := range x.Succs {
							if !seen[s] {
								seen[s] = true
								walk(s, 0)
							}
						}
					}
					walk(b, i+1)
					if bad != "" {
						run.Violate("no-use-after-put", key, p.Rel(c.Pos()), bad, nil)
					} else {
						run.OK("no-use-after-put", key, p.Rel(c.Pos()), "")
					}
				}
			}
		}
	}
	// a deferred Put runs at every exit: nothing derived from the object may be returned
	for f := range seenFn {
		for _, g := range append([]*ssa.Function{f}, f.AnonFuncs...) {
			for _, b := range g.Blocks {
				for _, ins := range b.Instrs {
					d, ok := ins.(*ssa.Defer)
					if !ok || d.Call.StaticCallee() == nil || d.Call.StaticCallee().String() != "(*sync.Pool).Put" {
						continue
					}
					puts++
					der := flow.Derived(g, unwrapIface(d.Call.Args[1]))
					bad := ""
					for _, rb := range g.Blocks {
						for _, ri := range rb.Instrs {
							switch t := ri.(type) {
							case *ssa.Return:
								if usesAny(t, der) {
									bad = p.Rel(t.Pos())
								}
							case *ssa.Store:
								// stored into something that is returned or outlives the call
								if der[t.Val] {
									if _, local := t.Addr.(*ssa.Alloc); !local {
										bad = p.Rel(t.Pos())
									}
								}
							}
						}
					}
					key := fmt.Sprintf("circuit.%s/deferred-Put", g.Name())
					if bad != "" {
						run.Violate("no-use-after-put", key, p.Rel(d.Pos()), "the scratch is put back when the function returns, yet "+bad+" hands memory derived from it to the caller", nil)
					} else {
						run.OK("no-use-after-put", key, p.Rel(d.Pos()), "")
					}
				}
			}
		}
	}
	run.Count("put-sites", puts)
	run.Floor("put-sites", 1)
	run.Floor("handle-reference-fields", 3)
	run.OK("put-sites", "circuit/sync.Pool.Put", "", fmt.Sprintf("%d sites", puts))

	// Release
	{
		var put *ssa.Call
		for _, b := range release.Blocks {
			for _, ins := range b.Instrs {
				if c, ok := isPoolCall(ins, "Put"); ok {
					put = c
				}
			}
		}
		if put == nil {
			run.Violate("release-idempotent", "circuit.Garbled.Release/Put", p.Rel(release.Pos()), "Release does not return the scratch", nil)
		} else {
			// guard: Put's block is reached only over the false edge of pool == nil
			guarded := false
			for _, b := range release.Blocks {
				if iff, ok := b.Instrs[len(b.Instrs)-1].(*ssa.If); ok {
					if bo, ok := iff.Cond.(*ssa.BinOp); ok && bo.Op == token.EQL {
						if cst, ok := bo.Y.(*ssa.Const); ok && cst.IsNil() && fieldOfLoad(bo.X) != "" && strings.HasSuffix(bo.X.Type().String(), "sync.Pool") && b.Succs[1].Dominates(put.Block()) {
							guarded = true
						}
					}
				}
			}
			if guarded {
				run.OK("release-idempotent", "circuit.Garbled.Release/guard", p.Rel(put.Pos()), "pool == nil returns before Put")
			} else {
				run.Violate("release-idempotent", "circuit.Garbled.Release/guard", p.Rel(put.Pos()), "Put is not guarded by the nil-pool test: a second Release puts the scratch twice", nil)
			}
			// every reference-typed field of the handle (pointer, slice, map) refers to pooled memory or to
			// the pool itself and must be cleared; the fields are taken from the struct, not from a list of names
			var refFields []string
			if gt, err := p.Type("circuit", "Garbled"); err == nil {
				if st, ok := gt.Underlying().(*types.Struct); ok {
					for i := 0; i < st.NumFields(); i++ {
						switch st.Field(i).Type().Underlying().(type) {
						case *types.Pointer, *types.Slice, *types.Map:
							refFields = append(refFields, st.Field(i).Name())
						}
					}
				}
			}
			run.Count("handle-reference-fields", len(refFields))
			for _, fld := range refFields {
				fld := fld
				ok := mustPass(put.Block(), instrIndex(put)+1, func(x ssa.Instruction) bool {
					st, ok := x.(*ssa.Store)
					if !ok {
						return false
					}
					fa, ok := st.Addr.(*ssa.FieldAddr)
					if !ok || fieldName(fa) != fld {
						return false
					}
					cst, ok := st.Val.(*ssa.Const)
					return ok && cst.IsNil()
				}, false)
				if ok {
					run.OK("release-idempotent", "circuit.Garbled.Release/clear:"+fld, p.Rel(put.Pos()), "")
				} else {
					run.Violate("release-idempotent", "circuit.Garbled.Release/clear:"+fld, p.Rel(put.Pos()), fld+" still refers to pooled memory after Release", nil)
				}
			}
		}
	}

	// slab size per op
	pkgA, fd := dispatch.FindFunc(p, "circuit", "Circuit", "garbleScratchPool")
	garbleInto, err := p.Method("circuit", "Gate", "garbleInto")
	if fd == nil || err != nil {
		run.Undecided("slab-size", "circuit.Circuit.garbleScratchPool", "", "anchor not found")
		return
	}
	whole := garbleForms(p, run, garbleInto, "O3-garble-invariant")
	reserved := map[string]int64{}
	ast.Inspect(fd.Body, func(n ast.Node) bool {
		sw, ok := n.(*ast.SwitchStmt)
		if !ok {
			return true
		}
		for _, st := range sw.Body.List {
			cc := st.(*ast.CaseClause)
			add := int64(0)
			for _, s := range cc.Body {
				if _, k, ok := addedConst(pkgA.TypesInfo, s); ok {
					add += k
				}
			}
			for _, nme := range caseNames(cc) {
				reserved[nme] = add
			}
		}
		return false
	})
	if len(reserved) == 0 {
		// no switch over the operation (the gates are counted in a histogram, or in some other way): the loop is
		// interpreted per operation instead
		if gsp, err := p.Method("circuit", "Circuit", "garbleScratchPool"); err == nil {
			run.Rule("O8-slab", "per operation, what one gate adds to the size of the scratch slab in garbleScratchPool (the loop body interpreted on a gate of that operation; a histogram of operations weighed by a function is followed through that function) is at least the rows garbleInto emits for it")
			slabDeltas(p, run, gsp, whole)
			run.Count("slab-ops", 5)
			run.Floor("slab-ops", 5)
			return
		}
	}
	for op := 0; op < 5; op++ {
		max := -1
		for pa := 0; pa < 2; pa++ {
			for pb := 0; pb < 2; pb++ {
				if gf := whole[[3]int{op, pa, pb}]; gf != nil && len(gf.Rows) > max {
					max = len(gf.Rows)
				}
			}
		}
		key := "circuit.Circuit.garbleScratchPool/" + opNames[op]
		run.Count("slab-ops", 1)
		r, has := reserved[opNames[op]]
		switch {
		case max < 0:
			run.Undecided("slab-size", key, p.Rel(fd.Pos()), "rows of garbleInto not derived")
		case !has && max > 0:
			run.Violate("slab-size", key, p.Rel(fd.Pos()), fmt.Sprintf("no slab space is reserved for %s, which produces %d rows", opNames[op], max), nil)
		case int64(max) > r:
			run.Violate("slab-size", key, p.Rel(fd.Pos()), fmt.Sprintf("%d rows reserved, garbleInto produces %d", r, max), nil)
		default:
			run.OK("slab-size", key, p.Rel(fd.Pos()), fmt.Sprintf("%d rows", max))
		}
	}
	run.Floor("slab-ops", 5)
}

func fieldOfLoad(v ssa.Value) string {
	u, ok := v.(*ssa.UnOp)
	if !ok {
		return ""
	}
	fa, ok := u.X.(*ssa.FieldAddr)
	if !ok {
		return ""
	}
	return fieldName(fa)
}

func unwrapIface(v ssa.Value) ssa.Value {
	if mi, ok := v.(*ssa.MakeInterface); ok {
		return mi.X
	}
	return v
}
