package props

import (
	"fmt"

	"golang.org/x/tools/go/ssa"

	"mpcverif/internal/load"
	"mpcverif/internal/report"
)

// C17puts: a scratch obtained from the pool goes back at most once.
//
// sync.Pool hands an object that was Put twice to two later Get calls: two
// garblings alive at the same time then share wires, rows and slab, and the
// second overwrites the first.  In Circuit.Garble every path from the Get to a
// return may contain at most one Put of the scratch, where a deferred function
// that (also conditionally) puts the scratch back counts as one more Put at
// every return reached after the defer was registered.
func C17puts(p *load.Program, run *report.Run) {
	run.Rule("put-at-most-once", "on every path of Circuit.Garble from pool.Get to a return the scratch is Put at most once; a registered deferred function containing a Put counts as a Put at the return")
	fn, err := p.Method("circuit", "Circuit", "Garble")
	if err != nil {
		run.Undecided("put-at-most-once", "circuit.Circuit.Garble", "", err.Error())
		return
	}
	containsPut := func(f *ssa.Function) bool {
		for _, b := range f.Blocks {
			for _, ins := range b.Instrs {
				if _, ok := isPoolCall(ins, "Put"); ok {
					return true
				}
			}
		}
		return false
	}
	// forward analysis: (puts so far, deferred put registered), maximum over paths
	type st struct{ puts, def int }
	in := map[*ssa.BasicBlock]st{}
	seen := map[*ssa.BasicBlock]bool{}
	work := []*ssa.BasicBlock{fn.Blocks[0]}
	seen[fn.Blocks[0]] = true
	worst, where := 0, ""
	returns := 0
	for len(work) > 0 {
		b := work[0]
		work = work[1:]
		s := in[b]
		for _, ins := range b.Instrs {
			if _, ok := isPoolCall(ins, "Put"); ok {
				s.puts++
			}
			if d, ok := ins.(*ssa.Defer); ok {
				if c := d.Call.StaticCallee(); c != nil && c.String() == "(*sync.Pool).Put" {
					s.def = 1
				}
				if mc, ok := d.Call.Value.(*ssa.MakeClosure); ok {
					if f, ok := mc.Fn.(*ssa.Function); ok && containsPut(f) {
						s.def = 1
					}
				}
			}
			if r, ok := ins.(*ssa.Return); ok && b != fn.Recover {
				returns++
				if t := s.puts + s.def; t > worst {
					worst, where = t, p.Rel(r.Pos())
				}
			}
		}
		if s.puts > 2 {
			s.puts = 2
		}
		for _, nx := range b.Succs {
			o, ok := in[nx]
			n := o
			if !ok || s.puts > o.puts {
				n.puts = s.puts
			}
			if !ok || s.def > o.def {
				n.def = s.def
			}
			if !ok || n != o || !seen[nx] {
				in[nx] = n
				seen[nx] = true
				work = append(work, nx)
			}
		}
	}
	run.Count("garble-returns", returns)
	key := "circuit.Circuit.Garble"
	if worst > 1 {
		run.Violate("put-at-most-once", key, where, fmt.Sprintf("a path to the return at %s puts the scratch back %d times (an explicit Put plus a deferred one): the pool hands it to two later garblings, which then share their buffers", where, worst), nil)
	} else {
		run.OK("put-at-most-once", key, p.Rel(fn.Pos()), fmt.Sprintf("%d returns, at most one Put on every path", returns))
	}
	run.Floor("garble-returns", 3)
}
