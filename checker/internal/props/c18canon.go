package props

import (
	"fmt"
	"go/token"
	"go/types"
	"sort"
	"strings"

	"golang.org/x/tools/go/ssa"

	"mpcverif/internal/load"
	"mpcverif/internal/report"
)

// C18canon: the sha2pc encodings are exact.
//
//   - decoder-consumes-input: a decoder that wraps its input in a bytes.Reader
//     reaches success only after it knows nothing is left: it compares
//     reader.Len(), hands the rest to io.ReadAll, or compares len(data) with the
//     size it expects.  Otherwise bytes after the last field are accepted and
//     decode-then-encode is not the identity (three of the five exported decoders
//     and two inner ones accepted trailing bytes).
//   - encoder-curve-guard: an encoder that is given both a curve and a payload
//     carrying a CurveName compares the two before success: the siblings
//     EncodeRound1 and the session encoders do; EncodeRound2 wrote the curve's
//     name over a payload of another curve (and panicked for a smaller curve).
func C18canon(p *load.Program, run *report.Run) {
	run.Rule("decoder-consumes-input", "every function of sha2pc that calls bytes.NewReader on a []byte parameter has each success return dominated by a comparison of (*bytes.Reader).Len() of that reader, by io.ReadAll of it, or by a comparison of len() of that parameter")
	run.Rule("encoder-curve-guard", "every function of sha2pc named Encode*/encode* that takes an elliptic.Curve and a parameter whose type (or a field of it) has a CurveName field has each success return dominated by a comparison on a loaded CurveName field, made there or in a guarded function of the package it calls on every path to success")
	pkg, err := p.Pkg("sha2pc")
	if err != nil {
		run.Undecided("decoder-consumes-input", "sha2pc", "", err.Error())
		return
	}
	var fns []*ssa.Function
	for _, m := range pkg.Members {
		if f, ok := m.(*ssa.Function); ok && f.Blocks != nil && !strings.HasSuffix(p.Fset.Position(f.Pos()).Filename, "_test.go") {
			fns = append(fns, f)
		}
	}
	sort.Slice(fns, func(i, j int) bool { return fns[i].Name() < fns[j].Name() })
	for _, fn := range fns {
		// decoder-consumes-input
		var reader *ssa.Call
		var data ssa.Value
		for _, b := range fn.Blocks {
			for _, ins := range b.Instrs {
				if c, ok := ins.(*ssa.Call); ok && c.Call.StaticCallee() != nil && c.Call.StaticCallee().String() == "bytes.NewReader" {
					if prm, isP := c.Call.Args[0].(*ssa.Parameter); isP {
						reader, data = c, prm
					}
				}
			}
		}
		if reader == nil && strings.HasPrefix(fn.Name(), "decode") {
			// a nested decoder that reads in place from its caller's reader: it cannot know where its part
			// ends; the caller, which read the length of the part, has to compare it with what was consumed
			for _, prm := range fn.Params {
				if strings.HasSuffix(prm.Type().String(), "bytes.Reader") {
					run.Count("reader-decoders", 1)
					key := "sha2pc." + fn.Name() + "/in place"
					bad := ""
					ncalls := 0
					for _, caller := range fns {
						for _, b := range caller.Blocks {
							for _, ins := range b.Instrs {
								c, ok := ins.(*ssa.Call)
								if !ok || c.Call.StaticCallee() != fn {
									continue
								}
								if !lengthReadBefore(caller, c) {
									continue // the part has no declared length of its own
								}
								ncalls++
								if !consumptionCompared(caller, c) {
									bad = fmt.Sprintf("%s decodes a length-prefixed part in place with %s and never compares the declared length with the bytes consumed: a damaged length prefix is accepted and the decoded value does not encode back to the input", caller.Name(), fn.Name())
								}
							}
						}
					}
					if bad != "" {
						run.Violate("decoder-consumes-input", key, p.Rel(fn.Pos()), bad, nil)
					} else if ncalls > 0 {
						run.OK("decoder-consumes-input", key, p.Rel(fn.Pos()), "every caller compares the declared length of the part with what was consumed")
					}
				}
			}
		}
		if reader != nil {
			run.Count("reader-decoders", 1)
			key := "sha2pc." + fn.Name()
			var checks []*ssa.BasicBlock
			for _, b := range fn.Blocks {
				for _, ins := range b.Instrs {
					switch t := ins.(type) {
					case *ssa.Call:
						if bi, ok := t.Call.Value.(*ssa.Builtin); ok && bi.Name() == "len" && t.Call.Args[0] == data && comparedIn(t) {
							checks = append(checks, b)
						}
						callee := t.Call.StaticCallee()
						if callee == nil {
							continue
						}
						if callee.String() == "(*bytes.Reader).Len" && t.Call.Args[0] == ssa.Value(reader) && comparedIn(t) {
							checks = append(checks, b)
						}
						if callee.String() == "io.ReadAll" {
							if mi, ok := t.Call.Args[0].(*ssa.MakeInterface); ok && mi.X == ssa.Value(reader) {
								checks = append(checks, b)
							}
						}
					}
				}
			}
			bad := ""
			for _, s := range successBlocks(fn) {
				dom := false
				for _, c := range checks {
					if c == s || c.Dominates(s) {
						dom = true
					}
				}
				if !dom {
					bad = "a success return is reachable without knowing that the input is exhausted: bytes after the last field are accepted"
				}
			}
			if bad != "" {
				run.Violate("decoder-consumes-input", key, p.Rel(fn.Pos()), bad, nil)
			} else {
				run.OK("decoder-consumes-input", key, p.Rel(fn.Pos()), "")
			}
		}
		// encoder-curve-guard
		if !strings.HasPrefix(strings.ToLower(fn.Name()), "encode") {
			continue
		}
		hasCurve, hasName := false, false
		for _, prm := range fn.Params {
			if strings.Contains(prm.Type().String(), "elliptic.Curve") {
				hasCurve = true
			}
			if typeHasField(prm.Type(), "CurveName", 0) {
				hasName = true
			}
		}
		if !hasCurve || !hasName {
			continue
		}
		run.Count("curve-named-encoders", 1)
		key := "sha2pc." + fn.Name()
		ok := curveGuarded(fn, 0)
		if ok {
			run.OK("encoder-curve-guard", key, p.Rel(fn.Pos()), "")
		} else {
			run.Violate("encoder-curve-guard", key, p.Rel(fn.Pos()), "the encoder is given a curve and a payload that names its curve and never compares them: a payload of another curve is written under this curve's name (or overruns the fixed coordinate width and panics)", nil)
		}
	}
	run.Floor("reader-decoders", 8)
	run.Floor("curve-named-encoders", 4)
}

// curveGuarded: every success return of fn follows a comparison on a CurveName field, made in fn
// or in a function of the package that fn calls on the way (and that is guarded itself).
func curveGuarded(fn *ssa.Function, depth int) bool {
	if ok, _ := guardedBy(fn, func(bo cmpView) bool {
		_, a := fieldLoadNamed(bo.X, "CurveName")
		_, b := fieldLoadNamed(bo.Y, "CurveName")
		return a || b
	}); ok {
		return true
	}
	if depth > 2 {
		return false
	}
	succ := successBlocks(fn)
	for _, b := range fn.Blocks {
		for _, ins := range b.Instrs {
			c, ok := ins.(*ssa.Call)
			if !ok {
				continue
			}
			callee := c.Call.StaticCallee()
			if callee == nil || callee.Pkg != fn.Pkg || callee.Blocks == nil {
				continue
			}
			named := false
			for _, prm := range callee.Params {
				if typeHasField(prm.Type(), "CurveName", 0) {
					named = true
				}
			}
			if !named || !curveGuarded(callee, depth+1) {
				continue
			}
			all := len(succ) > 0
			for _, s := range succ {
				if !(b == s || b.Dominates(s)) {
					all = false
				}
			}
			if all {
				return true
			}
		}
	}
	return false
}

// comparedIn: the value is an operand of a comparison.
func comparedIn(v ssa.Value) bool {
	for _, r := range *v.Referrers() {
		if b, ok := r.(*ssa.BinOp); ok {
			switch b.Op.String() {
			case "==", "!=", "<", ">", "<=", ">=":
				return true
			}
		}
	}
	return false
}

func typeHasField(t types.Type, name string, depth int) bool {
	if depth > 3 {
		return false
	}
	if p, ok := t.Underlying().(*types.Pointer); ok {
		t = p.Elem()
	}
	st, ok := t.Underlying().(*types.Struct)
	if !ok {
		return false
	}
	for i := 0; i < st.NumFields(); i++ {
		if st.Field(i).Name() == name {
			return true
		}
		if typeHasField(st.Field(i).Type(), name, depth+1) {
			return true
		}
	}
	return false
}

var _ = fmt.Sprint
var _ = load.Module

// consumptionCompared: in caller, a value obtained from a length-reading helper (an int result of a package
// function that is handed the same reader before the call c) is compared with a difference of the reader's
// Len() taken around c, on a branch that ends in an error.
func consumptionCompared(caller *ssa.Function, c *ssa.Call) bool {
	var rdr ssa.Value
	for _, a := range c.Call.Args {
		if strings.HasSuffix(a.Type().String(), "bytes.Reader") {
			rdr = a
		}
	}
	if rdr == nil {
		return false
	}
	usesLen := func(v ssa.Value) bool {
		found := false
		var walk func(x ssa.Value, d int)
		walk = func(x ssa.Value, d int) {
			if d > 4 || found || x == nil {
				return
			}
			if cl, ok := x.(*ssa.Call); ok && cl.Call.StaticCallee() != nil && cl.Call.StaticCallee().String() == "(*bytes.Reader).Len" {
				found = true
				return
			}
			if ins, ok := x.(ssa.Instruction); ok {
				for _, op := range ins.Operands(nil) {
					walk(*op, d+1)
				}
			}
		}
		walk(v, 0)
		return found
	}
	for _, b := range caller.Blocks {
		iff, ok := b.Instrs[len(b.Instrs)-1].(*ssa.If)
		if !ok {
			continue
		}
		bo, ok := iff.Cond.(*ssa.BinOp)
		if !ok || !(bo.Op == token.NEQ || bo.Op == token.EQL || bo.Op == token.LSS || bo.Op == token.GTR) {
			continue
		}
		fromHelper := func(v ssa.Value) bool {
			for d := 0; d < 3; d++ {
				switch t := v.(type) {
				case *ssa.Extract:
					if cl, ok := t.Tuple.(*ssa.Call); ok && cl.Call.StaticCallee() != nil && cl.Call.StaticCallee().Pkg == caller.Pkg {
						for _, a := range cl.Call.Args {
							if a == rdr {
								return true
							}
						}
					}
					return false
				case *ssa.Convert:
					v = t.X
					continue
				}
				break
			}
			return false
		}
		if (fromHelper(bo.X) && usesLen(bo.Y)) || (fromHelper(bo.Y) && usesLen(bo.X)) {
			return true
		}
	}
	return false
}

// lengthReadBefore: before the call c the caller obtained an integer from a helper of the package that was
// handed the same reader (the declared length of the part that c decodes in place).
func lengthReadBefore(caller *ssa.Function, c *ssa.Call) bool {
	var rdr ssa.Value
	for _, a := range c.Call.Args {
		if strings.HasSuffix(a.Type().String(), "bytes.Reader") {
			rdr = a
		}
	}
	if rdr == nil {
		return false
	}
	for _, b := range caller.Blocks {
		for _, ins := range b.Instrs {
			h, ok := ins.(*ssa.Call)
			if !ok || h == c || h.Call.StaticCallee() == nil || h.Call.StaticCallee().Pkg != caller.Pkg {
				continue
			}
			if !(h.Block() == c.Block() && instrIndex(h) < instrIndex(c) || h.Block() != c.Block() && h.Block().Dominates(c.Block())) {
				continue
			}
			handed := false
			for _, a := range h.Call.Args {
				if a == rdr {
					handed = true
				}
			}
			res := h.Call.Signature().Results()
			if !handed || res.Len() != 2 {
				continue
			}
			if bt, ok := res.At(0).Type().Underlying().(*types.Basic); ok && bt.Info()&types.IsInteger != 0 {
				return true
			}
		}
	}
	return false
}
