package props

import (
	"fmt"
	"go/ast"
	"go/constant"
	"go/types"
	"strings"

	"golang.org/x/tools/go/packages"

	"mpcverif/internal/codec"
	"mpcverif/internal/dispatch"
	"mpcverif/internal/load"
	"mpcverif/internal/proto"
	"mpcverif/internal/report"
)

// byteWidth: static width of a byte-slice expression, or -1.
func byteWidth(pkg *packages.Package, fd *ast.FuncDecl, e ast.Expr) int64 {
	switch t := e.(type) {
	case *ast.SliceExpr:
		if t.Low == nil && t.High == nil {
			if at, ok := pkg.TypesInfo.TypeOf(t.X).Underlying().(*types.Array); ok {
				return at.Len()
			}
		}
	case *ast.CallExpr:
		// []byte("const")
		if len(t.Args) == 1 {
			if tv, ok := pkg.TypesInfo.Types[t.Args[0]]; ok && tv.Value != nil && tv.Value.Kind() == constant.String {
				return int64(len(constant.StringVal(tv.Value)))
			}
		}
	case *ast.Ident:
		// x := make([]byte, CONST) in the same function
		var w int64 = -1
		obj := pkg.TypesInfo.ObjectOf(t)
		ast.Inspect(fd.Body, func(n ast.Node) bool {
			as, ok := n.(*ast.AssignStmt)
			if !ok || len(as.Lhs) != 1 || len(as.Rhs) != 1 {
				return true
			}
			id, ok := as.Lhs[0].(*ast.Ident)
			if !ok || pkg.TypesInfo.ObjectOf(id) != obj {
				return true
			}
			if call, ok := as.Rhs[0].(*ast.CallExpr); ok && types.ExprString(call.Fun) == "make" && len(call.Args) == 2 {
				if tv, ok := pkg.TypesInfo.Types[call.Args[1]]; ok && tv.Value != nil {
					if v, ok := constant.Int64Val(tv.Value); ok {
						w = v
					}
				}
			}
			return true
		})
		return w
	}
	return -1
}

func widthEvent(dir string, w int64) string {
	if w < 0 {
		return dir + "Bytes"
	}
	return fmt.Sprintf("%sB%d", dir, w)
}

// sha2pcEvents recognises the primitive reads/writes of sha2pc/encoding.go.
// Paired helpers (writeChunk/readChunk, ...) are single symbols; their bodies
// are compared as separate pairs.
func sha2pcEvents(helpers map[string]string, enclosing func(*ast.CallExpr) *ast.FuncDecl) codec.EventFn {
	return func(pkg *packages.Package, call *ast.CallExpr) ([]string, bool) {
		name := types.ExprString(call.Fun)
		if sym, ok := helpers[name]; ok {
			return []string{sym}, true
		}
		// a variant of the chunk reader (readChunkLen: the length prefix alone, the body decoded in place)
		// reads the header of the same chunk
		if _, isChunk := helpers["readChunk"]; isChunk && strings.HasPrefix(name, "readChunk") {
			return []string{"?Chunk"}, true
		}
		fd := enclosing(call)
		// methods are recognised by the type of their receiver, not its name
		if sel, ok := call.Fun.(*ast.SelectorExpr); ok {
			if _, isVar := sel.X.(*ast.Ident); isVar {
				switch rt := namedType(pkg.TypesInfo, sel.X); {
				case sel.Sel.Name == "Write" && rt == "Buffer":
					name = "buf.Write"
				case sel.Sel.Name == "Read" && rt == "Reader":
					name = "reader.Read"
				}
			}
		}
		switch {
		case name == "buf.Write" && len(call.Args) == 1 && fd != nil:
			return []string{widthEvent("!", byteWidth(pkg, fd, call.Args[0]))}, true
		case name == "io.ReadFull" && len(call.Args) == 2 && fd != nil:
			return []string{widthEvent("?", byteWidth(pkg, fd, call.Args[1]))}, true
		case (name == "reader.Read" || name == "r.Read") && len(call.Args) == 1 && fd != nil:
			return []string{widthEvent("?", byteWidth(pkg, fd, call.Args[0]))}, true
		case name == "io.ReadAll":
			return nil, true
		case name == "binary.ReadUvarint":
			return []string{"?Bytes"}, true // the length prefix written from the PutUvarint scratch buffer
		case strings.HasPrefix(name, "fmt."), strings.HasPrefix(name, "binary."), strings.HasPrefix(name, "bytes."),
			strings.HasPrefix(name, "curve."), strings.HasPrefix(name, "big."), strings.HasPrefix(name, "new("):
			return nil, true
		}
		return nil, false
	}
}

// C18codec compares encoders and decoders of the SHA256(XOR) messages and session states.
func C18codec(p *load.Program, run *report.Run) {
	run.Rule("sha2pc-field-agreement", "each Encode*/Decode* pair (and each paired helper) writes and reads the same field sequence; sizes known statically must agree")
	pkg := p.ByPath[load.Module+"/sha2pc"]
	if pkg == nil {
		run.Undecided("sha2pc-field-agreement", "sha2pc", "", "package not found")
		return
	}
	// enclosing function lookup
	encl := map[*ast.CallExpr]*ast.FuncDecl{}
	for _, f := range pkg.Syntax {
		for _, d := range f.Decls {
			if fd, ok := d.(*ast.FuncDecl); ok && fd.Body != nil {
				ast.Inspect(fd.Body, func(n ast.Node) bool {
					if c, ok := n.(*ast.CallExpr); ok {
						encl[c] = fd
					}
					return true
				})
			}
		}
	}
	enclosing := func(c *ast.CallExpr) *ast.FuncDecl { return encl[c] }
	// writer helper -> symbol, reader helper -> dual symbol
	wh := map[string]string{"writeChunk": "!Chunk", "writeFixedBigInt": "!Fixed", "encodeOTSetup": "!OTSetup", "encodePoints": "!Points",
		"encodeCOSenderSetup": "!COSetup", "encodeChoiceBundle": "!Bundle", "encodeGarbledTables": "!Tables", "encodeLabels": "!Labels",
		"encodeOutputHints": "!Hints", "encodeCiphertexts": "!Ciphertexts", "bitsToBytesLittle": "", "packPointSigns": ""}
	rh := map[string]string{"readChunk": "?Chunk", "readFixedBigInt": "?Fixed", "decodeOTSetup": "?OTSetup", "decodePoints": "?Points",
		"decodeCOSenderSetup": "?COSetup", "decodeChoiceBundle": "?Bundle", "decodeGarbledTables": "?Tables", "decodeLabels": "?Labels",
		"decodeOutputHints": "?Hints", "decodeCiphertexts": "?Ciphertexts", "bytesToBitsLittle": "", "pointSign": ""}
	clean := func(m map[string]string) map[string]string {
		out := map[string]string{}
		for k, v := range m {
			out[k] = v
		}
		return out
	}
	type pair struct{ enc, dec string }
	pairs := []pair{
		{"EncodeRound1", "DecodeRound1"}, {"EncodeRound2", "DecodeRound2"},
		{"EncodeGarblerSession", "DecodeGarblerSession"}, {"EncodeEvaluatorSession", "DecodeEvaluatorSession"},
		{"encodeOTSetup", "decodeOTSetup"}, {"encodeCOSenderSetup", "decodeCOSenderSetup"}, {"encodeChoiceBundle", "decodeChoiceBundle"},
		{"encodeOutputHints", "decodeOutputHints"}, {"encodeCiphertexts", "decodeCiphertexts"}, {"encodeGarbledTables", "decodeGarbledTables"},
		{"writeChunk", "readChunk"},
	}
	for _, pr := range pairs {
		_, enc := dispatch.FindFunc(p, "sha2pc", "", pr.enc)
		_, dec := dispatch.FindFunc(p, "sha2pc", "", pr.dec)
		key := "sha2pc." + pr.enc + " <-> sha2pc." + pr.dec
		if enc == nil || dec == nil {
			run.Undecided("sha2pc-field-agreement", key, "", "function not found")
			continue
		}
		// inside a helper its own name must not collapse to a symbol
		w := clean(wh)
		delete(w, pr.enc)
		r := clean(rh)
		delete(r, pr.dec)
		// the chunk payload of the sessions is produced by a helper whose result is passed to writeChunk
		wb := codec.NewBuilder(p, sha2pcEvents(w, enclosing))
		rb := codec.NewBuilder(p, sha2pcEvents(r, enclosing))
		wn, rn := wb.Automaton(pkg, enc), rb.Automaton(pkg, dec)
		run.Count("codec-pairs", 1)
		run.Count("codec-sites", wb.Sites+rb.Sites)
		// a chunk that wraps a sub-encoding: `x := encodeSub(...); writeChunk(buf, x)` is (Sub, Chunk) on the writer and
		// (Chunk, Sub) on the reader; both orders denote the same bytes, so the wrapper symbol is dropped.
		dropWrap := func(s string) string {
			if (pr.enc == "EncodeGarblerSession" || pr.enc == "EncodeEvaluatorSession") && strings.HasSuffix(s, "Chunk") {
				return ""
			}
			return s
		}
		// unknown widths are wildcards: compare on kinds when either side has a dynamic width
		norm := func(n *proto.NFA) *proto.NFA { return n }
		_ = norm
		ok, trace, why := proto.Equivalent(mapS(wn, dropWrap), mapS(rn, dropWrap), nil)
		if !ok {
			// retry with all sized byte fields collapsed to "Bytes" if one side is dynamic at the mismatch
			coll := func(s string) string {
				s = dropWrap(s)
				if len(s) > 2 && (s[1] == 'B') && (s[2] >= '0' && s[2] <= '9') {
					return s[:1] + "Bytes"
				}
				return s
			}
			if strings.Contains(why, "Bytes") {
				ok, trace, why = proto.Equivalent(mapS(wn, coll), mapS(rn, coll), nil)
			}
		}
		if ok {
			run.OK("sha2pc-field-agreement", key, p.Rel(enc.Pos()), "")
		} else {
			if len(trace) > 12 {
				trace = append([]string{"..."}, trace[len(trace)-12:]...)
			}
			run.Violate("sha2pc-field-agreement", key, p.Rel(enc.Pos())+" / "+p.Rel(dec.Pos()), why, map[string]any{"after": trace})
		}
	}
	run.Floor("codec-pairs", 11)
}

func mapS(n *proto.NFA, f func(string) string) *proto.NFA { return proto.MapSyms(n, f) }
