package props

import (
	"fmt"
	"go/ast"
	"go/types"
	"strings"

	"mpcverif/internal/dispatch"
	"mpcverif/internal/load"
	"mpcverif/internal/report"
)

// fieldSuffix: the field path of a selector chain without its root variable.
func fieldSuffix(e ast.Expr) string {
	var parts []string
	for {
		switch t := ast.Unparen(e).(type) {
		case *ast.SelectorExpr:
			parts = append([]string{t.Sel.Name}, parts...)
			e = t.X
			continue
		}
		break
	}
	return strings.Join(parts, ".")
}

// C18fields: same-typed neighbouring fields are written and read in the same order.
func C18fields(p *load.Program, run *report.Run) {
	run.Rule("field-order", "where an encoder writes several values with the same helper in a row (fixed-size big integers), the decoder assigns the values it reads, in order, to the same fields — the type sequence alone cannot tell X from Y")
	pkg := p.ByPath[load.Module+"/sha2pc"]
	if pkg == nil {
		return
	}
	for _, pr := range [][2]string{{"encodeOTSetup", "decodeOTSetup"}, {"encodeCOSenderSetup", "decodeCOSenderSetup"}} {
		_, enc := dispatch.FindFunc(p, "sha2pc", "", pr[0])
		_, dec := dispatch.FindFunc(p, "sha2pc", "", pr[1])
		key := "sha2pc." + pr[0] + "/" + pr[1]
		if enc == nil || dec == nil {
			run.Undecided("field-order", key, "", "function not found")
			continue
		}
		run.Count("field-ordered-codecs", 1)
		// writer: fields passed to writeFixedBigInt, in source order
		var written []string
		ast.Inspect(enc.Body, func(n ast.Node) bool {
			if c, ok := n.(*ast.CallExpr); ok && types.ExprString(c.Fun) == "writeFixedBigInt" && len(c.Args) == 3 {
				written = append(written, fieldSuffix(c.Args[2]))
			}
			return true
		})
		// reader: variables receiving readFixedBigInt, in source order
		var vars []string
		ast.Inspect(dec.Body, func(n ast.Node) bool {
			if as, ok := n.(*ast.AssignStmt); ok && len(as.Rhs) == 1 {
				if c, ok := as.Rhs[0].(*ast.CallExpr); ok && types.ExprString(c.Fun) == "readFixedBigInt" {
					vars = append(vars, types.ExprString(as.Lhs[0]))
				}
			}
			return true
		})
		// where each variable ends up: key path inside the returned composite literal, or an assigned field
		dest := map[string]string{}
		var walkLit func(cl *ast.CompositeLit, prefix string)
		walkLit = func(cl *ast.CompositeLit, prefix string) {
			for _, e := range cl.Elts {
				kv, ok := e.(*ast.KeyValueExpr)
				if !ok {
					continue
				}
				k := types.ExprString(kv.Key)
				if prefix != "" {
					k = prefix + "." + k
				}
				switch v := kv.Value.(type) {
				case *ast.CompositeLit:
					walkLit(v, k)
				case *ast.Ident:
					dest[v.Name] = k
				}
			}
		}
		ast.Inspect(dec.Body, func(n ast.Node) bool {
			switch t := n.(type) {
			case *ast.ReturnStmt:
				for _, r := range t.Results {
					if cl, ok := r.(*ast.CompositeLit); ok {
						walkLit(cl, "")
					}
				}
			case *ast.AssignStmt:
				if len(t.Lhs) == 1 && len(t.Rhs) == 1 {
					if id, ok := t.Rhs[0].(*ast.Ident); ok {
						if sfx := fieldSuffix(t.Lhs[0]); sfx != "" {
							dest[id.Name] = sfx
						}
					}
				}
			}
			return true
		})
		var read []string
		for _, v := range vars {
			if sfx := fieldSuffix(mustParseSel(v)); sfx != "" {
				read = append(read, sfx) // read straight into a field
			} else {
				read = append(read, dest[v])
			}
		}
		switch {
		case len(written) < 2:
			run.Undecided("field-order", key, p.Rel(enc.Pos()), "fewer than two neighbouring fixed-size fields found")
		case strings.Join(written, ",") != strings.Join(read, ","):
			run.Violate("field-order", key, p.Rel(dec.Pos()), fmt.Sprintf("written in the order %v, read into %v", written, read), nil)
		default:
			run.OK("field-order", key, p.Rel(enc.Pos()), strings.Join(written, ", "))
		}
	}
	run.Floor("field-ordered-codecs", 2)
}

// mustParseSel turns "a.b.c" back into a selector chain (only used for left-hand sides printed by types.ExprString).
func mustParseSel(s string) ast.Expr {
	parts := strings.Split(s, ".")
	var e ast.Expr = ast.NewIdent(parts[0])
	for _, p := range parts[1:] {
		e = &ast.SelectorExpr{X: e, Sel: ast.NewIdent(p)}
	}
	return e
}
