package props

import (
	"fmt"
	"go/constant"
	"go/token"
	"go/types"
	"sort"
	"strings"

	"golang.org/x/tools/go/ssa"

	"mpcverif/internal/load"
	"mpcverif/internal/report"
)

// successBlocks: blocks ending in a return whose error result can be nil.
func successBlocks(fn *ssa.Function) []*ssa.BasicBlock {
	var out []*ssa.BasicBlock
	for _, b := range fn.Blocks {
		if b == fn.Recover {
			continue // the block a recovered panic resumes at returns whatever the result cells hold
		}
		r, ok := b.Instrs[len(b.Instrs)-1].(*ssa.Return)
		if !ok || len(load.Results(r)) == 0 {
			continue
		}
		e := load.Results(r)[len(load.Results(r))-1]
		if c, ok := e.(*ssa.Const); ok {
			if c.IsNil() {
				out = append(out, b)
			}
			continue
		}
		// a non-constant error: reached on the true edge of e != nil, or built by an error constructor -> failure
		if errNonNilAt(e, b) {
			continue
		}
		if call, ok := e.(*ssa.Call); ok && call.Call.StaticCallee() != nil {
			n := call.Call.StaticCallee().String()
			if n == "fmt.Errorf" || n == "errors.New" {
				continue
			}
		}
		if u, ok := e.(*ssa.UnOp); ok {
			if _, isG := u.X.(*ssa.Global); isG {
				continue // package-level sentinel error
			}
		}
		out = append(out, b)
	}
	return out
}

func errNonNilAt(e ssa.Value, at *ssa.BasicBlock) bool {
	for _, b := range at.Parent().Blocks {
		iff, ok := b.Instrs[len(b.Instrs)-1].(*ssa.If)
		if !ok || b.Succs[0] == b.Succs[1] {
			continue
		}
		bo, ok := iff.Cond.(*ssa.BinOp)
		if !ok || bo.X != e {
			continue
		}
		if c, isC := bo.Y.(*ssa.Const); !isC || !c.IsNil() {
			continue
		}
		idx := 0
		if bo.Op == token.EQL {
			idx = 1
		}
		s := b.Succs[idx]
		if len(s.Preds) == 1 && s.Dominates(at) {
			return true
		}
	}
	return false
}

// guardedBy: some comparison satisfying pred must hold (its "equal" successor dominates) at every success return.
// cmpView is an equality test in one of its source forms (==, !=, bytes.Equal).
type cmpView struct {
	Op             token.Token
	X, Y           ssa.Value
	BytesX, BytesY bool // the operand is a byte slice (compared as a string)
}

func guardedBy(fn *ssa.Function, pred func(cmpView) bool) (ok bool, found int) {
	succ := successBlocks(fn)
	var passes []*ssa.BasicBlock
	for _, b := range fn.Blocks {
		iff, isIf := b.Instrs[len(b.Instrs)-1].(*ssa.If)
		if !isIf || b.Succs[0] == b.Succs[1] {
			continue
		}
		cond, neg := iff.Cond, false
		if u, ok := cond.(*ssa.UnOp); ok && u.Op == token.NOT {
			cond, neg = u.X, true
		}
		var view cmpView
		if call, ok := cond.(*ssa.Call); ok && call.Call.StaticCallee() != nil && call.Call.StaticCallee().String() == "bytes.Equal" && len(call.Call.Args) == 2 {
			// bytes.Equal(a, []byte(K)) is the comparison string(a) == K
			view = cmpView{Op: token.EQL}
			for i, a := range call.Call.Args {
				v, isBytes := a, true
				if cv, ok := a.(*ssa.Convert); ok {
					if _, isK := cv.X.(*ssa.Const); isK {
						v, isBytes = cv.X, false
					}
				}
				if i == 0 {
					view.X, view.BytesX = v, isBytes
				} else {
					view.Y, view.BytesY = v, isBytes
				}
			}
		} else if b2, ok := cond.(*ssa.BinOp); ok && (b2.Op == token.NEQ || b2.Op == token.EQL) {
			view = cmpView{Op: b2.Op, X: b2.X, Y: b2.Y, BytesX: isBytesToString(b2.X), BytesY: isBytesToString(b2.Y)}
		} else {
			continue
		}
		if !pred(view) {
			continue
		}
		found++
		idx := 1
		if (view.Op == token.EQL) != neg {
			idx = 0
		}
		if len(b.Succs[idx].Preds) == 1 {
			passes = append(passes, b.Succs[idx])
		}
	}
	if len(succ) == 0 {
		return false, found
	}
	for _, s := range succ {
		dom := false
		for _, p := range passes {
			if p.Dominates(s) {
				dom = true
			}
		}
		if !dom {
			return false, found
		}
	}
	return true, found
}

func constString(v ssa.Value) (string, bool) {
	c, ok := v.(*ssa.Const)
	if !ok || c.Value == nil || c.Value.Kind() != constant.String {
		return "", false
	}
	return constant.StringVal(c.Value), true
}

func isBytesToString(v ssa.Value) bool {
	cv, ok := v.(*ssa.Convert)
	if !ok {
		return false
	}

	_, isSlice := cv.X.Type().Underlying().(*types.Slice)
	b, isStr := cv.Type().Underlying().(*types.Basic)
	return isSlice && isStr && b.Kind() == types.String
}

// isCurveName: v is curve.Params().Name for a parameter of type elliptic.Curve.
func isCurveName(v ssa.Value) bool {
	u, ok := v.(*ssa.UnOp)
	if !ok {
		return false
	}
	fa, ok := u.X.(*ssa.FieldAddr)
	if !ok {
		return false
	}
	c, ok := fa.X.(*ssa.Call)
	if !ok || !c.Call.IsInvoke() || c.Call.Method.Name() != "Params" {
		return false
	}
	st := fa.X.Type().Underlying().(*types.Pointer).Elem().Underlying().(*types.Struct)
	return st.Field(fa.Field).Name() == "Name"
}

// fieldLoadNamed: v loads a field with the given name; returns the root parameter.
func fieldLoadNamed(v ssa.Value, name string) (root ssa.Value, ok bool) {
	switch t := v.(type) {
	case *ssa.UnOp:
		if fa, isF := t.X.(*ssa.FieldAddr); isF && fieldName(fa) == name {
			r := fa.X
			for {
				if f2, ok := r.(*ssa.FieldAddr); ok {
					r = f2.X
					continue
				}
				break
			}
			return r, true
		}
	case *ssa.Field:
		st := t.X.Type().Underlying().(*types.Struct)
		if st.Field(t.Field).Name() == name {
			return t.X, true
		}
	}
	return nil, false
}

// writesCurveName: the encoder writes curve.Params().Name into its output.
func writesCurveName(fn *ssa.Function) bool {
	for _, b := range fn.Blocks {
		for _, ins := range b.Instrs {
			c, ok := ins.(*ssa.Call)
			if !ok || c.Call.StaticCallee() == nil || c.Call.StaticCallee().Name() != "writeChunk" {
				continue
			}
			if cv, ok := c.Call.Args[1].(*ssa.Convert); ok {
				if isCurveName(cv.X) {
					return true
				}
				if _, ok := fieldLoadNamed(cv.X, "CurveName"); ok {
					return true
				}
			}
		}
	}
	return false
}

// firstMagic: the string constant the encoder writes first.
func firstMagic(fn *ssa.Function) (string, bool) {
	for _, b := range fn.DomPreorder() {
		for _, ins := range b.Instrs {
			c, ok := ins.(*ssa.Call)
			if !ok || c.Call.StaticCallee() == nil || c.Call.StaticCallee().String() != "(*bytes.Buffer).Write" {
				continue
			}
			if cv, ok := c.Call.Args[1].(*ssa.Convert); ok {
				if k, ok := constString(cv.X); ok {
					return k, true
				}
			}
			// go/ssa folds []byte("R1") of a constant into a conversion of a constant
			return "", false
		}
	}
	return "", false
}

// C18guards: magic, curve and session comparisons guard every success path.
func C18guards(p *load.Program, run *report.Run) {
	run.Rule("magic-guard", "every exported Decode* reaches success only after comparing the leading bytes with the constant its Encode* writes first; the magics are pairwise distinct")
	run.Rule("curve-guard", "every decoder whose encoder writes curve.Params().Name reaches success only after comparing the decoded name with curve.Params().Name")
	run.Rule("session-guard", "every round function that takes a session state and a payload compares their SessionID fields before any success return")
	pkg, err := p.Pkg("sha2pc")
	if err != nil {
		run.Undecided("anchor", "sha2pc", "", err.Error())
		return
	}
	fns := map[string]*ssa.Function{}
	for name, m := range pkg.Members {
		if f, ok := m.(*ssa.Function); ok && f.Blocks != nil {
			fns[name] = f
		}
	}
	var names []string
	for n := range fns {
		names = append(names, n)
	}
	sort.Strings(names)
	magics := map[string]string{}
	for _, n := range names {
		lower := strings.ToLower(n[:1]) + n[1:]
		if !strings.HasPrefix(lower, "decode") {
			continue
		}
		dec := fns[n]
		encName := "Encode" + n[len("Decode"):]
		if n[0] == 'd' {
			encName = "encode" + n[len("decode"):]
		}
		enc := fns[encName]
		key := "sha2pc." + n
		// magic: exported decoders only
		if n[0] == 'D' {
			run.Count("decoders", 1)
			if enc == nil {
				run.Undecided("magic-guard", key, p.Rel(dec.Pos()), "no encoder named "+encName)
				continue
			}
			want, ok := firstMagic(enc)
			if !ok {
				run.Undecided("magic-guard", key, p.Rel(enc.Pos()), encName+" does not start with a constant magic")
				continue
			}
			if other, dup := magics[want]; dup {
				run.Violate("magic-guard", key, p.Rel(enc.Pos()), fmt.Sprintf("magic %q is also used by %s", want, other), nil)
			}
			magics[want] = encName
			ok2, _ := guardedBy(dec, func(bo cmpView) bool {
				if k, isK := constString(bo.Y); isK && k == want && bo.BytesX {
					return true
				}
				if k, isK := constString(bo.X); isK && k == want && bo.BytesY {
					return true
				}
				return false
			})
			if ok2 {
				run.OK("magic-guard", key, p.Rel(dec.Pos()), fmt.Sprintf("magic %q", want))
			} else {
				run.Violate("magic-guard", key, p.Rel(dec.Pos()), fmt.Sprintf("a success return is reachable without comparing the leading bytes with %q", want), nil)
			}
		}
		if enc != nil && writesCurveName(enc) {
			run.Count("curve-named-codecs", 1)
			ok2, _ := guardedBy(dec, func(bo cmpView) bool {
				if bo.BytesX && isCurveNameBytes(bo.Y) || bo.BytesY && isCurveNameBytes(bo.X) {
					return true
				}
				return (isCurveName(bo.X) && bo.Y.Type().Underlying().String() == "string") || (isCurveName(bo.Y) && bo.X.Type().Underlying().String() == "string")
			})
			if ok2 {
				run.OK("curve-guard", key, p.Rel(dec.Pos()), "")
			} else {
				run.Violate("curve-guard", key, p.Rel(dec.Pos()), encName+" writes the curve name but a success return is reachable without comparing it with curve.Params().Name", nil)
			}
		}
	}
	run.Floor("decoders", 5)
	run.Floor("curve-named-codecs", 4)
	// session guard
	for _, n := range names {
		fn := fns[n]
		if !strings.Contains(n, "Round") || n[0] < 'A' || n[0] > 'Z' {
			continue
		}
		var state, payload ssa.Value
		for _, prm := range fn.Params {
			t := prm.Type()
			if pt, ok := t.Underlying().(*types.Pointer); ok {
				if hasField(pt.Elem(), "SessionID") && strings.HasSuffix(types.TypeString(pt.Elem(), nil), "Session") {
					state = prm
				}
			} else if hasField(t, "SessionID") {
				payload = prm
			}
		}
		if state == nil || payload == nil {
			continue
		}
		run.Count("session-round-functions", 1)
		key := "sha2pc." + n
		ok2, _ := guardedBy(fn, func(bo cmpView) bool {
			r1, ok1 := fieldLoadNamed(bo.X, "SessionID")
			r2, ok2 := fieldLoadNamed(bo.Y, "SessionID")
			if !ok1 || !ok2 {
				return false
			}
			isState := func(r ssa.Value) bool { return r == state }
			isPayload := func(r ssa.Value) bool {
				if r == payload {
					return true
				}
				// a struct parameter is spilled to a local cell
				if a, ok := r.(*ssa.Alloc); ok {
					for _, ref := range *a.Referrers() {
						if st, ok := ref.(*ssa.Store); ok && st.Val == payload {
							return true
						}
					}
				}
				return false
			}
			return (isState(r1) && isPayload(r2)) || (isState(r2) && isPayload(r1))
		})
		if ok2 {
			run.OK("session-guard", key, p.Rel(fn.Pos()), "")
		} else {
			run.Violate("session-guard", key, p.Rel(fn.Pos()), "a success return is reachable without comparing the payload's session id with the session state", nil)
		}
	}
	run.Floor("session-round-functions", 2)
}

func hasField(t types.Type, name string) bool {
	st, ok := t.Underlying().(*types.Struct)
	if !ok {
		return false
	}
	for i := 0; i < st.NumFields(); i++ {
		if st.Field(i).Name() == name {
			return true
		}
	}
	return false
}

// isCurveNameBytes: v is []byte(curve.Params().Name).
func isCurveNameBytes(v ssa.Value) bool {
	cv, ok := v.(*ssa.Convert)
	return ok && isCurveName(cv.X)
}
