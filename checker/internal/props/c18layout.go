package props

import (
	"fmt"
	"go/ast"
	"go/token"
	"go/types"

	"golang.org/x/tools/go/ssa"

	"mpcverif/internal/dispatch"
	"mpcverif/internal/flow"
	"mpcverif/internal/load"
	"mpcverif/internal/report"
)

// C18layout: fixed-offset decoding stays inside the checked length; sessions are not written by the round functions.
func C18layout(p *load.Program, run *report.Run) {
	run.Rule("fixed-layout", "in DecodeRound3 every data[lo:hi] is taken where the length checks passed before it (len(data) < K, len(data) != K with an error return) guarantee at least hi bytes; a check rejects every length other than round3PayloadLen; consecutive parts are adjacent and the last part ends exactly at that length")
	run.Rule("session-immutable", "the round functions and the session encoders never store through the session state they are given")
	pkg := p.ByPath[load.Module+"/sha2pc"]
	_, fd := dispatch.FindFunc(p, "sha2pc", "", "DecodeRound3")
	if fd == nil || pkg == nil {
		run.Undecided("fixed-layout", "sha2pc.DecodeRound3", "", "function not found")
		return
	}
	key := "sha2pc.DecodeRound3"
	total := int64(-1)
	env := miniEnv{}
	var prevHi int64
	slices := 0
	bad := ""
	// minLen: what the length checks passed so far guarantee about len(data); total: the exact length once
	// a check `len(data) != K` has been passed.  A part may only be taken where a check covers it.
	minLen := int64(0)
	for _, st := range effectiveQ(pkg.TypesInfo, fd.Body.List) {
		if ifs, ok := st.(*ast.IfStmt); ok && ifs.Init == nil && len(ifs.Body.List) > 0 {
			if _, isRet := ifs.Body.List[len(ifs.Body.List)-1].(*ast.ReturnStmt); isRet {
				if be, ok := ifs.Cond.(*ast.BinaryExpr); ok && exprNorm(fd, be.X) == "len($0)" {
					m := &miniEval{pkg: pkg, env: env}
					if k, ok := m.intOf(be.Y); ok {
						switch be.Op {
						case token.NEQ:
							if total >= 0 && total != k {
								bad = fmt.Sprintf("two different exact lengths are demanded (%d and %d)", total, k)
							}
							total = k
							if k > minLen {
								minLen = k
							}
							continue
						case token.LSS:
							if k > minLen {
								minLen = k
							}
							continue
						case token.LEQ:
							if k+1 > minLen {
								minLen = k + 1
							}
							continue
						}
					}
				}
			}
		}
		// slices of data in this statement, under the environment before it
		ast.Inspect(st, func(n ast.Node) bool {
			sl, ok := n.(*ast.SliceExpr)
			if !ok || exprNorm(fd, sl.X) != "$0" || bad != "" {
				return true
			}
			m := &miniEval{pkg: pkg, env: env}
			lo, ok1 := int64(0), true
			if sl.Low != nil {
				lo, ok1 = m.intOf(sl.Low)
			}
			hi, ok2 := total, total >= 0
			if sl.High != nil {
				hi, ok2 = m.intOf(sl.High)
			}
			switch {
			case !ok1 || !ok2:
				bad = "slice bounds of " + types.ExprString(sl) + " are not constants of the layout: " + m.why
			case lo < 0 || lo > hi || hi > minLen:
				bad = fmt.Sprintf("%s = data[%d:%d] is taken where the length checks passed so far guarantee only %d bytes: a shorter message makes the slice expression panic", types.ExprString(sl), lo, hi, minLen)
			case lo != prevHi:
				bad = fmt.Sprintf("%s starts at %d, the previous part ended at %d", types.ExprString(sl), lo, prevHi)
			default:
				prevHi = hi
				slices++
			}
			return true
		})
		if bad != "" {
			break
		}
		// effect on the integer variables
		if as, ok := st.(*ast.AssignStmt); ok && len(as.Lhs) == 1 && len(as.Rhs) == 1 {
			if id, ok := as.Lhs[0].(*ast.Ident); ok {
				m := &miniEval{pkg: pkg, env: env}
				if tv, ok := pkg.TypesInfo.Types[as.Rhs[0]]; ok {
					if b, ok := tv.Type.Underlying().(*types.Basic); ok && b.Info()&types.IsInteger != 0 {
						v, ok := m.intOf(as.Rhs[0])
						if !ok {
							bad = "integer " + id.Name + " is not a constant of the layout"
							break
						}
						switch as.Tok {
						case token.ADD_ASSIGN:
							env[id.Name] += v
						case token.ASSIGN, token.DEFINE:
							env[id.Name] = v
						}
					}
				}
			}
		}
	}
	run.Count("layout-slices", slices)
	switch {
	case bad != "":
		run.Violate("fixed-layout", key, p.Rel(fd.Pos()), bad, nil)
	case total < 0:
		run.Violate("fixed-layout", key, p.Rel(fd.Pos()), "no check rejects every length other than the layout's constant", nil)
	case prevHi != total:
		run.Violate("fixed-layout", key, p.Rel(fd.Pos()), fmt.Sprintf("the parts end at %d, the checked length is %d", prevHi, total), nil)
	default:
		run.OK("fixed-layout", key, p.Rel(fd.Pos()), fmt.Sprintf("%d adjacent parts cover exactly %d bytes", slices, total))
	}
	run.Floor("layout-slices", 7)

	// session immutability
	for _, name := range []string{"GarblerRound3", "EvaluatorRound4", "EncodeGarblerSession", "EncodeEvaluatorSession"} {
		fn, err := p.Func("sha2pc", name)
		if err != nil {
			run.Undecided("session-immutable", "sha2pc."+name, "", err.Error())
			continue
		}
		var state ssa.Value
		for _, prm := range fn.Params {
			if pt, ok := prm.Type().Underlying().(*types.Pointer); ok {
				if n, ok := pt.Elem().(*types.Named); ok && (n.Obj().Name() == "GarblerSession" || n.Obj().Name() == "EvaluatorSession") {
					state = prm
				}
			}
		}
		if state == nil {
			run.Undecided("session-immutable", "sha2pc."+name, p.Rel(fn.Pos()), "no session parameter")
			continue
		}
		run.Count("session-functions", 1)
		ws := flow.WritesThrough(fn, []ssa.Value{state}, func(f *ssa.Function) bool {
			return f.Pkg == nil || !load.InModule(f)
		}, nil)
		if len(ws) == 0 {
			run.OK("session-immutable", "sha2pc."+name, p.Rel(fn.Pos()), "")
		}
		for _, w := range ws {
			run.Violate("session-immutable", "sha2pc."+name+"/"+w.Fn.Name(), p.Rel(w.Pos), w.What, nil)
		}
	}
	run.Floor("session-functions", 4)
}
