package props

import (
	"fmt"
	"go/ast"
	"go/token"
	"go/types"

	"golang.org/x/tools/go/ssa"

	"mpcverif/internal/dispatch"
	"mpcverif/internal/flow"
	"mpcverif/internal/load"
	"mpcverif/internal/report"
)

// C18layout: fixed-offset decoding stays inside the checked length; sessions are not written by the round functions.
func C18layout(p *load.Program, run *report.Run) {
	run.Rule("fixed-layout", "DecodeRound3 first rejects any length other than round3PayloadLen; every data[lo:hi] it then takes has 0 <= lo <= hi <= that length, consecutive parts are adjacent, and the last part ends exactly at the length")
	run.Rule("session-immutable", "the round functions and the session encoders never store through the session state they are given")
	pkg := p.ByPath[load.Module+"/sha2pc"]
	_, fd := dispatch.FindFunc(p, "sha2pc", "", "DecodeRound3")
	if fd == nil || pkg == nil {
		run.Undecided("fixed-layout", "sha2pc.DecodeRound3", "", "function not found")
		return
	}
	key := "sha2pc.DecodeRound3"
	total := int64(-1)
	env := miniEnv{}
	var prevHi int64
	slices := 0
	bad := ""
	for idx, st := range effectiveQ(pkg.TypesInfo, fd.Body.List) {
		// the length guard must come first
		if idx == 0 {
			if ifs, ok := st.(*ast.IfStmt); ok {
				if be, ok := ifs.Cond.(*ast.BinaryExpr); ok && be.Op == token.NEQ && exprNorm(fd, be.X) == "len($0)" {
					m := &miniEval{pkg: pkg, env: env}
					if k, ok := m.intOf(be.Y); ok {
						if _, isRet := ifs.Body.List[len(ifs.Body.List)-1].(*ast.ReturnStmt); isRet {
							total = k
						}
					}
				}
			}
			if total < 0 {
				bad = "the function does not start by rejecting every length other than a constant"
				break
			}
			continue
		}
		// slices of data in this statement, under the environment before it
		ast.Inspect(st, func(n ast.Node) bool {
			sl, ok := n.(*ast.SliceExpr)
			if !ok || exprNorm(fd, sl.X) != "$0" || bad != "" {
				return true
			}
			m := &miniEval{pkg: pkg, env: env}
			lo, ok1 := int64(0), true
			if sl.Low != nil {
				lo, ok1 = m.intOf(sl.Low)
			}
			hi, ok2 := total, true
			if sl.High != nil {
				hi, ok2 = m.intOf(sl.High)
			}
			switch {
			case !ok1 || !ok2:
				bad = "slice bounds of " + types.ExprString(sl) + " are not constants of the layout: " + m.why
			case lo < 0 || lo > hi || hi > total:
				bad = fmt.Sprintf("%s = data[%d:%d] leaves the checked length %d", types.ExprString(sl), lo, hi, total)
			case lo != prevHi:
				bad = fmt.Sprintf("%s starts at %d, the previous part ended at %d", types.ExprString(sl), lo, prevHi)
			default:
				prevHi = hi
				slices++
			}
			return true
		})
		if bad != "" {
			break
		}
		// effect on the integer variables
		if as, ok := st.(*ast.AssignStmt); ok && len(as.Lhs) == 1 && len(as.Rhs) == 1 {
			if id, ok := as.Lhs[0].(*ast.Ident); ok {
				m := &miniEval{pkg: pkg, env: env}
				if tv, ok := pkg.TypesInfo.Types[as.Rhs[0]]; ok {
					if b, ok := tv.Type.Underlying().(*types.Basic); ok && b.Info()&types.IsInteger != 0 {
						v, ok := m.intOf(as.Rhs[0])
						if !ok {
							bad = "integer " + id.Name + " is not a constant of the layout"
							break
						}
						switch as.Tok {
						case token.ADD_ASSIGN:
							env[id.Name] += v
						case token.ASSIGN, token.DEFINE:
							env[id.Name] = v
						}
					}
				}
			}
		}
	}
	run.Count("layout-slices", slices)
	switch {
	case bad != "":
		run.Violate("fixed-layout", key, p.Rel(fd.Pos()), bad, nil)
	case prevHi != total:
		run.Violate("fixed-layout", key, p.Rel(fd.Pos()), fmt.Sprintf("the parts end at %d, the checked length is %d", prevHi, total), nil)
	default:
		run.OK("fixed-layout", key, p.Rel(fd.Pos()), fmt.Sprintf("%d adjacent parts cover exactly %d bytes", slices, total))
	}
	run.Floor("layout-slices", 7)

	// session immutability
	for _, name := range []string{"GarblerRound3", "EvaluatorRound4", "EncodeGarblerSession", "EncodeEvaluatorSession"} {
		fn, err := p.Func("sha2pc", name)
		if err != nil {
			run.Undecided("session-immutable", "sha2pc."+name, "", err.Error())
			continue
		}
		var state ssa.Value
		for _, prm := range fn.Params {
			if pt, ok := prm.Type().Underlying().(*types.Pointer); ok {
				if n, ok := pt.Elem().(*types.Named); ok && (n.Obj().Name() == "GarblerSession" || n.Obj().Name() == "EvaluatorSession") {
					state = prm
				}
			}
		}
		if state == nil {
			run.Undecided("session-immutable", "sha2pc."+name, p.Rel(fn.Pos()), "no session parameter")
			continue
		}
		run.Count("session-functions", 1)
		ws := flow.WritesThrough(fn, []ssa.Value{state}, func(f *ssa.Function) bool {
			return f.Pkg == nil || !load.InModule(f)
		}, nil)
		if len(ws) == 0 {
			run.OK("session-immutable", "sha2pc."+name, p.Rel(fn.Pos()), "")
		}
		for _, w := range ws {
			run.Violate("session-immutable", "sha2pc."+name+"/"+w.Fn.Name(), p.Rel(w.Pos), w.What, nil)
		}
	}
	run.Floor("session-functions", 4)
}
