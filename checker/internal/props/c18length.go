package props

import (
	"fmt"
	"go/types"
	"strings"

	"golang.org/x/tools/go/ssa"

	"mpcverif/internal/load"
	"mpcverif/internal/report"
)

// C18length: a length decoded as an unsigned varint is bounded as an unsigned
// number before it becomes an int or an allocation size.  int(length) of a
// 64-bit value with the top bit set is negative, passes every signed upper-bound
// test, and make([]byte, negative) panics: the decoder crashes on ten crafted
// bytes instead of returning an error.
func C18length(p *load.Program, run *report.Run) {
	run.Rule("decoded-length-unsigned-bound", "every use of a binary.ReadUvarint result as an allocation size or as the operand of a conversion to a signed integer is dominated by an unsigned comparison of that value with a constant bound (the failing edge leaving the function)")
	pkg, err := p.Pkg("sha2pc")
	if err != nil {
		run.Undecided("decoded-length-unsigned-bound", "sha2pc", "", err.Error())
		return
	}
	for _, m := range pkg.Members {
		fn, ok := m.(*ssa.Function)
		if !ok || fn.Blocks == nil || strings.HasSuffix(p.Fset.Position(fn.Pos()).Filename, "_test.go") {
			continue
		}
		for _, b := range fn.Blocks {
			for _, ins := range b.Instrs {
				call, ok := ins.(*ssa.Call)
				if !ok || call.Call.StaticCallee() == nil {
					continue
				}
				n := call.Call.StaticCallee().String()
				if n != "encoding/binary.ReadUvarint" && n != "encoding/binary.Uvarint" {
					continue
				}
				var length ssa.Value
				for _, ref := range *call.Referrers() {
					if ex, ok := ref.(*ssa.Extract); ok && ex.Index == 0 {
						length = ex
					}
				}
				if length == nil {
					continue
				}
				run.Count("uvarint-lengths", 1)
				key := "sha2pc." + fn.Name() + "/uvarint length"
				// guards: blocks whose dominated successor knows length <= K
				var safe []*ssa.BasicBlock
				for _, g := range fn.Blocks {
					iff, ok := g.Instrs[len(g.Instrs)-1].(*ssa.If)
					if !ok {
						continue
					}
					big, small, _, ok := ordCmpSSA(iff.Cond)
					if !ok {
						continue
					}
					// length > K (or >=) fails the bound: the false edge is safe; K > length: the true edge is
					if _, isConst := small.(*ssa.Const); isConst && big == length {
						safe = append(safe, g.Succs[1])
					} else if _, isConst := big.(*ssa.Const); isConst && small == length {
						safe = append(safe, g.Succs[0])
					}
				}
				guarded := func(at *ssa.BasicBlock) bool {
					for _, s := range safe {
						if len(s.Preds) == 1 && s.Dominates(at) {
							return true
						}
					}
					return false
				}
				bad := ""
				for _, ref := range *length.Referrers() {
					switch t := ref.(type) {
					case *ssa.Convert:
						if bt, ok := t.Type().Underlying().(*types.Basic); ok && bt.Info()&types.IsInteger != 0 && bt.Info()&types.IsUnsigned == 0 {
							if !guarded(t.Block()) {
								bad = fmt.Sprintf("converted to %s at %s before any unsigned bound", bt.Name(), p.Rel(t.Pos()))
							}
						}
					case *ssa.MakeSlice:
						if !guarded(t.Block()) {
							bad = "used as an allocation size at " + p.Rel(t.Pos()) + " before any unsigned bound"
						}
					}
				}
				if bad != "" {
					run.Violate("decoded-length-unsigned-bound", key, p.Rel(call.Pos()), "the decoded length is "+bad+": a length with the top bit set becomes negative, passes signed tests and panics in make", nil)
				} else {
					run.OK("decoded-length-unsigned-bound", key, p.Rel(call.Pos()), "bounded as an unsigned value first")
				}
			}
		}
	}
	run.Floor("uvarint-lengths", 1)
}
