package props

import (
	"fmt"
	"go/ast"
	"go/token"
	"go/types"

	"golang.org/x/tools/go/packages"

	"mpcverif/internal/load"
	"mpcverif/internal/report"
)

// C18limit: the decoder's chunk size limit admits everything the encoders write.
//
// readChunk rejects a chunk longer than chunkSizeLimit.  Session states are
// written as one chunk by writeChunk(buf, enc(...)); the encoders enc build
// their output from fixed-width big integers (byteLen bytes each, byteLen the
// curve's coordinate size) in loops whose trip count is pinned by a dominating
// `len(x) != K -> error` guard.  For each such encoder a lower bound
// a*byteLen + c of its output is derived from the source, evaluated at the
// largest supported curve (P-521: 66 bytes), and must not exceed the limit —
// otherwise the library cannot decode its own session state on that curve.
func C18limit(p *load.Program, run *report.Run) {
	run.Rule("chunk-limit-covers-encoders", "for every writeChunk(buf, e) whose argument is the output of an encoder of the package, the derived size a*byteLen + c of that output at byteLen = 66 (P-521) is at most chunkSizeLimit")
	pkg := p.ByPath[load.Module+"/sha2pc"]
	if pkg == nil {
		run.Undecided("chunk-limit-covers-encoders", "sha2pc", "", "package not loaded")
		return
	}
	limit, ok := pkgConst(pkg, "chunkSizeLimit")
	if !ok {
		run.Undecided("chunk-limit-covers-encoders", "sha2pc.chunkSizeLimit", "", "constant not found")
		return
	}
	info := pkg.TypesInfo
	decls := map[types.Object]*ast.FuncDecl{}
	for _, f := range pkg.Syntax {
		for _, d := range f.Decls {
			if fd, ok := d.(*ast.FuncDecl); ok && fd.Body != nil {
				decls[info.ObjectOf(fd.Name)] = fd
			}
		}
	}
	const maxByteLen = 66
	for _, f := range pkg.Syntax {
		for _, d := range f.Decls {
			fd, ok := d.(*ast.FuncDecl)
			if !ok || fd.Body == nil {
				continue
			}
			ast.Inspect(fd.Body, func(n ast.Node) bool {
				call, ok := n.(*ast.CallExpr)
				if !ok || len(call.Args) != 2 {
					return true
				}
				id, ok := call.Fun.(*ast.Ident)
				if !ok || id.Name != "writeChunk" {
					return true
				}
				// the argument: a variable assigned from enc(...) in this function
				arg, ok := ast.Unparen(call.Args[1]).(*ast.Ident)
				if !ok {
					return true
				}
				var enc *ast.FuncDecl
				ast.Inspect(fd.Body, func(m ast.Node) bool {
					as, ok := m.(*ast.AssignStmt)
					if !ok || len(as.Rhs) != 1 {
						return true
					}
					if l, ok := as.Lhs[0].(*ast.Ident); !ok || info.ObjectOf(l) != info.ObjectOf(arg) {
						return true
					}
					if c, ok := as.Rhs[0].(*ast.CallExpr); ok {
						if fid, ok := c.Fun.(*ast.Ident); ok {
							if e, ok := decls[info.ObjectOf(fid)]; ok {
								enc = e
							}
						}
					}
					return true
				})
				if enc == nil {
					return true
				}
				run.Count("chunked-encoders", 1)
				a, c, why := encodedSize(pkg, enc)
				key := fmt.Sprintf("sha2pc.%s/writeChunk(%s(...))", fd.Name.Name, enc.Name.Name)
				size := a*maxByteLen + c
				switch {
				case why != "":
					run.Undecided("chunk-limit-covers-encoders", key, p.Rel(call.Pos()), why)
				case size > limit:
					run.Violate("chunk-limit-covers-encoders", key, p.Rel(call.Pos()), fmt.Sprintf("%s writes at least %d*byteLen + %d bytes = %d on P-521, the decoder rejects chunks above %d: the encoded state cannot be decoded on that curve", enc.Name.Name, a, c, size, limit), nil)
				default:
					run.OK("chunk-limit-covers-encoders", key, p.Rel(call.Pos()), fmt.Sprintf(">= %d*byteLen + %d = %d bytes on P-521, limit %d", a, c, size, limit))
				}
				return true
			})
		}
	}
	run.Floor("chunked-encoders", 2)
}

// encodedSize: a lower bound a*byteLen + c of what the encoder appends to its buffer.
func encodedSize(pkg *packages.Package, enc *ast.FuncDecl) (a, c int64, why string) {
	info := pkg.TypesInfo
	// lengths pinned by `if len(x) != K { return ... }`
	pinned := map[string]int64{}
	ast.Inspect(enc.Body, func(n ast.Node) bool {
		ifs, ok := n.(*ast.IfStmt)
		if !ok {
			return true
		}
		be, ok := ifs.Cond.(*ast.BinaryExpr)
		if !ok || be.Op != token.NEQ {
			return true
		}
		call, ok := be.X.(*ast.CallExpr)
		if !ok || len(call.Args) != 1 {
			return true
		}
		if id, ok := call.Fun.(*ast.Ident); !ok || id.Name != "len" {
			return true
		}
		if k, ok := constOf(pkg, be.Y); ok && len(ifs.Body.List) > 0 {
			if _, isRet := ifs.Body.List[len(ifs.Body.List)-1].(*ast.ReturnStmt); isRet {
				pinned[types.ExprString(call.Args[0])] = k
			}
		}
		return true
	})
	var walk func(list []ast.Stmt, mult int64)
	walk = func(list []ast.Stmt, mult int64) {
		for _, st := range list {
			switch t := st.(type) {
			case *ast.ExprStmt:
				call, ok := t.X.(*ast.CallExpr)
				if !ok {
					continue
				}
				switch fn := call.Fun.(type) {
				case *ast.Ident:
					switch fn.Name {
					case "writeFixedBigInt":
						a += mult
					case "writeChunk":
						c += mult // at least the length prefix
					}
				case *ast.SelectorExpr:
					if fn.Sel.Name == "Write" && len(call.Args) == 1 {
						if k, ok := pinned[types.ExprString(call.Args[0])]; ok {
							c += mult * k
						} else if sl, ok := call.Args[0].(*ast.SliceExpr); ok && sl.Low == nil && sl.High == nil {
							if arr, ok := info.TypeOf(sl.X).Underlying().(*types.Array); ok {
								c += mult * arr.Len()
							}
						}
					}
				}
			case *ast.RangeStmt:
				if k, ok := pinned[types.ExprString(t.X)]; ok {
					walk(t.Body.List, mult*k)
				}
			case *ast.ForStmt:
				if be, ok := t.Cond.(*ast.BinaryExpr); ok && be.Op == token.LSS {
					if k, ok := constOf(pkg, be.Y); ok {
						walk(t.Body.List, mult*k)
					}
				}
			}
		}
	}
	walk(enc.Body.List, 1)
	if a == 0 && c == 0 {
		return 0, 0, "no buffer writes recognised in " + enc.Name.Name
	}
	return a, c, ""
}
