package props

import (
	"go/ast"
	"go/types"

	"fmt"
	"mpcverif/internal/dispatch"
	"sort"
	"strings"

	"golang.org/x/tools/go/ssa"

	"mpcverif/internal/load"
	"mpcverif/internal/report"
)

// C18points: a curve point that comes from outside is validated before curve arithmetic.
//
// crypto/elliptic panics when ScalarMult, Add or Double is given a point that
// is not on the curve.  The OT helpers behind the sha2pc rounds take their
// points from decoded messages and from session state that was serialised and
// read back (or belongs to another curve): every point operand that is a
// parameter, a field of a parameter or an element of a slice parameter must
// have been passed, as the same place, to ensureOnCurve / Curve.IsOnCurve in
// code that dominates the arithmetic.  Points that are results of curve
// operations are on the curve by construction.
func C18points(p *load.Program, run *report.Run) {
	run.Rule("points-validated-before-arithmetic", "in ot/co_helpers.go, each (x, y) operand of an elliptic.Curve ScalarMult/Add/Double that is a parameter, a field of a parameter or of an element of a slice parameter is passed as the same place to ensureOnCurve or Curve.IsOnCurve in a dominating block — for arithmetic inside a function literal, in the literal or in the enclosing function before the literal is created; results of curve operations need no check")
	pkg, err := p.Pkg("ot")
	if err != nil {
		run.Undecided("points-validated-before-arithmetic", "ot", "", err.Error())
		return
	}
	type outerVal struct{ px, py string }
	type unit struct {
		fn    *ssa.Function
		outer []outerVal
		name  string
	}
	var units []unit
	validationsOf := func(fn *ssa.Function) (out []struct {
		ins    ssa.Instruction
		px, py string
	}) {
		for _, b := range fn.Blocks {
			for _, ins := range b.Instrs {
				c, ok := ins.(ssa.CallInstruction)
				if !ok {
					continue
				}
				cc := c.Common()
				switch {
				case cc.StaticCallee() != nil && cc.StaticCallee().Name() == "ensureOnCurve" && len(cc.Args) == 3:
					out = append(out, struct {
						ins    ssa.Instruction
						px, py string
					}{ins, place(cc.Args[1], 0), place(cc.Args[2], 0)})
				case cc.IsInvoke() && cc.Method.Name() == "IsOnCurve" && len(cc.Args) == 2:
					out = append(out, struct {
						ins    ssa.Instruction
						px, py string
					}{ins, place(cc.Args[0], 0), place(cc.Args[1], 0)})
				}
			}
		}
		return
	}
	var addUnits func(fn *ssa.Function, outer []outerVal, name string)
	addUnits = func(fn *ssa.Function, outer []outerVal, name string) {
		units = append(units, unit{fn, outer, name})
		own := validationsOf(fn)
		for _, g := range fn.AnonFuncs {
			// what is validated before the closure is made holds inside it
			inner := append([]outerVal{}, outer...)
			for _, b := range fn.Blocks {
				for _, ins := range b.Instrs {
					mc, ok := ins.(*ssa.MakeClosure)
					if !ok || mc.Fn != ssa.Value(g) {
						continue
					}
					for _, v := range own {
						if (v.ins.Block() == b && instrIndex(v.ins) < instrIndex(ins)) || (v.ins.Block() != b && v.ins.Block().Dominates(b)) {
							inner = append(inner, outerVal{v.px, v.py})
						}
					}
				}
			}
			addUnits(g, inner, name)
		}
	}
	var members []*ssa.Function
	for _, m := range pkg.Members {
		fn, ok := m.(*ssa.Function)
		if !ok || fn.Blocks == nil || !strings.HasSuffix(p.Fset.Position(fn.Pos()).Filename, "co_helpers.go") {
			continue
		}
		members = append(members, fn)
	}
	sort.Slice(members, func(i, j int) bool { return members[i].Pos() < members[j].Pos() })
	for _, fn := range members {
		addUnits(fn, nil, "ot."+fn.Name())
	}
	perName := map[string]int{}
	badBy := map[string][]string{}
	var names []string
	for _, u := range units {
		fn := u.fn
		// validations
		type val struct {
			ins    ssa.Instruction
			px, py string
		}
		var vals []val
		for _, b := range fn.Blocks {
			for _, ins := range b.Instrs {
				c, ok := ins.(ssa.CallInstruction)
				if !ok {
					continue
				}
				cc := c.Common()
				switch {
				case cc.StaticCallee() != nil && cc.StaticCallee().Name() == "ensureOnCurve" && len(cc.Args) == 3:
					vals = append(vals, val{ins, place(cc.Args[1], 0), place(cc.Args[2], 0)})
				case cc.IsInvoke() && cc.Method.Name() == "IsOnCurve" && len(cc.Args) == 2:
					vals = append(vals, val{ins, place(cc.Args[0], 0), place(cc.Args[1], 0)})
				}
			}
		}
		ops := 0
		var bad []string
		for _, b := range fn.Blocks {
			for _, ins := range b.Instrs {
				c, ok := ins.(ssa.CallInstruction)
				if !ok || !c.Common().IsInvoke() {
					continue
				}
				cc := c.Common()
				var pairs [][2]ssa.Value
				switch cc.Method.Name() {
				case "ScalarMult", "Double":
					if len(cc.Args) >= 2 {
						pairs = append(pairs, [2]ssa.Value{cc.Args[0], cc.Args[1]})
					}
				case "Add":
					if len(cc.Args) == 4 {
						pairs = append(pairs, [2]ssa.Value{cc.Args[0], cc.Args[1]}, [2]ssa.Value{cc.Args[2], cc.Args[3]})
					}
				default:
					continue
				}
				if !strings.Contains(cc.Value.Type().String(), "elliptic.Curve") {
					continue
				}
				for _, pr := range pairs {
					px, py := place(pr[0], 0), place(pr[1], 0)
					if px == "curve-result" && py == "curve-result" {
						continue
					}
					ops++
					ok := false
					for _, ov := range u.outer {
						if ov.px == px && ov.py == py && px != "?" {
							ok = true
						}
					}
					for _, v := range vals {
						if v.px != px || v.py != py || px == "?" {
							continue
						}
						if v.ins.Block() == b {
							for _, x := range b.Instrs {
								if x == v.ins {
									ok = true
									break
								}
								if x == ins {
									break
								}
							}
						} else if v.ins.Block().Dominates(b) {
							ok = true
						}
					}
					if !ok {
						bad = append(bad, fmt.Sprintf("%s at %s is given the point (%s, %s) unchecked", cc.Method.Name(), p.Rel(ins.Pos()), px, py))
					}
				}
			}
		}
		if ops == 0 {
			continue
		}
		if _, seen := perName[u.name]; !seen {
			names = append(names, u.name)
		}
		perName[u.name] += ops
		badBy[u.name] = append(badBy[u.name], bad...)
	}
	for _, name := range names {
		run.Count("external-point-operands", perName[name])
		if len(badBy[name]) > 0 {
			run.Violate("points-validated-before-arithmetic", name, "", "a point taken from a message or from restored session state reaches curve arithmetic without an on-curve check: crypto/elliptic panics on a damaged or foreign-curve point instead of the round returning an error", badBy[name])
		} else {
			run.OK("points-validated-before-arithmetic", name, "", fmt.Sprintf("%d external operand(s) validated", perName[name]))
		}
	}
	run.Floor("external-point-operands", 4)
	c18validator(p, run)
}

// c18validator: the validator itself rejects what crypto/elliptic rejects.
//
// Every other rule trusts ensureOnCurve.  crypto/elliptic's IsOnCurve refuses coordinates outside [0, p);
// a validator that evaluates the curve equation itself (to avoid the deprecated call) accepts x+p for every
// x it accepts — the congruence is the same — and the arithmetic that follows panics on it.  The validator
// must call Curve.IsOnCurve on its operands, or test both coordinates for Sign() < 0 and Cmp(P) >= 0 in
// conditions whose branch returns the error.
func c18validator(p *load.Program, run *report.Run) {
	const rule = "point-validator-checks-range"
	run.Rule(rule, "ot.ensureOnCurve returns nil only after Curve.IsOnCurve(x, y) on its parameters, or after tests of x.Sign(), y.Sign(), x.Cmp(…P) and y.Cmp(…P) in conditions of if statements that return an error")
	pkg, fd := dispatch.FindFunc(p, "ot", "", "ensureOnCurve")
	if fd == nil {
		run.Undecided(rule, "ot.ensureOnCurve", "", "function not found")
		return
	}
	var coords []string
	for _, f := range fd.Type.Params.List {
		if strings.HasSuffix(types.ExprString(f.Type), "big.Int") {
			for _, n := range f.Names {
				coords = append(coords, n.Name)
			}
		}
	}
	isOn := false
	tests := map[string]bool{}
	ast.Inspect(fd.Body, func(n ast.Node) bool {
		ifs, ok := n.(*ast.IfStmt)
		if !ok {
			return true
		}
		returnsErr := false
		for _, st := range ifs.Body.List {
			if r, ok := st.(*ast.ReturnStmt); ok && len(r.Results) > 0 {
				if id, ok := r.Results[len(r.Results)-1].(*ast.Ident); !ok || id.Name != "nil" {
					returnsErr = true
				}
			}
		}
		if !returnsErr {
			return true
		}
		ast.Inspect(ifs.Cond, func(m ast.Node) bool {
			c, ok := m.(*ast.CallExpr)
			if !ok {
				return true
			}
			sel, ok := c.Fun.(*ast.SelectorExpr)
			if !ok {
				return true
			}
			switch sel.Sel.Name {
			case "IsOnCurve":
				if len(c.Args) == 2 && len(coords) == 2 && types.ExprString(c.Args[0]) == coords[0] && types.ExprString(c.Args[1]) == coords[1] {
					isOn = true
				}
			case "Sign":
				tests[types.ExprString(sel.X)+".Sign"] = true
			case "Cmp":
				if len(c.Args) == 1 && strings.HasSuffix(types.ExprString(c.Args[0]), ".P") {
					tests[types.ExprString(sel.X)+".Cmp"] = true
				}
			}
			return true
		})
		return true
	})
	_ = pkg
	run.Count("validator-functions", 1)
	switch {
	case isOn:
		run.OK(rule, "ot.ensureOnCurve", p.Rel(fd.Pos()), "Curve.IsOnCurve on the parameters")
	case len(coords) == 2 && tests[coords[0]+".Sign"] && tests[coords[1]+".Sign"] && tests[coords[0]+".Cmp"] && tests[coords[1]+".Cmp"]:
		run.OK(rule, "ot.ensureOnCurve", p.Rel(fd.Pos()), "explicit range tests of both coordinates")
	default:
		run.Violate(rule, "ot.ensureOnCurve", p.Rel(fd.Pos()), "the validator neither calls Curve.IsOnCurve on its parameters nor tests both coordinates against 0 and the field prime: a coordinate v+p satisfies the curve equation and is accepted, crypto/elliptic then panics on it", nil)
	}
	run.Floor("validator-functions", 1)
}

// place names where a value comes from: a parameter, fields and elements of it, or a curve result.
func place(v ssa.Value, depth int) string {
	if depth > 10 {
		return "?"
	}
	switch t := v.(type) {
	case *ssa.Parameter:
		return "p:" + t.Name()
	case *ssa.FreeVar:
		// a captured variable is the variable of the enclosing function: its place is that of the binding
		g := t.Parent()
		if g == nil || g.Parent() == nil {
			return "?"
		}
		idx := -1
		for i, fv := range g.FreeVars {
			if fv == t {
				idx = i
			}
		}
		for _, b := range g.Parent().Blocks {
			for _, ins := range b.Instrs {
				if mc, ok := ins.(*ssa.MakeClosure); ok && mc.Fn == ssa.Value(g) && idx >= 0 && idx < len(mc.Bindings) {
					return place(mc.Bindings[idx], depth+1)
				}
			}
		}
		return "?"
	case *ssa.Extract:
		if c, ok := t.Tuple.(*ssa.Call); ok && c.Call.IsInvoke() && strings.Contains(c.Call.Value.Type().String(), "elliptic.Curve") {
			return "curve-result"
		}
		return "?"
	case *ssa.UnOp:
		return place(t.X, depth+1)
	case *ssa.FieldAddr:
		return place(t.X, depth+1) + "." + structFieldName(t.X.Type(), t.Field)
	case *ssa.Field:
		return place(t.X, depth+1) + "." + structFieldName(t.X.Type(), t.Field)
	case *ssa.IndexAddr:
		return place(t.X, depth+1) + "[]"
	case *ssa.Index:
		return place(t.X, depth+1) + "[]"
	case *ssa.Alloc:
		// a spilled parameter or a copy of an element
		var src string
		for _, r := range *t.Referrers() {
			if st, ok := r.(*ssa.Store); ok && st.Addr == ssa.Value(t) {
				s := place(st.Val, depth+1)
				if src != "" && src != s {
					return "?"
				}
				src = s
			}
		}
		if src == "" {
			return "?"
		}
		return src
	case *ssa.Phi:
		var src string
		for _, e := range t.Edges {
			s := place(e, depth+1)
			if src != "" && src != s {
				return "?"
			}
			src = s
		}
		return src
	}
	return "?"
}

var _ = load.Module
