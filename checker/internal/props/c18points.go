package props

import (
	"fmt"
	"strings"

	"golang.org/x/tools/go/ssa"

	"mpcverif/internal/load"
	"mpcverif/internal/report"
)

// C18points: a curve point that comes from outside is validated before curve arithmetic.
//
// crypto/elliptic panics when ScalarMult, Add or Double is given a point that
// is not on the curve.  The OT helpers behind the sha2pc rounds take their
// points from decoded messages and from session state that was serialised and
// read back (or belongs to another curve): every point operand that is a
// parameter, a field of a parameter or an element of a slice parameter must
// have been passed, as the same place, to ensureOnCurve / Curve.IsOnCurve in
// code that dominates the arithmetic.  Points that are results of curve
// operations are on the curve by construction.
func C18points(p *load.Program, run *report.Run) {
	run.Rule("points-validated-before-arithmetic", "in ot/co_helpers.go, each (x, y) operand of an elliptic.Curve ScalarMult/Add/Double that is a parameter, a field of a parameter or of an element of a slice parameter is passed as the same place to ensureOnCurve or Curve.IsOnCurve in a dominating block; results of curve operations need no check")
	pkg, err := p.Pkg("ot")
	if err != nil {
		run.Undecided("points-validated-before-arithmetic", "ot", "", err.Error())
		return
	}
	for _, m := range pkg.Members {
		fn, ok := m.(*ssa.Function)
		if !ok || fn.Blocks == nil || !strings.HasSuffix(p.Fset.Position(fn.Pos()).Filename, "co_helpers.go") {
			continue
		}
		// validations
		type val struct {
			ins    ssa.Instruction
			px, py string
		}
		var vals []val
		for _, b := range fn.Blocks {
			for _, ins := range b.Instrs {
				c, ok := ins.(ssa.CallInstruction)
				if !ok {
					continue
				}
				cc := c.Common()
				switch {
				case cc.StaticCallee() != nil && cc.StaticCallee().Name() == "ensureOnCurve" && len(cc.Args) == 3:
					vals = append(vals, val{ins, place(cc.Args[1], 0), place(cc.Args[2], 0)})
				case cc.IsInvoke() && cc.Method.Name() == "IsOnCurve" && len(cc.Args) == 2:
					vals = append(vals, val{ins, place(cc.Args[0], 0), place(cc.Args[1], 0)})
				}
			}
		}
		ops := 0
		var bad []string
		for _, b := range fn.Blocks {
			for _, ins := range b.Instrs {
				c, ok := ins.(ssa.CallInstruction)
				if !ok || !c.Common().IsInvoke() {
					continue
				}
				cc := c.Common()
				var pairs [][2]ssa.Value
				switch cc.Method.Name() {
				case "ScalarMult", "Double":
					if len(cc.Args) >= 2 {
						pairs = append(pairs, [2]ssa.Value{cc.Args[0], cc.Args[1]})
					}
				case "Add":
					if len(cc.Args) == 4 {
						pairs = append(pairs, [2]ssa.Value{cc.Args[0], cc.Args[1]}, [2]ssa.Value{cc.Args[2], cc.Args[3]})
					}
				default:
					continue
				}
				if !strings.Contains(cc.Value.Type().String(), "elliptic.Curve") {
					continue
				}
				for _, pr := range pairs {
					px, py := place(pr[0], 0), place(pr[1], 0)
					if px == "curve-result" && py == "curve-result" {
						continue
					}
					ops++
					ok := false
					for _, v := range vals {
						if v.px != px || v.py != py || px == "?" {
							continue
						}
						if v.ins.Block() == b {
							for _, x := range b.Instrs {
								if x == v.ins {
									ok = true
									break
								}
								if x == ins {
									break
								}
							}
						} else if v.ins.Block().Dominates(b) {
							ok = true
						}
					}
					if !ok {
						bad = append(bad, fmt.Sprintf("%s at %s is given the point (%s, %s) unchecked", cc.Method.Name(), p.Rel(ins.Pos()), px, py))
					}
				}
			}
		}
		if ops == 0 {
			continue
		}
		run.Count("external-point-operands", ops)
		name := "ot." + fn.Name()
		if len(bad) > 0 {
			run.Violate("points-validated-before-arithmetic", name, p.Rel(fn.Pos()), "a point taken from a message or from restored session state reaches curve arithmetic without an on-curve check: crypto/elliptic panics on a damaged or foreign-curve point instead of the round returning an error", bad)
		} else {
			run.OK("points-validated-before-arithmetic", name, p.Rel(fn.Pos()), fmt.Sprintf("%d external operand(s) validated", ops))
		}
	}
	run.Floor("external-point-operands", 4)
}

// place names where a value comes from: a parameter, fields and elements of it, or a curve result.
func place(v ssa.Value, depth int) string {
	if depth > 10 {
		return "?"
	}
	switch t := v.(type) {
	case *ssa.Parameter:
		return "p:" + t.Name()
	case *ssa.Extract:
		if c, ok := t.Tuple.(*ssa.Call); ok && c.Call.IsInvoke() && strings.Contains(c.Call.Value.Type().String(), "elliptic.Curve") {
			return "curve-result"
		}
		return "?"
	case *ssa.UnOp:
		return place(t.X, depth+1)
	case *ssa.FieldAddr:
		return place(t.X, depth+1) + "." + structFieldName(t.X.Type(), t.Field)
	case *ssa.Field:
		return place(t.X, depth+1) + "." + structFieldName(t.X.Type(), t.Field)
	case *ssa.IndexAddr:
		return place(t.X, depth+1) + "[]"
	case *ssa.Index:
		return place(t.X, depth+1) + "[]"
	case *ssa.Alloc:
		// a spilled parameter or a copy of an element
		var src string
		for _, r := range *t.Referrers() {
			if st, ok := r.(*ssa.Store); ok && st.Addr == ssa.Value(t) {
				s := place(st.Val, depth+1)
				if src != "" && src != s {
					return "?"
				}
				src = s
			}
		}
		if src == "" {
			return "?"
		}
		return src
	case *ssa.Phi:
		var src string
		for _, e := range t.Edges {
			s := place(e, depth+1)
			if src != "" && src != s {
				return "?"
			}
			src = s
		}
		return src
	}
	return "?"
}

var _ = load.Module
