package props

import (
	"fmt"
	"go/ast"

	"mpcverif/internal/dispatch"
	"mpcverif/internal/load"
	"mpcverif/internal/report"
)

// C18rows: the table sizes the fixed round-3 layout is computed from are the rows the garbler produces.
func C18rows(p *load.Program, run *report.Run) {
	run.Rule("sha2pc-row-count", "sha2pc.gateCiphertextCount returns, for every gate operation, the number of rows Gate.garbleInto produces for it (derived by E1); the fixed-size encoding of the garbled tables is computed from this table")
	pkg := p.ByPath[load.Module+"/sha2pc"]
	_, fd := dispatch.FindFunc(p, "sha2pc", "", "gateCiphertextCount")
	garbleInto, err := p.Method("circuit", "Gate", "garbleInto")
	if pkg == nil || fd == nil || err != nil {
		run.Undecided("sha2pc-row-count", "sha2pc.gateCiphertextCount", "", "anchor not found")
		return
	}
	whole := garbleForms(p, run, garbleInto, "O3-garble-invariant")
	table := map[string]int64{}
	ast.Inspect(fd.Body, func(n ast.Node) bool {
		cc, ok := n.(*ast.CaseClause)
		if !ok {
			return true
		}
		for _, st := range cc.Body {
			if r, ok := st.(*ast.ReturnStmt); ok && len(r.Results) == 2 {
				if k, ok := constOf(pkg, r.Results[0]); ok {
					for _, c := range caseNames(cc) {
						table[c] = k
					}
				}
			}
		}
		return true
	})
	for op := 0; op < 5; op++ {
		max := -1
		for pa := 0; pa < 2; pa++ {
			for pb := 0; pb < 2; pb++ {
				if gf := whole[[3]int{op, pa, pb}]; gf != nil && len(gf.Rows) > max {
					max = len(gf.Rows)
				}
			}
		}
		key := "sha2pc.gateCiphertextCount/" + opNames[op]
		run.Count("row-count-ops", 1)
		got, has := table[opNames[op]]
		switch {
		case max < 0:
			run.Undecided("sha2pc-row-count", key, p.Rel(fd.Pos()), "rows of garbleInto not derived")
		case !has:
			run.Violate("sha2pc-row-count", key, p.Rel(fd.Pos()), "operation missing from the table", nil)
		case got != int64(max):
			run.Violate("sha2pc-row-count", key, p.Rel(fd.Pos()), fmt.Sprintf("the table says %d rows, garbleInto produces %d", got, max), nil)
		default:
			run.OK("sha2pc-row-count", key, p.Rel(fd.Pos()), fmt.Sprintf("%d rows", max))
		}
	}
	run.Floor("row-count-ops", 5)
}
