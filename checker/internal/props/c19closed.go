package props

import (
	"fmt"
	"sort"
	"strings"

	"golang.org/x/tools/go/ssa"

	"mpcverif/internal/load"
	"mpcverif/internal/report"
)

// C19closed: a constructor does not hand out an object it has closed.
//
// Join, Create and the connection helpers close what they built when a step fails.  The close belongs to
// the failure exit: if it can also be followed by a success return of the same object (a clean-up left
// inside a retry loop whose later iteration succeeds), the caller gets a Network whose listener is already
// closed — the party registers with the leader, appears in everybody's table, and refuses every
// connection.  For every call x.Close() in package p2p, no return of x with a nil error is reachable from it.
func C19closed(p *load.Program, run *report.Run) {
	const rule = "closed-object-not-returned"
	run.Rule(rule, "in package p2p, from a call x.Close() no return statement that returns x together with a nil error is reachable in the function's control-flow graph")
	var fns []*ssa.Function
	for _, fn := range p.AllFunctions() {
		if fn.Pkg == nil || fn.Pkg.Pkg.Path() != load.Module+"/p2p" || fn.Blocks == nil || strings.HasSuffix(p.Fset.Position(fn.Pos()).Filename, "_test.go") {
			continue
		}
		fns = append(fns, fn)
	}
	sort.Slice(fns, func(i, j int) bool { return fns[i].Pos() < fns[j].Pos() })
	sites := 0
	for _, fn := range fns {
		for _, b := range fn.Blocks {
			for i, ins := range b.Instrs {
				c, ok := ins.(ssa.CallInstruction)
				if !ok {
					continue
				}
				var obj ssa.Value
				if callee := c.Common().StaticCallee(); callee != nil && callee.Name() == "Close" && callee.Signature.Recv() != nil && len(c.Common().Args) > 0 && load.InModule(callee) {
					obj = c.Common().Args[0]
				}
				if obj == nil {
					continue
				}
				sites++
				key := strings.ReplaceAll(fn.RelString(nil), load.Module+"/", "") + "/Close"
				bad := ""
				seen := map[*ssa.BasicBlock]bool{}
				var walk func(x *ssa.BasicBlock, from int)
				walk = func(x *ssa.BasicBlock, from int) {
					for k := from; k < len(x.Instrs) && bad == ""; k++ {
						r, ok := x.Instrs[k].(*ssa.Return)
						if !ok {
							continue
						}
						rs := load.Results(r)
						if len(rs) < 2 {
							continue
						}
						last := rs[len(rs)-1]
						if cst, ok := last.(*ssa.Const); !ok || !cst.IsNil() || last.Type().String() != "error" {
							continue
						}
						for _, v := range rs[:len(rs)-1] {
							if v == obj {
								bad = p.Rel(r.Pos())
							}
						}
					}
					for _, s := range x.Succs {
						if !seen[s] {
							seen[s] = true
							walk(s, 0)
						}
					}
				}
				walk(b, i+1)
				if bad != "" {
					run.Violate(rule, key, p.Rel(ins.Pos()), fmt.Sprintf("after this Close the function can still reach the success return at %s, which hands out the closed object (a clean-up inside a retry loop, or before the give-up test)", bad), nil)
				} else {
					run.OK(rule, key, p.Rel(ins.Pos()), "only failure exits follow")
				}
			}
		}
	}
	run.Count("close-calls", sites)
	run.Floor("close-calls", 3)
}
