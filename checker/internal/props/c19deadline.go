package props

import (
	"fmt"
	"sort"
	"strings"

	"golang.org/x/tools/go/ssa"

	"mpcverif/internal/load"
	"mpcverif/internal/report"
)

// Deadlines: a loop that retries on a timeout arms the deadline it retries on.
//
// net deadlines are absolute points in time.  A loop that treats a Timeout() error of its blocking call
// as "nothing yet, try again" only polls if each iteration sets a fresh deadline; with the deadline set
// once in front of the loop every call after it has passed fails at once, the loop spins without ever
// blocking in Accept/Read again, and a party that dials later than the poll interval is never accepted —
// connection setup then depends on the start timing.  For every call of a Timeout() method inside a loop
// of the packages: a call to a method named Set…Deadline lies in the same loop (directly or in a module
// function called from it).  The module has no polling loop today; the rule carries built-in examples.
func Deadlines(pkgs ...string) func(p *load.Program, run *report.Run) {
	return func(p *load.Program, run *report.Run) {
		const rule = "retry-loop-rearms-deadline"
		run.Rule(rule, "in "+strings.Join(pkgs, ", ")+": every loop that contains a call of a Timeout() method (the retry test of a polling loop) also contains, directly or in a module function called from the loop, a call to a Set*Deadline method; with built-in examples")
		want := map[string]bool{}
		for _, rel := range pkgs {
			want[load.Module+"/"+rel] = true
		}
		var fns []*ssa.Function
		for _, fn := range p.AllFunctions() {
			if fn.Pkg == nil || !want[fn.Pkg.Pkg.Path()] || fn.Blocks == nil || strings.HasSuffix(p.Fset.Position(fn.Pos()).Filename, "_test.go") {
				continue
			}
			fns = append(fns, fn)
		}
		sort.Slice(fns, func(i, j int) bool { return fns[i].Pos() < fns[j].Pos() })
		loops, calls := 0, 0
		for _, fn := range fns {
			c, bad := deadlineLoops(fn, &loops)
			calls += c
			for _, b := range bad {
				key := strings.ReplaceAll(fn.RelString(nil), load.Module+"/", "") + "/retry loop"
				run.Violate(rule, key, p.Rel(b.Pos()), "this loop retries when its blocking call reports a timeout but no iteration sets a deadline: a deadline armed once before the loop is an absolute time, after which every call fails immediately and the loop never blocks in the call again — peers arriving later are never served", nil)
			}
		}
		run.Count("functions-scanned", len(fns))
		run.Count("timeout-retry-loops", loops)
		if loops > 0 {
			run.OK(rule, "retry loops", "", fmt.Sprintf("%d polling loops examined", loops))
		}
		look, err := buildExample(deadlineExample)
		if err != nil {
			run.Undecided(rule, "built-in example", "", err.Error())
			return
		}
		n := 0
		_, b1 := deadlineLoops(look("armedOnce"), &n)
		_, b2 := deadlineLoops(look("armedEach"), &n)
		_, b3 := deadlineLoops(look("armedInHelper"), &n)
		if len(b1) != 1 || len(b2) != 0 || len(b3) != 0 || n != 3 {
			run.Undecided(rule, "built-in example", "", fmt.Sprintf("the rule misclassifies its built-in examples (%d %d %d, %d loops)", len(b1), len(b2), len(b3), n))
			return
		}
		run.Count("deadline-examples", 3)
		run.OK(rule, "built-in examples", "", "deadline armed once before the loop reported; armed per iteration, also through a helper, accepted")
		run.Floor("deadline-examples", 3)
		run.Floor("functions-scanned", 20)
	}
}

func deadlineLoops(fn *ssa.Function, loops *int) (int, []ssa.Instruction) {
	if fn == nil {
		return 0, nil
	}
	isNamed := func(c ssa.CallInstruction, test func(string) bool) bool {
		cc := c.Common()
		if cc.IsInvoke() {
			return test(cc.Method.Name())
		}
		if callee := cc.StaticCallee(); callee != nil {
			return test(callee.Name())
		}
		return false
	}
	isDeadline := func(n string) bool { return strings.HasPrefix(n, "Set") && strings.HasSuffix(n, "Deadline") }
	var arms func(g *ssa.Function, depth int) bool
	arms = func(g *ssa.Function, depth int) bool {
		if g == nil || g.Blocks == nil || depth > 2 {
			return false
		}
		for _, b := range g.Blocks {
			for _, ins := range b.Instrs {
				if c, ok := ins.(ssa.CallInstruction); ok {
					if isNamed(c, isDeadline) {
						return true
					}
					if callee := c.Common().StaticCallee(); callee != nil && load.InModuleOrExample(callee) && arms(callee, depth+1) {
						return true
					}
				}
			}
		}
		return false
	}
	calls := 0
	var bad []ssa.Instruction
	seenLoop := map[*ssa.BasicBlock]bool{}
	for _, b := range fn.Blocks {
		for _, ins := range b.Instrs {
			c, ok := ins.(ssa.CallInstruction)
			if !ok || !isNamed(c, func(n string) bool { return n == "Timeout" }) {
				continue
			}
			calls++
			if !blockReaches(b, b) {
				continue // not in a loop
			}
			// the loop: blocks on a cycle through b
			var body []*ssa.BasicBlock
			for _, x := range fn.Blocks {
				if (x == b) || (blockReaches(b, x) && blockReaches(x, b)) {
					body = append(body, x)
				}
			}
			if seenLoop[body[0]] {
				continue
			}
			seenLoop[body[0]] = true
			*loops++
			armed := false
			for _, x := range body {
				for _, i2 := range x.Instrs {
					if c2, ok := i2.(ssa.CallInstruction); ok {
						if isNamed(c2, isDeadline) {
							armed = true
						} else if callee := c2.Common().StaticCallee(); callee != nil && load.InModuleOrExample(callee) && arms(callee, 1) {
							armed = true
						}
					}
				}
			}
			if !armed {
				bad = append(bad, ins)
			}
		}
	}
	return calls, bad
}

const deadlineExample = `package example

type stamp int64

func now() stamp { return 0 }

type timeoutError interface {
	error
	Timeout() bool
}

type listener struct{ closed bool }

func (l *listener) SetDeadline(t stamp) error { return nil }
func (l *listener) Accept() (int, error)          { return 0, nil }
func (l *listener) arm() error                    { return l.SetDeadline(now() + 1000) }

func armedOnce(l *listener) (int, error) {
	if err := l.SetDeadline(now() + 1000); err != nil {
		return 0, err
	}
	for {
		c, err := l.Accept()
		if err != nil {
			if ne, ok := err.(timeoutError); ok && ne.Timeout() && !l.closed {
				continue
			}
			return 0, err
		}
		return c, nil
	}
}

func armedEach(l *listener) (int, error) {
	for {
		if err := l.SetDeadline(now() + 1000); err != nil {
			return 0, err
		}
		c, err := l.Accept()
		if err != nil {
			if ne, ok := err.(timeoutError); ok && ne.Timeout() && !l.closed {
				continue
			}
			return 0, err
		}
		return c, nil
	}
}

func armedInHelper(l *listener) (int, error) {
	for {
		if err := l.arm(); err != nil {
			return 0, err
		}
		c, err := l.Accept()
		if err != nil {
			if ne, ok := err.(timeoutError); ok && ne.Timeout() && !l.closed {
				continue
			}
			return 0, err
		}
		return c, nil
	}
}
`
