package props

import (
	"fmt"
	"go/ast"
	"go/constant"
	"go/token"
	"go/types"
	"strings"

	"golang.org/x/tools/go/packages"
	"golang.org/x/tools/go/ssa"

	"mpcverif/internal/dispatch"
	"mpcverif/internal/load"
	"mpcverif/internal/proto"
	"mpcverif/internal/report"
)

// miniEnv maps expression text to a small integer; the ids are only ever compared, so a few values cover every ordering.
type miniEnv map[string]int64

// ren19 maps the spellings of role-bearing locals of package p2p to the
// canonical names the rules below are written in; set while C19mesh runs.
var ren19 map[string]string

func x19(e ast.Expr) string { return renameTokens(ren19, cx(e)) }

type miniEval struct {
	pkg *packages.Package
	env miniEnv
	why string
}

func (m *miniEval) intOf(e ast.Expr) (int64, bool) {
	e = ast.Unparen(e)
	if v, ok := m.env[x19(e)]; ok {
		return v, true
	}
	if tv, ok := m.pkg.TypesInfo.Types[e]; ok && tv.Value != nil && tv.Value.Kind() == constant.Int {
		k, _ := constant.Int64Val(tv.Value)
		return k, true
	}
	switch t := e.(type) {
	case *ast.BinaryExpr:
		x, ok1 := m.intOf(t.X)
		y, ok2 := m.intOf(t.Y)
		if ok1 && ok2 {
			switch t.Op {
			case token.ADD:
				return x + y, true
			case token.SUB:
				return x - y, true
			case token.AND:
				return x & y, true
			case token.OR:
				return x | y, true
			}
		}
	case *ast.CallExpr:
		// conversions int(byte(x))
		if len(t.Args) == 1 {
			if tv, ok := m.pkg.TypesInfo.Types[t.Fun]; ok && tv.IsType() {
				x, ok := m.intOf(t.Args[0])
				if !ok {
					return 0, false
				}
				if b, ok := tv.Type.Underlying().(*types.Basic); ok {
					switch b.Kind() {
					case types.Uint8:
						return x & 0xff, true
					case types.Uint16:
						return x & 0xffff, true
					case types.Uint32:
						return x & 0xffffffff, true
					case types.Int, types.Int64, types.Uint64, types.Uint:
						return x, true
					}
				}
			}
		}
	}
	m.why = "cannot evaluate " + x19(e)
	return 0, false
}

func (m *miniEval) boolOf(e ast.Expr) (bool, bool) {
	e = ast.Unparen(e)
	switch t := e.(type) {
	case *ast.UnaryExpr:
		if t.Op == token.NOT {
			v, ok := m.boolOf(t.X)
			return !v, ok
		}
	case *ast.BinaryExpr:
		switch t.Op {
		case token.LAND, token.LOR:
			x, ok1 := m.boolOf(t.X)
			if !ok1 {
				return false, false
			}
			if (t.Op == token.LAND && !x) || (t.Op == token.LOR && x) {
				return x, true
			}
			return m.boolOf(t.Y)
		case token.EQL, token.NEQ, token.LSS, token.LEQ, token.GTR, token.GEQ:
			// err != nil on the success path
			if id, ok := t.Y.(*ast.Ident); ok && id.Name == "nil" {
				if tv, ok := m.pkg.TypesInfo.Types[t.X]; ok && types.Identical(tv.Type, types.Universe.Lookup("error").Type()) {
					return t.Op == token.EQL, true
				}
			}
			x, ok1 := m.intOf(t.X)
			y, ok2 := m.intOf(t.Y)
			if !ok1 || !ok2 {
				return false, false
			}
			switch t.Op {
			case token.EQL:
				return x == y, true
			case token.NEQ:
				return x != y, true
			case token.LSS:
				return x < y, true
			case token.LEQ:
				return x <= y, true
			case token.GTR:
				return x > y, true
			default:
				return x >= y, true
			}
		}
	}
	m.why = "cannot evaluate condition " + x19(e)
	return false, false
}

// outcome of running a statement list: reaches the target, skips the iteration (continue), leaves (return/break), or falls through.
type miniOutcome int

const (
	fallThrough miniOutcome = iota
	reached
	skipped
	left
	unknown
)

// run interprets stmts until target (a predicate on statements) is reached.
func (m *miniEval) run(stmts []ast.Stmt, target func(ast.Stmt) bool) miniOutcome {
	for _, s := range stmts {
		if target(s) {
			return reached
		}
		switch t := s.(type) {
		case *ast.IfStmt:
			if t.Init != nil {
				if target(t.Init) {
					return reached
				}
			}
			c, ok := m.boolOf(t.Cond)
			if !ok {
				return unknown
			}
			var o miniOutcome
			if c {
				o = m.run(t.Body.List, target)
			} else if t.Else != nil {
				switch e := t.Else.(type) {
				case *ast.BlockStmt:
					o = m.run(e.List, target)
				case *ast.IfStmt:
					o = m.run([]ast.Stmt{e}, target)
				}
			}
			if o != fallThrough {
				return o
			}
		case *ast.BranchStmt:
			if t.Tok == token.CONTINUE {
				return skipped
			}
			return left
		case *ast.ReturnStmt:
			return left
		case *ast.BlockStmt:
			if o := m.run(t.List, target); o != fallThrough {
				return o
			}
		default:
			// assignments and calls that are not the target do not influence the id comparisons
		}
	}
	return fallThrough
}

func containsCall(n ast.Node, name string) bool {
	found := false
	ast.Inspect(n, func(x ast.Node) bool {
		if c, ok := x.(*ast.CallExpr); ok {
			switch f := c.Fun.(type) {
			case *ast.SelectorExpr:
				if f.Sel.Name == name {
					found = true
				}
			case *ast.Ident:
				if f.Name == name {
					found = true
				}
			}
		}
		return !found
	})
	return found
}

// loopWith finds the innermost for/range statement of fd whose body (directly, not in a nested loop) satisfies has.
func loopWith(fd *ast.FuncDecl, has func(ast.Stmt) bool) (body *ast.BlockStmt, rng *ast.RangeStmt) {
	ast.Inspect(fd.Body, func(n ast.Node) bool {
		var b *ast.BlockStmt
		var r *ast.RangeStmt
		switch t := n.(type) {
		case *ast.RangeStmt:
			b, r = t.Body, t
		case *ast.ForStmt:
			b = t.Body
		default:
			return true
		}
		ok := false
		var visit func(stmts []ast.Stmt)
		visit = func(stmts []ast.Stmt) {
			for _, s := range stmts {
				switch t := s.(type) {
				case *ast.RangeStmt, *ast.ForStmt:
					continue
				case *ast.IfStmt:
					if has(s) {
						ok = true
					}
					visit(t.Body.List)
					if e, isB := t.Else.(*ast.BlockStmt); isB {
						visit(e.List)
					}
				default:
					if has(s) {
						ok = true
					}
				}
			}
		}
		visit(b.List)
		if ok {
			body, rng = b, r
		}
		return true
	})
	return
}

// C19mesh: dial/accept duality over the finite orderings, hello codec, lock discipline.
func C19mesh(p *load.Program, run *report.Run) {
	run.Rule("dial-accept-converse", "for every ordered pair of distinct parties and every connection id exactly one side dials, and the side that is dialled counts that accept (evaluated over all orderings of the ids, which the code only compares)")
	run.Rule("leader-roster", "the roster the leader sends a peer excludes exactly the leader and that peer, and its announced length is the number of entries sent")
	run.Rule("hello-codec", "connMagic|(connID&0xff) is decoded by magic&connMagicMask==connMagic and int(byte(magic)) for every id the dial guard admits")
	run.Rule("lock-discipline", "every Lock is released on all exits; need, listenerDone, listenerError, peersByID and Peers are written only with nw.m held; the decrement of need is followed by Broadcast under the same lock; Cond.Wait runs in a loop with the lock held")
	pkg, fdPeer := dispatch.FindFunc(p, "p2p", "Network", "connectPeer")
	_, fdP2L := dispatch.FindFunc(p, "p2p", "Network", "connectPeerToLeader")
	_, fdLead := dispatch.FindFunc(p, "p2p", "Network", "connectLeader")
	_, fdConnect := dispatch.FindFunc(p, "p2p", "Network", "Connect")
	_, fdDial := dispatch.FindFunc(p, "p2p", "Network", "dial")
	_, fdAccept := dispatch.FindFunc(p, "p2p", "Network", "acceptConn")
	for n, fd := range map[string]*ast.FuncDecl{"connectPeer": fdPeer, "connectPeerToLeader": fdP2L, "connectLeader": fdLead, "Connect": fdConnect, "dial": fdDial, "acceptConn": fdAccept} {
		if fd == nil {
			run.Undecided("anchor", "p2p.Network."+n, "", "function not found")
			return
		}
	}
	// roles -> canonical names
	ren19 = map[string]string{}
	defer func() { ren19 = nil }()
	conflict := ""
	bind := func(name, canon string) {
		if name == canon || name == "_" {
			return
		}
		if old, ok := ren19[name]; ok && old != canon {
			conflict = fmt.Sprintf("%s is both %s and %s", name, old, canon)
		}
		ren19[name] = canon
	}
	for _, fd := range []*ast.FuncDecl{fdPeer, fdP2L, fdLead, fdConnect, fdDial, fdAccept} {
		recv := ""
		if fd.Recv != nil && len(fd.Recv.List[0].Names) == 1 {
			recv = fd.Recv.List[0].Names[0].Name
			bind(recv, "nw")
		}
		// the connection id: the int parameter
		for _, f := range fd.Type.Params.List {
			if id, ok := f.Type.(*ast.Ident); ok && id.Name == "int" && len(f.Names) == 1 {
				bind(f.Names[0].Name, "connID")
			}
		}
		magicVar := ""
		ast.Inspect(fd.Body, func(n ast.Node) bool {
			as, ok := n.(*ast.AssignStmt)
			if !ok || len(as.Lhs) == 0 || len(as.Rhs) != 1 {
				return true
			}
			lhs, isId := as.Lhs[0].(*ast.Ident)
			if !isId {
				return true
			}
			rhs := types.ExprString(as.Rhs[0])
			switch {
			case rhs == recv+".Self":
				bind(lhs.Name, "self")
			case fd == fdDial && strings.Contains(rhs, "connMagic"):
				bind(lhs.Name, "magic")
			case fd == fdAccept && magicVar == "" && containsCall(as, "ReceiveUint32"):
				magicVar = lhs.Name
				bind(lhs.Name, "magic")
			case fd == fdAccept && magicVar != "" && as.Tok == token.DEFINE && len(as.Lhs) == 1 && renameTokens(map[string]string{magicVar: "\x00"}, rhs) != rhs && namedType(pkg.TypesInfo, lhs) == "" && pkg.TypesInfo.TypeOf(as.Rhs[0]).String() == "int":
				bind(lhs.Name, "connID")
			}
			if namedType(pkg.TypesInfo, lhs) == "Conn" && (fd == fdDial || fd == fdAccept) {
				bind(lhs.Name, "conn")
			}
			return true
		})
	}
	if conflict != "" {
		run.Undecided("anchor", "p2p.Network/roles", "", conflict)
		return
	}
	isDial := func(s ast.Stmt) bool {
		switch s.(type) {
		case *ast.IfStmt, *ast.BlockStmt:
			return false
		}
		return containsCall(s, "dial")
	}
	dialBody, dialRange := loopWith(fdPeer, isDial)
	isCount := func(s ast.Stmt) bool {
		inc, ok := s.(*ast.IncDecStmt)
		return ok && inc.Tok == token.INC
	}
	countBody, _ := loopWith(fdP2L, isCount)
	if dialBody == nil || dialRange == nil || countBody == nil {
		run.Undecided("dial-accept-converse", "p2p.Network.connectPeer", p.Rel(fdPeer.Pos()), "dial loop or accept-count loop not found")
		return
	}
	peerVar := x19(dialRange.Value)
	var countVar string
	ast.Inspect(countBody, func(n ast.Node) bool {
		if inc, ok := n.(*ast.IncDecStmt); ok {
			countVar = x19(inc.X)
		}
		return true
	})
	// the variable holding the announced id in the count loop: first result of the first ReceiveUint32
	idVar := ""
	for _, s := range countBody.List {
		if as, ok := s.(*ast.AssignStmt); ok && idVar == "" && containsCall(as, "ReceiveUint32") {
			idVar = x19(as.Lhs[0])
		}
	}
	dials := func(self, peer, conn int64) (bool, string) {
		m := &miniEval{pkg: pkg, env: miniEnv{"self.ID": self, "nw.Self.ID": self, peerVar + ".ID": peer, "connID": conn}}
		switch m.run(dialBody.List, isDial) {
		case reached:
			return true, ""
		case skipped, fallThrough:
			return false, ""
		}
		return false, "dial loop: " + m.why
	}
	counts := func(self, id int64) (bool, string) {
		// the leader is party 0 (the dial cells above take it as such)
		m := &miniEval{pkg: pkg, env: miniEnv{"self.ID": self, "nw.Self.ID": self, "leader.ID": int64(0), idVar: id}}
		switch m.run(countBody.List, isCount) {
		case reached:
			return true, ""
		case skipped, fallThrough:
			return false, ""
		}
		return false, "accept-count loop: " + m.why
	}
	cells := 0
	for _, conn := range []int64{0, 1, 2} {
		for x := int64(1); x <= 3; x++ {
			// x is a non-leader party; towards the leader
			d, why := dials(x, 0, conn)
			key := fmt.Sprintf("p2p.Network.connectPeer/self=%d,peer=0,conn=%d", x, conn)
			cells++
			switch {
			case why != "":
				run.Undecided("dial-accept-converse", key, p.Rel(dialBody.Pos()), why)
			case d != (conn != 0):
				run.Violate("dial-accept-converse", key, p.Rel(dialBody.Pos()), fmt.Sprintf("dials the leader: %v; the leader expects one connection per party and id, and Join already opened id 0", d), nil)
			default:
				run.OK("dial-accept-converse", key, p.Rel(dialBody.Pos()), "")
			}
			// towards itself
			if d, why := dials(x, x, conn); why == "" && d {
				run.Violate("dial-accept-converse", fmt.Sprintf("p2p.Network.connectPeer/self=peer=%d,conn=%d", x, conn), p.Rel(dialBody.Pos()), "a party dials itself", nil)
			}
			for y := int64(1); y <= 3; y++ {
				if x == y {
					continue
				}
				dxy, w1 := dials(x, y, conn)
				dyx, w2 := dials(y, x, conn)
				cyx, w3 := counts(y, x)
				key := fmt.Sprintf("p2p.Network.connectPeer/x=%d,y=%d,conn=%d", x, y, conn)
				cells++
				switch {
				case w1+w2+w3 != "":
					run.Undecided("dial-accept-converse", key, p.Rel(dialBody.Pos()), w1+w2+w3)
				case dxy == dyx:
					run.Violate("dial-accept-converse", key, p.Rel(dialBody.Pos()), fmt.Sprintf("x dials y: %v, y dials x: %v — not exactly one", dxy, dyx), nil)
				case dxy != cyx:
					run.Violate("dial-accept-converse", key, p.Rel(countBody.Pos()), fmt.Sprintf("x dials y: %v but y counts an accept from x: %v", dxy, cyx), nil)
				default:
					run.OK("dial-accept-converse", key, p.Rel(dialBody.Pos()), "")
				}
			}
		}
	}
	run.Count("ordering-cells", cells)
	run.Floor("ordering-cells", 27)
	_ = countVar
	// the count is stored into every need[i]
	stored := false
	ast.Inspect(fdP2L.Body, func(n ast.Node) bool {
		if as, ok := n.(*ast.AssignStmt); ok && len(as.Lhs) == 1 && strings.HasPrefix(x19(as.Lhs[0]), "nw.need[") && x19(as.Rhs[0]) == countVar {
			stored = true
		}
		return true
	})
	if stored {
		run.OK("dial-accept-converse", "p2p.Network.connectPeerToLeader/need", p.Rel(fdP2L.Pos()), "need[i] = "+countVar)
	} else {
		run.Violate("dial-accept-converse", "p2p.Network.connectPeerToLeader/need", p.Rel(fdP2L.Pos()), "the accept count is not what need[] is set to", nil)
	}
	// leader: need[i] = NumParties-1 and never dials
	leaderNeed := false
	ast.Inspect(fdConnect.Body, func(n ast.Node) bool {
		if as, ok := n.(*ast.AssignStmt); ok && len(as.Lhs) == 1 && strings.HasPrefix(x19(as.Lhs[0]), "nw.need[") {
			m := &miniEval{pkg: pkg, env: miniEnv{"nw.NumParties": 5}}
			if v, ok := m.intOf(as.Rhs[0]); ok && v == 4 {
				leaderNeed = true
			}
		}
		return true
	})
	if leaderNeed {
		run.OK("dial-accept-converse", "p2p.Network.Connect/leader-need", p.Rel(fdConnect.Pos()), "NumParties-1 per connection id")
	} else {
		run.Violate("dial-accept-converse", "p2p.Network.Connect/leader-need", p.Rel(fdConnect.Pos()), "the leader does not expect NumParties-1 connections per id", nil)
	}
	if containsCall(fdLead.Body, "dial") {
		run.Violate("dial-accept-converse", "p2p.Network.connectLeader/no-dial", p.Rel(fdLead.Pos()), "the leader dials although every peer dials the leader", nil)
	} else {
		run.OK("dial-accept-converse", "p2p.Network.connectLeader/no-dial", p.Rel(fdLead.Pos()), "")
	}

	// roster
	isSendID := func(s ast.Stmt) bool {
		switch s.(type) {
		case *ast.IfStmt, *ast.BlockStmt:
			return false
		}
		return containsCall(s, "SendUint32")
	}
	var inner *ast.RangeStmt
	var outer *ast.RangeStmt
	ast.Inspect(fdLead.Body, func(n ast.Node) bool {
		if r, ok := n.(*ast.RangeStmt); ok {
			if outer == nil {
				outer = r
			} else if inner == nil {
				inner = r
			}
		}
		return true
	})
	if inner == nil || outer == nil {
		run.Undecided("leader-roster", "p2p.Network.connectLeader", p.Rel(fdLead.Pos()), "roster loops not found")
	} else {
		ov, iv := x19(outer.Value), x19(inner.Value)
		var lenExpr ast.Expr
		for _, s := range outer.Body.List {
			if as, ok := s.(*ast.AssignStmt); ok && containsCall(as, "SendUint32") && lenExpr == nil {
				ast.Inspect(as, func(n ast.Node) bool {
					if c, ok := n.(*ast.CallExpr); ok {
						if sel, ok := c.Fun.(*ast.SelectorExpr); ok && sel.Sel.Name == "SendUint32" {
							lenExpr = c.Args[0]
						}
					}
					return true
				})
			}
		}
		okAll := lenExpr != nil
		for n := int64(2); n <= int64(bound(4, 7)) && okAll; n++ {
			for peer := int64(1); peer < n; peer++ {
				sent := int64(0)
				for i := int64(0); i < n; i++ {
					m := &miniEval{pkg: pkg, env: miniEnv{"nw.Self.ID": 0, ov + ".ID": peer, iv + ".ID": i}}
					o := m.run(inner.Body.List, isSendID)
					if o == unknown {
						run.Undecided("leader-roster", "p2p.Network.connectLeader/roster", p.Rel(inner.Pos()), m.why)
						okAll = false
					}
					if o == reached {
						if i == 0 || i == peer {
							// an entry for the leader or for the addressee is harmless if the addressee passes it over
							// before it does anything with it (counts it, registers it)
							passedOver := false
							if idVar != "" {
								rm := &miniEval{pkg: pkg, env: miniEnv{"self.ID": peer, "nw.Self.ID": peer, "leader.ID": int64(0), idVar: i}}
								first := func(s ast.Stmt) bool {
									switch s.(type) {
									case *ast.IfStmt, *ast.BlockStmt:
										return false
									}
									return isCount(s) || containsCall(s, "addPeer")
								}
								if out := rm.run(countBody.List, first); out == skipped || out == fallThrough {
									passedOver = true
								}
							}
							if !passedOver {
								run.Violate("leader-roster", fmt.Sprintf("p2p.Network.connectLeader/roster/peer=%d,entry=%d", peer, i), p.Rel(inner.Pos()), "the roster sent to a peer contains the leader or the peer itself, and the peer does not pass that entry over", nil)
								okAll = false
							}
						}
						sent++
					}
				}
				m := &miniEval{pkg: pkg, env: miniEnv{"len(nw.Peers)": n}}
				if ann, ok := m.intOf(lenExpr); !ok || ann != sent {
					run.Violate("leader-roster", fmt.Sprintf("p2p.Network.connectLeader/roster/parties=%d,peer=%d", n, peer), p.Rel(inner.Pos()), fmt.Sprintf("announces %d entries, sends %d", ann, sent), nil)
					okAll = false
				}
				run.Count("roster-cells", 1)
			}
		}
		if okAll {
			run.OK("leader-roster", "p2p.Network.connectLeader/roster", p.Rel(inner.Pos()), "announced length = entries sent; leader and addressee excluded, or passed over by the addressee")
		}
		run.Floor("roster-cells", 6)
	}

	// hello codec
	var encode, decode, check ast.Expr
	var guard ast.Expr
	ast.Inspect(fdDial.Body, func(n ast.Node) bool {
		switch t := n.(type) {
		case *ast.AssignStmt:
			if len(t.Lhs) == 1 && len(t.Rhs) == 1 && strings.Contains(x19(t.Rhs[0]), "connMagic") {
				encode = t.Rhs[0]
			}
		case *ast.IfStmt:
			if guard == nil && strings.Contains(x19(t.Cond), "connID") {
				guard = t.Cond
			}
		}
		return true
	})
	ast.Inspect(fdAccept.Body, func(n ast.Node) bool {
		switch t := n.(type) {
		case *ast.AssignStmt:
			if len(t.Lhs) == 1 && x19(t.Lhs[0]) == "connID" {
				decode = t.Rhs[0]
			}
		case *ast.IfStmt:
			if check == nil && strings.Contains(x19(t.Cond), "magic") {
				check = t.Cond
			}
		}
		return true
	})
	if encode == nil || decode == nil || check == nil || guard == nil {
		run.Undecided("hello-codec", "p2p.Network.dial/acceptConn", p.Rel(fdDial.Pos()), "hello encode/decode expressions not found")
	} else {
		bad := ""
		admitted := 0
		for id := int64(0); id < 1024 && bad == ""; id++ {
			m := &miniEval{pkg: pkg, env: miniEnv{"connID": id}}
			rej, ok := m.boolOf(guard)
			if !ok {
				bad = m.why
				break
			}
			if rej {
				continue
			}
			admitted++
			mg, ok := m.intOf(encode)
			if !ok {
				bad = m.why
				break
			}
			d := &miniEval{pkg: pkg, env: miniEnv{"magic": mg}}
			rejected, ok1 := d.boolOf(check)
			back, ok2 := d.intOf(decode)
			switch {
			case !ok1 || !ok2:
				bad = d.why
			case rejected:
				bad = fmt.Sprintf("connID %d: the acceptor rejects the magic %#x the dialler sends", id, mg)
			case back != id:
				bad = fmt.Sprintf("connID %d is decoded as %d", id, back)
			}
		}
		run.Count("hello-ids", admitted)
		if bad != "" {
			run.Violate("hello-codec", "p2p.Network.dial/acceptConn", p.Rel(fdDial.Pos()), bad, nil)
		} else {
			run.OK("hello-codec", "p2p.Network.dial/acceptConn", p.Rel(fdDial.Pos()), fmt.Sprintf("%d admitted ids round-trip", admitted))
		}
		run.Floor("hello-ids", 2)
	}
	// hello field order: magic and id are both Uint32
	run.Rule("hello-field-order", "the dialler sends magic, own id, own address in the order in which the acceptor reads them; the acceptor checks the first value as the magic and uses the second as the peer id (both are Uint32, so duality cannot tell)")
	magicVar := ""
	ast.Inspect(fdDial.Body, func(n ast.Node) bool {
		if as, ok := n.(*ast.AssignStmt); ok && len(as.Lhs) == 1 && len(as.Rhs) == 1 && as.Rhs[0] == encode {
			magicVar = x19(as.Lhs[0])
		}
		return true
	})
	var sentArgs []string
	ast.Inspect(fdDial.Body, func(n ast.Node) bool {
		if c, ok := n.(*ast.CallExpr); ok {
			if sel, ok := c.Fun.(*ast.SelectorExpr); ok && strings.HasPrefix(sel.Sel.Name, "Send") && len(c.Args) == 1 && x19(sel.X) == "conn" {
				sentArgs = append(sentArgs, x19(c.Args[0]))
			}
		}
		return true
	})
	var recvVars []string
	ast.Inspect(fdAccept.Body, func(n ast.Node) bool {
		if as, ok := n.(*ast.AssignStmt); ok && len(as.Rhs) == 1 {
			if c, ok := as.Rhs[0].(*ast.CallExpr); ok {
				if sel, ok := c.Fun.(*ast.SelectorExpr); ok && strings.HasPrefix(sel.Sel.Name, "Receive") {
					recvVars = append(recvVars, x19(as.Lhs[0]))
				}
				// a helper of the package that reads one length-prefixed field off the connection
				if id, ok := c.Fun.(*ast.Ident); ok {
					if pk := p.ByPath[load.Module+"/p2p"]; pk != nil {
						if fo, ok := pk.TypesInfo.Uses[id].(*types.Func); ok {
							if sf := p.SSA.FuncValue(fo); sf != nil && proto.LengthPrefixedReader(sf) {
								recvVars = append(recvVars, x19(as.Lhs[0]))
							}
						}
					}
				}
			}
		}
		return true
	})
	idUse, addrUse := "", ""
	ast.Inspect(fdAccept.Body, func(n ast.Node) bool {
		if cl, ok := n.(*ast.CompositeLit); ok && strings.HasSuffix(x19(cl.Type), "Peer") {
			for _, e := range cl.Elts {
				if kv, ok := e.(*ast.KeyValueExpr); ok {
					switch x19(kv.Key) {
					case "ID":
						idUse = x19(kv.Value)
					case "Addr":
						addrUse = x19(kv.Value)
					}
				}
			}
		}
		return true
	})
	magicChecked := ""
	if check != nil {
		ast.Inspect(check, func(n ast.Node) bool {
			if id, ok := n.(*ast.Ident); ok && magicChecked == "" {
				for _, v := range recvVars {
					if v == renameTokens(ren19, id.Name) {
						magicChecked = v
					}
				}
			}
			return true
		})
	}
	switch {
	case len(sentArgs) != 3 || len(recvVars) != 3:
		run.Undecided("hello-field-order", "p2p.Network.dial/acceptConn/fields", p.Rel(fdDial.Pos()), fmt.Sprintf("hello is %v on one side and %v on the other", sentArgs, recvVars))
	case sentArgs[0] != magicVar || !strings.HasSuffix(sentArgs[1], ".ID") || !strings.HasSuffix(sentArgs[2], ".Addr"):
		run.Violate("hello-field-order", "p2p.Network.dial/fields", p.Rel(fdDial.Pos()), fmt.Sprintf("the dialler sends %v, the acceptor reads magic, id, address", sentArgs), nil)
	case magicChecked != recvVars[0] || idUse != recvVars[1] || addrUse != recvVars[2]:
		run.Violate("hello-field-order", "p2p.Network.acceptConn/fields", p.Rel(fdAccept.Pos()), fmt.Sprintf("read as %v; checked as magic: %s, used as id: %s, as address: %s", recvVars, magicChecked, idUse, addrUse), nil)
	default:
		run.OK("hello-field-order", "p2p.Network.dial/acceptConn/fields", p.Rel(fdDial.Pos()), "magic, id, address")
	}
	c19Locks(p, run)
}

// lock typestate ---------------------------------------------------------------

type lockState struct {
	held     bool // nw.m held on every path to here
	deferred bool // a deferred Unlock is registered on every path to here
}

func mutexCall(ins ssa.Instruction) (op string, deferred bool) {
	var cc *ssa.CallCommon
	switch t := ins.(type) {
	case *ssa.Call:
		cc = &t.Call
	case *ssa.Defer:
		cc, deferred = &t.Call, true
	default:
		return "", false
	}
	f := cc.StaticCallee()
	if f == nil {
		return "", false
	}
	switch f.String() {
	case "(*sync.Mutex).Lock":
		return "Lock", deferred
	case "(*sync.Mutex).Unlock":
		return "Unlock", deferred
	case "(*sync.Cond).Wait":
		return "Wait", deferred
	case "(*sync.Cond).Broadcast", "(*sync.Cond).Signal":
		return "Broadcast", deferred
	}
	return "", false
}

func c19Locks(p *load.Program, run *report.Run) {
	pkg, err := p.Pkg("p2p")
	if err != nil {
		run.Undecided("lock-discipline", "p2p", "", err.Error())
		return
	}
	protected := map[string]bool{"need": true, "listenerDone": true, "listenerError": true, "peersByID": true, "Peers": true}
	var fns []*ssa.Function
	for _, m := range pkg.Members {
		switch t := m.(type) {
		case *ssa.Function:
			fns = append(fns, t)
		case *ssa.Type:
			ms := p.SSA.MethodSets.MethodSet(types.NewPointer(t.Type()))
			for i := 0; i < ms.Len(); i++ {
				if f := p.SSA.MethodValue(ms.At(i)); f != nil && f.Blocks != nil && f.Pkg == pkg {
					fns = append(fns, f)
				}
			}
		}
	}
	lockWakers = wakersIn(fns)
	netField := func(v ssa.Value) string {
		// address (or loaded slice/map) of a Network field
		for {
			switch t := v.(type) {
			case *ssa.IndexAddr:
				v = t.X
				continue
			case *ssa.UnOp:
				v = t.X
				continue
			case *ssa.FieldAddr:
				if pt, ok := t.X.Type().Underlying().(*types.Pointer); ok {
					if n, ok := pt.Elem().(*types.Named); ok && n.Obj().Name() == "Network" {
						return n.Underlying().(*types.Struct).Field(t.Field).Name()
					}
				}
			}
			return ""
		}
	}
	for _, fn := range fns {
		// anonymous functions inside are analysed with the enclosing function's lock state unknown (not held)
		all := append([]*ssa.Function{fn}, fn.AnonFuncs...)
		for _, f := range all {
			if len(f.Blocks) == 0 {
				continue
			}
			in := map[*ssa.BasicBlock]lockState{}
			seen := map[*ssa.BasicBlock]bool{}
			// a closure passed to sort.Slice under the lock runs with it held: inherit when the only caller site is inside a held region
			start := lockState{}
			if f != fn {
				start = closureStart(fn, f)
			}
			work := []*ssa.BasicBlock{f.Blocks[0]}
			in[f.Blocks[0]] = start
			seen[f.Blocks[0]] = true
			sites := 0
			for len(work) > 0 {
				b := work[0]
				work = work[1:]
				st := in[b]
				for i, ins := range b.Instrs {
					op, def := mutexCall(ins)
					key := fmt.Sprintf("p2p.%s/%s", shortFn(f), op)
					switch {
					case op == "Lock" && !def:
						sites++
						st.held = true
					case op == "Unlock" && def:
						st.deferred = true
					case op == "Unlock":
						st.held = false
					case op == "" && isChanWait(ins):
						// waiting on a notify channel: in a re-checking loop, and without the mutex (a waker that
						// takes the mutex before it posts would never get it)
						inLoop := blockInCycle(b)
						if st.held || !inLoop {
							run.Violate("lock-discipline", fmt.Sprintf("p2p.%s/Wait", shortFn(f)), p.Rel(ins.Pos()), fmt.Sprintf("channel wait with lock held=%v, inside a re-checking loop=%v", st.held, inLoop), nil)
						} else {
							run.OK("lock-discipline", fmt.Sprintf("p2p.%s/Wait", shortFn(f)), p.Rel(ins.Pos()), "channel wait in a re-checking loop, mutex released")
						}
						run.Count("cond-waits", 1)
					case op == "Wait":
						inLoop := blockInCycle(b)
						if !st.held || !inLoop {
							run.Violate("lock-discipline", key, p.Rel(ins.Pos()), fmt.Sprintf("Cond.Wait with lock held=%v, inside a re-checking loop=%v", st.held, inLoop), nil)
						} else {
							run.OK("lock-discipline", key, p.Rel(ins.Pos()), "Wait in loop under lock")
						}
						run.Count("cond-waits", 1)
					}
					var addr ssa.Value
					switch t := ins.(type) {
					case *ssa.Store:
						addr = t.Addr
					case *ssa.MapUpdate:
						addr = t.Map
					}
					if addr != nil {
						if fld := netField(addr); protected[fld] && f.Name() != "newNetwork" {
							run.Count("protected-writes", 1)
							k := fmt.Sprintf("p2p.%s/write:%s", shortFn(f), fld)
							if !st.held {
								run.Violate("lock-discipline", k, p.Rel(ins.Pos()), "written without nw.m held on every path", nil)
							} else {
								run.OK("lock-discipline", k, p.Rel(ins.Pos()), "")
							}
							if fld == "need" {
								if bo, ok := ins.(*ssa.Store).Val.(*ssa.BinOp); ok && bo.Op == token.SUB && netField(bo.X) == "need" {
									// decrement: the waiters are woken before the function returns
									okB := mustPassBefore(b, i+1, func(x ssa.Instruction) bool { return isWakeInstr(x, lockWakers) },
										func(x ssa.Instruction) bool { return false })
									if okB {
										run.OK("lock-discipline", k+"/broadcast", p.Rel(ins.Pos()), "decrement followed by a wake-up on every path")
									} else {
										run.Violate("lock-discipline", k+"/broadcast", p.Rel(ins.Pos()), "waiters are not woken after need is decremented", nil)
									}
								}
							}
						}
					}
					if _, ok := ins.(*ssa.Return); ok && st.held && !st.deferred {
						run.Violate("lock-discipline", fmt.Sprintf("p2p.%s/exit", shortFn(f)), p.Rel(ins.Pos()), "returns with the mutex held", nil)
					}
				}
				for _, s := range b.Succs {
					if !seen[s] {
						seen[s] = true
						in[s] = st
						work = append(work, s)
					} else {
						old := in[s]
						n := lockState{held: old.held && st.held, deferred: old.deferred && st.deferred}
						if n != old {
							in[s] = n
							work = append(work, s)
						}
					}
				}
			}
			if sites > 0 {
				run.Count("lock-sites", sites)
				run.OK("lock-discipline", fmt.Sprintf("p2p.%s/exit", shortFn(f)), p.Rel(f.Pos()), fmt.Sprintf("%d Lock sites released on every exit", sites))
			}
		}
	}
	run.Floor("lock-sites", 8)
	run.Floor("protected-writes", 6)
	run.Floor("cond-waits", 1)
}

// closureStart: a closure created and only passed to a call while the lock is held starts with it held (sort.Slice comparator).
func closureStart(outer, f *ssa.Function) lockState {
	for _, b := range outer.Blocks {
		held := false
		// cheap: within the block, Lock or deferred-Unlock region before the MakeClosure
		for _, ins := range b.Instrs {
			if op, def := mutexCall(ins); op == "Lock" && !def {
				held = true
			} else if op == "Unlock" && !def {
				held = false
			}
			if mc, ok := ins.(*ssa.MakeClosure); ok && mc.Fn == f {
				_ = held
			}
		}
	}
	return lockState{}
}

func blockInCycle(b *ssa.BasicBlock) bool {
	seen := map[*ssa.BasicBlock]bool{}
	var walk func(x *ssa.BasicBlock) bool
	walk = func(x *ssa.BasicBlock) bool {
		for _, s := range x.Succs {
			if s == b {
				return true
			}
			if !seen[s] {
				seen[s] = true
				if walk(s) {
					return true
				}
			}
		}
		return false
	}
	return walk(b)
}

// mustPassBefore: on every path from (b,from) an instruction satisfying want occurs before one satisfying stop or a return.
func mustPassBefore(b *ssa.BasicBlock, from int, want, stop func(ssa.Instruction) bool) bool {
	seen := map[*ssa.BasicBlock]bool{}
	var walk func(x *ssa.BasicBlock, i int) bool
	walk = func(x *ssa.BasicBlock, i int) bool {
		for ; i < len(x.Instrs); i++ {
			if want(x.Instrs[i]) {
				return true
			}
			if stop(x.Instrs[i]) {
				return false
			}
			if _, ok := x.Instrs[i].(*ssa.Return); ok {
				return false
			}
		}
		for _, s := range x.Succs {
			if seen[s] {
				continue
			}
			seen[s] = true
			if !walk(s, 0) {
				return false
			}
		}
		return true
	}
	return walk(b, from)
}

func shortFn(f *ssa.Function) string {
	return strings.NewReplacer("(*"+load.Module+"/p2p.", "", ")", "", load.Module+"/p2p.", "").Replace(f.String())
}

// isChanWait: a receive from a channel kept in a field of the network.
func isChanWait(ins ssa.Instruction) bool {
	switch t := ins.(type) {
	case *ssa.UnOp:
		return t.Op == token.ARROW && strings.HasPrefix(signalKey(t.X), "p2p.Network.")
	case *ssa.Select:
		for _, st := range t.States {
			if st.Dir == types.RecvOnly && strings.HasPrefix(signalKey(st.Chan), "p2p.Network.") {
				return true
			}
		}
	}
	return false
}

var lockWakers map[*ssa.Function]bool
