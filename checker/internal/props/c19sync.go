package props

import (
	"fmt"
	"go/token"
	"go/types"
	"sort"
	"strings"

	"golang.org/x/tools/go/ssa"

	"mpcverif/internal/load"
	"mpcverif/internal/report"
)

// A wait/wake pair is a sync.Cond held in a struct field, or a channel held in one: waiting is Cond.Wait or
// a receive from the channel, waking is Broadcast/Signal or a send on / close of the channel.  The rules of
// the mesh setup speak about waits and wake-ups, not about which of the two carries them.
type syncOp struct {
	kind string // wait | wake
	key  string // Type.field of the condition variable or channel ("" if not a field)
	ins  ssa.Instruction
	// nonBlockingSend: a wake by `select { case ch <- v: default: }`
	nonBlockingSend bool
}

// signalKey: the field key of a condition variable, or of a channel that carries no data (chan struct{}):
// channels with a payload are queues, their sends and receives are not wake-ups and waits.
func signalKey(v ssa.Value) string {
	if ch, ok := v.Type().Underlying().(*types.Chan); ok {
		if st, ok := ch.Elem().Underlying().(*types.Struct); !ok || st.NumFields() != 0 {
			return ""
		}
	}
	return condKey(v)
}

func syncOpsOf(fn *ssa.Function) []syncOp {
	var out []syncOp
	for _, b := range fn.Blocks {
		for _, ins := range b.Instrs {
			switch t := ins.(type) {
			case ssa.CallInstruction:
				callee := t.Common().StaticCallee()
				if callee != nil && callee.Pkg != nil && callee.Pkg.Pkg.Path() == "sync" && callee.Signature.Recv() != nil && strings.HasSuffix(callee.Signature.Recv().Type().String(), "sync.Cond") && len(t.Common().Args) > 0 {
					switch callee.Name() {
					case "Wait":
						out = append(out, syncOp{kind: "wait", key: signalKey(t.Common().Args[0]), ins: ins})
					case "Broadcast", "Signal":
						out = append(out, syncOp{kind: "wake", key: signalKey(t.Common().Args[0]), ins: ins})
					}
				}
				if bi, ok := t.Common().Value.(*ssa.Builtin); ok && bi.Name() == "close" && len(t.Common().Args) == 1 {
					if k := signalKey(t.Common().Args[0]); k != "" {
						out = append(out, syncOp{kind: "wake", key: k, ins: ins})
					}
				}
			case *ssa.UnOp:
				if t.Op == token.ARROW {
					if k := signalKey(t.X); k != "" {
						out = append(out, syncOp{kind: "wait", key: k, ins: ins})
					}
				}
			case *ssa.Send:
				if k := signalKey(t.Chan); k != "" {
					out = append(out, syncOp{kind: "wake", key: k, ins: ins})
				}
			case *ssa.Select:
				// a select that also serves a data channel is not a wait for the signal alone
				mixed := false
				for _, st := range t.States {
					if signalKey(st.Chan) == "" {
						mixed = true // a data channel is served (received from or sent to) by the same select
					}
				}
				for _, st := range t.States {
					k := signalKey(st.Chan)
					if k == "" || (mixed && st.Dir == types.RecvOnly) {
						continue
					}
					if st.Dir == types.SendOnly {
						out = append(out, syncOp{kind: "wake", key: k, ins: ins, nonBlockingSend: !t.Blocking})
					} else {
						out = append(out, syncOp{kind: "wait", key: k, ins: ins})
					}
				}
			}
		}
	}
	return out
}

// wakersIn: the functions of fns that wake, directly or through functions of fns they call (two levels).
func wakersIn(fns []*ssa.Function) map[*ssa.Function]bool {
	direct := map[*ssa.Function]bool{}
	for _, fn := range fns {
		for _, op := range syncOpsOf(fn) {
			if op.kind == "wake" {
				direct[fn] = true
			}
		}
	}
	out := map[*ssa.Function]bool{}
	for f := range direct {
		out[f] = true
	}
	for round := 0; round < 2; round++ {
		for _, fn := range fns {
			if out[fn] {
				continue
			}
			for _, b := range fn.Blocks {
				for _, ins := range b.Instrs {
					if c, ok := ins.(*ssa.Call); ok {
						if callee := c.Call.StaticCallee(); callee != nil && direct[callee] {
							out[fn] = true
						}
					}
				}
			}
		}
	}
	return out
}

// isWakeInstr: ins wakes waiters — a wake operation, or a call of a function that does one.
func isWakeInstr(ins ssa.Instruction, wakers map[*ssa.Function]bool) bool {
	switch t := ins.(type) {
	case *ssa.Call:
		if callee := t.Call.StaticCallee(); callee != nil {
			if wakers[callee] {
				return true
			}
			if callee.String() == "(*sync.Cond).Broadcast" || callee.String() == "(*sync.Cond).Signal" {
				return true
			}
		}
		if bi, ok := t.Call.Value.(*ssa.Builtin); ok && bi.Name() == "close" && len(t.Call.Args) == 1 && signalKey(t.Call.Args[0]) != "" {
			return true
		}
	case *ssa.Send:
		return signalKey(t.Chan) != ""
	case *ssa.Select:
		for _, st := range t.States {
			if st.Dir == types.SendOnly && signalKey(st.Chan) != "" {
				return true
			}
		}
	}
	return false
}

// NotifyBuffered: a wake-up that is posted without blocking is not lost.
//
// `select { case ch <- struct{}{}: default: }` never blocks the waker; it delivers only if the waiter is
// already parked in the receive, or if the channel can hold the token until the waiter arrives.  A waiter
// that checks its condition under a lock, releases the lock and then receives has a window between the
// check and the receive: a wake-up posted there is dropped by an unbuffered channel, and the waiter sleeps
// on a condition that is already true — Connect hangs with the mesh complete.  For every channel field
// that some function of the packages sends to without blocking: every make of it has a constant capacity
// of at least one.
func NotifyBuffered(pkgs ...string) func(p *load.Program, run *report.Run) {
	return func(p *load.Program, run *report.Run) {
		const rule = "non-blocking-wake-needs-buffer"
		run.Rule(rule, "in "+strings.Join(pkgs, ", ")+": every channel held in a struct field that is the target of a non-blocking send (a select with a send case and a default) is created with a constant capacity >= 1 at every make stored into that field; with built-in examples")
		want := map[string]bool{}
		for _, rel := range pkgs {
			want[load.Module+"/"+rel] = true
		}
		var fns []*ssa.Function
		for _, fn := range p.AllFunctions() {
			if fn.Pkg == nil || !want[fn.Pkg.Pkg.Path()] || fn.Blocks == nil || strings.HasSuffix(p.Fset.Position(fn.Pos()).Filename, "_test.go") {
				continue
			}
			fns = append(fns, fn)
		}
		sort.Slice(fns, func(i, j int) bool { return fns[i].Pos() < fns[j].Pos() })
		n, bad := notifyBufferedCheck(fns)
		run.Count("functions-scanned", len(fns))
		run.Count("non-blocking-wake-channels", n)
		for _, b := range bad {
			run.Violate(rule, b[0], "", b[1], nil)
		}
		if n > 0 && len(bad) == 0 {
			run.OK(rule, "channels", "", fmt.Sprintf("%d channel fields woken without blocking, all buffered", n))
		}
		look, err := buildExample(notifyExample)
		if err != nil {
			run.Undecided(rule, "built-in example", "", err.Error())
			return
		}
		n1, b1 := notifyBufferedCheck(exampleFuncsOf(look, "newUnbuffered"))
		if n1 != 2 || len(b1) != 1 || !strings.Contains(b1[0][0], "lossy") {
			run.Undecided(rule, "built-in example", "", fmt.Sprintf("the rule misclassifies its built-in examples (%d channels, %d reports)", n1, len(b1)))
			return
		}
		run.Count("notify-examples", 2)
		run.OK(rule, "built-in examples", "", "an unbuffered notify channel is reported, a channel of capacity one accepted")
		run.Floor("notify-examples", 2)
		run.Floor("functions-scanned", 20)
	}
}

func notifyBufferedCheck(fns []*ssa.Function) (int, [][2]string) {
	targets := map[string]bool{}
	for _, fn := range fns {
		for _, op := range syncOpsOf(fn) {
			if op.kind == "wake" && op.nonBlockingSend && op.key != "" {
				targets[op.key] = true
			}
		}
	}
	var keys []string
	for k := range targets {
		keys = append(keys, k)
	}
	sort.Strings(keys)
	var bad [][2]string
	for _, k := range keys {
		makes, unbuffered := 0, 0
		for _, fn := range fns {
			for _, b := range fn.Blocks {
				for _, ins := range b.Instrs {
					st, ok := ins.(*ssa.Store)
					if !ok || signalKey(st.Addr) != k {
						continue
					}
					mc, ok := st.Val.(*ssa.MakeChan)
					if !ok {
						continue
					}
					makes++
					if c, ok := mc.Size.(*ssa.Const); !ok || c.Value == nil || c.Int64() < 1 {
						unbuffered++
					}
				}
			}
		}
		if unbuffered > 0 || makes == 0 {
			bad = append(bad, [2]string{k, fmt.Sprintf("%s is woken with a non-blocking send but is created without capacity (%d of %d makes): a wake-up posted between the waiter's check of its condition and its receive is dropped, and the waiter blocks although the condition holds", k, unbuffered, makes)})
		}
	}
	return len(keys), bad
}

const notifyExample = `package example

type lossy struct{ notify chan struct{} }
type kept struct{ notify chan struct{} }

func newUnbuffered() *lossy { return &lossy{notify: make(chan struct{})} }
func newBuffered() *kept    { return &kept{notify: make(chan struct{}, 1)} }

func (l *lossy) wake() {
	select {
	case l.notify <- struct{}{}:
	default:
	}
}

func (k *kept) wake() {
	select {
	case k.notify <- struct{}{}:
	default:
	}
}
`

var _ = load.Module
var _ = report.Run{}
