package props

import (
	"fmt"
	"strings"

	"golang.org/x/tools/go/ssa"

	"mpcverif/internal/load"
	"mpcverif/internal/report"
)

// C19wait: Connect reports success for a connection id only after every
// connection of that id has been installed, and the mesh keeps listening until
// it is closed.
//
//   - need-wait-dominates-success: in every method of p2p.Network that waits on
//     the network's condition variable, each return of a nil error is dominated
//     by the header of the wait loop (the test of need[id]): no id is declared
//     complete without having been waited for.  Connections of one pair can
//     arrive out of dial order, so "the last id is complete" says nothing about
//     the others.
//   - listener-closed-only-by-close: the listener is closed by Network.Close
//     alone; an accept loop that stops listening when it believes the mesh is
//     complete refuses the connections that arrive late.
func C19wait(p *load.Program, run *report.Run) {
	run.Rule("need-wait-dominates-success", "in every method of p2p.Network that waits (sync.Cond.Wait, or a receive from a channel field of the network), each return whose error result is the nil constant is dominated by the first test of the loop around that wait")
	run.Rule("listener-closed-only-by-close", "Close is invoked on the Network's listener field only inside (*Network).Close")
	nwT, err := p.Type("p2p", "Network")
	if err != nil {
		run.Undecided("need-wait-dominates-success", "p2p.Network", "", err.Error())
		return
	}
	closers := 0
	for _, fn := range p.AllFunctions() {
		if fn.Pkg == nil || fn.Pkg.Pkg.Path() != load.Module+"/p2p" || fn.Blocks == nil || fn.Synthetic != "" {
			continue
		}
		isMethod := fn.Signature.Recv() != nil && strings.Contains(fn.Signature.Recv().Type().String(), nwT.String())
		name := strings.ReplaceAll(fn.RelString(nil), load.Module+"/", "")
		// listener closes
		for _, b := range fn.Blocks {
			for _, ins := range b.Instrs {
				c, ok := ins.(ssa.CallInstruction)
				if !ok || !c.Common().IsInvoke() || c.Common().Method.Name() != "Close" {
					continue
				}
				l, ok := c.Common().Value.(*ssa.UnOp)
				if !ok {
					continue
				}
				fa, ok := l.X.(*ssa.FieldAddr)
				if !ok || structFieldName(fa.X.Type(), fa.Field) != "listener" {
					continue
				}
				closers++
				run.Count("listener-close-sites", 1)
				key := name + "/listener.Close"
				if isMethod && fn.Name() == "Close" {
					run.OK("listener-closed-only-by-close", key, p.Rel(ins.Pos()), "")
				} else {
					run.Violate("listener-closed-only-by-close", key, p.Rel(ins.Pos()), "the mesh stops listening outside Network.Close: a connection that arrives after this point is refused, its slot stays nil and Connect still returns nil", nil)
				}
			}
		}
		if !isMethod {
			continue
		}
		// wait loops
		var headers []*ssa.BasicBlock
		for _, op := range syncOpsOf(fn) {
			if op.kind != "wait" || !strings.HasPrefix(op.key, "p2p.Network.") {
				continue
			}
			b := op.ins.Block()
			// the header: the outermost dominator of b that ends in an If and is reachable from b
			var top *ssa.BasicBlock
			for h := b.Idom(); h != nil; h = h.Idom() {
				if _, isIf := h.Instrs[len(h.Instrs)-1].(*ssa.If); isIf && blockReaches(b, h) {
					top = h // the outermost test of the loop condition (a && b has two)
				}
			}
			if top != nil {
				headers = append(headers, top)
			}
		}
		if len(headers) == 0 {
			continue
		}
		run.Count("waiting-methods", 1)
		var bad []string
		for _, b := range fn.Blocks {
			if b == fn.Recover {
				continue
			}
			r, ok := b.Instrs[len(b.Instrs)-1].(*ssa.Return)
			if !ok {
				continue
			}
			res := load.Results(r)
			if len(res) == 0 {
				continue
			}
			last := res[len(res)-1]
			if c, isConst := last.(*ssa.Const); !isConst || !c.IsNil() {
				continue
			}
			dom := false
			for _, h := range headers {
				if h.Dominates(b) {
					dom = true
				}
			}
			if !dom {
				bad = append(bad, fmt.Sprintf("return nil at %s is reached without the wait", p.Rel(r.Pos())))
			}
		}
		if len(bad) > 0 {
			run.Violate("need-wait-dominates-success", name, p.Rel(fn.Pos()), "success is returned for a connection id whose connections were not waited for: they may still be missing when Connect returns", bad)
		} else {
			run.OK("need-wait-dominates-success", name, p.Rel(fn.Pos()), "every nil return follows the wait loop")
		}
	}
	// announce-after-install
	run.Rule("announce-after-install", "in every function of p2p that both installs a connection (Network.addPeer, Peer.SetConn) and wakes the waiters (sync.Cond.Broadcast/Signal, a send on or close of a channel field, or a call of a package function that does), no install call is reachable from a wake-up: the count the waiters test reaches zero only when the peers and connections it stands for are in place (connectLeader reads the peer table as soon as it wakes)")
	var p2pFns []*ssa.Function
	for _, fn := range p.AllFunctions() {
		if fn.Pkg != nil && fn.Pkg.Pkg.Path() == load.Module+"/p2p" && fn.Blocks != nil && fn.Synthetic == "" {
			p2pFns = append(p2pFns, fn)
		}
	}
	wakers := wakersIn(p2pFns)
	for _, fn := range p.AllFunctions() {
		if fn.Pkg == nil || fn.Pkg.Pkg.Path() != load.Module+"/p2p" || fn.Blocks == nil || fn.Synthetic != "" {
			continue
		}
		var wakes, installs []ssa.Instruction
		for _, b := range fn.Blocks {
			for _, ins := range b.Instrs {
				if isWakeInstr(ins, wakers) {
					wakes = append(wakes, ins)
				}
				c, ok := ins.(ssa.CallInstruction)
				if !ok {
					continue
				}
				callee := c.Common().StaticCallee()
				if callee == nil {
					continue
				}
				if callee.Pkg != nil && callee.Pkg.Pkg.Path() == load.Module+"/p2p" && (callee.Name() == "addPeer" || callee.Name() == "SetConn") {
					installs = append(installs, ins)
				}
			}
		}
		if len(wakes) == 0 || len(installs) == 0 {
			continue
		}
		run.Count("install-and-wake-functions", 1)
		name := strings.ReplaceAll(fn.RelString(nil), load.Module+"/", "")
		var bad []string
		for _, w := range wakes {
			for _, in := range installs {
				if instrReaches(w, in) {
					bad = append(bad, fmt.Sprintf("the waiters are woken at %s before the install at %s", p.Rel(w.Pos()), p.Rel(in.Pos())))
				}
			}
		}
		if len(bad) > 0 {
			run.Violate("announce-after-install", name, p.Rel(fn.Pos()), "a connection is counted and the waiters are woken before it is installed: a waiter that runs in between sees a peer table without it (the leader then distributes an incomplete table and setup hangs)", bad)
		} else {
			run.OK("announce-after-install", name, p.Rel(fn.Pos()), "installed, then counted")
		}
	}
	run.Floor("install-and-wake-functions", 1)
	run.Floor("waiting-methods", 1)
	run.Floor("listener-close-sites", 1)
}
