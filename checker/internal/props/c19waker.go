package props

import (
	"fmt"
	"go/token"
	"go/types"
	"sort"
	"strings"

	"golang.org/x/tools/go/ssa"

	"mpcverif/internal/load"
	"mpcverif/internal/report"
)

// Wakers: whoever can block in a sync.Cond.Wait has started someone who will signal it.
//
// A Wait returns only when another goroutine calls Broadcast or Signal on the same condition variable.
// For every Wait site W (in function F, on the condition held in struct field S.c) and every exported
// function E of the package from which F is reachable, the call tree of E — calls, go statements, defers
// and closures, inside the module — must contain a function that signals S.c.  Otherwise there is an
// execution (E called on an object on which nobody started the signalling goroutine) that blocks forever:
// a Close that waits for the accept loop to finish hangs when it is called on a network whose accept
// loop was never started, which is what Join does on its error paths.  A Wait that is only reached under
// a test of a field which is stored exclusively by functions that do reach a signaller ("started" flags)
// is accepted.
func Wakers(pkgs ...string) func(p *load.Program, run *report.Run) {
	return func(p *load.Program, run *report.Run) {
		const rule = "wait-has-a-started-waker"
		run.Rule(rule, "for every wait site (sync.Cond.Wait, or a receive from a channel kept in a struct field) and every exported function of the package from which it is reachable, that function's own call tree (calls, go statements, defers, closures; module code) contains a wake-up of the same field (Broadcast/Signal, or a send on / close of the channel) — or the wait is guarded by a field only such functions store")
		for _, rel := range pkgs {
			wakersOf(p, run, rule, rel)
		}
		run.Floor("cond-wait-sites", 1)
	}
}

func condKey(v ssa.Value) string {
	// nw.c.Wait(): the receiver is a load of a *sync.Cond field, possibly through further field loads
	for depth := 0; depth < 6; depth++ {
		switch t := v.(type) {
		case *ssa.UnOp:
			if t.Op == token.MUL {
				v = t.X
				continue
			}
		case *ssa.FieldAddr:
			st := t.X.Type().Underlying().(*types.Pointer).Elem()
			name := st.String()
			if i := strings.LastIndex(name, "/"); i >= 0 {
				name = name[i+1:]
			}
			return name + "." + structFieldName(t.X.Type(), t.Field)
		case *ssa.Field:
			name := t.X.Type().String()
			if i := strings.LastIndex(name, "/"); i >= 0 {
				name = name[i+1:]
			}
			if st, ok := t.X.Type().Underlying().(*types.Struct); ok {
				return name + "." + st.Field(t.Field).Name()
			}
		}
		break
	}
	return ""
}

func wakersOf(p *load.Program, run *report.Run, rule, rel string) {
	path := load.Module + "/" + rel
	var fns []*ssa.Function
	for _, fn := range p.AllFunctions() {
		if fn.Pkg == nil || fn.Pkg.Pkg.Path() != path || fn.Blocks == nil || strings.HasSuffix(p.Fset.Position(fn.Pos()).Filename, "_test.go") {
			continue
		}
		fns = append(fns, fn)
	}
	sort.Slice(fns, func(i, j int) bool { return fns[i].Pos() < fns[j].Pos() })
	type site struct {
		fn   *ssa.Function
		call ssa.Instruction
		key  string
	}
	var waits []site
	signals := map[string]map[*ssa.Function]bool{}
	for _, fn := range fns {
		for _, op := range syncOpsOf(fn) {
			switch op.kind {
			case "wait":
				waits = append(waits, site{fn, op.ins, op.key})
			case "wake":
				if signals[op.key] == nil {
					signals[op.key] = map[*ssa.Function]bool{}
				}
				signals[op.key][fn] = true
			}
		}
	}
	run.Count("cond-wait-sites", len(waits))
	// the call tree of a function inside the module: calls, go, defer, closures, bound methods
	reachMemo := map[*ssa.Function]map[*ssa.Function]bool{}
	var reach func(f *ssa.Function) map[*ssa.Function]bool
	reach = func(f *ssa.Function) map[*ssa.Function]bool {
		if r, ok := reachMemo[f]; ok {
			return r
		}
		seen := map[*ssa.Function]bool{}
		var walk func(g *ssa.Function)
		walk = func(g *ssa.Function) {
			if g == nil || seen[g] || !load.InModule(g) && g.Parent() == nil {
				return
			}
			seen[g] = true
			for _, b := range g.Blocks {
				for _, ins := range b.Instrs {
					if c, ok := ins.(ssa.CallInstruction); ok {
						walk(c.Common().StaticCallee())
					}
					if mc, ok := ins.(*ssa.MakeClosure); ok {
						if cf, ok := mc.Fn.(*ssa.Function); ok {
							walk(cf)
						}
					}
					for _, op := range ins.Operands(nil) {
						if cf, ok := (*op).(*ssa.Function); ok {
							walk(cf)
						}
					}
				}
			}
		}
		walk(f)
		reachMemo[f] = seen
		return seen
	}
	exported := func(fn *ssa.Function) bool {
		if fn.Parent() != nil || fn.Synthetic != "" {
			return false
		}
		if !token.IsExported(fn.Name()) {
			return false
		}
		if r := fn.Signature.Recv(); r != nil {
			t := r.Type()
			if pt, ok := t.(*types.Pointer); ok {
				t = pt.Elem()
			}
			if n, ok := t.(*types.Named); ok && !n.Obj().Exported() {
				return false
			}
		}
		return true
	}
	reachesSignal := func(f *ssa.Function, key string) bool {
		for g := range reach(f) {
			if signals[key][g] {
				return true
			}
		}
		return false
	}
	for i, w := range waits {
		wname := strings.ReplaceAll(w.fn.RelString(nil), load.Module+"/", "")
		if w.key == "" {
			run.Undecided(rule, fmt.Sprintf("%s/Wait#%d", wname, i), p.Rel(w.call.Pos()), "the condition variable is not a struct field the rule can name")
			continue
		}
		if len(signals[w.key]) == 0 {
			run.Violate(rule, wname+"/Wait("+w.key+")", p.Rel(w.call.Pos()), "nothing in the package signals "+w.key+": the wait never returns", nil)
			continue
		}
		// guard exemption: the wait block is control-dependent on a field stored only by functions that reach a signaller
		guarded := func() string {
			for _, b := range w.fn.Blocks {
				iff, ok := b.Instrs[len(b.Instrs)-1].(*ssa.If)
				if !ok || !b.Dominates(w.call.Block()) || b == w.call.Block() {
					continue
				}
				// the loop header of the wait itself tests the waited condition: not a start flag
				if blockReaches(w.call.Block(), b) {
					continue
				}
				var fld string
				var walk func(v ssa.Value, d int)
				walk = func(v ssa.Value, d int) {
					if d > 4 || fld != "" {
						return
					}
					switch t := v.(type) {
					case *ssa.UnOp:
						walk(t.X, d+1)
					case *ssa.BinOp:
						walk(t.X, d+1)
						walk(t.Y, d+1)
					case *ssa.FieldAddr:
						fld = condKey(t)
					}
				}
				walk(iff.Cond, 0)
				if fld == "" {
					continue
				}
				stores, okAll := 0, true
				for _, g := range fns {
					for _, gb := range g.Blocks {
						for _, ins := range gb.Instrs {
							st, ok := ins.(*ssa.Store)
							if !ok {
								continue
							}
							if fa, ok := st.Addr.(*ssa.FieldAddr); ok && condKey(fa) == fld {
								if c, isC := st.Val.(*ssa.Const); isC && (c.IsNil() || c.Value != nil && c.Value.String() == "false") {
									continue // clearing the flag
								}
								stores++
								root := g
								for root.Parent() != nil {
									root = root.Parent()
								}
								if !reachesSignal(root, w.key) {
									okAll = false
								}
							}
						}
					}
				}
				if stores > 0 && okAll {
					return fld
				}
			}
			return ""
		}
		var entries []*ssa.Function
		for _, e := range fns {
			if exported(e) && reach(e)[w.fn] {
				entries = append(entries, e)
			}
		}
		if len(entries) == 0 {
			// not reachable from the package's exported surface by static calls: judge the function itself
			root := w.fn
			for root.Parent() != nil {
				root = root.Parent()
			}
			entries = append(entries, root)
		}
		for _, e := range entries {
			ename := strings.ReplaceAll(e.RelString(nil), load.Module+"/", "")
			key := fmt.Sprintf("%s/Wait(%s) from %s", wname, w.key, ename)
			run.Count("wait-entry-pairs", 1)
			switch {
			case reachesSignal(e, w.key):
				run.OK(rule, key, p.Rel(w.call.Pos()), "the entry point's call tree contains a signaller")
			case guarded() != "":
				run.OK(rule, key, p.Rel(w.call.Pos()), "guarded by "+guarded()+", which only functions that start a signaller set")
			default:
				var who []string
				for g := range signals[w.key] {
					who = append(who, strings.ReplaceAll(g.RelString(nil), load.Module+"/", ""))
				}
				sort.Strings(who)
				run.Violate(rule, key, p.Rel(w.call.Pos()), fmt.Sprintf("%s can block in this Wait, but nothing it calls or starts signals %s (signalled only by %s): called on an object whose signalling goroutine was never started it blocks forever", ename, w.key, strings.Join(who, ", ")), nil)
			}
		}
	}
}
