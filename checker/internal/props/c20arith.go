package props

import (
	"fmt"
	"go/ast"
	"go/token"
	"go/types"
	"sort"
	"strconv"
	"strings"

	"golang.org/x/tools/go/packages"

	"mpcverif/internal/dispatch"
	"mpcverif/internal/load"
	"mpcverif/internal/report"
)

// zpoly is a polynomial over the integers (coefficients reduced by nothing: Mod(p) is the identity of the quotient ring).
type zpoly map[string]int64

func zvar(v string) zpoly { return zpoly{v: 1} }
func (a zpoly) add(b zpoly, sign int64) zpoly {
	r := zpoly{}
	for m, c := range a {
		r[m] += c
	}
	for m, c := range b {
		r[m] += sign * c
	}
	for m, c := range r {
		if c == 0 {
			delete(r, m)
		}
	}
	return r
}
func (a zpoly) mul(b zpoly) zpoly {
	r := zpoly{}
	for m1, c1 := range a {
		for m2, c2 := range b {
			vs := append(strings.Split(m1, "*"), strings.Split(m2, "*")...)
			var keep []string
			for _, v := range vs {
				if v != "" && v != "1" {
					keep = append(keep, v)
				}
			}
			sort.Strings(keep)
			m := strings.Join(keep, "*")
			if m == "" {
				m = "1"
			}
			r[m] += c1 * c2
		}
	}
	for m, c := range r {
		if c == 0 {
			delete(r, m)
		}
	}
	return r
}
func (a zpoly) String() string {
	var ms []string
	for m, c := range a {
		ms = append(ms, fmt.Sprintf("%+d*%s", c, m))
	}
	sort.Strings(ms)
	if len(ms) == 0 {
		return "0"
	}
	return strings.Join(ms, " ")
}

// bigEval interprets math/big statements of a loop body over zpoly values.
type bigEval struct {
	p     *load.Program
	depth int
	pkg   *packages.Package
	env   map[string]zpoly
	fail  string
	sent  []zpoly
	// red: how far below the modulus a named value is known to be: 1 reduced (< p), 2 the sum of two reduced
	// values (< 2p: one conditional subtraction reduces it); sentRed is that state for each element sent
	red     map[string]int
	sentRed []int
}

// redOf: the reduction state of the value an expression denotes.
func (b *bigEval) redOf(e ast.Expr) int {
	e = ast.Unparen(e)
	if c, ok := e.(*ast.CallExpr); ok {
		_, name, _ := callName(c)
		switch name {
		case "Mod":
			return 1
		case "Add":
			if len(c.Args) == 2 && b.redOf(c.Args[0]) == 1 && b.redOf(c.Args[1]) == 1 {
				return 2
			}
			return 0
		case "Set":
			if len(c.Args) == 1 {
				return b.redOf(c.Args[0])
			}
		}
		// a helper of the package: what its last return statement yields (mulAdd: `return new(big.Int).Mod(t, p)`)
		var id *ast.Ident
		switch f := ast.Unparen(c.Fun).(type) {
		case *ast.Ident:
			id = f
		case *ast.SelectorExpr:
			id = f.Sel
		}
		if id != nil && b.p != nil && b.depth < 3 {
			if fn, ok := b.pkg.TypesInfo.Uses[id].(*types.Func); ok && fn.Pkg() == b.pkg.Types {
				if _, fd := declOf(b.p, fn); fd != nil && fd.Body != nil && len(fd.Body.List) > 0 {
					if r, ok := fd.Body.List[len(fd.Body.List)-1].(*ast.ReturnStmt); ok && len(r.Results) >= 1 {
						b.depth++
						st := b.redOf(r.Results[0])
						b.depth--
						return st
					}
				}
			}
		}
		return 0
	}
	if b.red == nil {
		return 0
	}
	return b.red[baseName(e)]
}

func (b *bigEval) setRed(name string, st int) {
	if b.red == nil {
		b.red = map[string]int{}
	}
	b.red[name] = st
}

func (b *bigEval) val(e ast.Expr) zpoly {
	e = ast.Unparen(e)
	if c, ok := e.(*ast.CallExpr); ok {
		recv, name, _ := callName(c)
		switch name {
		case "SetBytes", "Set":
			return b.val(c.Args[0])
		case "Mul", "Add", "Sub":
			x, y := b.val(c.Args[0]), b.val(c.Args[1])
			if x == nil || y == nil {
				return nil
			}
			switch name {
			case "Mul":
				return x.mul(y)
			case "Add":
				return x.add(y, 1)
			default:
				return x.add(y, -1)
			}
		case "Mod":
			return b.val(c.Args[0])
		case "bytes32":
			return b.val(c.Args[0])
		}
		_ = recv
		// a helper of the package (a field-arithmetic method, a reduce function): its body is interpreted with
		// the parameters bound to the argument values
		if v, ok := b.inline(c); ok {
			return v
		}
	}
	if u, ok := e.(*ast.UnaryExpr); ok && u.Op == token.AND {
		return b.val(u.X)
	}
	k := baseName(e)
	if v, ok := b.env[k]; ok {
		return v
	}
	if b.fail == "" {
		b.fail = "value of " + types.ExprString(e) + " is not known"
	}
	return nil
}

// inline interprets a call of a function declared in the package under analysis: parameters are bound to
// the values of the arguments, the statements run in the same environment (fields of the receiver are
// named by their selector), and the value of the returned expression is the call's value.
func (b *bigEval) inline(c *ast.CallExpr) (zpoly, bool) {
	if b.p == nil || b.depth > 3 {
		return nil, false
	}
	var id *ast.Ident
	switch f := ast.Unparen(c.Fun).(type) {
	case *ast.Ident:
		id = f
	case *ast.SelectorExpr:
		id = f.Sel
	}
	if id == nil {
		return nil, false
	}
	fn, ok := b.pkg.TypesInfo.Uses[id].(*types.Func)
	if !ok || fn.Pkg() == nil || fn.Pkg() != b.pkg.Types {
		return nil, false
	}
	_, fd := declOf(b.p, fn)
	if fd == nil || fd.Body == nil {
		return nil, false
	}
	i := 0
	saved := map[string]zpoly{}
	var bound []string
	for _, f := range fd.Type.Params.List {
		for _, n := range f.Names {
			if i < len(c.Args) {
				if tv, ok := b.pkg.TypesInfo.Types[c.Args[i]]; ok && strings.Contains(tv.Type.String(), "big.Int") {
					v := b.val(c.Args[i])
					if v == nil {
						return nil, true
					}
					if old, had := b.env[n.Name]; had {
						saved[n.Name] = old
					}
					b.env[n.Name] = v
					bound = append(bound, n.Name)
				}
			}
			i++
		}
	}
	b.depth++
	var ret zpoly
	done := false
	for _, st := range fd.Body.List {
		if r, ok := st.(*ast.ReturnStmt); ok {
			if len(r.Results) >= 1 {
				ret = b.val(r.Results[0])
				done = true
			}
			break
		}
		b.stmts([]ast.Stmt{st})
	}
	b.depth--
	for _, n := range bound {
		delete(b.env, n)
	}
	for n, v := range saved {
		b.env[n] = v
	}
	if !done {
		return nil, false
	}
	return ret, true
}

func (b *bigEval) stmts(list []ast.Stmt) {
	for _, s := range list {
		switch x := s.(type) {
		case *ast.AssignStmt:
			if len(x.Lhs) == 1 && len(x.Rhs) == 1 {
				l := baseName(x.Lhs[0])
				if c, ok := x.Rhs[0].(*ast.CallExpr); ok {
					_, name, _ := callName(c)
					if name == "append" && len(c.Args) == 2 {
						if v := b.val(c.Args[1]); v != nil {
							b.sent = append(b.sent, v)
							inner := c.Args[1]
							if ic, ok := ast.Unparen(inner).(*ast.CallExpr); ok && len(ic.Args) == 1 {
								inner = ic.Args[0] // bytes32(u)...
							}
							b.sentRed = append(b.sentRed, b.redOf(inner))
						}
						continue
					}
				}
				if tv, ok := b.pkg.TypesInfo.Types[x.Rhs[0]]; ok && strings.Contains(tv.Type.String(), "big.Int") {
					if v := b.val(x.Rhs[0]); v != nil {
						b.env[l] = v
						b.setRed(l, b.redOf(x.Rhs[0]))
					}
				}
			}
		case *ast.IfStmt:
			// a conditional reduction (`if u.Cmp(p) >= 0 { u.Sub(u, p) }`): in the quotient ring both sides are
			// the same element; the body is applied
			if x.Else == nil && strings.Contains(types.ExprString(x.Cond), ".Cmp(") {
				b.stmts(x.Body.List)
				// u >= p ? u - p : u brings a sum of two reduced values below p
				if c, ok := ast.Unparen(x.Cond).(*ast.BinaryExpr); ok && (c.Op == token.GEQ || c.Op == token.GTR) {
					if call, ok := ast.Unparen(c.X).(*ast.CallExpr); ok {
						if sel, ok := call.Fun.(*ast.SelectorExpr); ok && sel.Sel.Name == "Cmp" {
							n := baseName(sel.X)
							if b.red != nil && b.red[n] == 2 && c.Op == token.GEQ {
								b.setRed(n, 1)
							}
						}
					}
				}
			}
		case *ast.ExprStmt:
			// a helper of the package that stores an element into its slot of the vector: put(dst[i*W:(i+1)*W], v)
			if c, ok := x.X.(*ast.CallExpr); ok {
				if id, ok := c.Fun.(*ast.Ident); ok && len(c.Args) == 2 {
					if fn, ok := b.pkg.TypesInfo.Uses[id].(*types.Func); ok && fn.Pkg() == b.pkg.Types {
						if tv, ok := b.pkg.TypesInfo.Types[c.Args[1]]; ok && strings.Contains(tv.Type.String(), "big.Int") {
							if _, isSlice := c.Args[0].(*ast.SliceExpr); isSlice {
								if v := b.val(c.Args[1]); v != nil {
									b.sent = append(b.sent, v)
									b.sentRed = append(b.sentRed, b.redOf(c.Args[1]))
								}
								continue
							}
						}
					}
				}
			}
			// in-place methods: z.Mod(z, p), z.Add(a, b) ...
			if c, ok := x.X.(*ast.CallExpr); ok {
				if sel, ok := c.Fun.(*ast.SelectorExpr); ok {
					switch sel.Sel.Name {
					case "Mod", "Add", "Sub", "Mul":
						if v := b.val(c); v != nil {
							n := baseName(sel.X)
							keep := b.red != nil && b.red[n] == 2 && sel.Sel.Name == "Sub"
							b.env[n] = v
							if !keep {
								b.setRed(n, b.redOf(c))
							}
						}
					}
				}
			}
		case *ast.DeclStmt:
		}
	}
}

// C20arith: the VOLE multiplication and the Fx gadget as ring identities; element layout of the packed vectors.
func C20arith(p *load.Program, run *report.Run) {
	run.Rule("vole-product-shares", "interpreting vole.Sender.Mul over integer polynomials (Mod p is the identity of the quotient ring, the y-vector and the u-vector travel element-wise), what the receiver obtains minus what the sender keeps is x*y")
	run.Rule("vole-element-layout", "bytes32 produces, and both readers slice, elements of one width W; both length checks are m*W")
	run.Rule("fx-product-shares", "interpreting FxSend/FxReceive and FxkSend/FxkReceive over GF(2) with the 1-of-2 OT contract (the receiver gets L0 or L1 according to its flag), the XOR of the two results is a&b")
	pkg := p.ByPath[load.Module+"/vole"]
	_, fs := dispatch.FindFunc(p, "vole", "Sender", "Mul")
	_, fr := dispatch.FindFunc(p, "vole", "Receiver", "Mul")
	if pkg == nil || fs == nil || fr == nil {
		run.Undecided("vole-product-shares", "vole.Sender.Mul", "", "function not found")
	} else {
		be := &bigEval{p: p, pkg: pkg, env: map[string]zpoly{"pad": zvar("r"), "inputs": zvar("x"), "yb": zvar("y"), "p": zpoly{}}}
		var loops []*ast.ForStmt
		for _, s := range fs.Body.List {
			if f, ok := s.(*ast.ForStmt); ok {
				loops = append(loops, f)
			}
		}
		// a case split on the operand (x = 0, x = 1, otherwise): every arm is interpreted with x pinned to the
		// value its condition gives it, and has to yield u - r = x*y for that x
		caseSplit := false
		for li, l := range loops {
			// the split: a switch without a tag, or (after the loader's normal form) an if / else-if chain
			// whose first condition asks about the operand
			type armT struct {
				cond ast.Expr
				body []ast.Stmt
				pos  token.Pos
			}
			var arms []armT
			at := -1
			var splitPos token.Pos
			for i, st := range l.Body.List {
				switch t := st.(type) {
				case *ast.SwitchStmt:
					if t.Tag == nil && t.Init == nil && at < 0 {
						at, splitPos = i, t.Pos()
						for _, cs := range t.Body.List {
							cc := cs.(*ast.CaseClause)
							var cond ast.Expr
							if cc.List != nil {
								cond = cc.List[0]
							}
							arms = append(arms, armT{cond, cc.Body, cc.Pos()})
						}
					}
				case *ast.IfStmt:
					if at < 0 && t.Init == nil && t.Else != nil && (strings.Contains(types.ExprString(t.Cond), ".Sign() == 0") || strings.Contains(types.ExprString(t.Cond), ".Uint64() == ")) {
						at, splitPos = i, t.Pos()
						var cur ast.Stmt = t
						for cur != nil {
							switch c := cur.(type) {
							case *ast.IfStmt:
								arms = append(arms, armT{c.Cond, c.Body.List, c.Pos()})
								cur = c.Else
							case *ast.BlockStmt:
								arms = append(arms, armT{nil, c.List, c.Pos()})
								cur = nil
							default:
								cur = nil
							}
						}
					}
				}
			}
			if at < 0 {
				continue
			}
			caseSplit = true
			hasDefault := false
			for _, cc := range arms {
				xv := zvar("x")
				label := "default"
				if cc.cond == nil {
					hasDefault = true
				} else {
					label = types.ExprString(cc.cond)
					switch {
					case strings.HasSuffix(label, ".Sign() == 0"):
						xv = zpoly{}
					case strings.Contains(label, ".Uint64() == "):
						k, err := strconv.ParseInt(strings.TrimSpace(label[strings.LastIndex(label, "==")+2:]), 0, 64)
						if err == nil {
							xv = zpoly{"1": k}
						}
					}
				}
				arm := &bigEval{p: p, pkg: pkg, env: map[string]zpoly{"pad": zvar("r"), "inputs": xv, "yb": zvar("y"), "p": zpoly{}}}
				// the loops before this one fill the vectors it reads (the pads, the y elements)
				for _, prev := range loops[:li] {
					arm.stmts(prev.Body.List)
				}
				arm.sent = nil
				var list []ast.Stmt
				list = append(list, l.Body.List[:at]...)
				list = append(list, cc.body...)
				list = append(list, l.Body.List[at+1:]...)
				arm.stmts(list)
				key := "vole.Sender.Mul/case " + label
				switch {
				case arm.fail != "":
					run.Undecided("vole-product-shares", key, p.Rel(cc.pos), arm.fail)
				case len(arm.sent) != 1:
					run.Undecided("vole-product-shares", key, p.Rel(cc.pos), "the u element of this case was not found")
				case len(arm.sentRed) == 1 && arm.sentRed[0] != 1:
					run.Violate("vole-product-shares", key, p.Rel(cc.pos), "the element sent in this case is not reduced modulo p (no Mod, and no conditional subtraction after the sum of two reduced values): the 32-byte slot keeps the low 256 bits of a value that can reach 2p, and the shares no longer recombine", nil)
				default:
					diff := arm.sent[0].add(zvar("r"), -1)
					want := xv.mul(zvar("y"))
					if diff.String() == want.String() {
						run.OK("vole-product-shares", key, p.Rel(cc.pos), "u - r = "+diff.String()+" for x = "+xv.String())
					} else {
						run.Violate("vole-product-shares", key, p.Rel(cc.pos), "u - r = "+diff.String()+", expected x*y = "+want.String()+" for x = "+xv.String(), nil)
					}
				}
			}
			if !hasDefault {
				run.Violate("vole-product-shares", "vole.Sender.Mul/case default", p.Rel(splitPos), "the case split on the operand has no arm for the general value", nil)
			}
		}
		for _, l := range loops {
			if caseSplit {
				break
			}
			be.stmts(l.Body.List)
		}
		// what the sender returns
		var kept zpoly
		ast.Inspect(fs.Body, func(n ast.Node) bool {
			if r, ok := n.(*ast.ReturnStmt); ok && len(r.Results) == 2 && types.ExprString(r.Results[1]) == "nil" {
				if v, ok := be.env[baseName(r.Results[0])]; ok {
					kept = v
				}
			}
			return true
		})
		switch {
		case caseSplit:
			// decided per arm above; the kept share must still be the pad
			if kept == nil {
				if v, ok := be.env["pad"]; ok {
					kept = v
				}
			}
		case be.fail != "":
			run.Undecided("vole-product-shares", "vole.Sender.Mul", p.Rel(fs.Pos()), be.fail)
		case len(be.sent) != 1 || kept == nil:
			run.Undecided("vole-product-shares", "vole.Sender.Mul", p.Rel(fs.Pos()), "the u element or the kept share was not found")
		case len(be.sentRed) == 1 && be.sentRed[0] != 1:
			run.Violate("vole-product-shares", "vole.Sender.Mul/reduced", p.Rel(fs.Pos()), "the u element is sent without being reduced modulo p: the 32-byte slot keeps the low 256 bits of the unreduced value", nil)
		default:
			diff := be.sent[0].add(kept, -1)
			want := zvar("x").mul(zvar("y"))
			if diff.String() == want.String() {
				run.OK("vole-product-shares", "vole.Sender.Mul", p.Rel(fs.Pos()), "u - r = "+diff.String())
			} else {
				run.Violate("vole-product-shares", "vole.Sender.Mul", p.Rel(fs.Pos()), "u - r = "+diff.String()+", expected x*y", nil)
			}
		}
		// layout constants
		widths := map[int64][]string{}
		note := func(k int64, where string) { widths[k] = append(widths[k], where) }
		for name, fd := range map[string]*ast.FuncDecl{"Sender.Mul": fs, "Receiver.Mul": fr} {
			ast.Inspect(fd.Body, func(n ast.Node) bool {
				be, ok := n.(*ast.BinaryExpr)
				if !ok {
					return true
				}
				l := types.ExprString(be.X)
				if (be.Op == token.MUL && (l == "m" || l == "i")) || (be.Op == token.ADD && l == "off") {
					if k, ok := constOf(pkg, be.Y); ok {
						note(k, name)
					}
				}
				return true
			})
		}
		if _, fb := dispatch.FindFunc(p, "vole", "", "bytes32"); fb != nil {
			ast.Inspect(fb.Body, func(n ast.Node) bool {
				if c, ok := n.(*ast.CallExpr); ok && types.ExprString(c.Fun) == "make" && len(c.Args) == 2 {
					if k, ok := constOf(pkg, c.Args[1]); ok {
						note(k, "bytes32")
					}
				}
				return true
			})
		}
		run.Count("layout-constants", len(widths))
		if len(widths) == 1 {
			for k, where := range widths {
				run.OK("vole-element-layout", "vole/element-width", "", fmt.Sprintf("W=%d at %d sites", k, len(where)))
			}
		} else {
			run.Violate("vole-element-layout", "vole/element-width", p.Rel(fs.Pos()), fmt.Sprintf("element widths disagree: %v", widths), nil)
		}
	}
	// Fx over GF(2)
	bp := p.ByPath[load.Module+"/bmr"]
	for _, pr := range [][2]string{{"FxSend", "FxReceive"}, {"FxkSend", "FxkReceive"}} {
		key := "bmr." + pr[0] + "/" + pr[1]
		run.Count("fx-pairs", 1)
		_, fsnd := dispatch.FindFunc(p, "bmr", "", pr[0])
		_, frcv := dispatch.FindFunc(p, "bmr", "", pr[1])
		if bp == nil || fsnd == nil || frcv == nil {
			run.Undecided("fx-product-shares", key, "", "function not found")
			continue
		}
		env := map[string]gpoly{}
		var l0, l1, kept gpoly
		fail := ""
		for _, prm := range fsnd.Type.Params.List {
			for _, n := range prm.Names {
				if n.Name != "oti" {
					env[n.Name] = gvar("a")
				}
			}
		}
		val := func(e ast.Expr) gpoly {
			e = ast.Unparen(unwrapConv(e))
			if c, ok := e.(*ast.CallExpr); ok {
				if _, name, _ := callName(c); name == "ToOT" {
					e = c.Fun.(*ast.SelectorExpr).X
				}
			}
			if be, ok := e.(*ast.BinaryExpr); ok && be.Op == token.AND { // rl[0] & 1
				e = be.X
			}
			if v, ok := env[baseName(e)]; ok {
				return v
			}
			fail = "value of " + types.ExprString(e) + " is not known"
			return nil
		}
		for _, s := range fsnd.Body.List {
			switch x := s.(type) {
			case *ast.AssignStmt:
				if len(x.Rhs) == 1 {
					if c, ok := x.Rhs[0].(*ast.CallExpr); ok {
						_, name, _ := callName(c)
						switch name {
						case "NewLabel":
							env[types.ExprString(x.Lhs[0])] = gvar("r")
							continue
						case "Send":
							continue
						}
					}
					if cl, ok := x.Rhs[0].(*ast.CompositeLit); ok {
						for _, e := range cl.Elts {
							if kv, ok := e.(*ast.KeyValueExpr); ok {
								switch types.ExprString(kv.Key) {
								case "L0":
									l0 = val(kv.Value)
								case "L1":
									l1 = val(kv.Value)
								}
							}
						}
						continue
					}
					if len(x.Lhs) == 1 {
						if v := val(x.Rhs[0]); v != nil {
							env[baseName(x.Lhs[0])] = v
						}
					}
				}
			case *ast.DeclStmt:
				if gd, ok := x.Decl.(*ast.GenDecl); ok {
					for _, sp := range gd.Specs {
						if vs, ok := sp.(*ast.ValueSpec); ok {
							for _, n := range vs.Names {
								env[n.Name] = gpoly{}
							}
						}
					}
				}
			case *ast.ExprStmt:
				if c, ok := x.X.(*ast.CallExpr); ok {
					if sel, ok := c.Fun.(*ast.SelectorExpr); ok && sel.Sel.Name == "Xor" {
						if v := val(c.Args[0]); v != nil {
							env[baseName(sel.X)] = env[baseName(sel.X)].xor(v)
						}
					}
				}
			case *ast.ReturnStmt:
				if len(x.Results) >= 1 {
					kept = val(x.Results[0])
				} else {
					kept = env["r"]
				}
			}
		}
		if kept == nil {
			if v, ok := env["r"]; ok {
				kept = v // named result r
			}
		}
		// receiver: the flag and what is returned
		var choice gpoly
		ast.Inspect(frcv.Body, func(n ast.Node) bool {
			if cl, ok := n.(*ast.CompositeLit); ok && strings.Contains(types.ExprString(cl.Type), "bool") && len(cl.Elts) == 1 {
				if be, ok := cl.Elts[0].(*ast.BinaryExpr); ok && (be.Op == token.EQL || be.Op == token.NEQ) {
					lit := types.ExprString(be.Y)
					choice = gvar("b")
					if (lit == "0") != (be.Op == token.NEQ) {
						choice = choice.xor(gone())
					}
				}
			}
			return true
		})
		switch {
		case fail != "" || l0 == nil || l1 == nil || kept == nil || choice == nil:
			run.Undecided("fx-product-shares", key, p.Rel(fsnd.Pos()), "offer, kept share or choice flag not found "+fail)
		default:
			got := l0.xor(choice.and(l0.xor(l1)))
			sum := got.xor(kept)
			want := gvar("a").and(gvar("b"))
			if sum.String() == want.String() {
				run.OK("fx-product-shares", key, p.Rel(fsnd.Pos()), "r ^ x_b = "+sum.String())
			} else {
				run.Violate("fx-product-shares", key, p.Rel(fsnd.Pos()), "the two results add up to "+sum.String()+", expected a·b", nil)
			}
		}
	}
	run.Floor("fx-pairs", 2)

	// label transport through the OT: ToOT and FromOT move the whole bmr label
	run.Rule("bmr-label-transport", "Label.ToOT reads and Label.FromOT writes the same number of bytes with the same byte order, and that number is the size of a bmr label")
	_, fto := dispatch.FindFunc(p, "bmr", "Label", "ToOT")
	_, ffrom := dispatch.FindFunc(p, "bmr", "Label", "FromOT")
	if bp == nil || fto == nil || ffrom == nil {
		run.Undecided("bmr-label-transport", "bmr.Label.ToOT/FromOT", "", "function not found")
		return
	}
	codecOf := func(fd *ast.FuncDecl, prefix string) (order string, bits int64) {
		ast.Inspect(fd.Body, func(n ast.Node) bool {
			if c, ok := n.(*ast.CallExpr); ok {
				f := types.ExprString(c.Fun)
				if i := strings.LastIndex(f, "."+prefix); i >= 0 && strings.HasPrefix(f, "binary.") {
					order = f[len("binary."):i]
					fmt.Sscanf(f[i+1+len(prefix):], "%d", &bits)
				}
			}
			return true
		})
		return
	}
	o1, b1 := codecOf(fto, "Uint")
	o2, b2 := codecOf(ffrom, "PutUint")
	size := int64(-1)
	if lt, err := p.Type("bmr", "Label"); err == nil {
		if at, ok := lt.Underlying().(*types.Array); ok {
			size = at.Len() * 8
		}
	}
	if o1 != "" && o1 == o2 && b1 == b2 && b1 == size {
		run.OK("bmr-label-transport", "bmr.Label.ToOT/FromOT", p.Rel(fto.Pos()), fmt.Sprintf("%s, %d bits", o1, b1))
	} else {
		run.Violate("bmr-label-transport", "bmr.Label.ToOT/FromOT", p.Rel(fto.Pos()), fmt.Sprintf("ToOT reads %s/%d bits, FromOT writes %s/%d bits, a label has %d bits", o1, b1, o2, b2, size), nil)
	}
}
