package props

import (
	"fmt"
	"go/ast"
	"go/token"
	"go/types"
	"sort"
	"strings"

	"golang.org/x/tools/go/packages"

	"mpcverif/internal/dispatch"
	"mpcverif/internal/load"
	"mpcverif/internal/report"
)

// zpoly is a polynomial over the integers (coefficients reduced by nothing: Mod(p) is the identity of the quotient ring).
type zpoly map[string]int64

func zvar(v string) zpoly { return zpoly{v: 1} }
func (a zpoly) add(b zpoly, sign int64) zpoly {
	r := zpoly{}
	for m, c := range a {
		r[m] += c
	}
	for m, c := range b {
		r[m] += sign * c
	}
	for m, c := range r {
		if c == 0 {
			delete(r, m)
		}
	}
	return r
}
func (a zpoly) mul(b zpoly) zpoly {
	r := zpoly{}
	for m1, c1 := range a {
		for m2, c2 := range b {
			vs := append(strings.Split(m1, "*"), strings.Split(m2, "*")...)
			var keep []string
			for _, v := range vs {
				if v != "" && v != "1" {
					keep = append(keep, v)
				}
			}
			sort.Strings(keep)
			m := strings.Join(keep, "*")
			if m == "" {
				m = "1"
			}
			r[m] += c1 * c2
		}
	}
	for m, c := range r {
		if c == 0 {
			delete(r, m)
		}
	}
	return r
}
func (a zpoly) String() string {
	var ms []string
	for m, c := range a {
		ms = append(ms, fmt.Sprintf("%+d*%s", c, m))
	}
	sort.Strings(ms)
	if len(ms) == 0 {
		return "0"
	}
	return strings.Join(ms, " ")
}

// bigEval interprets math/big statements of a loop body over zpoly values.
type bigEval struct {
	p     *load.Program
	depth int
	pkg   *packages.Package
	env   map[string]zpoly
	fail  string
	sent  []zpoly
}

func (b *bigEval) val(e ast.Expr) zpoly {
	e = ast.Unparen(e)
	if c, ok := e.(*ast.CallExpr); ok {
		recv, name, _ := callName(c)
		switch name {
		case "SetBytes", "Set":
			return b.val(c.Args[0])
		case "Mul", "Add", "Sub":
			x, y := b.val(c.Args[0]), b.val(c.Args[1])
			if x == nil || y == nil {
				return nil
			}
			switch name {
			case "Mul":
				return x.mul(y)
			case "Add":
				return x.add(y, 1)
			default:
				return x.add(y, -1)
			}
		case "Mod":
			return b.val(c.Args[0])
		case "bytes32":
			return b.val(c.Args[0])
		}
		_ = recv
		// a helper of the package (a field-arithmetic method, a reduce function): its body is interpreted with
		// the parameters bound to the argument values
		if v, ok := b.inline(c); ok {
			return v
		}
	}
	if u, ok := e.(*ast.UnaryExpr); ok && u.Op == token.AND {
		return b.val(u.X)
	}
	k := baseName(e)
	if v, ok := b.env[k]; ok {
		return v
	}
	if b.fail == "" {
		b.fail = "value of " + types.ExprString(e) + " is not known"
	}
	return nil
}

// inline interprets a call of a function declared in the package under analysis: parameters are bound to
// the values of the arguments, the statements run in the same environment (fields of the receiver are
// named by their selector), and the value of the returned expression is the call's value.
func (b *bigEval) inline(c *ast.CallExpr) (zpoly, bool) {
	if b.p == nil || b.depth > 3 {
		return nil, false
	}
	var id *ast.Ident
	switch f := ast.Unparen(c.Fun).(type) {
	case *ast.Ident:
		id = f
	case *ast.SelectorExpr:
		id = f.Sel
	}
	if id == nil {
		return nil, false
	}
	fn, ok := b.pkg.TypesInfo.Uses[id].(*types.Func)
	if !ok || fn.Pkg() == nil || fn.Pkg() != b.pkg.Types {
		return nil, false
	}
	_, fd := declOf(b.p, fn)
	if fd == nil || fd.Body == nil {
		return nil, false
	}
	i := 0
	saved := map[string]zpoly{}
	var bound []string
	for _, f := range fd.Type.Params.List {
		for _, n := range f.Names {
			if i < len(c.Args) {
				if tv, ok := b.pkg.TypesInfo.Types[c.Args[i]]; ok && strings.Contains(tv.Type.String(), "big.Int") {
					v := b.val(c.Args[i])
					if v == nil {
						return nil, true
					}
					if old, had := b.env[n.Name]; had {
						saved[n.Name] = old
					}
					b.env[n.Name] = v
					bound = append(bound, n.Name)
				}
			}
			i++
		}
	}
	b.depth++
	var ret zpoly
	done := false
	for _, st := range fd.Body.List {
		if r, ok := st.(*ast.ReturnStmt); ok {
			if len(r.Results) >= 1 {
				ret = b.val(r.Results[0])
				done = true
			}
			break
		}
		b.stmts([]ast.Stmt{st})
	}
	b.depth--
	for _, n := range bound {
		delete(b.env, n)
	}
	for n, v := range saved {
		b.env[n] = v
	}
	if !done {
		return nil, false
	}
	return ret, true
}

func (b *bigEval) stmts(list []ast.Stmt) {
	for _, s := range list {
		switch x := s.(type) {
		case *ast.AssignStmt:
			if len(x.Lhs) == 1 && len(x.Rhs) == 1 {
				l := baseName(x.Lhs[0])
				if c, ok := x.Rhs[0].(*ast.CallExpr); ok {
					_, name, _ := callName(c)
					if name == "append" && len(c.Args) == 2 {
						if v := b.val(c.Args[1]); v != nil {
							b.sent = append(b.sent, v)
						}
						continue
					}
				}
				if tv, ok := b.pkg.TypesInfo.Types[x.Rhs[0]]; ok && strings.Contains(tv.Type.String(), "big.Int") {
					if v := b.val(x.Rhs[0]); v != nil {
						b.env[l] = v
					}
				}
			}
		case *ast.ExprStmt:
			// in-place methods: z.Mod(z, p), z.Add(a, b) ...
			if c, ok := x.X.(*ast.CallExpr); ok {
				if sel, ok := c.Fun.(*ast.SelectorExpr); ok {
					switch sel.Sel.Name {
					case "Mod", "Add", "Sub", "Mul":
						if v := b.val(c); v != nil {
							b.env[baseName(sel.X)] = v
						}
					}
				}
			}
		case *ast.DeclStmt:
		}
	}
}

// C20arith: the VOLE multiplication and the Fx gadget as ring identities; element layout of the packed vectors.
func C20arith(p *load.Program, run *report.Run) {
	run.Rule("vole-product-shares", "interpreting vole.Sender.Mul over integer polynomials (Mod p is the identity of the quotient ring, the y-vector and the u-vector travel element-wise), what the receiver obtains minus what the sender keeps is x*y")
	run.Rule("vole-element-layout", "bytes32 produces, and both readers slice, elements of one width W; both length checks are m*W")
	run.Rule("fx-product-shares", "interpreting FxSend/FxReceive and FxkSend/FxkReceive over GF(2) with the 1-of-2 OT contract (the receiver gets L0 or L1 according to its flag), the XOR of the two results is a&b")
	pkg := p.ByPath[load.Module+"/vole"]
	_, fs := dispatch.FindFunc(p, "vole", "Sender", "Mul")
	_, fr := dispatch.FindFunc(p, "vole", "Receiver", "Mul")
	if pkg == nil || fs == nil || fr == nil {
		run.Undecided("vole-product-shares", "vole.Sender.Mul", "", "function not found")
	} else {
		be := &bigEval{p: p, pkg: pkg, env: map[string]zpoly{"pad": zvar("r"), "inputs": zvar("x"), "yb": zvar("y")}}
		var loops []*ast.ForStmt
		for _, s := range fs.Body.List {
			if f, ok := s.(*ast.ForStmt); ok {
				loops = append(loops, f)
			}
		}
		for _, l := range loops {
			be.stmts(l.Body.List)
		}
		// what the sender returns
		var kept zpoly
		ast.Inspect(fs.Body, func(n ast.Node) bool {
			if r, ok := n.(*ast.ReturnStmt); ok && len(r.Results) == 2 && types.ExprString(r.Results[1]) == "nil" {
				if v, ok := be.env[baseName(r.Results[0])]; ok {
					kept = v
				}
			}
			return true
		})
		switch {
		case be.fail != "":
			run.Undecided("vole-product-shares", "vole.Sender.Mul", p.Rel(fs.Pos()), be.fail)
		case len(be.sent) != 1 || kept == nil:
			run.Undecided("vole-product-shares", "vole.Sender.Mul", p.Rel(fs.Pos()), "the u element or the kept share was not found")
		default:
			diff := be.sent[0].add(kept, -1)
			want := zvar("x").mul(zvar("y"))
			if diff.String() == want.String() {
				run.OK("vole-product-shares", "vole.Sender.Mul", p.Rel(fs.Pos()), "u - r = "+diff.String())
			} else {
				run.Violate("vole-product-shares", "vole.Sender.Mul", p.Rel(fs.Pos()), "u - r = "+diff.String()+", expected x*y", nil)
			}
		}
		// layout constants
		widths := map[int64][]string{}
		note := func(k int64, where string) { widths[k] = append(widths[k], where) }
		for name, fd := range map[string]*ast.FuncDecl{"Sender.Mul": fs, "Receiver.Mul": fr} {
			ast.Inspect(fd.Body, func(n ast.Node) bool {
				be, ok := n.(*ast.BinaryExpr)
				if !ok {
					return true
				}
				l := types.ExprString(be.X)
				if (be.Op == token.MUL && (l == "m" || l == "i")) || (be.Op == token.ADD && l == "off") {
					if k, ok := constOf(pkg, be.Y); ok {
						note(k, name)
					}
				}
				return true
			})
		}
		if _, fb := dispatch.FindFunc(p, "vole", "", "bytes32"); fb != nil {
			ast.Inspect(fb.Body, func(n ast.Node) bool {
				if c, ok := n.(*ast.CallExpr); ok && types.ExprString(c.Fun) == "make" && len(c.Args) == 2 {
					if k, ok := constOf(pkg, c.Args[1]); ok {
						note(k, "bytes32")
					}
				}
				return true
			})
		}
		run.Count("layout-constants", len(widths))
		if len(widths) == 1 {
			for k, where := range widths {
				run.OK("vole-element-layout", "vole/element-width", "", fmt.Sprintf("W=%d at %d sites", k, len(where)))
			}
		} else {
			run.Violate("vole-element-layout", "vole/element-width", p.Rel(fs.Pos()), fmt.Sprintf("element widths disagree: %v", widths), nil)
		}
	}
	// Fx over GF(2)
	bp := p.ByPath[load.Module+"/bmr"]
	for _, pr := range [][2]string{{"FxSend", "FxReceive"}, {"FxkSend", "FxkReceive"}} {
		key := "bmr." + pr[0] + "/" + pr[1]
		run.Count("fx-pairs", 1)
		_, fsnd := dispatch.FindFunc(p, "bmr", "", pr[0])
		_, frcv := dispatch.FindFunc(p, "bmr", "", pr[1])
		if bp == nil || fsnd == nil || frcv == nil {
			run.Undecided("fx-product-shares", key, "", "function not found")
			continue
		}
		env := map[string]gpoly{}
		var l0, l1, kept gpoly
		fail := ""
		for _, prm := range fsnd.Type.Params.List {
			for _, n := range prm.Names {
				if n.Name != "oti" {
					env[n.Name] = gvar("a")
				}
			}
		}
		val := func(e ast.Expr) gpoly {
			e = ast.Unparen(unwrapConv(e))
			if c, ok := e.(*ast.CallExpr); ok {
				if _, name, _ := callName(c); name == "ToOT" {
					e = c.Fun.(*ast.SelectorExpr).X
				}
			}
			if be, ok := e.(*ast.BinaryExpr); ok && be.Op == token.AND { // rl[0] & 1
				e = be.X
			}
			if v, ok := env[baseName(e)]; ok {
				return v
			}
			fail = "value of " + types.ExprString(e) + " is not known"
			return nil
		}
		for _, s := range fsnd.Body.List {
			switch x := s.(type) {
			case *ast.AssignStmt:
				if len(x.Rhs) == 1 {
					if c, ok := x.Rhs[0].(*ast.CallExpr); ok {
						_, name, _ := callName(c)
						switch name {
						case "NewLabel":
							env[types.ExprString(x.Lhs[0])] = gvar("r")
							continue
						case "Send":
							continue
						}
					}
					if cl, ok := x.Rhs[0].(*ast.CompositeLit); ok {
						for _, e := range cl.Elts {
							if kv, ok := e.(*ast.KeyValueExpr); ok {
								switch types.ExprString(kv.Key) {
								case "L0":
									l0 = val(kv.Value)
								case "L1":
									l1 = val(kv.Value)
								}
							}
						}
						continue
					}
					if len(x.Lhs) == 1 {
						if v := val(x.Rhs[0]); v != nil {
							env[baseName(x.Lhs[0])] = v
						}
					}
				}
			case *ast.DeclStmt:
				if gd, ok := x.Decl.(*ast.GenDecl); ok {
					for _, sp := range gd.Specs {
						if vs, ok := sp.(*ast.ValueSpec); ok {
							for _, n := range vs.Names {
								env[n.Name] = gpoly{}
							}
						}
					}
				}
			case *ast.ExprStmt:
				if c, ok := x.X.(*ast.CallExpr); ok {
					if sel, ok := c.Fun.(*ast.SelectorExpr); ok && sel.Sel.Name == "Xor" {
						if v := val(c.Args[0]); v != nil {
							env[baseName(sel.X)] = env[baseName(sel.X)].xor(v)
						}
					}
				}
			case *ast.ReturnStmt:
				if len(x.Results) >= 1 {
					kept = val(x.Results[0])
				} else {
					kept = env["r"]
				}
			}
		}
		if kept == nil {
			if v, ok := env["r"]; ok {
				kept = v // named result r
			}
		}
		// receiver: the flag and what is returned
		var choice gpoly
		ast.Inspect(frcv.Body, func(n ast.Node) bool {
			if cl, ok := n.(*ast.CompositeLit); ok && strings.Contains(types.ExprString(cl.Type), "bool") && len(cl.Elts) == 1 {
				if be, ok := cl.Elts[0].(*ast.BinaryExpr); ok && (be.Op == token.EQL || be.Op == token.NEQ) {
					lit := types.ExprString(be.Y)
					choice = gvar("b")
					if (lit == "0") != (be.Op == token.NEQ) {
						choice = choice.xor(gone())
					}
				}
			}
			return true
		})
		switch {
		case fail != "" || l0 == nil || l1 == nil || kept == nil || choice == nil:
			run.Undecided("fx-product-shares", key, p.Rel(fsnd.Pos()), "offer, kept share or choice flag not found "+fail)
		default:
			got := l0.xor(choice.and(l0.xor(l1)))
			sum := got.xor(kept)
			want := gvar("a").and(gvar("b"))
			if sum.String() == want.String() {
				run.OK("fx-product-shares", key, p.Rel(fsnd.Pos()), "r ^ x_b = "+sum.String())
			} else {
				run.Violate("fx-product-shares", key, p.Rel(fsnd.Pos()), "the two results add up to "+sum.String()+", expected a·b", nil)
			}
		}
	}
	run.Floor("fx-pairs", 2)

	// label transport through the OT: ToOT and FromOT move the whole bmr label
	run.Rule("bmr-label-transport", "Label.ToOT reads and Label.FromOT writes the same number of bytes with the same byte order, and that number is the size of a bmr label")
	_, fto := dispatch.FindFunc(p, "bmr", "Label", "ToOT")
	_, ffrom := dispatch.FindFunc(p, "bmr", "Label", "FromOT")
	if bp == nil || fto == nil || ffrom == nil {
		run.Undecided("bmr-label-transport", "bmr.Label.ToOT/FromOT", "", "function not found")
		return
	}
	codecOf := func(fd *ast.FuncDecl, prefix string) (order string, bits int64) {
		ast.Inspect(fd.Body, func(n ast.Node) bool {
			if c, ok := n.(*ast.CallExpr); ok {
				f := types.ExprString(c.Fun)
				if i := strings.LastIndex(f, "."+prefix); i >= 0 && strings.HasPrefix(f, "binary.") {
					order = f[len("binary."):i]
					fmt.Sscanf(f[i+1+len(prefix):], "%d", &bits)
				}
			}
			return true
		})
		return
	}
	o1, b1 := codecOf(fto, "Uint")
	o2, b2 := codecOf(ffrom, "PutUint")
	size := int64(-1)
	if lt, err := p.Type("bmr", "Label"); err == nil {
		if at, ok := lt.Underlying().(*types.Array); ok {
			size = at.Len() * 8
		}
	}
	if o1 != "" && o1 == o2 && b1 == b2 && b1 == size {
		run.OK("bmr-label-transport", "bmr.Label.ToOT/FromOT", p.Rel(fto.Pos()), fmt.Sprintf("%s, %d bits", o1, b1))
	} else {
		run.Violate("bmr-label-transport", "bmr.Label.ToOT/FromOT", p.Rel(fto.Pos()), fmt.Sprintf("ToOT reads %s/%d bits, FromOT writes %s/%d bits, a label has %d bits", o1, b1, o2, b2, size), nil)
	}
}
