package props

import (
	"fmt"
	"go/token"
	"go/types"
	"sort"
	"strings"

	"golang.org/x/tools/go/ssa"

	"mpcverif/internal/load"
	"mpcverif/internal/report"
)

// cachedBuffers decides the cells of sync/atomic that cache a *buffer* between calls (atomic.Pointer[T] with T
// not a type of package sync).  A buffer that one call leaves for the next is safe to share between
// goroutines only if whoever takes it owns it: it is taken with Swap(nil) (or a successful CompareAndSwap to
// nil), never merely Loaded and then written, and it is cleared before its contents can be read as this
// call's.  Loading the cell and clearing or writing the buffer it points to hands the same memory to every
// concurrent caller (two overlapping Compute calls share their wire values).  The result maps the cell's
// key (pkg.Type.field) to "" when the discipline holds, and to the reason when it does not.
func cachedBuffers(p *load.Program, run *report.Run, pkgs []string) map[string]string {
	const rule = "cached-buffer-exclusive-and-cleared"
	run.Rule(rule, "a buffer cached in a sync/atomic.Pointer field between calls is taken with Swap(nil) — not Loaded — by whoever goes on to write or return it, and a taken buffer is cleared (clear, or a loop over its full length) before it is used")
	want := map[string]bool{}
	for _, rel := range pkgs {
		want[load.Module+"/"+rel] = true
	}
	out := map[string]string{}
	var fns []*ssa.Function
	for _, fn := range p.AllFunctions() {
		if fn.Pkg == nil || !want[fn.Pkg.Pkg.Path()] || fn.Blocks == nil || strings.HasSuffix(p.Fset.Position(fn.Pos()).Filename, "_test.go") {
			continue
		}
		fns = append(fns, fn)
	}
	sort.Slice(fns, func(i, j int) bool { return fns[i].Pos() < fns[j].Pos() })
	for _, fn := range fns {
		for _, b := range fn.Blocks {
			for _, ins := range b.Instrs {
				c, ok := ins.(*ssa.Call)
				if !ok || c.Call.StaticCallee() == nil || len(c.Call.Args) == 0 {
					continue
				}
				cs := c.Call.StaticCallee().String()
				if !strings.HasPrefix(cs, "(*sync/atomic.Pointer[") || strings.HasPrefix(cs, "(*sync/atomic.Pointer[sync.") {
					continue
				}
				fa, ok := c.Call.Args[0].(*ssa.FieldAddr)
				if !ok {
					continue
				}
				owner := fa.X.Type().String()
				if pt, ok := fa.X.Type().Underlying().(*types.Pointer); ok {
					if n, ok := pt.Elem().(*types.Named); ok {
						owner = n.Obj().Pkg().Name() + "." + n.Obj().Name()
					}
				}
				key := owner + "." + structFieldName(fa.X.Type(), fa.Field)
				// only a plain buffer (a slice or array of a basic type) is *covered* by this rule; a cached
				// object with structure of its own stays in the inventory of kept state
				targ := strings.TrimPrefix(cs, "(*sync/atomic.Pointer[")
				if i := strings.LastIndex(targ, "])."); i >= 0 {
					targ = targ[:i]
				}
				plain := strings.HasPrefix(targ, "[") && !strings.Contains(targ, "/") && !strings.Contains(targ, ".")
				if _, seen := out[key]; !seen && plain {
					out[key] = ""
				}
				name := c.Call.StaticCallee().Name()
				if name != "Load" && name != "Swap" {
					continue
				}
				// the buffer behind the pointer: loads of *p
				var derefs []ssa.Value
				if c.Referrers() != nil {
					for _, r := range *c.Referrers() {
						if u, ok := r.(*ssa.UnOp); ok && u.Op == token.MUL {
							derefs = append(derefs, u)
						}
					}
				}
				written, returned, cleared := false, false, false
				// the loaded pointer itself handed on (returned, stored, passed) without having been taken: a
				// CompareAndSwap(p, nil) whose result is tested takes it
				if name == "Load" && c.Referrers() != nil {
					taken := false
					for _, r := range *c.Referrers() {
						if cas, ok := r.(*ssa.Call); ok && cas.Call.StaticCallee() != nil && cas.Call.StaticCallee().Name() == "CompareAndSwap" && cas.Referrers() != nil {
							for _, r2 := range *cas.Referrers() {
								if _, isIf := r2.(*ssa.If); isIf {
									taken = true
								}
								if u, ok := r2.(*ssa.UnOp); ok && u.Op == token.NOT {
									taken = true
								}
							}
						}
					}
					for _, r := range *c.Referrers() {
						switch t := r.(type) {
						case *ssa.Return, *ssa.Store, *ssa.MakeInterface:
							if !taken {
								returned = true
							}
						case *ssa.Phi:
							if !taken && t.Referrers() != nil {
								for _, r2 := range *t.Referrers() {
									switch r2.(type) {
									case *ssa.Return, *ssa.Store, *ssa.MakeInterface:
										returned = true
									}
								}
							}
						}
					}
					if strings.HasPrefix(cs, "(*sync/atomic.Pointer[sync.") {
						returned = false
					}
				}
				var follow func(v ssa.Value, depth int)
				follow = func(v ssa.Value, depth int) {
					if depth > 4 || v.Referrers() == nil {
						return
					}
					for _, r := range *v.Referrers() {
						switch t := r.(type) {
						case *ssa.IndexAddr:
							if t.Referrers() != nil {
								for _, r2 := range *t.Referrers() {
									if st, ok := r2.(*ssa.Store); ok && st.Addr == ssa.Value(t) {
										written = true
									}
								}
							}
						case *ssa.Slice:
							follow(t, depth+1)
						case *ssa.Phi:
							follow(t, depth+1)
						case *ssa.Return:
							returned = true
						case *ssa.Store:
							if t.Val == v {
								returned = true // kept in a variable or field: it escapes this use
							}
						case *ssa.Call:
							if bi, ok := t.Call.Value.(*ssa.Builtin); ok {
								switch bi.Name() {
								case "clear":
									written, cleared = true, true
								case "copy":
									if len(t.Call.Args) > 0 && t.Call.Args[0] == v {
										written = true
									}
								}
							} else {
								returned = true // handed to a function that may write it
							}
						}
					}
				}
				for _, d := range derefs {
					follow(d, 0)
				}
				ckey := fmt.Sprintf("%s/%s", strings.ReplaceAll(fn.RelString(nil), load.Module+"/", ""), key)
				switch {
				case name == "Load" && (written || returned):
					msg := "the buffer is obtained with Load and then written or handed on: Load does not take it, so every caller that arrives before it is put back gets the same memory — overlapping calls overwrite each other's values"
					out[key] = msg
					run.Violate(rule, ckey, p.Rel(c.Pos()), msg, nil)
				case name == "Swap" && len(derefs) > 0 && !cleared:
					msg := "the buffer taken from the cell is used without being cleared: it still holds the previous call's values"
					out[key] = msg
					run.Violate(rule, ckey, p.Rel(c.Pos()), msg, nil)
				default:
					run.OK(rule, ckey, p.Rel(c.Pos()), name)
				}
			}
		}
	}
	return out
}
