package props

import (
	"go/ast"
	"go/parser"
	"go/token"
	"go/types"
	"sort"
	"strings"

	"golang.org/x/tools/go/ssa"
	"golang.org/x/tools/go/ssa/ssautil"

	"mpcverif/internal/load"
	"mpcverif/internal/report"
)

// CallerSlices: the protocol code never appends to a slice it was handed.
//
// `s = append(s, x...)` on a slice parameter writes into the caller's backing array whenever the caller
// passed a sub-slice with spare capacity — and the roles do exactly that: circuit.Garbler and
// circuit.Evaluator hand `wires[offset:offset+count]` of the garbling's wire array to the OT.  Padding a
// batch to a multiple of eight, or making the check OTs "the tail of the batch", then overwrites the
// labels (or choice bits) that lie behind the batch in the caller's array, although every length and every
// message on the wire is unchanged.  The rule is decided on the SSA form: the first operand of every
// `append` in the protocol packages is traced through re-slicing without a capacity limit (`s[a:b]`, not
// `s[a:b:c]`) and through phis; if it can be a parameter of the function the call is reported.  The
// module has no such site today, so the rule carries a built-in positive and negative example that is
// compiled to SSA and classified on every run.
func CallerSlices(p *load.Program, run *report.Run) {
	const rule = "no-append-to-caller-slice"
	run.Rule(rule, "in the protocol packages (ot, circuit, p2p, gmw, vole, bmr, sha2pc, compiler/ssa) the first operand of an append is never a slice parameter of the function, directly, re-sliced without a capacity limit, or through a loop-carried variable that starts as one; with a built-in positive and negative example")
	pkgs := map[string]bool{}
	for _, rel := range []string{"ot", "circuit", "p2p", "gmw", "vole", "bmr", "sha2pc", "compiler/ssa"} {
		pkgs[load.Module+"/"+rel] = true
	}
	var fns []*ssa.Function
	for _, fn := range p.AllFunctions() {
		if fn.Pkg == nil || !pkgs[fn.Pkg.Pkg.Path()] || fn.Blocks == nil || strings.HasSuffix(p.Fset.Position(fn.Pos()).Filename, "_test.go") {
			continue
		}
		fns = append(fns, fn)
	}
	sort.Slice(fns, func(i, j int) bool { return fns[i].Pos() < fns[j].Pos() })
	sites := 0
	for _, fn := range fns {
		n, bad := appendsToParam(fn)
		sites += n
		for _, c := range bad {
			key := strings.ReplaceAll(fn.RelString(nil), load.Module+"/", "") + "/append(" + c.param + ", …)"
			run.Violate(rule, key, p.Rel(c.call.Pos()), "append to the slice parameter "+c.param+": when the caller passes a sub-slice with spare capacity (the garbler and the evaluator pass windows of the garbling's wire array) the appended elements overwrite what lies behind it in the caller's array", nil)
		}
	}
	run.Count("append-sites", sites)
	run.Floor("append-sites", 20)
	// built-in examples
	fset := token.NewFileSet()
	f, err := parser.ParseFile(fset, "example.go", callerSliceExample, 0)
	if err != nil {
		run.Undecided(rule, "built-in example", "", err.Error())
		return
	}
	pkg := types.NewPackage("example", "example")
	spkg, _, err := ssautil.BuildPackage(&types.Config{}, fset, pkg, []*ast.File{f}, ssa.InstantiateGenerics)
	if err != nil {
		run.Undecided(rule, "built-in example", "", err.Error())
		return
	}
	want := map[string]int{"padInPlace": 1, "tailOfBatch": 1, "padCopy": 0, "limited": 0, "local": 0, "appendIdiom": 0}
	okAll := true
	for name, w := range want {
		fn := spkg.Func(name)
		if fn == nil {
			okAll = false
			continue
		}
		if _, bad := appendsToParam(fn); len(bad) != w {
			okAll = false
			run.Undecided(rule, "built-in example/"+name, "", "the rule misclassifies its built-in example")
		}
	}
	if okAll {
		run.Count("caller-slice-examples", len(want))
		run.OK(rule, "built-in examples", "", "in-place padding and loop-carried append recognised; copy, capacity-limited re-slice and local slice accepted")
	}
	run.Floor("caller-slice-examples", 6)
}

type paramAppend struct {
	call  *ssa.Call
	param string
}

func appendsToParam(fn *ssa.Function) (int, []paramAppend) {
	n := 0
	var bad []paramAppend
	for _, b := range fn.Blocks {
		for _, ins := range b.Instrs {
			c, ok := ins.(*ssa.Call)
			if !ok {
				continue
			}
			bi, ok := c.Call.Value.(*ssa.Builtin)
			if !ok || bi.Name() != "append" || len(c.Call.Args) == 0 {
				continue
			}
			n++
			seen := map[ssa.Value]bool{}
			var origin func(v ssa.Value, depth int) string
			origin = func(v ssa.Value, depth int) string {
				if seen[v] || depth > 12 {
					return ""
				}
				seen[v] = true
				switch t := v.(type) {
				case *ssa.Parameter:
					return t.Name()
				case *ssa.Slice:
					if t.Max != nil {
						return "" // s[a:b:c]: the capacity is limited, append copies
					}
					return origin(t.X, depth+1)
				case *ssa.Phi:
					for _, e := range t.Edges {
						if r := origin(e, depth+1); r != "" {
							return r
						}
					}
				case *ssa.Call:
					// the result of an earlier append into the same backing array
					if b2, ok := t.Call.Value.(*ssa.Builtin); ok && b2.Name() == "append" && len(t.Call.Args) > 0 {
						return origin(t.Call.Args[0], depth+1)
					}
				case *ssa.ChangeType:
					return origin(t.X, depth+1)
				}
				return ""
			}
			if prm := origin(c.Call.Args[0], 0); prm != "" && !reachesReturn(c) {
				bad = append(bad, paramAppend{c, prm})
			}
		}
	}
	return n, bad
}

// reachesReturn: the appended slice is handed back to the caller (the strconv.AppendInt idiom: the caller
// passes a buffer in order to have it extended and uses the result).
func reachesReturn(c *ssa.Call) bool {
	seen := map[ssa.Value]bool{}
	var walk func(v ssa.Value, depth int) bool
	walk = func(v ssa.Value, depth int) bool {
		if seen[v] || depth > 12 || v.Referrers() == nil {
			return false
		}
		seen[v] = true
		for _, r := range *v.Referrers() {
			switch t := r.(type) {
			case *ssa.Return:
				return true
			case *ssa.Phi:
				if walk(t, depth+1) {
					return true
				}
			case *ssa.Slice:
				if walk(t, depth+1) {
					return true
				}
			case *ssa.Call:
				if b, ok := t.Call.Value.(*ssa.Builtin); ok && b.Name() == "append" && len(t.Call.Args) > 0 && t.Call.Args[0] == v {
					if walk(t, depth+1) {
						return true
					}
				}
			case *ssa.Store:
				// a result spilled through a cell (functions with defer)
				if al, ok := t.Addr.(*ssa.Alloc); ok && t.Val == v {
					for _, r2 := range *al.Referrers() {
						if ld, ok := r2.(*ssa.UnOp); ok && walk(ld, depth+1) {
							return true
						}
					}
				}
			}
		}
		return false
	}
	return walk(c, 0)
}

const callerSliceExample = `package example

type wire struct{ a, b uint64 }

func padInPlace(wires []wire) int {
	if pad := (8 - len(wires)%8) % 8; pad > 0 {
		wires = append(wires, make([]wire, pad)...)
	}
	return len(wires)
}

func appendIdiom(buf []byte, v byte) []byte {
	return append(buf, v)
}

func tailOfBatch(flags []bool, extra []bool) int {
	for _, e := range extra {
		flags = append(flags, e)
	}
	return len(flags)
}

func padCopy(wires []wire) []wire {
	own := make([]wire, len(wires), len(wires)+8)
	copy(own, wires)
	own = append(own, wire{})
	return own
}

func limited(flags []bool, extra []bool) []bool {
	return append(flags[:len(flags):len(flags)], extra...)
}

func local(n int) []int {
	var out []int
	for i := 0; i < n; i++ {
		out = append(out, i)
	}
	return out
}
`

// buildExample compiles a self-contained example to SSA and returns a lookup of its functions and methods.
func buildExample(src string) (func(name string) *ssa.Function, error) {
	fset := token.NewFileSet()
	f, err := parser.ParseFile(fset, "example.go", src, 0)
	if err != nil {
		return nil, err
	}
	pkg := types.NewPackage("example", "example")
	spkg, _, err := ssautil.BuildPackage(&types.Config{}, fset, pkg, []*ast.File{f}, ssa.InstantiateGenerics)
	if err != nil {
		return nil, err
	}
	return func(name string) *ssa.Function {
		if fn := spkg.Func(name); fn != nil {
			return fn
		}
		for _, m := range spkg.Members {
			if t, ok := m.(*ssa.Type); ok {
				for _, recv := range []types.Type{t.Type(), types.NewPointer(t.Type())} {
					ms := spkg.Prog.MethodSets.MethodSet(recv)
					for i := 0; i < ms.Len(); i++ {
						if ms.At(i).Obj().Name() == name {
							return spkg.Prog.MethodValue(ms.At(i))
						}
					}
				}
			}
		}
		return nil
	}, nil
}

// typecheckExample parses and type-checks a self-contained example.
func typecheckExample(src string) (*types.Info, []*ast.File, error) {
	fset := token.NewFileSet()
	f, err := parser.ParseFile(fset, "example.go", src, 0)
	if err != nil {
		return nil, nil, err
	}
	info := &types.Info{Types: map[ast.Expr]types.TypeAndValue{}, Defs: map[*ast.Ident]types.Object{}, Uses: map[*ast.Ident]types.Object{}, Selections: map[*ast.SelectorExpr]*types.Selection{}}
	if _, err := (&types.Config{}).Check("example", fset, []*ast.File{f}, info); err != nil {
		return nil, nil, err
	}
	return info, []*ast.File{f}, nil
}
