package props

import (
	"fmt"
	"go/token"
	"sort"
	"strings"

	"golang.org/x/tools/go/ssa"

	"mpcverif/internal/load"
	"mpcverif/internal/report"
)

// ConstBalance: a reference to a constant is dropped only where one was taken.
//
// The generator counts the uses of every constant (AddConstant / RemoveConstant) and the program defines —
// gives wires to — the constants whose count is positive.  Dropping a reference for a value that was never
// registered takes it from another use of the same constant: `x * 4` lowered to a shift by a freshly made,
// unregistered `2` removes the `2` that `g + 2` registered, the program no longer defines it, and in
// streaming mode its wires are never garbled (zero labels in a non-free gate send the other input's label,
// or the offset, in clear).  Every value handed to RemoveConstant comes from an evaluation (the value list
// of an SSA/value call, an argument list) — which registers what it folds — or from Generator.Constant with
// an AddConstant on the same value before it; a parameter is followed to every call site.
func ConstBalance(p *load.Program, run *report.Run) {
	const rule = "constant-reference-balanced"
	run.Rule(rule, "in compiler/ast and compiler/ssa: the argument of every Generator.RemoveConstant is a value taken from an evaluation result or argument list, or the result of Generator.Constant that an AddConstant on the same value dominates; a parameter is followed to the arguments of every static call site (three levels); with built-in examples")
	var fns []*ssa.Function
	for _, fn := range p.AllFunctions() {
		if fn.Pkg == nil || fn.Blocks == nil || fn.Synthetic != "" || strings.HasSuffix(p.Fset.Position(fn.Pos()).Filename, "_test.go") {
			continue
		}
		if pp := fn.Pkg.Pkg.Path(); pp != load.Module+"/compiler/ast" && pp != load.Module+"/compiler/ssa" {
			continue
		}
		fns = append(fns, fn)
	}
	sort.Slice(fns, func(i, j int) bool { return fns[i].Pos() < fns[j].Pos() })
	sites := constBalanceSites(fns)
	for _, s := range sites {
		key := strings.ReplaceAll(s.fn.RelString(nil), load.Module+"/", "") + "/RemoveConstant#" + fmt.Sprint(s.nth)
		if s.why == "" {
			run.OK(rule, key, p.Rel(s.pos), s.note)
		} else {
			run.Violate(rule, key, p.Rel(s.pos), s.why, nil)
		}
	}
	run.Count("remove-constant-sites", len(sites))
	run.Floor("remove-constant-sites", 1)
	look, err := buildExample(constBalanceExample)
	if err != nil {
		run.Undecided(rule, "built-in example", "", err.Error())
		return
	}
	got := map[string]bool{}
	for _, s := range constBalanceSites(exampleFuncsOf(look, "anchor")) {
		got[s.fn.Name()] = s.why == ""
	}
	if len(got) != 2 || got["shiftInstr"] || !got["direct"] {
		run.Undecided(rule, "built-in example", "", fmt.Sprintf("the rule misclassifies its built-in example: %v", got))
		return
	}
	run.Count("constant-balance-examples", 2)
	run.OK(rule, "built-in examples", "", "a helper that drops the reference of a count one of its callers made without registering it is reported; dropping the reference of an evaluated operand is accepted")
	run.Floor("constant-balance-examples", 2)
}

type constBalanceSite struct {
	fn        *ssa.Function
	nth       int
	pos       token.Pos
	why, note string
}

func constBalanceSites(fns []*ssa.Function) []constBalanceSite {
	callers := map[*ssa.Function][]ssa.CallInstruction{}
	for _, fn := range fns {
		for _, b := range fn.Blocks {
			for _, ins := range b.Instrs {
				if c, ok := ins.(ssa.CallInstruction); ok {
					if callee := c.Common().StaticCallee(); callee != nil {
						callers[callee] = append(callers[callee], c)
					}
				}
			}
		}
	}
	isGenMethod := func(c *ssa.Call, name string) bool {
		callee := c.Call.StaticCallee()
		return callee != nil && callee.Name() == name && callee.Signature.Recv() != nil && strings.HasSuffix(callee.Signature.Recv().Type().String(), "Generator")
	}
	// origin: "" when the value is registered by construction, else the reason
	var origin func(v ssa.Value, at ssa.Instruction, depth int) string
	origin = func(v ssa.Value, at ssa.Instruction, depth int) string {
		if depth > 6 {
			return ""
		}
		switch t := v.(type) {
		case *ssa.Call:
			if isGenMethod(t, "Constant") {
				// needs AddConstant(v) dominating the use
				if t.Referrers() != nil {
					for _, r := range *t.Referrers() {
						if c, ok := r.(*ssa.Call); ok && isGenMethod(c, "AddConstant") {
							if c.Block() == at.Block() && instrIndex(c) < instrIndex(at) || c.Block() != at.Block() && c.Block().Dominates(at.Block()) {
								return ""
							}
						}
					}
				}
				return fmt.Sprintf("the value is made by Generator.Constant in %s and no AddConstant on it comes before", t.Parent().Name())
			}
			return "" // an evaluation
		case *ssa.Extract:
			return origin(t.Tuple, at, depth+1)
		case *ssa.UnOp:
			if t.Op == token.MUL {
				if al, ok := t.X.(*ssa.Alloc); ok && al.Referrers() != nil {
					for _, r := range *al.Referrers() {
						if st, ok := r.(*ssa.Store); ok && st.Addr == ssa.Value(al) {
							if why := origin(st.Val, at, depth+1); why != "" {
								return why
							}
						}
					}
				}
			}
			return "" // an element of a value list
		case *ssa.Phi:
			for _, e := range t.Edges {
				if why := origin(e, at, depth+1); why != "" {
					return why
				}
			}
			return ""
		case *ssa.Parameter:
			fn := t.Parent()
			idx := -1
			for i, prm := range fn.Params {
				if prm == t {
					idx = i
				}
			}
			if depth > 3 {
				return ""
			}
			for _, c := range callers[fn] {
				if idx >= 0 && idx < len(c.Common().Args) {
					if why := origin(c.Common().Args[idx], c, depth+2); why != "" {
						return fmt.Sprintf("%s (handed to %s by %s)", why, fn.Name(), c.Parent().Name())
					}
				}
			}
			return ""
		}
		return ""
	}
	var out []constBalanceSite
	for _, fn := range fns {
		nth := 0
		for _, b := range fn.Blocks {
			for _, ins := range b.Instrs {
				c, ok := ins.(*ssa.Call)
				if !ok || !isGenMethod(c, "RemoveConstant") || len(c.Call.Args) != 2 {
					continue
				}
				nth++
				s := constBalanceSite{fn: fn, nth: nth, pos: c.Pos()}
				if why := origin(c.Call.Args[1], c, 0); why != "" {
					s.why = "a reference is dropped for a constant that was never registered: " + why + " — the reference taken away belongs to another use of the same constant, which the program then no longer defines"
				} else {
					s.note = "the value comes from an evaluation or was registered before"
				}
				out = append(out, s)
			}
		}
	}
	return out
}

const constBalanceExample = `package example

type Value struct {
	Name  string
	Const bool
}

type Generator struct{ refs map[string]int }

func (g *Generator) Constant(k int) Value    { return Value{Name: "c", Const: true} }
func (g *Generator) AddConstant(v Value)     { g.refs[v.Name]++ }
func (g *Generator) RemoveConstant(v Value)  { g.refs[v.Name]-- }

func anchor() {}

func eval(g *Generator, k int) (Value, error) {
	v := g.Constant(k)
	g.AddConstant(v)
	return v, nil
}

func shiftInstr(g *Generator, v, count Value) Value {
	if count.Const {
		g.RemoveConstant(count)
	}
	return v
}

func shift(g *Generator, k int) (Value, error) {
	l, _ := eval(g, 1)
	r, err := eval(g, k)
	if err != nil {
		return l, err
	}
	return shiftInstr(g, l, r), nil
}

func mulPow2(g *Generator, v Value, k int) Value {
	count := g.Constant(k)
	return shiftInstr(g, v, count)
}

func direct(g *Generator, k int) (Value, error) {
	r, err := eval(g, k)
	if err != nil {
		return r, err
	}
	g.RemoveConstant(r)
	return r, nil
}
`
