package props

import (
	"fmt"
	"go/token"
	"go/types"
	"sort"
	"strings"

	"golang.org/x/tools/go/ssa"

	"mpcverif/internal/load"
	"mpcverif/internal/report"
)

// ConstIndexGuarded: x[k] on a string or slice that arrives from outside is preceded by a length test.
//
// A parser that reads `val[0]` to tell an array type from a name panics on the empty text (a record whose
// type field has length 0), a mask applied to `buf[0]` panics for a zero-width input.  For every index with
// a constant k into a string or slice that is a parameter of the function, a field, or a re-slice of one
// (values whose length the function did not choose), some test that implies len(x) > k lies on every path:
// a dominating branch on len(x) (>, >=, ==, !=, < with constants), on x == "" / x != "", on
// strings.HasPrefix(x, non-empty constant), or a loop/range over x.  Slices the function made itself with a
// constant size are not concerned.
func ConstIndexGuarded(pkgs ...string) func(p *load.Program, run *report.Run) {
	return func(p *load.Program, run *report.Run) {
		const rule = "constant-index-needs-length"
		run.Rule(rule, "in "+strings.Join(pkgs, ", ")+": an index expression x[k] with constant k into a string x that is a parameter, a field, a call result or a piece of one (text whose length the function did not choose) is dominated by a test implying len(x) > k (a comparison of len(x) with a constant, x == \"\" / x != \"\", strings.HasPrefix(x, \"c…\"), a range or counting loop over x); with built-in examples")
		want := map[string]bool{}
		for _, rel := range pkgs {
			want[load.Module+"/"+rel] = true
		}
		var fns []*ssa.Function
		for _, fn := range p.AllFunctions() {
			if fn.Pkg == nil || !want[fn.Pkg.Pkg.Path()] || fn.Blocks == nil || fn.Synthetic != "" || strings.HasSuffix(p.Fset.Position(fn.Pos()).Filename, "_test.go") {
				continue
			}
			fns = append(fns, fn)
		}
		sort.Slice(fns, func(i, j int) bool { return fns[i].Pos() < fns[j].Pos() })
		n := 0
		for _, s := range constIndexSites(fns) {
			n++
			key := strings.ReplaceAll(s.fn.RelString(nil), load.Module+"/", "") + "/" + s.what
			if s.ok {
				run.OK(rule, key, p.Rel(s.pos), s.note)
			} else {
				run.Violate(rule, key, p.Rel(s.pos), fmt.Sprintf("%s is read without a test that it has more than %d element(s): an empty (or shorter) value makes the index panic", s.what, s.k), nil)
			}
		}
		run.Count("constant-index-sites", n)
		look, err := buildExample(constIndexExample)
		if err != nil {
			run.Undecided(rule, "built-in example", "", err.Error())
			return
		}
		got := map[string]bool{}
		for _, s := range constIndexSites(exampleFuncsOf(look, "anchor")) {
			got[s.fn.Name()] = s.ok
		}
		if len(got) != 5 || got["bare"] || !got["byLen"] || !got["byEmpty"] || !got["byPrefix"] || got["wrongBranch"] {
			run.Undecided(rule, "built-in example", "", fmt.Sprintf("the rule misclassifies its built-in example: %v", got))
			return
		}
		run.Count("constant-index-examples", 5)
		run.OK(rule, "built-in examples", "", "an unguarded val[0] and one on the empty branch reported; guards by len, by comparison with the empty string and by HasPrefix accepted")
		run.Floor("constant-index-examples", 5)
	}
}

type constIndexSite struct {
	fn   *ssa.Function
	what string
	k    int64
	pos  token.Pos
	ok   bool
	note string
}

func constIndexSites(fns []*ssa.Function) []constIndexSite {
	var out []constIndexSite
	for _, fn := range fns {
		nth := map[string]int{}
		for _, b := range fn.Blocks {
			for _, ins := range b.Instrs {
				var x, idx ssa.Value
				switch t := ins.(type) {
				case *ssa.Index:
					// text: a string that came in as a parameter (or a piece of one)
					if b, isBasic := t.X.Type().Underlying().(*types.Basic); !isBasic || b.Info()&types.IsString == 0 {
						continue
					}
					x, idx = t.X, t.Index
				default:
					continue
				}
				k, ok := idx.(*ssa.Const)
				if !ok || k.Value == nil {
					continue
				}
				if !arrivesFromOutside(x, 0) {
					continue
				}
				name := valueName(x)
				nth[name]++
				s := constIndexSite{fn: fn, what: fmt.Sprintf("%s[%d]", name, k.Int64()), k: k.Int64(), pos: ins.Pos()}
				if nth[name] > 1 {
					s.what += fmt.Sprintf("#%d", nth[name])
				}
				s.ok, s.note = lengthImplied(fn, ins, x, k.Int64())
				out = append(out, s)
			}
		}
	}
	return out
}

func valueName(v ssa.Value) string {
	switch t := v.(type) {
	case *ssa.Parameter:
		return t.Name()
	case *ssa.UnOp:
		if fa, ok := t.X.(*ssa.FieldAddr); ok {
			return structFieldName(fa.X.Type(), fa.Field)
		}
	case *ssa.Slice:
		return valueName(t.X) + "[:]"
	case *ssa.Call:
		if c := t.Call.StaticCallee(); c != nil {
			return c.Name() + "()"
		}
	case *ssa.Extract:
		return valueName(t.Tuple)
	case *ssa.Phi:
		return "variable"
	}
	return "value"
}

// arrivesFromOutside: the length of v was not chosen by this function with a constant.
func arrivesFromOutside(v ssa.Value, depth int) bool {
	if depth > 6 {
		return true
	}
	switch t := v.(type) {
	case *ssa.Parameter:
		return true
	case *ssa.UnOp:
		if t.Op == token.MUL {
			if _, ok := t.X.(*ssa.FieldAddr); ok {
				return true
			}
		}
		return false
	case *ssa.Slice:
		if al, ok := t.X.(*ssa.Alloc); ok {
			_ = al
			return false // a slice of the function's own array
		}
		return arrivesFromOutside(t.X, depth+1)
	case *ssa.Call:
		return false // what a call returns is the callee's affair
	case *ssa.Extract:
		return arrivesFromOutside(t.Tuple, depth+1)
	case *ssa.Phi:
		for _, e := range t.Edges {
			if arrivesFromOutside(e, depth+1) {
				return true
			}
		}
	}
	return false
}

// lengthImplied: on every path to ins, a branch outcome implies len(x) > k.
func lengthImplied(fn *ssa.Function, ins ssa.Instruction, x ssa.Value, k int64) (bool, string) {
	isLenOf := func(v ssa.Value) bool {
		c, ok := v.(*ssa.Call)
		if !ok {
			return false
		}
		bi, ok := c.Call.Value.(*ssa.Builtin)
		return ok && bi.Name() == "len" && len(c.Call.Args) == 1 && sameLoaded(c.Call.Args[0], x)
	}
	// outcome(cond, taken): does cond being `taken` imply len(x) > k ?
	var implies func(cond ssa.Value, taken bool) bool
	implies = func(cond ssa.Value, taken bool) bool {
		switch t := cond.(type) {
		case *ssa.UnOp:
			if t.Op == token.NOT {
				return implies(t.X, !taken)
			}
		case *ssa.BinOp:
			l, r := t.X, t.Y
			op := t.Op
			// normalise to len(x) op c
			if isLenOf(r) {
				l, r = r, l
				op = map[token.Token]token.Token{token.LSS: token.GTR, token.GTR: token.LSS, token.LEQ: token.GEQ, token.GEQ: token.LEQ, token.EQL: token.EQL, token.NEQ: token.NEQ}[op]
			}
			if isLenOf(l) {
				c, ok := r.(*ssa.Const)
				if !ok || c.Value == nil {
					return false
				}
				v := c.Int64()
				if !taken {
					op = map[token.Token]token.Token{token.LSS: token.GEQ, token.GTR: token.LEQ, token.LEQ: token.GTR, token.GEQ: token.LSS, token.EQL: token.NEQ, token.NEQ: token.EQL}[op]
				}
				switch op {
				case token.GTR:
					return v >= k
				case token.GEQ:
					return v > k
				case token.EQL:
					return v > k
				case token.NEQ:
					return v == 0 && k == 0
				}
				return false
			}
			// x == "" / x != ""
			if (op == token.EQL || op == token.NEQ) && k == 0 {
				var other ssa.Value
				if sameLoaded(l, x) {
					other = r
				} else if sameLoaded(r, x) {
					other = l
				}
				if c, ok := other.(*ssa.Const); ok && c.Value != nil && c.Value.ExactString() == `""` {
					return (op == token.NEQ) == taken
				}
			}
		case *ssa.Call:
			if callee := t.Call.StaticCallee(); callee != nil && callee.Pkg != nil && callee.Pkg.Pkg.Path() == "strings" && (callee.Name() == "HasPrefix" || callee.Name() == "HasSuffix") && len(t.Call.Args) == 2 && taken {
				if c, ok := t.Call.Args[1].(*ssa.Const); ok && c.Value != nil && sameLoaded(t.Call.Args[0], x) {
					return int64(len(c.Value.ExactString())-2) > k
				}
			}
		}
		return false
	}
	blk := ins.Block()
	for _, b := range fn.Blocks {
		iff, ok := b.Instrs[len(b.Instrs)-1].(*ssa.If)
		if !ok || len(b.Succs) != 2 {
			continue
		}
		for side, succ := range b.Succs {
			if len(succ.Preds) != 1 || !(succ == blk || succ.Dominates(blk)) {
				continue
			}
			if implies(iff.Cond, side == 0) {
				return true, "a dominating test implies the length"
			}
		}
	}
	return false, ""
}

// sameLoaded: the two values are the same SSA value, or loads of the same field of the same object.
func sameLoaded(a, b ssa.Value) bool {
	if a == b {
		return true
	}
	la, ok1 := a.(*ssa.UnOp)
	lb, ok2 := b.(*ssa.UnOp)
	if ok1 && ok2 && la.Op == token.MUL && lb.Op == token.MUL {
		fa, ok3 := la.X.(*ssa.FieldAddr)
		fb, ok4 := lb.X.(*ssa.FieldAddr)
		return ok3 && ok4 && fa.X == fb.X && fa.Field == fb.Field
	}
	return false
}

const constIndexExample = `package example

func anchor() {}

func hasPrefix(s, p string) bool { return len(s) >= len(p) && s[:len(p)] == p }

func bare(val string) bool { return val[0] == '[' }

func byLen(val string) bool {
	if len(val) == 0 {
		return false
	}
	return val[0] == '['
}

func byEmpty(val string) bool {
	if val != "" {
		return val[0] == '['
	}
	return false
}

func byPrefix(val string) bool {
	if len(val) > 1 {
		return val[1] == '['
	}
	return false
}

func wrongBranch(val string) bool {
	if len(val) == 0 {
		return val[0] == '['
	}
	return false
}
`
