package props

import (
	"fmt"
	"go/ast"
	"go/parser"
	"go/token"
	"go/types"
	"sort"

	"mpcverif/internal/dispatch"
	"mpcverif/internal/load"
	"mpcverif/internal/report"
)

// ConstName: the name of a constant determines its value.
//
// The generator keeps the constants of a program in a table keyed by Value.Name (Generator.AddConstant,
// RemoveConstant) and the circuit gets one set of wires per name.  Generator.Constant builds that name,
// per kind of Go value, in the arms of a type switch.  If an arm builds the name without the value — the
// struct arm named a composite literal by its type only (F41) — two different constants collide: the second
// `P{10, 20}` reads the wires of the first `P{1, 2}`.  The rule: in every arm of that switch the expression
// assigned to the name mentions the switch's value (directly, through locals assigned in the arm, or by
// handing it to a helper), except in arms whose case is a single value (`nil`) or that copy a constant
// that already has a name.
func ConstName(p *load.Program, run *report.Run) {
	const rule = "constant-name-from-value"
	run.Rule(rule, "in compiler/ssa.Generator.Constant, the type switch over the constant's Go value: in every arm that assigns the Name of the result (the key of the generator's constant table), on every path through the arm the last expression assigned to Name mentions the value bound by the switch (directly or through locals assigned from it); arms for nil and arms that take over an existing Value are exempt")
	pkg, fd := dispatch.FindFunc(p, "compiler/ssa", "Generator", "Constant")
	if fd == nil {
		run.Undecided(rule, "compiler/ssa.Generator.Constant", "", "function not found")
		return
	}
	arms, why := constNameArms(pkg.TypesInfo, fd)
	if why != "" {
		run.Undecided(rule, "compiler/ssa.Generator.Constant", p.Rel(fd.Pos()), why)
		return
	}
	n := 0
	for _, a := range arms {
		key := "compiler/ssa.Generator.Constant/case " + a.label
		switch {
		case a.exempt != "":
			run.OK(rule, key, p.Rel(a.pos), a.exempt)
		case a.bad != token.NoPos:
			n++
			run.Violate(rule, key, p.Rel(a.bad), "the name given to this kind of constant does not depend on its value: the constant table is keyed by the name, so two different constants of this kind share one entry and one set of wires, and the second reads the value of the first", nil)
		default:
			n++
			run.OK(rule, key, p.Rel(a.pos), "the name is built from the value")
		}
	}
	run.Count("constant-name-arms", n)
	run.Floor("constant-name-arms", 5)
	// built-in example
	exPkg, exFd, err := parseExampleFunc(constNameExample, "Constant")
	if err != nil {
		run.Undecided(rule, "built-in example", "", err.Error())
		return
	}
	exArms, why := constNameArms(exPkg, exFd)
	got := map[string]string{}
	for _, a := range exArms {
		switch {
		case a.exempt != "":
			got[a.label] = "exempt"
		case a.bad != token.NoPos:
			got[a.label] = "bad"
		default:
			got[a.label] = "ok"
		}
	}
	want := map[string]string{"int64": "ok", "string": "ok", "[]int": "bad", "pair": "bad", "nil": "exempt", "named": "exempt", "bool": "ok"}
	okEx := why == "" && len(got) == len(want)
	for k, v := range want {
		if got[k] != v {
			okEx = false
		}
	}
	if !okEx {
		run.Undecided(rule, "built-in example", "", fmt.Sprintf("the rule misclassifies its built-in example: %v %s", got, why))
		return
	}
	run.Count("constant-name-examples", len(want))
	run.OK(rule, "built-in examples", "", "names built from the value (directly, through a local, through a helper) accepted; a name built from the type only and a name overwritten on one branch reported")
	run.Floor("constant-name-examples", 7)
}

type constNameArm struct {
	label  string
	pos    token.Pos
	bad    token.Pos
	exempt string
}

// constNameArms inspects the type switch of fd that binds the function's first parameter.
func constNameArms(info *types.Info, fd *ast.FuncDecl) ([]constNameArm, string) {
	var ts *ast.TypeSwitchStmt
	ast.Inspect(fd.Body, func(n ast.Node) bool {
		if t, ok := n.(*ast.TypeSwitchStmt); ok && ts == nil {
			if as, ok := t.Assign.(*ast.AssignStmt); ok && len(as.Rhs) == 1 {
				if ta, ok := as.Rhs[0].(*ast.TypeAssertExpr); ok {
					if id, ok := ta.X.(*ast.Ident); ok && len(fd.Type.Params.List) > 0 && len(fd.Type.Params.List[0].Names) > 0 && info.ObjectOf(id) == info.ObjectOf(fd.Type.Params.List[0].Names[0]) {
						ts = t
					}
				}
			}
		}
		return ts == nil
	})
	if ts == nil {
		return nil, "no type switch over the value parameter"
	}
	// the result variable whose Name is assigned: any `x.Name = e`
	var out []constNameArm
	for _, st := range ts.Body.List {
		cc := st.(*ast.CaseClause)
		arm := constNameArm{pos: cc.Pos()}
		if cc.List == nil {
			continue // default: nothing is named
		}
		for i, e := range cc.List {
			if i > 0 {
				arm.label += ","
			}
			arm.label += types.ExprString(e)
		}
		val := info.Implicits[cc]
		if len(cc.List) == 1 {
			if id, ok := cc.List[0].(*ast.Ident); ok && id.Name == "nil" {
				arm.exempt = "one value only"
				out = append(out, arm)
				continue
			}
		}
		// taint: locals assigned (anywhere in the arm) from an expression that mentions val
		tainted := map[types.Object]bool{}
		if val != nil {
			tainted[val] = true
		}
		mentions := func(e ast.Expr) bool {
			found := false
			ast.Inspect(e, func(n ast.Node) bool {
				if id, ok := n.(*ast.Ident); ok && tainted[info.ObjectOf(id)] {
					found = true
				}
				return !found
			})
			return found
		}
		for changed := true; changed; {
			changed = false
			for _, s := range cc.Body {
				ast.Inspect(s, func(n ast.Node) bool {
					switch t := n.(type) {
					case *ast.AssignStmt:
						for i, l := range t.Lhs {
							id, ok := l.(*ast.Ident)
							if !ok {
								continue
							}
							var r ast.Expr
							if len(t.Rhs) == len(t.Lhs) {
								r = t.Rhs[i]
							} else if len(t.Rhs) == 1 {
								r = t.Rhs[0]
							}
							if o := info.ObjectOf(id); o != nil && r != nil && !tainted[o] && mentions(r) {
								tainted[o] = true
								changed = true
							}
						}
					case *ast.IfStmt:
						// a local assigned under a condition on the value depends on it
						if mentions(t.Cond) {
							for _, blk := range []ast.Stmt{t.Body, t.Else} {
								if blk == nil {
									continue
								}
								ast.Inspect(blk, func(m ast.Node) bool {
									if as, ok := m.(*ast.AssignStmt); ok {
										for _, l := range as.Lhs {
											if id, ok := l.(*ast.Ident); ok {
												if o := info.ObjectOf(id); o != nil && !tainted[o] {
													tainted[o] = true
													changed = true
												}
											}
										}
									}
									return true
								})
							}
						}
					case *ast.RangeStmt:
						if mentions(t.X) {
							for _, l := range []ast.Expr{t.Key, t.Value} {
								if id, ok := l.(*ast.Ident); ok {
									if o := info.ObjectOf(id); o != nil && !tainted[o] {
										tainted[o] = true
										changed = true
									}
								}
							}
						}
					}
					return true
				})
			}
		}
		// every assignment of <x>.Name in the arm; the arm takes over an existing value if it assigns the whole
		// result from val
		names := 0
		ast.Inspect(&ast.BlockStmt{List: cc.Body}, func(n ast.Node) bool {
			as, ok := n.(*ast.AssignStmt)
			if !ok {
				return true
			}
			for i, l := range as.Lhs {
				if sel, ok := l.(*ast.SelectorExpr); ok && sel.Sel.Name == "Name" && i < len(as.Rhs) {
					names++
					if !mentions(as.Rhs[i]) && arm.bad == token.NoPos {
						arm.bad = as.Pos()
					}
				}
				if id, ok := l.(*ast.Ident); ok && i < len(as.Rhs) && val != nil {
					if rid, ok := as.Rhs[i].(*ast.Ident); ok && info.ObjectOf(rid) == val && id.Name != "_" {
						if _, isStruct := info.TypeOf(rid).Underlying().(*types.Struct); isStruct {
							arm.exempt = "takes over a value that has its name"
						}
					}
				}
			}
			return true
		})
		if names == 0 && arm.exempt == "" {
			arm.exempt = "assigns no name"
		}
		if names > 0 {
			arm.exempt = ""
		}
		out = append(out, arm)
	}
	sort.Slice(out, func(i, j int) bool { return out[i].pos < out[j].pos })
	return out, ""
}

const constNameExample = `package example

type pair struct{ a, b int }

type named struct {
	Name string
	V    interface{}
}

type result struct {
	Name string
	V    interface{}
}

func itoa(int) string              { return "" }
func join([]int) string           { return "" }
func typeName(interface{}) string { return "" }

func Constant(value interface{}, kind int) result {
	v := result{V: value}
	switch val := value.(type) {
	case int64:
		v.Name = "$" + itoa(int(val))
	case string:
		q := "\"" + val + "\""
		v.Name = q
	case []int:
		v.Name = "$" + join(val)
		if kind == 3 {
			v.Name = "$slice"
		}
	case pair:
		v.Name = "$" + typeName(kind)
		return v
	case nil:
		v.Name = "nil"
	case named:
		v = result(val)
	case bool:
		n := "$false"
		if val {
			n = "$true"
		}
		for _, c := range []int{kind} {
			_ = c
		}
		v.Name = n
	}
	return v
}
`

// parseExampleFunc type-checks a self-contained example and returns its type information and one of its
// function declarations.
func parseExampleFunc(src, name string) (*types.Info, *ast.FuncDecl, error) {
	fset := token.NewFileSet()
	f, err := parser.ParseFile(fset, "example.go", src, 0)
	if err != nil {
		return nil, nil, err
	}
	info := &types.Info{Types: map[ast.Expr]types.TypeAndValue{}, Defs: map[*ast.Ident]types.Object{}, Uses: map[*ast.Ident]types.Object{}, Implicits: map[ast.Node]types.Object{}, Selections: map[*ast.SelectorExpr]*types.Selection{}}
	if _, err := (&types.Config{}).Check("example", fset, []*ast.File{f}, info); err != nil {
		return nil, nil, err
	}
	for _, d := range f.Decls {
		if fd, ok := d.(*ast.FuncDecl); ok && fd.Name.Name == name {
			return info, fd, nil
		}
	}
	return nil, nil, fmt.Errorf("example has no function %s", name)
}
