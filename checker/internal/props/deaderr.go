package props

import (
	"go/ast"
	"go/parser"
	"go/token"
	"go/types"
	"sort"
	"strings"

	"golang.org/x/tools/go/ast/astutil"
	"golang.org/x/tools/go/ssa"
	"golang.org/x/tools/go/ssa/ssautil"

	"mpcverif/internal/load"
	"mpcverif/internal/report"
)

// DeadErrors: an error that is assigned to a variable is read.
//
// `err = check()` or `v, err := f()` whose err is never read afterwards compiles, passes vet, and drops
// the verdict: the usual cause is a variable of the same name declared in an inner block (`x, err := …`
// inside `if malicious { … }`), so the assignment goes to the inner variable while the test after the
// block reads the outer one.  In the protocol code such an error is a consistency check's verdict, an
// unknown-label verdict or a transport failure.  On the SSA form a dead assignment is simply an error
// value without a use; the syntax tree tells an assignment to a named variable from a deliberate discard
// (`_ = f()`, a bare call).  The module has no such site today; the rule carries built-in examples.
func DeadErrors(pkgs ...string) func(p *load.Program, run *report.Run) {
	return func(p *load.Program, run *report.Run) {
		const rule = "assigned-error-is-read"
		run.Rule(rule, "in "+strings.Join(pkgs, ", ")+": an error-typed call result that the source assigns to a named variable has at least one use in the SSA form (it is tested, returned, wrapped or passed on); with built-in examples")
		want := map[string]bool{}
		for _, rel := range pkgs {
			want[load.Module+"/"+rel] = true
		}
		var fns []*ssa.Function
		for _, fn := range p.AllFunctions() {
			if fn.Pkg == nil || !want[fn.Pkg.Pkg.Path()] || fn.Blocks == nil || fn.Synthetic != "" || strings.HasSuffix(p.Fset.Position(fn.Pos()).Filename, "_test.go") {
				continue
			}
			fns = append(fns, fn)
		}
		sort.Slice(fns, func(i, j int) bool { return fns[i].Pos() < fns[j].Pos() })
		sites := 0
		for _, fn := range fns {
			pk := p.ByPath[fn.Pkg.Pkg.Path()]
			for _, d := range deadErrorAssignments(fn, func(pos token.Pos) (*ast.File, bool) {
				if pk == nil {
					return nil, false
				}
				for _, f := range pk.Syntax {
					if f.Pos() <= pos && pos < f.End() {
						return f, true
					}
				}
				return nil, false
			}, &sites) {
				key := strings.ReplaceAll(fn.RelString(nil), load.Module+"/", "") + "/" + d.name
				run.Violate(rule, key, p.Rel(d.pos), "the error assigned to "+d.name+" here is never read: the assignment goes to a variable that is not the one tested afterwards (a declaration of the same name in an inner block), or it is overwritten before any test; the failure it reports is dropped", nil)
			}
		}
		run.Count("error-assignments", sites)
		run.Floor("error-assignments", 50)
		// built-in examples: the shadowed verdict is recognised, the tested and the discarded error are not reported
		fset := token.NewFileSet()
		f, err := parser.ParseFile(fset, "example.go", deadErrExample, 0)
		if err != nil {
			run.Undecided(rule, "built-in example", "", err.Error())
			return
		}
		spkg, _, err := ssautil.BuildPackage(&types.Config{}, fset, types.NewPackage("example", "example"), []*ast.File{f}, ssa.InstantiateGenerics)
		if err != nil {
			run.Undecided(rule, "built-in example", "", err.Error())
			return
		}
		okAll := true
		for name, w := range map[string]int{"shadowed": 1, "tested": 0, "discarded": 0, "overwritten": 1} {
			n := 0
			got := deadErrorAssignments(spkg.Func(name), func(token.Pos) (*ast.File, bool) { return f, true }, &n)
			if len(got) != w {
				okAll = false
				run.Undecided(rule, "built-in example/"+name, "", "the rule misclassifies its built-in example")
			}
		}
		if okAll {
			run.Count("dead-error-examples", 4)
			run.OK(rule, "built-in examples", "", "shadowed and overwritten verdicts recognised; tested and discarded errors accepted")
		}
		run.Floor("dead-error-examples", 4)
	}
}

const deadErrExample = `package example

type failure struct{}

func (failure) Error() string { return "failed" }

func check(n int) error {
	if n > 3 {
		return failure{}
	}
	return nil
}

func pair(n int) (int, error) { return n, check(n) }

func shadowed(n int, strict bool) error {
	var err error
	if strict {
		v, err := pair(n)
		if err != nil {
			return err
		}
		_ = v
		err = check(n + 1)
	}
	if err != nil {
		return err
	}
	return nil
}

func tested(n int) error {
	err := check(n)
	if err != nil {
		return err
	}
	return nil
}

func discarded(n int) {
	_ = check(n)
	check(n + 1)
}

func overwritten(n int) error {
	err := check(n)
	err = check(n + 1)
	return err
}
`

type deadErr struct {
	name string
	pos  token.Pos
}

func deadErrorAssignments(fn *ssa.Function, fileOf func(token.Pos) (*ast.File, bool), sites *int) []deadErr {
	var out []deadErr
	for _, b := range fn.Blocks {
		for _, ins := range b.Instrs {
			c, ok := ins.(*ssa.Call)
			if !ok {
				continue
			}
			res := c.Call.Signature().Results()
			if res.Len() == 0 || res.At(res.Len()-1).Type().String() != "error" {
				continue
			}
			var errv ssa.Value
			if res.Len() == 1 {
				errv = c
			} else if c.Referrers() != nil {
				for _, r := range *c.Referrers() {
					if ex, ok := r.(*ssa.Extract); ok && ex.Index == res.Len()-1 {
						errv = ex
					}
				}
			}
			// the syntax: is the error position assigned to a named variable?
			f, ok := fileOf(c.Pos())
			if !ok {
				continue
			}
			path, _ := astutil.PathEnclosingInterval(f, c.Pos(), c.Pos())
			name := ""
			for i, n := range path {
				call, isCall := n.(*ast.CallExpr)
				if !isCall || call.Lparen != c.Pos() || i+1 >= len(path) {
					continue
				}
				switch st := path[i+1].(type) {
				case *ast.AssignStmt:
					if len(st.Rhs) == 1 && ast.Unparen(st.Rhs[0]) == ast.Expr(call) && len(st.Lhs) == res.Len() {
						if id, ok := st.Lhs[len(st.Lhs)-1].(*ast.Ident); ok && id.Name != "_" {
							name = id.Name
						}
					}
				case *ast.ValueSpec:
					if len(st.Values) == 1 && ast.Unparen(st.Values[0]) == ast.Expr(call) && len(st.Names) == res.Len() {
						if id := st.Names[len(st.Names)-1]; id.Name != "_" {
							name = id.Name
						}
					}
				}
				break
			}
			if name == "" {
				continue
			}
			*sites++
			used := false
			if errv != nil && errv.Referrers() != nil {
				for _, r := range *errv.Referrers() {
					if _, dbg := r.(*ssa.DebugRef); !dbg {
						used = true
					}
				}
			}
			if !used {
				out = append(out, deadErr{name, c.Pos()})
			}
		}
	}
	return out
}
