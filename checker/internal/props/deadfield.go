package props

import (
	"fmt"
	"go/token"
	"go/types"
	"sort"
	"strings"

	"golang.org/x/tools/go/ssa"

	"mpcverif/internal/load"
	"mpcverif/internal/report"
)

// LostFieldUpdates: an update of a field is not made on a copy that nobody reads afterwards.
//
// `setup, err := co.senderSetup()` hands back a *copy* of the kept setup; `setup.Seq += n` then advances
// the copy's counter, the function returns, and the kept setup still has the old count: the sender derives
// the masks of the next batch from a sequence number the receiver has moved past.  A store to a field of a
// local struct variable after which nothing reads the variable (no load of it or of a field, no call that
// is handed it or its address, no return of it) has no effect; where the variable is a copy of state kept
// elsewhere, the effect that was meant is lost.
func LostFieldUpdates(pkgs ...string) func(p *load.Program, run *report.Run) {
	return func(p *load.Program, run *report.Run) {
		const rule = "field-update-not-lost"
		run.Rule(rule, "in "+strings.Join(pkgs, ", ")+": after a store to a field of a local struct variable (a stack allocation) some instruction reachable from the store reads the variable: a load of it or of one of its fields, a call or a closure that is handed its address, or a store of it elsewhere; with built-in examples")
		want := map[string]bool{}
		for _, rel := range pkgs {
			want[load.Module+"/"+rel] = true
		}
		var fns []*ssa.Function
		for _, fn := range p.AllFunctions() {
			if fn.Pkg == nil || !want[fn.Pkg.Pkg.Path()] || fn.Blocks == nil || fn.Synthetic != "" || strings.HasSuffix(p.Fset.Position(fn.Pos()).Filename, "_test.go") {
				continue
			}
			fns = append(fns, fn)
		}
		sort.Slice(fns, func(i, j int) bool { return fns[i].Pos() < fns[j].Pos() })
		stores, bad := 0, 0
		for _, fn := range fns {
			for _, s := range lostFieldUpdates(fn, &stores) {
				bad++
				run.Violate(rule, strings.ReplaceAll(fn.RelString(nil), load.Module+"/", "")+"/"+s.what, p.Rel(s.pos), fmt.Sprintf("the field %s of the local copy is updated and the copy is never read again: the update is lost (the value it was copied from keeps the old field)", s.what), nil)
			}
		}
		run.Count("local-field-stores", stores)
		run.Floor("local-field-stores", 5)
		if bad == 0 {
			run.OK(rule, strings.Join(pkgs, "+"), "", fmt.Sprintf("%d stores to fields of local struct variables, each followed by a read of the variable", stores))
		}
		look, err := buildExample(lostFieldExample)
		if err != nil {
			run.Undecided(rule, "built-in example", "", err.Error())
			return
		}
		n := 0
		if len(lostFieldUpdates(look("sendLost"), &n)) != 1 || len(lostFieldUpdates(look("sendKept"), &n)) != 0 {
			run.Undecided(rule, "built-in example", "", "the rule misclassifies its built-in example")
			return
		}
		run.Count("lost-field-examples", 2)
		run.OK(rule, "built-in examples", "", "a counter advanced on a copy that is dropped reported; advanced through the pointer accepted")
		run.Floor("lost-field-examples", 2)
	}
}

type lostField struct {
	what string
	pos  token.Pos
}

func lostFieldUpdates(fn *ssa.Function, stores *int) []lostField {
	if fn == nil {
		return nil
	}
	var out []lostField
	// does instruction x read (or hand on) the allocation al?
	reads := func(x ssa.Instruction, al *ssa.Alloc) bool {
		var rooted func(v ssa.Value, d int) bool
		rooted = func(v ssa.Value, d int) bool {
			if v == ssa.Value(al) {
				return true
			}
			if d > 4 {
				return false
			}
			switch t := v.(type) {
			case *ssa.FieldAddr:
				return rooted(t.X, d+1)
			case *ssa.IndexAddr:
				return rooted(t.X, d+1)
			}
			return false
		}
		switch t := x.(type) {
		case *ssa.Store:
			return rooted(t.Val, 0) // the address is stored somewhere: it may be read through that
		case *ssa.UnOp:
			return t.Op == token.MUL && rooted(t.X, 0)
		case *ssa.FieldAddr, *ssa.IndexAddr:
			return false
		default:
			for _, op := range x.Operands(nil) {
				if *op != nil && rooted(*op, 0) {
					return true
				}
			}
		}
		return false
	}
	for _, b := range fn.Blocks {
		for i, ins := range b.Instrs {
			st, ok := ins.(*ssa.Store)
			if !ok {
				continue
			}
			fa, ok := st.Addr.(*ssa.FieldAddr)
			if !ok {
				continue
			}
			al, ok := fa.X.(*ssa.Alloc)
			if !ok || al.Heap {
				continue
			}
			if _, isStruct := al.Type().Underlying().(*types.Pointer).Elem().Underlying().(*types.Struct); !isStruct {
				continue
			}
			*stores++
			// anything reachable after the store that reads the variable?
			read := false
			for _, x := range b.Instrs[i+1:] {
				if reads(x, al) {
					read = true
				}
			}
			seen := map[*ssa.BasicBlock]bool{}
			stack := append([]*ssa.BasicBlock{}, b.Succs...)
			for len(stack) > 0 && !read {
				x := stack[len(stack)-1]
				stack = stack[:len(stack)-1]
				if seen[x] {
					continue
				}
				seen[x] = true
				for _, y := range x.Instrs {
					if reads(y, al) {
						read = true
					}
				}
				stack = append(stack, x.Succs...)
			}
			if !read {
				out = append(out, lostField{structFieldName(fa.X.Type(), fa.Field), st.Pos()})
			}
		}
	}
	return out
}

const lostFieldExample = `package example

type setup struct {
	key int
	seq uint64
}

type co struct{ kept *setup }

func (c *co) current() setup { return *c.kept }

func use(int, uint64) {}

func sendLost(c *co, n int) {
	s := c.current()
	use(s.key, s.seq)
	s.seq += uint64(n)
}

func sendKept(c *co, n int) {
	s := c.kept
	use(s.key, s.seq)
	s.seq += uint64(n)
}
`
