package props

import (
	"fmt"
	"go/token"
	"go/types"
	"sort"
	"strings"

	"golang.org/x/tools/go/ssa"

	"mpcverif/internal/load"
	"mpcverif/internal/report"
)

// DeadNotOutput: a gate that drives a circuit output is never removed.
//
// A gate marked Dead gets no wire ID and is not compiled (Gate.Assign, Gate.Compile).  Nothing else sets
// the value of its output wire, so a dead gate whose output wire is a circuit output leaves that output
// bit unassigned: it takes the ID of whatever comes next or reads zero.  Gate.Prune tests O.Output()
// before it kills a gate; the rule asks the same of every place that sets Dead: the store is reached only
// over the edge on which Output() of the gate's own output wire is false.
func DeadNotOutput(p *load.Program, run *report.Run) {
	const rule = "dead-gate-not-output"
	run.Rule(rule, "in compiler/circuits: every store of a non-false value to Gate.Dead is dominated by the false edge of a test of Output() on the O wire of the same gate; with built-in examples")
	var fns []*ssa.Function
	for _, fn := range p.AllFunctions() {
		if fn.Pkg == nil || fn.Pkg.Pkg.Path() != load.Module+"/compiler/circuits" || fn.Blocks == nil || fn.Synthetic != "" || strings.HasSuffix(p.Fset.Position(fn.Pos()).Filename, "_test.go") {
			continue
		}
		fns = append(fns, fn)
	}
	sort.Slice(fns, func(i, j int) bool { return fns[i].Pos() < fns[j].Pos() })
	n := 0
	for _, fn := range fns {
		for i, s := range deadStores(fn) {
			n++
			key := strings.ReplaceAll(fn.RelString(nil), load.Module+"/", "") + "/Dead"
			if i > 0 {
				key += fmt.Sprintf("#%d", i+1)
			}
			if s.guarded {
				run.OK(rule, key, p.Rel(s.pos), "reached only when the gate's output wire is not a circuit output")
			} else {
				run.Violate(rule, key, p.Rel(s.pos), "the gate is marked dead without a test that its output wire is not a circuit output: a dead gate is neither numbered nor compiled, so an output bit it drives is left without a value", nil)
			}
		}
	}
	run.Count("dead-stores", n)
	run.Floor("dead-stores", 1)
	look, err := buildExample(deadOutputExample)
	if err != nil {
		run.Undecided(rule, "built-in example", "", err.Error())
		return
	}
	verdict := func(name string) string {
		for _, f := range exampleFuncsOf(look, "anchor") {
			if f.Name() == name {
				out := ""
				for _, s := range deadStores(f) {
					if s.guarded {
						out += "g"
					} else {
						out += "u"
					}
				}
				return out
			}
		}
		return "?"
	}
	if a, b, c, d := verdict("Prune"), verdict("Const"), verdict("ConstBad"), verdict("Other"); a != "g" || b != "g" || c != "u" || d != "u" {
		run.Undecided(rule, "built-in example", "", fmt.Sprintf("the rule misclassifies its built-in example (%s %s %s %s)", a, b, c, d))
		return
	}
	run.Count("dead-store-examples", 4)
	run.OK(rule, "built-in examples", "", "a kill behind `dead || output || consumed` and behind `if output { return }` accepted; an unconditional kill and a kill behind the test of another gate's wire reported")
	run.Floor("dead-store-examples", 4)
}

type deadStore struct {
	pos     token.Pos
	guarded bool
}

func deadStores(fn *ssa.Function) []deadStore {
	var out []deadStore
	fieldOf := func(fa *ssa.FieldAddr) string {
		pt, ok := fa.X.Type().Underlying().(*types.Pointer)
		if !ok {
			return ""
		}
		st, ok := pt.Elem().Underlying().(*types.Struct)
		if !ok {
			return ""
		}
		return st.Field(fa.Field).Name()
	}
	for _, b := range fn.Blocks {
		for _, ins := range b.Instrs {
			st, ok := ins.(*ssa.Store)
			if !ok {
				continue
			}
			fa, ok := st.Addr.(*ssa.FieldAddr)
			if !ok || fieldOf(fa) != "Dead" {
				continue
			}
			if nt, ok := fa.X.Type().Underlying().(*types.Pointer).Elem().(*types.Named); !ok || nt.Obj().Name() != "Gate" {
				continue
			}
			if k, ok := st.Val.(*ssa.Const); ok && k.Value != nil && k.Value.String() == "false" {
				continue
			}
			gate := fa.X
			guarded := false
			for _, g := range fn.Blocks {
				iff, ok := g.Instrs[len(g.Instrs)-1].(*ssa.If)
				if !ok {
					continue
				}
				cond, edge := iff.Cond, 1
				if u, ok := cond.(*ssa.UnOp); ok && u.Op == token.NOT {
					cond, edge = u.X, 0
				}
				call, ok := cond.(*ssa.Call)
				if !ok || call.Call.StaticCallee() == nil || call.Call.StaticCallee().Name() != "Output" || len(call.Call.Args) != 1 {
					continue
				}
				ld, ok := call.Call.Args[0].(*ssa.UnOp)
				if !ok || ld.Op != token.MUL {
					continue
				}
				ofa, ok := ld.X.(*ssa.FieldAddr)
				if !ok || fieldOf(ofa) != "O" || ofa.X != gate {
					continue
				}
				succ := g.Succs[edge]
				if len(succ.Preds) == 1 && succ.Dominates(b) {
					guarded = true
				}
			}
			out = append(out, deadStore{st.Pos(), guarded})
		}
	}
	return out
}

const deadOutputExample = `package example

func anchor() {}

type Wire struct {
	flags int
	outs  int
}

func (w *Wire) Output() bool    { return w.flags&1 != 0 }
func (w *Wire) NumOutputs() int { return w.outs }

type Gate struct {
	A, B, O *Wire
	Dead    bool
}

func (g *Gate) Prune() bool {
	if g.Dead || g.O.Output() || g.O.NumOutputs() > 0 {
		return false
	}
	g.Dead = true
	return true
}

func (g *Gate) Const(v int) bool {
	g.O.flags |= v << 1
	if g.O.Output() {
		return false
	}
	g.Dead = true
	return true
}

func (g *Gate) ConstBad(v int) {
	g.O.flags |= v << 1
	g.Dead = true
}

func (g *Gate) Other(h *Gate) {
	if h.O.Output() {
		return
	}
	g.Dead = true
}
`
