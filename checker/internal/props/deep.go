package props

// Deep is set for the thorough tier: the rules that enumerate shapes use the larger
// of their two bounds (DESIGN 7.6).  Verdicts for the quick shapes are a subset.
var Deep bool

func bound(quick, thorough int) int {
	if Deep {
		return thorough
	}
	return quick
}

func partyCounts() []int {
	if Deep {
		return []int{2, 3, 4, 5}
	}
	return []int{2, 3, 4}
}
