package props

import (
	"fmt"
	"go/token"
	"go/types"

	"golang.org/x/tools/go/ssa"

	"mpcverif/internal/load"
	"mpcverif/internal/report"
)

// DeltaBitsFromDelta: the IKNP sender's base-OT choices are the bits of the Delta it keeps.
//
// The sender learns, for every column i, the seed k_{Delta_i} from the base OT and later folds the received
// column into its matrix exactly when Delta_i = 1.  Both uses must read the same Delta: the one stored in the
// sender.  A constructor that stores the caller's Delta but derives the choice flags from its own local (zero
// when the caller supplied one) builds a sender whose rows do not satisfy sent xor b*Delta = received — every
// honest malicious-mode batch aborts, and the semi-honest mode finishes silently with wrong labels.
func DeltaBitsFromDelta(p *load.Program, run *report.Run) {
	const rule = "choice-bits-from-stored-delta"
	run.Rule(rule, "in ot.NewIKNPSender: every value whose Bit(i) feeds the flags handed to the base OT's Receive is the value stored into the new sender's Delta field — a load of that field, or a load of the same local cell the field was stored from; with built-in examples")
	fn, err := p.Func("ot", "NewIKNPSender")
	if err != nil {
		run.Undecided(rule, "ot.NewIKNPSender", "", err.Error())
		return
	}
	n, why := deltaBitsCheck(fn)
	run.Count("delta-bit-reads", n)
	run.Floor("delta-bit-reads", 1)
	if why != "" {
		run.Violate(rule, "ot.NewIKNPSender", p.Rel(fn.Pos()), why, nil)
	} else {
		run.OK(rule, "ot.NewIKNPSender", p.Rel(fn.Pos()), fmt.Sprintf("%d Bit reads, all of the stored Delta", n))
	}
	look, err := buildExample(deltaBitsExample)
	if err != nil {
		run.Undecided(rule, "built-in example", "", err.Error())
		return
	}
	_, g := deltaBitsCheck(look("newGood"))
	_, f := deltaBitsCheck(look("newField"))
	_, b := deltaBitsCheck(look("newBad"))
	if g != "" || f != "" || b == "" {
		run.Undecided(rule, "built-in example", "", fmt.Sprintf("the rule misclassifies its built-in example (%q %q %q)", g, f, b))
		return
	}
	run.Count("delta-bit-examples", 3)
	run.OK(rule, "built-in examples", "", "bits of the local that is stored, and bits of the stored field, accepted; bits of a local that is not what was stored reported")
	run.Floor("delta-bit-examples", 3)
}

func deltaBitsCheck(fn *ssa.Function) (int, string) {
	if fn == nil {
		return 0, "function not found"
	}
	fieldIs := func(fa *ssa.FieldAddr, name string) bool {
		pt, ok := fa.X.Type().Underlying().(*types.Pointer)
		if !ok {
			return false
		}
		st, ok := pt.Elem().Underlying().(*types.Struct)
		return ok && st.Field(fa.Field).Name() == name
	}
	// the store into the Delta field of the object under construction
	var stored ssa.Value
	var obj ssa.Value
	for _, b := range fn.Blocks {
		for _, ins := range b.Instrs {
			if st, ok := ins.(*ssa.Store); ok {
				if fa, ok := st.Addr.(*ssa.FieldAddr); ok && fieldIs(fa, "Delta") {
					stored, obj = st.Val, fa.X
				}
			}
		}
	}
	if stored == nil {
		return 0, "no store to the Delta field"
	}
	cellOf := func(v ssa.Value) ssa.Value {
		if ld, ok := v.(*ssa.UnOp); ok && ld.Op == token.MUL {
			return ld.X
		}
		return nil
	}
	n := 0
	for _, b := range fn.Blocks {
		for _, ins := range b.Instrs {
			c, ok := ins.(*ssa.Call)
			if !ok || c.Call.StaticCallee() == nil || c.Call.StaticCallee().Name() != "Bit" || len(c.Call.Args) != 2 {
				continue
			}
			n++
			x := c.Call.Args[0]
			xc := cellOf(x)
			switch {
			case x == stored:
				continue
			case xc != nil && xc == cellOf(stored):
				// the same cell; it must be a plain local, not a pointer that may have been redirected
				if _, isAlloc := xc.(*ssa.Alloc); isAlloc {
					continue
				}
			}
			if fa, ok := xc.(*ssa.FieldAddr); ok && fieldIs(fa, "Delta") && fa.X == obj {
				continue
			}
			return n, "the choice flags for the base OT are the bits of a value that is not the Delta stored in the sender: with a Delta supplied by the caller the seeds are learned for one Delta and the columns folded for another"
		}
	}
	return n, ""
}

const deltaBitsExample = `package example

type Label struct{ D0, D1 uint64 }

func (l Label) Bit(i int) uint { return uint(l.D0>>uint(i)) & 1 }

type sender struct {
	Delta Label
	sel   [8]bool
}

func fresh() Label { return Label{1, 2} }

func newGood(d *Label) *sender {
	var delta Label
	if d == nil {
		delta = fresh()
	} else {
		delta = *d
	}
	s := &sender{Delta: delta}
	for i := 0; i < 8; i++ {
		s.sel[i] = delta.Bit(i) == 1
	}
	return s
}

func newField(d *Label) *sender {
	var delta Label
	if d == nil {
		delta = fresh()
		d = &delta
	}
	s := &sender{Delta: *d}
	for i := 0; i < 8; i++ {
		s.sel[i] = s.Delta.Bit(i) == 1
	}
	return s
}

func newBad(d *Label) *sender {
	var delta Label
	if d == nil {
		delta = fresh()
		d = &delta
	}
	s := &sender{Delta: *d}
	for i := 0; i < 8; i++ {
		s.sel[i] = delta.Bit(i) == 1
	}
	return s
}
`
