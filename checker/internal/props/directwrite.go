package props

import (
	"fmt"
	"go/token"
	"sort"
	"strings"

	"golang.org/x/tools/go/ssa"

	"mpcverif/internal/load"
	"mpcverif/internal/report"
)

// TransportWriteExclusive: the transport's Write is never entered by two goroutines at once.
//
// A Conn hands its filled buffers to one writer goroutine; that goroutine alone calls Write on the
// transport, so what is flushed first is written first and writes do not interleave.  A fast path that
// writes a short message from the caller's goroutine is safe only while the writer goroutine is outside
// Write *and has nothing left to write*.  The usual guard is a counter of buffers handed over and not yet
// written: the direct write is taken when the counter is zero, and the writer lowers it when a buffer has
// been written — after Write returns.  Lowered before, "nothing queued" holds while the writer is still
// inside Write with the previous buffer, and the short message overtakes or interleaves with it.
func TransportWriteExclusive(p *load.Program, run *report.Run) {
	const rule = "transport-write-exclusive"
	run.Rule(rule, "in package p2p: if a function other than the writer goroutine's body calls Write on the connection's transport, that call is dominated by the zero outcome of a Load of an atomic counter field, and in the writer goroutine's body every Add of a negative constant to that counter is dominated by the goroutine's own Write call (the counter is lowered after the buffer is written); with built-in examples")
	var fns []*ssa.Function
	for _, fn := range p.AllFunctions() {
		if fn.Pkg == nil || fn.Pkg.Pkg.Path() != load.Module+"/p2p" || fn.Blocks == nil || fn.Synthetic != "" || strings.HasSuffix(p.Fset.Position(fn.Pos()).Filename, "_test.go") {
			continue
		}
		fns = append(fns, fn)
	}
	sort.Slice(fns, func(i, j int) bool { return fns[i].Pos() < fns[j].Pos() })
	res := transportWriters(fns, "conn")
	run.Count("transport-write-sites", res.sites)
	run.Floor("transport-write-sites", 1)
	if res.why != "" {
		run.Violate(rule, "p2p.Conn/"+res.where, p.Rel(res.pos), res.why, nil)
	} else {
		run.OK(rule, "p2p.Conn", "", res.note)
	}
	look, err := buildExample(directWriteExample)
	if err != nil {
		run.Undecided(rule, "built-in example", "", err.Error())
		return
	}
	var good, bad []*ssa.Function
	for _, f := range exampleFuncsOf(look, "anchor") {
		switch f.Name() {
		case "flushGood", "writerGood", "startGood":
			good = append(good, f)
		case "flushBad", "writerBad", "startBad":
			bad = append(bad, f)
		}
	}
	g, b := transportWriters(good, "conn"), transportWriters(bad, "conn")
	if g.why != "" || b.why == "" {
		run.Undecided(rule, "built-in example", "", fmt.Sprintf("the rule misclassifies its built-in example (%q / %q)", g.why, b.why))
		return
	}
	run.Count("direct-write-examples", 2)
	run.OK(rule, "built-in examples", "", "a counter lowered after the writer's Write accepted, lowered before it reported")
	run.Floor("direct-write-examples", 2)
}

type transportWriteResult struct {
	sites            int
	why, where, note string
	pos              token.Pos
}

func transportWriters(fns []*ssa.Function, transportField string) transportWriteResult {
	var res transportWriteResult
	isTransportWrite := func(ins ssa.Instruction) bool {
		c, ok := ins.(ssa.CallInstruction)
		if !ok || !c.Common().IsInvoke() || c.Common().Method.Name() != "Write" {
			return false
		}
		ld, ok := c.Common().Value.(*ssa.UnOp)
		if !ok || ld.Op != token.MUL {
			return false
		}
		fa, ok := ld.X.(*ssa.FieldAddr)
		return ok && structFieldName(fa.X.Type(), fa.Field) == transportField
	}
	// goroutine bodies
	goBody := map[*ssa.Function]bool{}
	for _, fn := range fns {
		for _, b := range fn.Blocks {
			for _, ins := range b.Instrs {
				if g, ok := ins.(*ssa.Go); ok {
					if callee := g.Call.StaticCallee(); callee != nil {
						goBody[callee] = true
					}
					if mc, ok := g.Call.Value.(*ssa.MakeClosure); ok {
						if f, ok := mc.Fn.(*ssa.Function); ok {
							goBody[f] = true
						}
					}
				}
			}
		}
	}
	type wsite struct {
		fn  *ssa.Function
		ins ssa.Instruction
	}
	var inWriter, direct []wsite
	for _, fn := range fns {
		for _, b := range fn.Blocks {
			for _, ins := range b.Instrs {
				if isTransportWrite(ins) {
					res.sites++
					if goBody[fn] {
						inWriter = append(inWriter, wsite{fn, ins})
					} else {
						direct = append(direct, wsite{fn, ins})
					}
				}
			}
		}
	}
	if len(direct) == 0 {
		res.note = fmt.Sprintf("%d Write call(s) on the transport, all in the writer goroutine", len(inWriter))
		return res
	}
	counterOf := func(v ssa.Value) string {
		// the receiver of an atomic method: &x.f
		fa, ok := v.(*ssa.FieldAddr)
		if !ok {
			return ""
		}
		return structFieldName(fa.X.Type(), fa.Field)
	}
	for _, d := range direct {
		// guard: If on (counter.Load() == 0) whose true edge dominates the write
		guard := ""
		for _, b := range d.fn.Blocks {
			iff, ok := b.Instrs[len(b.Instrs)-1].(*ssa.If)
			if !ok {
				continue
			}
			var conds []ssa.Value
			conds = append(conds, iff.Cond)
			for _, cond := range conds {
				bo, ok := cond.(*ssa.BinOp)
				if !ok || bo.Op != token.EQL {
					continue
				}
				var call *ssa.Call
				var k *ssa.Const
				if c, ok := bo.X.(*ssa.Call); ok {
					call = c
					k, _ = bo.Y.(*ssa.Const)
				} else if c, ok := bo.Y.(*ssa.Call); ok {
					call = c
					k, _ = bo.X.(*ssa.Const)
				}
				if call == nil || k == nil || k.Value == nil || k.Int64() != 0 {
					continue
				}
				callee := call.Call.StaticCallee()
				if callee == nil || callee.Name() != "Load" || !atomicCounterMethod(callee) || len(call.Call.Args) != 1 {
					continue
				}
				t := b.Succs[0]
				if len(t.Preds) == 1 && (t == d.ins.Block() || t.Dominates(d.ins.Block())) {
					guard = counterOf(call.Call.Args[0])
				}
			}
		}
		if guard == "" {
			res.why = fmt.Sprintf("%s writes to the transport from the caller's goroutine while the writer goroutine may be inside Write with an earlier buffer: nothing orders the two writes", d.fn.Name())
			res.where, res.pos = d.fn.Name(), d.ins.Pos()
			return res
		}
		// the writer lowers the counter only after its Write
		for _, w := range inWriter {
			for _, b := range w.fn.Blocks {
				for _, ins := range b.Instrs {
					c, ok := ins.(*ssa.Call)
					if !ok || c.Call.StaticCallee() == nil || c.Call.StaticCallee().Name() != "Add" || !atomicCounterMethod(c.Call.StaticCallee()) || len(c.Call.Args) != 2 {
						continue
					}
					if counterOf(c.Call.Args[0]) != guard {
						continue
					}
					k, ok := c.Call.Args[1].(*ssa.Const)
					if !ok || k.Value == nil || k.Int64() >= 0 {
						continue
					}
					after := w.ins.Block() == b && instrIndex(w.ins) < instrIndex(c) || w.ins.Block() != b && w.ins.Block().Dominates(b)
					if !after {
						res.why = fmt.Sprintf("%s writes directly when %s is zero, but the writer goroutine lowers %s before it calls Write: while it is still writing the previous buffer the counter already says nothing is queued, and the direct write overtakes or interleaves with it", d.fn.Name(), guard, guard)
						res.where, res.pos = w.fn.Name(), c.Pos()
						return res
					}
				}
			}
		}
		res.note = fmt.Sprintf("%s writes directly only when %s is zero; the writer lowers it after its Write", d.fn.Name(), guard)
	}
	return res
}

const directWriteExample = `package example

type Int32 struct{ v int32 }

type transport interface{ Write([]byte) (int, error) }

func anchor() {}

type connGood struct {
	conn   transport
	queued atomicInt
	to     chan []byte
	buf    []byte
}

type atomicInt struct{ v int32 }

func (a *atomicInt) Load() int32       { return a.v }
func (a *atomicInt) Add(d int32) int32 { a.v += d; return a.v }

func startGood(c *connGood) { go writerGood(c) }

func writerGood(c *connGood) {
	for b := range c.to {
		c.conn.Write(b)
		c.queued.Add(-1)
	}
}

func flushGood(c *connGood) {
	if c.queued.Load() == 0 {
		c.conn.Write(c.buf)
		return
	}
	c.queued.Add(1)
	c.to <- c.buf
}

func startBad(c *connGood) { go writerBad(c) }

func writerBad(c *connGood) {
	for b := range c.to {
		c.queued.Add(-1)
		c.conn.Write(b)
	}
}

func flushBad(c *connGood) {
	if c.queued.Load() == 0 {
		c.conn.Write(c.buf)
		return
	}
	c.queued.Add(1)
	c.to <- c.buf
}
`

// atomicCounterMethod: a method of a sync/atomic integer (or, in the built-in example, of a stand-in named atomicInt).
func atomicCounterMethod(f *ssa.Function) bool {
	if f.Signature.Recv() == nil {
		return false
	}
	t := f.Signature.Recv().Type().String()
	return strings.Contains(t, "sync/atomic.Int") || strings.Contains(t, "sync/atomic.Uint") || strings.HasSuffix(t, "example.atomicInt")
}
