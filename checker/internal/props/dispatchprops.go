package props

import (
	"fmt"
	"go/ast"
	"go/types"
	"sort"
	"strings"

	"mpcverif/internal/dispatch"
	"mpcverif/internal/load"
	"mpcverif/internal/report"
)

func isBuilderCall(c dispatch.Call) bool {
	return c.Callee.Pkg() != nil && c.Callee.Pkg().Path() == load.Module+"/compiler/circuits" &&
		(strings.HasPrefix(c.Callee.Name(), "New") || c.Callee.Name() == "INV" || c.Callee.Name() == "Hamming")
}

type opTables struct {
	circuit map[string]string // opcode -> builder signature set (whole-circuit)
	stream  map[string]string // opcode -> builder signature set (streaming)
	alias   map[string]bool   // streaming arms that alias wires
	all     []string          // all Operand constants
}

func operandConstants(p *load.Program) []string {
	pkg := p.ByPath[load.Module+"/compiler/ssa"]
	var out []string
	if pkg == nil {
		return nil
	}
	scope := pkg.Types.Scope()
	for _, n := range scope.Names() {
		if c, ok := scope.Lookup(n).(*types.Const); ok {
			if nt, ok := c.Type().(*types.Named); ok && nt.Obj().Name() == "Operand" {
				out = append(out, n)
			}
		}
	}
	sort.Strings(out)
	return out
}

func buildOpTables(p *load.Program, run *report.Run) *opTables {
	t := &opTables{circuit: map[string]string{}, stream: map[string]string{}, alias: map[string]bool{}, all: operandConstants(p)}
	pkgC, fdC := dispatch.FindFunc(p, "compiler/ssa", "Program", "Circuit")
	pkgS, fdS := dispatch.FindFunc(p, "compiler/ssa", "Program", "Stream")
	if fdC == nil || fdS == nil {
		run.Undecided("anchor", "compiler/ssa.Program.Circuit/Stream", "", "function not found")
		return nil
	}
	armsC, _ := dispatch.SwitchArms(p, pkgC, fdC, "<Instr>.Op")
	armsS, _ := dispatch.SwitchArms(p, pkgS, fdS, "<Instr>.Op")
	if armsC == nil || armsS == nil {
		run.Undecided("anchor", "switch instr.Op", "", "dispatch switch not found")
		return nil
	}
	for _, a := range armsC {
		for _, c := range a.Consts {
			if c != "default" {
				t.circuit[c] = dispatch.Sigs(a.Calls, isBuilderCall)
			}
		}
	}
	for _, a := range armsS {
		garbles := false
		for _, c := range a.Calls {
			if c.Callee.Name() == "garble" {
				garbles = true
			}
		}
		for _, c := range a.Consts {
			if c == "default" {
				continue
			}
			t.stream[c] = dispatch.Sigs(a.Calls, isBuilderCall)
			if a.AssignsOut && !garbles {
				t.alias[c] = true
			}
		}
	}
	pkgM, gens := dispatch.MapLiteral(p, "compiler/ssa", "circuitGenerators")
	if gens == nil {
		run.Undecided("anchor", "compiler/ssa.circuitGenerators", "", "registry not found")
		return nil
	}
	for k, v := range gens {
		t.stream[k] = dispatch.Sigs(dispatch.BuilderCalls(p, pkgM, v, 0), isBuilderCall)
	}
	return t
}

// C03 decides the instruction-selection tables.
func C03(p *load.Program, run *report.Run) {
	run.Rule("opcode-exhaustive", "every non-float SSA opcode has a case in Program.Circuit")
	run.Rule("signedness-agreement", "for every I*/U* opcode pair the whole-circuit builders differ exactly by the Int/Uint (I/U) variant")
	t := buildOpTables(p, run)
	if t == nil {
		return
	}
	run.Count("opcodes", len(t.all))
	floats := map[string]bool{"Fadd": true, "Fsub": true, "Fmult": true, "Fdiv": true, "Fmod": true, "Flt": true, "Fle": true, "Fgt": true, "Fge": true}
	pos := ""
	for _, op := range t.all {
		if floats[op] {
			continue
		}
		if _, ok := t.circuit[op]; ok {
			run.OK("opcode-exhaustive", "compiler/ssa.Program.Circuit/"+op, pos, t.circuit[op])
		} else {
			run.Violate("opcode-exhaustive", "compiler/ssa.Program.Circuit/"+op, pos, "opcode "+op+" has no case: programs using it do not compile", nil)
		}
	}
	for _, op := range t.all {
		if !strings.HasPrefix(op, "I") {
			continue
		}
		u := "U" + op[1:]
		if _, ok := t.circuit[u]; !ok {
			continue
		}
		si, su := t.circuit[op], t.circuit[u]
		key := "compiler/ssa.Program.Circuit/" + op + "~" + u
		conv := strings.NewReplacer("NewInt", "NewUint", "NewIDivider", "NewUDivider").Replace(si)
		wrongPolarity := strings.Contains(si, "NewUint") || strings.Contains(si, "NewUDivider") ||
			strings.Contains(su, "NewInt") || strings.Contains(su, "NewIDivider")
		if wrongPolarity {
			run.Violate("signedness-agreement", key, pos, fmt.Sprintf("signed opcode builds %q, unsigned opcode builds %q: a builder of the other signedness is used", si, su), nil)
		} else if si == su || conv == su {
			run.OK("signedness-agreement", key, pos, si+" | "+su)
		} else {
			run.Violate("signedness-agreement", key, pos, fmt.Sprintf("signed opcode builds %q, unsigned opcode builds %q", si, su), nil)
		}
		run.Count("signed-unsigned-pairs", 1)
	}
	run.Floor("opcodes", 50)
	run.Floor("signed-unsigned-pairs", 9)
}

// C05dispatch decides opcode dispatch and alias-set agreement between the two modes.
func C05dispatch(p *load.Program, run *report.Run) {
	run.Rule("dispatch-agreement", "Program.Stream (switch + circuitGenerators) and Program.Circuit handle the same opcodes with the same builders and nil-argument shapes")
	run.Rule("alias-set", "every opcode whose streaming handler aliases wire ids without garbling is tracked as an alias in Program.GC")
	t := buildOpTables(p, run)
	if t == nil {
		return
	}
	ops := map[string]bool{}
	for k := range t.circuit {
		ops[k] = true
	}
	for k := range t.stream {
		ops[k] = true
	}
	var names []string
	for k := range ops {
		names = append(names, k)
	}
	sort.Strings(names)
	for _, op := range names {
		key := "compiler/ssa.Program.Stream~Circuit/" + op
		c, okc := t.circuit[op]
		s, oks := t.stream[op]
		run.Count("opcodes-compared", 1)
		if op == "Circ" && okc && oks {
			// Frozen: whole-circuit mode inlines the gates of the native circuit (cc.INV, cc.OR);
			// streaming mode garbles the native circuit directly.  Both arms exist.
			run.OK("dispatch-agreement", key, "", "frozen: native circuits are inlined in one mode and garbled directly in the other")
			continue
		}
		switch {
		case !okc:
			run.Violate("dispatch-agreement", key, "", "handled in streaming mode only", nil)
		case !oks:
			run.Violate("dispatch-agreement", key, "", "handled in whole-circuit mode only", nil)
		case c != s:
			run.Violate("dispatch-agreement", key, "", fmt.Sprintf("whole-circuit builds %q, streaming builds %q", c, s), nil)
		default:
			run.OK("dispatch-agreement", key, "", c)
		}
	}
	// alias set of Program.GC
	pkgG, fdG := dispatch.FindFunc(p, "compiler/ssa", "Program", "GC")
	if fdG == nil {
		run.Undecided("alias-set", "compiler/ssa.Program.GC", "", "function not found")
		return
	}
	// which inputs of an alias opcode GC treats as sources of the output's wires: position sets per opcode.
	// Two spellings are read: the switch in GC itself (every non-constant input of the listed opcodes), and a
	// method of Instr that GC ranges over, whose switch returns i.In or a constant sub-slice of it.
	gc := map[string]map[int]bool{}
	all := map[int]bool{0: true, 1: true, 2: true, 3: true}
	arms, _ := dispatch.SwitchArms(p, pkgG, fdG, "<Step>.Instr.Op")
	for _, a := range arms {
		appendsAlias := false
		for _, b := range a.Node.(*ast.CaseClause).Body {
			ast.Inspect(b, func(n ast.Node) bool {
				if as, ok := n.(*ast.AssignStmt); ok {
					for _, l := range as.Lhs {
						if ix, ok := l.(*ast.IndexExpr); ok && dispatch.TypedString(pkgG, ix.X) == "<map[ValueID][]Value>" {
							appendsAlias = true
						}
					}
				}
				return true
			})
		}
		if appendsAlias {
			for _, c := range a.Consts {
				gc[c] = all
			}
		}
	}
	if len(gc) == 0 {
		// for _, in := range step.Instr.<helper>() { aliases[in.ID] = append(...) }
		ast.Inspect(fdG.Body, func(n ast.Node) bool {
			rs, ok := n.(*ast.RangeStmt)
			if !ok {
				return true
			}
			call, ok := ast.Unparen(rs.X).(*ast.CallExpr)
			if !ok {
				return true
			}
			sel, ok := call.Fun.(*ast.SelectorExpr)
			if !ok {
				return true
			}
			fn, ok := pkgG.TypesInfo.Uses[sel.Sel].(*types.Func)
			if !ok {
				return true
			}
			appends := false
			ast.Inspect(rs.Body, func(m ast.Node) bool {
				if as, ok := m.(*ast.AssignStmt); ok {
					for _, l := range as.Lhs {
						if ix, ok := l.(*ast.IndexExpr); ok && dispatch.TypedString(pkgG, ix.X) == "<map[ValueID][]Value>" {
							appends = true
						}
					}
				}
				return true
			})
			if !appends {
				return true
			}
			for _, cd := range calleeDecls(p, pkgG, fdG, 1) {
				if def, ok := cd.pkg.TypesInfo.Defs[cd.fd.Name].(*types.Func); !ok || def != fn {
					continue
				}
				harms, _ := dispatch.SwitchArms(p, cd.pkg, cd.fd, "<Instr>.Op")
				for _, a := range harms {
					pos := map[int]bool{}
					okArm := false
					for _, st := range a.Node.(*ast.CaseClause).Body {
						r, ok := st.(*ast.ReturnStmt)
						if !ok || len(r.Results) != 1 {
							continue
						}
						switch e := ast.Unparen(r.Results[0]).(type) {
						case *ast.SelectorExpr:
							if e.Sel.Name == "In" {
								pos, okArm = all, true
							}
						case *ast.SliceExpr:
							if se, ok := ast.Unparen(e.X).(*ast.SelectorExpr); ok && se.Sel.Name == "In" {
								lo, hi := int64(0), int64(4)
								if e.Low != nil {
									lo, ok = constOf(cd.pkg, e.Low)
									if !ok {
										continue
									}
								}
								if e.High != nil {
									hi, ok = constOf(cd.pkg, e.High)
									if !ok {
										continue
									}
								}
								for k := lo; k < hi; k++ {
									pos[int(k)] = true
								}
								okArm = true
							}
						}
					}
					if okArm {
						for _, c := range a.Consts {
							gc[c] = pos
						}
					}
				}
			}
			return true
		})
	}
	// which inputs' wires an opcode can put into its output: from the reference meaning of the wiring opcodes
	needPos := func(op string) map[int]bool {
		out := map[int]bool{}
		for _, sh := range wiringShapes(op) {
			for _, a := range wiringSpec(sh) {
				if s, ok := a.(string); ok {
					if strings.HasPrefix(s, "w0[") {
						out[0] = true
					}
					if strings.HasPrefix(s, "w1[") {
						out[1] = true
					}
				}
			}
		}
		return out
	}
	var al []string
	for k := range t.alias {
		al = append(al, k)
	}
	sort.Strings(al)
	run.Count("alias-opcodes", len(al))
	for _, op := range al {
		key := "compiler/ssa.Program.GC/alias " + op
		missing := -1
		for pos := range needPos(op) {
			if gc[op] != nil && !gc[op][pos] {
				missing = pos
			}
		}
		if gc[op] != nil && missing >= 0 {
			run.Violate("alias-set", key, p.Rel(fdG.Pos()), fmt.Sprintf("the output of %s can carry wires of its input %d, but Program.GC does not record the output as an alias of that input: a dead temporary stored by %s has its wire ids recycled while the output is live", op, missing, op), nil)
			continue
		}
		if gc[op] != nil {
			run.OK("alias-set", key, p.Rel(fdG.Pos()), "")
		} else {
			run.Violate("alias-set", key, p.Rel(fdG.Pos()), "the streaming handler of "+op+" makes its output share wire ids with its inputs, but Program.GC does not treat "+op+" as an alias: the inputs' ids are recycled while the output is live", nil)
		}
	}
	run.Floor("opcodes-compared", 40)
	run.Floor("alias-opcodes", 7)
}
