package props

import (
	"fmt"
	"go/token"
	"go/types"

	"golang.org/x/tools/go/ssa"

	"mpcverif/internal/load"
	"mpcverif/internal/report"
)

// EvalReadsTablesOnly: evaluating a garbling does not change it.
//
// Circuit.Eval is handed the garbled tables of a garbling that stays valid until it is released: it may be
// evaluated again, by another goroutine at the same time, or serialised afterwards.  That holds only if Eval
// treats the tables as input.  `row := garbled[i]` looks like a local, but it is a view of the caller's rows, and
// a pointer-receiver method on one of its elements (`row[k].Xor(x)`) decrypts the row in place: the second
// evaluation of the same garbling reads a row that is no longer the garbler's.
func EvalReadsTablesOnly(p *load.Program, run *report.Run) {
	const rule = "eval-reads-tables-only"
	run.Rule(rule, "in circuit.Circuit.Eval no store goes through, and no pointer-receiver method is called on, an address inside the memory of the garbled-tables parameter (reached by indexing, slicing, loading a row, or a φ of those); with built-in examples")
	fn, err := p.Method("circuit", "Circuit", "Eval")
	if err != nil {
		run.Undecided(rule, "circuit.Circuit.Eval", "", err.Error())
		return
	}
	var tables *ssa.Parameter
	for _, prm := range fn.Params {
		if sl, ok := prm.Type().Underlying().(*types.Slice); ok {
			if _, isRows := sl.Elem().Underlying().(*types.Slice); isRows {
				tables = prm
			}
		}
	}
	if tables == nil {
		run.Undecided(rule, "circuit.Circuit.Eval", p.Rel(fn.Pos()), "no parameter of row-list type")
		return
	}
	reads, bad := tableWrites(fn, tables)
	run.Count("table-reads-in-eval", reads)
	run.Floor("table-reads-in-eval", 2)
	if len(bad) == 0 {
		run.OK(rule, "circuit.Circuit.Eval", p.Rel(fn.Pos()), fmt.Sprintf("%d reads of the tables, no write", reads))
	}
	for _, b := range bad {
		run.Violate(rule, "circuit.Circuit.Eval/"+tables.Name(), p.Rel(b.Pos()), "Eval writes into the garbled tables it is given (a store or a pointer-receiver method on an element of a row): the garbling is changed by being evaluated, so a second evaluation, a concurrent one, or a later serialisation sees rows that are not the garbler's", nil)
	}
	look, err := buildExample(evalReadOnlyExample)
	if err != nil {
		run.Undecided(rule, "built-in example", "", err.Error())
		return
	}
	count := func(name string) int {
		f := look(name)
		if f == nil {
			return -1
		}
		_, b := tableWrites(f, f.Params[0])
		return len(b)
	}
	if a, b := count("good"), count("bad"); a != 0 || b != 1 {
		run.Undecided(rule, "built-in example", "", fmt.Sprintf("the rule misclassifies its built-in example (%d %d)", a, b))
		return
	}
	run.Count("eval-readonly-examples", 2)
	run.OK(rule, "built-in examples", "", "xor of a copy accepted; xor in place on a row element reported")
	run.Floor("eval-readonly-examples", 2)
}

func tableWrites(fn *ssa.Function, tables ssa.Value) (reads int, bad []ssa.Instruction) {
	inside := map[ssa.Value]bool{tables: true}
	for changed := true; changed; {
		changed = false
		for _, b := range fn.Blocks {
			for _, ins := range b.Instrs {
				v, ok := ins.(ssa.Value)
				if !ok || inside[v] {
					continue
				}
				hit := false
				switch t := ins.(type) {
				case *ssa.IndexAddr:
					hit = inside[t.X]
				case *ssa.FieldAddr:
					hit = inside[t.X]
				case *ssa.Slice:
					hit = inside[t.X]
				case *ssa.UnOp:
					// loading a row (a slice header) keeps pointing into the tables; loading a label copies it
					if t.Op == token.MUL && inside[t.X] {
						if _, isSlice := t.Type().Underlying().(*types.Slice); isSlice {
							hit = true
						} else {
							reads++
						}
					}
				case *ssa.Phi:
					for _, e := range t.Edges {
						if inside[e] {
							hit = true
						}
					}
				}
				if hit {
					inside[v] = true
					changed = true
				}
			}
		}
	}
	// reads were counted once per fixpoint round at most: recount
	reads = 0
	for _, b := range fn.Blocks {
		for _, ins := range b.Instrs {
			switch t := ins.(type) {
			case *ssa.UnOp:
				if t.Op == token.MUL && inside[t.X] {
					if _, isSlice := t.Type().Underlying().(*types.Slice); !isSlice {
						reads++
					}
				}
			case *ssa.Store:
				if inside[t.Addr] {
					bad = append(bad, t)
				}
			case *ssa.Call:
				callee := t.Call.StaticCallee()
				if callee == nil || callee.Signature.Recv() == nil || len(t.Call.Args) == 0 {
					continue
				}
				if _, ptr := callee.Signature.Recv().Type().(*types.Pointer); ptr && inside[t.Call.Args[0]] {
					bad = append(bad, t)
				}
			}
		}
	}
	return reads, bad
}

const evalReadOnlyExample = `package example

type Label struct{ D0, D1 uint64 }

func (l *Label) Xor(o Label) { l.D0 ^= o.D0; l.D1 ^= o.D1 }

func good(garbled [][]Label, i, k int, h Label) Label {
	row := garbled[i]
	out := h
	out.Xor(row[k])
	return out
}

func bad(garbled [][]Label, i, k int, h Label) Label {
	row := garbled[i]
	row[k].Xor(h)
	return row[k]
}
`
