package props

import (
	"fmt"
	"go/constant"
	"go/token"
	"go/types"
	"sort"
	"strings"

	"golang.org/x/tools/go/ssa"

	"mpcverif/internal/load"
	"mpcverif/internal/report"
)

// FillWithinBuffer: nothing asks Fill for more than the read buffer holds.
//
// Conn.Fill(n) compacts the read window and reads until n bytes are available inside ReadBuf; a request
// larger than the buffer can never be met — the transport is handed an empty slice, returns 0, and the loop
// spins.  ReceiveData therefore clamps what it asks for.  The clamp and the allocation are two sites that
// have to agree: when the buffer's size becomes a constructor argument (smaller buffers for the mesh) and
// the clamp still names the old constant, every message beyond the new size never arrives.  The rule takes
// the capacity from the allocations (every `make` stored to Conn.ReadBuf, constructor arguments followed to
// the constants their callers pass) and requires of every Fill request an upper bound within the smallest
// of them, or a clamp by len/cap of the buffer itself.
func FillWithinBuffer(p *load.Program, run *report.Run) {
	const rule = "fill-request-within-read-buffer"
	run.Rule(rule, "for every call of (*p2p.Conn).Fill in the module: the request has a constant upper bound (through `if n > K { n = K }`, fixed-size arrays, constants) that is at most the smallest size with which Conn.ReadBuf is allocated anywhere (make sizes that are constructor parameters are followed to the constants passed by every caller in the module), or it is clamped by len or cap of the connection's ReadBuf; with built-in examples")
	var fns []*ssa.Function
	for _, fn := range p.AllFunctions() {
		if fn.Pkg == nil || !load.InModule(fn) || fn.Blocks == nil || fn.Synthetic != "" || strings.HasSuffix(p.Fset.Position(fn.Pos()).Filename, "_test.go") || strings.Contains(fn.Pkg.Pkg.Path(), "/apps/") {
			continue
		}
		fns = append(fns, fn)
	}
	sort.Slice(fns, func(i, j int) bool { return fns[i].Pos() < fns[j].Pos() })
	res := fillBoundCheck(fns, "ReadBuf", "Fill")
	run.Count("read-buffer-allocations", res.allocs)
	run.Count("fill-calls", len(res.sites))
	if res.capWhy != "" {
		run.Undecided(rule, "p2p.Conn.ReadBuf", "", res.capWhy)
	}
	for _, s := range res.sites {
		key := strings.ReplaceAll(s.fn.RelString(nil), load.Module+"/", "") + "/Fill#" + fmt.Sprint(s.nth)
		if s.why == "" {
			run.OK(rule, key, p.Rel(s.pos), s.note)
		} else {
			run.Violate(rule, key, p.Rel(s.pos), s.why, nil)
		}
	}
	run.Floor("read-buffer-allocations", 1)
	run.Floor("fill-calls", 5)
	look, err := buildExample(fillBoundExample)
	if err != nil {
		run.Undecided(rule, "built-in example", "", err.Error())
		return
	}
	ex := fillBoundCheck(exampleFuncsOf(look, "NewConn"), "ReadBuf", "Fill")
	got := map[string]bool{}
	for _, s := range ex.sites {
		got[s.fn.Name()] = s.why == ""
	}
	if ex.capWhy != "" || len(got) != 3 || got["ReceiveOld"] || !got["ReceiveClamped"] || !got["ReceiveByte"] {
		run.Undecided(rule, "built-in example", "", fmt.Sprintf("the rule misclassifies its built-in example: %v %s", got, ex.capWhy))
		return
	}
	run.Count("fill-bound-examples", 3)
	run.OK(rule, "built-in examples", "", "with buffers of 64 and 1024 bytes: a clamp by the old constant 1024 reported, a clamp by cap(ReadBuf) and a one-byte request accepted")
	run.Floor("fill-bound-examples", 3)
}

type fillSite struct {
	fn        *ssa.Function
	nth       int
	pos       token.Pos
	why, note string
}

type fillBoundResult struct {
	allocs int
	capWhy string
	sites  []fillSite
}

func fillBoundCheck(fns []*ssa.Function, bufField, fillName string) fillBoundResult {
	var res fillBoundResult
	isBuf := func(addr ssa.Value) bool {
		fa, ok := addr.(*ssa.FieldAddr)
		return ok && structFieldName(fa.X.Type(), fa.Field) == bufField
	}
	// call sites per function, for constructor parameters
	callers := map[*ssa.Function][]ssa.CallInstruction{}
	for _, fn := range fns {
		for _, b := range fn.Blocks {
			for _, ins := range b.Instrs {
				if c, ok := ins.(ssa.CallInstruction); ok {
					if callee := c.Common().StaticCallee(); callee != nil {
						callers[callee] = append(callers[callee], c)
					}
				}
			}
		}
	}
	var constOf func(v ssa.Value, depth int) ([]int64, bool)
	constOf = func(v ssa.Value, depth int) ([]int64, bool) {
		switch t := v.(type) {
		case *ssa.Const:
			if t.Value != nil {
				return []int64{t.Int64()}, true
			}
		case *ssa.Convert:
			return constOf(t.X, depth)
		case *ssa.Parameter:
			if depth > 3 || t.Parent() == nil || len(callers[t.Parent()]) == 0 {
				return nil, false
			}
			idx := -1
			for i, prm := range t.Parent().Params {
				if prm == t {
					idx = i
				}
			}
			var out []int64
			for _, c := range callers[t.Parent()] {
				if idx < 0 || idx >= len(c.Common().Args) {
					return nil, false
				}
				vs, ok := constOf(c.Common().Args[idx], depth+1)
				if !ok {
					return nil, false
				}
				out = append(out, vs...)
			}
			return out, true
		}
		return nil, false
	}
	capacity := int64(-1)
	for _, fn := range fns {
		for _, b := range fn.Blocks {
			for _, ins := range b.Instrs {
				st, ok := ins.(*ssa.Store)
				if !ok || !isBuf(st.Addr) {
					continue
				}
				var size ssa.Value
				switch mk := st.Val.(type) {
				case *ssa.MakeSlice:
					size = mk.Len
				case *ssa.Slice:
					// make with a constant size is an array allocation sliced whole
					if al, ok := mk.X.(*ssa.Alloc); ok && mk.Low == nil && al.Comment == "makeslice" {
						if pt, ok := al.Type().Underlying().(*types.Pointer); ok {
							if at, ok := pt.Elem().Underlying().(*types.Array); ok {
								size = ssa.NewConst(constantInt(at.Len()), types.Typ[types.Int])
							}
						}
					}
				}
				if size == nil {
					continue // re-slicing or handing over an existing buffer does not set the size
				}
				res.allocs++
				vs, ok := constOf(size, 0)
				if !ok {
					res.capWhy = fmt.Sprintf("%s is allocated in %s with a size that is not a constant at every caller: the capacity a request has to fit is unknown", bufField, fn.Name())
					continue
				}
				for _, v := range vs {
					if capacity < 0 || v < capacity {
						capacity = v
					}
				}
			}
		}
	}
	bufLen := func(e ssa.Value) bool {
		c, ok := e.(*ssa.Call)
		if !ok {
			return false
		}
		bi, ok := c.Call.Value.(*ssa.Builtin)
		if !ok || (bi.Name() != "len" && bi.Name() != "cap") || len(c.Call.Args) != 1 {
			return false
		}
		ld, ok := c.Call.Args[0].(*ssa.UnOp)
		return ok && ld.Op == token.MUL && isBuf(ld.X)
	}
	clampedByBuffer := func(v ssa.Value) bool {
		ph, ok := v.(*ssa.Phi)
		if !ok {
			return false
		}
		for _, e := range ph.Edges {
			if !bufLen(e) {
				continue
			}
			// the other edge is compared with that length
			for _, o := range ph.Edges {
				if o == e || o.Referrers() == nil {
					continue
				}
				for _, r := range *o.Referrers() {
					if bo, ok := r.(*ssa.BinOp); ok && (bo.Op == token.GTR || bo.Op == token.LSS || bo.Op == token.GEQ || bo.Op == token.LEQ) && (bufLen(bo.X) || bufLen(bo.Y)) {
						return true
					}
				}
			}
		}
		return false
	}
	for _, fn := range fns {
		nth := 0
		for _, b := range fn.Blocks {
			for _, ins := range b.Instrs {
				c, ok := ins.(ssa.CallInstruction)
				if !ok {
					continue
				}
				callee := c.Common().StaticCallee()
				if callee == nil || callee.Name() != fillName || callee.Signature.Recv() == nil || len(c.Common().Args) != 2 {
					continue
				}
				if pt, ok := callee.Signature.Recv().Type().(*types.Pointer); !ok || !strings.HasSuffix(pt.Elem().String(), "Conn") {
					continue
				}
				nth++
				s := fillSite{fn: fn, nth: nth, pos: c.Pos()}
				arg := c.Common().Args[1]
				switch {
				case clampedByBuffer(arg):
					s.note = "clamped by the length of the buffer itself"
				default:
					ub := upperBound(arg, nil, 0)
					switch {
					case !ub.known || ub.param != "":
						s.why = "the request has no constant upper bound and is not clamped by len or cap of ReadBuf: a request beyond the buffer is never met, Fill hands the transport an empty slice and spins"
					case capacity < 0:
						s.why = "the size of ReadBuf is not known"
					case ub.max > capacity:
						s.why = fmt.Sprintf("the request can be as large as %d but ReadBuf is allocated with %d bytes at one of its allocation sites: on such a connection a request beyond %d is never met — Fill hands the transport an empty slice and spins, and the message does not arrive", ub.max, capacity, capacity)
					default:
						s.note = fmt.Sprintf("at most %d of %d bytes", ub.max, capacity)
					}
				}
				res.sites = append(res.sites, s)
			}
		}
	}
	return res
}

const fillBoundExample = `package example

type Conn struct {
	ReadBuf  []byte
	ReadEnd  int
}

const big = 1024

func NewConnSize(n int) *Conn { return &Conn{ReadBuf: make([]byte, n)} }

func NewConn() *Conn { return NewConnSize(big) }

func NewMeshConn() *Conn { return NewConnSize(64) }

func (c *Conn) Fill(n int) error {
	for c.ReadEnd < n {
		c.ReadEnd++
	}
	return nil
}

func (c *Conn) ReceiveOld(n int) error {
	need := n
	if need > big {
		need = big
	}
	return c.Fill(need)
}

func (c *Conn) ReceiveClamped(n int) error {
	need := n
	if need > cap(c.ReadBuf) {
		need = cap(c.ReadBuf)
	}
	return c.Fill(need)
}

func (c *Conn) ReceiveByte() error { return c.Fill(1) }
`

func constantInt(n int64) constant.Value { return constant.MakeInt64(n) }
