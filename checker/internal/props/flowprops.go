package props

import (
	"strings"

	"golang.org/x/tools/go/ssa"

	"mpcverif/internal/flow"
	"mpcverif/internal/load"
	"mpcverif/internal/report"
)

func bigIntParams(f *ssa.Function) []ssa.Value {
	var out []ssa.Value
	for _, p := range f.Params {
		t := p.Type().String()
		if strings.Contains(t, "math/big.Int") {
			out = append(out, p)
		}
	}
	return out
}

// C13 decides that decoders do not modify the big integers they are given.
func C13(p *load.Program, run *report.Run) {
	run.Rule("argument-purity", "no mutating *big.Int method (or store) is applied to a value that may alias a *big.Int argument or an element of a []*big.Int argument")
	type ref struct{ pkg, typ, name string }
	for _, r := range []ref{
		{"", "", "Result"}, {"", "", "Results"}, {"", "", "PrintResults"},
		{"circuit", "IO", "Split"}, {"circuit", "Circuit", "Compute"},
		{"circuit", "", "Garbler"}, {"circuit", "", "Evaluator"},
		{"compiler/ssa", "Program", "Stream"},
	} {
		var f *ssa.Function
		var err error
		if r.typ == "" {
			f, err = p.Func(r.pkg, r.name)
		} else {
			f, err = p.Method(r.pkg, r.typ, r.name)
		}
		name := strings.TrimPrefix(r.pkg+"."+r.typ+"."+r.name, ".")
		if err != nil {
			run.Undecided("argument-purity", name, "", err.Error())
			continue
		}
		roots := bigIntParams(f)
		if len(roots) == 0 {
			run.Undecided("argument-purity", name, p.Rel(f.Pos()), "no *big.Int argument found")
			continue
		}
		run.Count("decoder-functions", 1)
		ws := flow.WritesThrough(f, roots, nil, nil)
		if len(ws) == 0 {
			run.OK("argument-purity", name, p.Rel(f.Pos()), "")
			continue
		}
		for _, w := range ws {
			run.Violate("argument-purity", name+"/"+w.Fn.Name(), p.Rel(w.Pos), w.What, nil)
		}
	}
	run.Floor("decoder-functions", 8)
}

// C17 write-freedom on the shared circuit.
func C17(p *load.Program, run *report.Run) {
	run.Rule("shared-circuit-write-freedom", "nothing reachable from Garble, Eval, Compute writes through the receiver *Circuit (sync/atomic and sync.Pool methods excepted; a buffer field that busy-flag-released-only-by-owner shows to be exclusive to the holder of a flag is not shared)")
	allow := func(f *ssa.Function) bool {
		if f.Pkg == nil {
			return true // synthetic wrappers of generic atomic types
		}
		path := f.Pkg.Pkg.Path()
		return path == "sync/atomic" || path == "sync"
	}
	// a buffer of the circuit that is exclusive to the holder of a busy flag is not shared memory
	ob := ownedBuffers(p, run, []string{"circuit"})
	flow.ExemptField = ob.owned
	defer func() { flow.ExemptField = nil }()
	for _, name := range []string{"Garble", "Eval", "Compute", "garbleScratchPool"} {
		f, err := p.Method("circuit", "Circuit", name)
		if err != nil {
			run.Undecided("shared-circuit-write-freedom", "circuit.Circuit."+name, "", err.Error())
			continue
		}
		run.Count("entry-functions", 1)
		ws := flow.WritesThrough(f, []ssa.Value{f.Params[0]}, allow, nil)
		if len(ws) == 0 {
			run.OK("shared-circuit-write-freedom", "circuit.Circuit."+name, p.Rel(f.Pos()), "")
		}
		for _, w := range ws {
			run.Violate("shared-circuit-write-freedom", "circuit.Circuit."+name+"/"+w.Fn.Name(), p.Rel(w.Pos), w.What, nil)
		}
	}
	run.Floor("entry-functions", 4)
}
