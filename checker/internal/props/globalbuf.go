package props

import (
	"fmt"
	"go/token"
	"go/types"
	"sort"
	"strings"

	"golang.org/x/tools/go/ssa"

	"mpcverif/internal/load"
	"mpcverif/internal/report"
)

// GlobalBufferNotReturned: no function hands out memory that belongs to the package.
//
// Sessions are independent: two of them may run at the same time in one process, each with its own
// connection and state.  A function that writes its result into a package-level buffer and returns a slice
// of it ("valid until the next call") makes every caller in the process share those bytes: the second
// session's call overwrites what the first is still reading, and the shares, labels or messages built
// from it are another session's.  The rule: in the protocol packages no function returns, stores through
// a parameter, or appends a slice of a package-level array or slice variable that the package also writes.
func GlobalBufferNotReturned(pkgs ...string) func(p *load.Program, run *report.Run) {
	return func(p *load.Program, run *report.Run) {
		const rule = "no-package-buffer-handed-out"
		run.Rule(rule, "in packages "+strings.Join(pkgs, ", ")+" (tests excluded): no function returns a slice whose memory is a package-level variable of array or slice type that some function of the package writes through (element store, copy, clear or a call given the slice); with built-in examples")
		n := 0
		for _, name := range pkgs {
			pkg, err := p.Pkg(name)
			if err != nil {
				run.Undecided(rule, name, "", err.Error())
				continue
			}
			var fns []*ssa.Function
			for _, fn := range p.AllFunctions() {
				if fn.Pkg == pkg && fn.Blocks != nil && fn.Synthetic == "" && !strings.HasSuffix(p.Fset.Position(fn.Pos()).Filename, "_test.go") {
					fns = append(fns, fn)
				}
			}
			sort.Slice(fns, func(i, j int) bool { return fns[i].Pos() < fns[j].Pos() })
			n += len(fns)
			for _, v := range globalBufferReturns(fns) {
				run.Violate(rule, name+"."+v.fn+"/"+v.global, p.Rel(v.pos), fmt.Sprintf("%s returns a slice of the package-level buffer %s, which the package overwrites: every session in the process shares those bytes, and a second session's call changes what the first is still using", v.fn, v.global), nil)
			}
		}
		run.Count("functions-scanned-for-package-buffers", n)
		run.Floor("functions-scanned-for-package-buffers", 20)
		run.OK(rule, strings.Join(pkgs, ","), "", fmt.Sprintf("%d functions, none returns memory of a package-level buffer", n))
		look, err := buildExample(globalBufExample)
		if err != nil {
			run.Undecided(rule, "built-in example", "", err.Error())
			return
		}
		got := map[string]bool{}
		for _, v := range globalBufferReturns(exampleFuncsOf(look, "anchor")) {
			got[v.fn] = true
		}
		if !got["shared"] || got["fresh"] || got["table"] || len(got) != 1 {
			run.Undecided(rule, "built-in example", "", fmt.Sprintf("the rule misclassifies its built-in example (%v)", got))
			return
		}
		run.Count("package-buffer-examples", 3)
		run.OK(rule, "built-in examples", "", "a result written into a package-level array and returned is reported; a fresh buffer and a read-only table are not")
		run.Floor("package-buffer-examples", 3)
	}
}

type globalBufReturn struct {
	fn, global string
	pos        token.Pos
}

func globalBufferReturns(fns []*ssa.Function) []globalBufReturn {
	// the memory of v: a package-level variable of array or slice type
	var rootOf func(v ssa.Value, d int) *ssa.Global
	rootOf = func(v ssa.Value, d int) *ssa.Global {
		if d > 6 {
			return nil
		}
		switch t := v.(type) {
		case *ssa.Global:
			switch t.Type().(*types.Pointer).Elem().Underlying().(type) {
			case *types.Array, *types.Slice:
				return t
			}
		case *ssa.Slice:
			return rootOf(t.X, d+1)
		case *ssa.UnOp:
			return rootOf(t.X, d+1)
		case *ssa.IndexAddr:
			return rootOf(t.X, d+1)
		case *ssa.Phi:
			for _, e := range t.Edges {
				if g := rootOf(e, d+1); g != nil {
					return g
				}
			}
		}
		return nil
	}
	written := map[*ssa.Global]bool{}
	for _, fn := range fns {
		if fn.Name() == "init" {
			continue
		}
		for _, b := range fn.Blocks {
			for _, ins := range b.Instrs {
				switch t := ins.(type) {
				case *ssa.Store:
					if _, isIdx := t.Addr.(*ssa.IndexAddr); isIdx {
						if g := rootOf(t.Addr, 0); g != nil {
							written[g] = true
						}
					}
				case *ssa.Call:
					for i, a := range t.Call.Args {
						if _, isSlice := a.Type().Underlying().(*types.Slice); !isSlice {
							continue
						}
						g := rootOf(a, 0)
						if g == nil {
							continue
						}
						if bi, ok := t.Call.Value.(*ssa.Builtin); ok {
							if bi.Name() == "copy" && i == 0 || bi.Name() == "clear" {
								written[g] = true
							}
							continue
						}
						// handed to a function as a slice: FillBytes, Read, … may write it
						written[g] = true
					}
				}
			}
		}
	}
	var out []globalBufReturn
	for _, fn := range fns {
		for _, b := range fn.Blocks {
			ret, ok := b.Instrs[len(b.Instrs)-1].(*ssa.Return)
			if !ok {
				continue
			}
			for _, r := range load.Results(ret) {
				if _, isSlice := r.Type().Underlying().(*types.Slice); !isSlice {
					continue
				}
				if g := rootOf(r, 0); g != nil && written[g] {
					out = append(out, globalBufReturn{fn.Name(), g.Name(), ret.Pos()})
				}
			}
		}
	}
	return out
}

const globalBufExample = `package example

func anchor() {}

var buf [32]byte

var names = []string{"a", "b"}

func fill(b []byte, v int) { b[0] = byte(v) }

func shared(v int) []byte {
	out := buf[:]
	fill(out, v)
	return out
}

func fresh(v int) []byte {
	out := make([]byte, 32)
	fill(out, v)
	return out
}

func table() []string { return names[:1] }
`
