package props

import (
	"fmt"
	"go/ast"
	"go/token"
	"go/types"
	"sort"
	"strings"

	"mpcverif/internal/load"
	"mpcverif/internal/report"
)

// HexWidthAgreement: the size inferred for a 0x literal is the size its parser writes.
//
// circuit.InputSizes tells the compiler how wide an unsized argument is; IOArg.Parse later lays the same
// text out on the wires.  For a literal with the prefix 0x both take the width from the spelling (leading
// zeros count): (len(text)-2)*4.  They are two sites of one rule; when one of them learns something new
// about the spelling (digit separators do not count) and the other does not, the inferred array is shorter
// than what Parse writes and the value arrives shifted.  Every branch of the package guarded by
// strings.HasPrefix(x, "0x") that computes a width from x computes the same function of x (helpers of the
// package with a single return are expanded).
func HexWidthAgreement(p *load.Program, run *report.Run) {
	const rule = "hex-literal-width-agreement"
	run.Rule(rule, "in package circuit, the branches guarded by strings.HasPrefix(x, \"0x\") that compute a bit count from the text x (the value assigned or appended first in the branch, an arithmetic expression over len(x) or over a helper applied to x) all compute the same expression in x, after expanding single-return helpers of the package")
	pk := p.ByPath[load.Module+"/circuit"]
	if pk == nil {
		run.Undecided(rule, "circuit", "", "package not loaded")
		return
	}
	helpers := map[types.Object]*ast.FuncDecl{}
	for _, f := range pk.Syntax {
		for _, d := range f.Decls {
			if fd, ok := d.(*ast.FuncDecl); ok && fd.Body != nil && fd.Recv == nil && len(fd.Body.List) == 1 {
				if ret, ok := fd.Body.List[0].(*ast.ReturnStmt); ok && len(ret.Results) == 1 {
					helpers[pk.TypesInfo.Defs[fd.Name]] = fd
				}
			}
		}
	}
	var norm func(e ast.Expr, subst map[string]string, depth int) string
	norm = func(e ast.Expr, subst map[string]string, depth int) string {
		e = ast.Unparen(e)
		switch t := e.(type) {
		case *ast.Ident:
			if s, ok := subst[t.Name]; ok {
				return s
			}
			return t.Name
		case *ast.BasicLit:
			return t.Value
		case *ast.BinaryExpr:
			return "(" + norm(t.X, subst, depth) + " " + t.Op.String() + " " + norm(t.Y, subst, depth) + ")"
		case *ast.CallExpr:
			if id, ok := t.Fun.(*ast.Ident); ok && depth < 3 {
				if h := helpers[pk.TypesInfo.Uses[id]]; h != nil {
					sub := map[string]string{}
					i := 0
					for _, fl := range h.Type.Params.List {
						for _, nm := range fl.Names {
							if i < len(t.Args) {
								sub[nm.Name] = norm(t.Args[i], subst, depth)
							}
							i++
						}
					}
					return norm(h.Body.List[0].(*ast.ReturnStmt).Results[0], sub, depth+1)
				}
			}
			var args []string
			for _, a := range t.Args {
				args = append(args, norm(a, subst, depth))
			}
			return types.ExprString(t.Fun) + "(" + strings.Join(args, ", ") + ")"
		}
		return types.ExprString(e)
	}
	type site struct {
		fn, expr string
		pos      token.Pos
	}
	var sites []site
	for _, f := range pk.Syntax {
		if strings.HasSuffix(p.Fset.Position(f.Pos()).Filename, "_test.go") {
			continue
		}
		for _, d := range f.Decls {
			fd, ok := d.(*ast.FuncDecl)
			if !ok || fd.Body == nil {
				continue
			}
			ast.Inspect(fd.Body, func(n ast.Node) bool {
				ifs, ok := n.(*ast.IfStmt)
				if !ok {
					return true
				}
				c, ok := ast.Unparen(ifs.Cond).(*ast.CallExpr)
				if !ok || types.ExprString(c.Fun) != "strings.HasPrefix" || len(c.Args) != 2 {
					return true
				}
				if lit, ok := c.Args[1].(*ast.BasicLit); !ok || lit.Value != `"0x"` {
					return true
				}
				x := types.ExprString(ast.Unparen(c.Args[0]))
				for _, st := range ifs.Body.List {
					as, ok := st.(*ast.AssignStmt)
					if !ok || len(as.Rhs) != 1 {
						continue
					}
					e := as.Rhs[0]
					if call, ok := e.(*ast.CallExpr); ok && types.ExprString(call.Fun) == "append" && len(call.Args) == 2 {
						e = call.Args[1]
					}
					mentions := false
					ast.Inspect(e, func(m ast.Node) bool {
						if ex, ok := m.(ast.Expr); ok && types.ExprString(ex) == x {
							mentions = true
						}
						return true
					})
					if !mentions {
						continue
					}
					// the text variable is written $ so that the sites compare
					var replace func(e ast.Expr) string
					replace = func(e ast.Expr) string {
						s := norm(e, map[string]string{}, 0)
						return strings.ReplaceAll(s, x, "$")
					}
					sites = append(sites, site{fd.Name.Name, replace(e), e.Pos()})
					break
				}
				return true
			})
		}
	}
	run.Count("hex-width-sites", len(sites))
	run.Floor("hex-width-sites", 2)
	if len(sites) == 0 {
		return
	}
	groups := map[string][]string{}
	for _, s := range sites {
		groups[s.expr] = append(groups[s.expr], s.fn)
	}
	if len(groups) == 1 {
		for _, s := range sites {
			run.OK(rule, "circuit."+s.fn, p.Rel(s.pos), "width = "+s.expr)
		}
		return
	}
	var desc []string
	for e, fns := range groups {
		sort.Strings(fns)
		desc = append(desc, fmt.Sprintf("%s in %s", e, strings.Join(fns, ", ")))
	}
	sort.Strings(desc)
	for _, s := range sites {
		run.Violate(rule, "circuit."+s.fn, p.Rel(s.pos), "the width of a 0x literal is computed differently at the sites that have to agree: "+strings.Join(desc, "; ")+" — the size inferred for an unsized argument is not the size the parser writes", nil)
	}
}
