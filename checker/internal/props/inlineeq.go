package props

import (
	"fmt"
	"go/ast"
	"go/token"
	"go/types"
	"strings"

	"golang.org/x/tools/go/packages"
	"golang.org/x/tools/go/ssa"

	"mpcverif/internal/load"
)

// The half-gate hash circuit.encryptHalf is the hand-inlined form of encryptHalfReference (makeKHalf, GetData,
// AES, SetData, Xor written out on the two 64-bit words of a label).  The garbling interpreter cannot follow
// the words; it can follow the reference.  halfGateByReference decides, on every run, whether the two are the
// same function by evaluating both on symbolic words — straight-line code only: assignments with <<, >>, |, ^,
// label methods and NewTweak inlined from their own bodies, the big-endian load/store of a word to a window of
// the scratch buffer, the block cipher as an uninterpreted function of the buffer's words — and comparing the
// two words each returns.  If they agree, the interpreter runs the reference wherever the code calls
// encryptHalf; if not (or if either body leaves the fragment this evaluator reads), encryptHalf stays an
// uninterpreted function, as before.

type weLabel struct{ D0, D1 string }

type weBuf map[string]string

type wordEval struct {
	p     *load.Program
	fail  string
	depth int
}

func (e *wordEval) bad(f string, a ...any) {
	if e.fail == "" {
		e.fail = fmt.Sprintf(f, a...)
	}
}

func weXor(a, b string) string {
	if a == "0" {
		return b
	}
	if b == "0" {
		return a
	}
	return "(" + a + "^" + b + ")"
}

func weBin(op token.Token, a, b string) string {
	switch op {
	case token.XOR, token.XOR_ASSIGN:
		return weXor(a, b)
	case token.OR, token.OR_ASSIGN:
		if a == "0" {
			return b
		}
		if b == "0" {
			return a
		}
		return "(" + a + "|" + b + ")"
	case token.SHL, token.SHL_ASSIGN:
		if a == "0" {
			return "0"
		}
		return "(" + a + "<<" + b + ")"
	case token.SHR, token.SHR_ASSIGN:
		if a == "0" {
			return "0"
		}
		return "(" + a + ">>" + b + ")"
	}
	return ""
}

func (e *wordEval) declOf(pkg *packages.Package, fun ast.Expr) (*packages.Package, *ast.FuncDecl) {
	var id *ast.Ident
	switch t := ast.Unparen(fun).(type) {
	case *ast.Ident:
		id = t
	case *ast.SelectorExpr:
		id = t.Sel
	}
	if id == nil {
		return nil, nil
	}
	fo, ok := pkg.TypesInfo.Uses[id].(*types.Func)
	if !ok || fo.Pkg() == nil {
		return nil, nil
	}
	pk := e.p.ByPath[fo.Pkg().Path()]
	if pk == nil {
		return nil, nil
	}
	for _, f := range pk.Syntax {
		for _, d := range f.Decls {
			if fd, ok := d.(*ast.FuncDecl); ok && fd.Body != nil && pk.TypesInfo.Defs[fd.Name] == types.Object(fo) {
				return pk, fd
			}
		}
	}
	return nil, nil
}

func window(e ast.Expr) (string, ast.Expr, bool) {
	sl, ok := ast.Unparen(e).(*ast.SliceExpr)
	if !ok {
		return "", nil, false
	}
	lo, hi := "", ""
	if sl.Low != nil {
		lo = types.ExprString(sl.Low)
	}
	if sl.High != nil {
		hi = types.ExprString(sl.High)
	}
	x := ast.Unparen(sl.X)
	if st, ok := x.(*ast.StarExpr); ok {
		x = ast.Unparen(st.X)
	}
	return lo + ":" + hi, x, true
}

// call evaluates fd of pkg on the arguments; env maps names to *weLabel, weBuf, string (a word) or nil (opaque).
func (e *wordEval) call(pkg *packages.Package, fd *ast.FuncDecl, recv any, args []any) any {
	e.depth++
	defer func() { e.depth-- }()
	if e.depth > 6 {
		e.bad("inlining deeper than 6")
		return nil
	}
	env := map[string]any{}
	if fd.Recv != nil && len(fd.Recv.List) == 1 && len(fd.Recv.List[0].Names) == 1 {
		name := fd.Recv.List[0].Names[0].Name
		if _, ptr := fd.Recv.List[0].Type.(*ast.StarExpr); ptr {
			env[name] = recv
		} else if l, ok := recv.(*weLabel); ok {
			c := *l
			env[name] = &c
		} else {
			env[name] = recv
		}
	}
	i := 0
	for _, fl := range fd.Type.Params.List {
		for _, nm := range fl.Names {
			if i < len(args) {
				if l, ok := args[i].(*weLabel); ok {
					if _, ptr := fl.Type.(*ast.StarExpr); !ptr {
						c := *l
						env[nm.Name] = &c
						i++
						continue
					}
				}
				env[nm.Name] = args[i]
			}
			i++
		}
	}
	var ret any
	for _, st := range fd.Body.List {
		if e.fail != "" {
			return nil
		}
		switch s := st.(type) {
		case *ast.DeclStmt:
			gd, ok := s.Decl.(*ast.GenDecl)
			if !ok || gd.Tok != token.VAR {
				e.bad("declaration in %s", fd.Name.Name)
				return nil
			}
			for _, sp := range gd.Specs {
				vs := sp.(*ast.ValueSpec)
				if len(vs.Values) != 0 || !strings.HasSuffix(types.ExprString(vs.Type), "Label") {
					e.bad("declaration of %s in %s", types.ExprString(vs.Type), fd.Name.Name)
					return nil
				}
				for _, nm := range vs.Names {
					env[nm.Name] = &weLabel{"0", "0"}
				}
			}
		case *ast.AssignStmt:
			if len(s.Lhs) != 1 || len(s.Rhs) != 1 {
				e.bad("assignment shape in %s", fd.Name.Name)
				return nil
			}
			rv := e.expr(pkg, env, s.Rhs[0])
			switch l := s.Lhs[0].(type) {
			case *ast.Ident:
				if s.Tok != token.DEFINE && s.Tok != token.ASSIGN {
					e.bad("compound assignment to %s", l.Name)
					return nil
				}
				if lb, ok := rv.(*weLabel); ok {
					c := *lb
					env[l.Name] = &c
				} else {
					env[l.Name] = rv
				}
			case *ast.SelectorExpr:
				id, ok := l.X.(*ast.Ident)
				lb, ok2 := env[idName(id, ok)].(*weLabel)
				w, ok3 := rv.(string)
				if !ok || !ok2 || !ok3 {
					e.bad("store to %s in %s", types.ExprString(l), fd.Name.Name)
					return nil
				}
				cur := &lb.D0
				if l.Sel.Name == "D1" {
					cur = &lb.D1
				} else if l.Sel.Name != "D0" {
					e.bad("field %s", l.Sel.Name)
					return nil
				}
				if s.Tok == token.ASSIGN {
					*cur = w
				} else if v := weBin(s.Tok, *cur, w); v != "" {
					*cur = v
				} else {
					e.bad("operator %s", s.Tok)
					return nil
				}
			default:
				e.bad("assignment to %s", types.ExprString(s.Lhs[0]))
				return nil
			}
		case *ast.ExprStmt:
			e.expr(pkg, env, s.X)
		case *ast.ReturnStmt:
			if len(s.Results) == 1 {
				ret = e.expr(pkg, env, s.Results[0])
			}
			return ret
		default:
			if emptyDefer(st) {
				continue
			}
			e.bad("statement %T in %s", st, fd.Name.Name)
			return nil
		}
	}
	return ret
}

func idName(id *ast.Ident, ok bool) string {
	if !ok {
		return ""
	}
	return id.Name
}

func (e *wordEval) expr(pkg *packages.Package, env map[string]any, x ast.Expr) any {
	if e.fail != "" {
		return nil
	}
	x = ast.Unparen(x)
	switch t := x.(type) {
	case *ast.BasicLit:
		return t.Value
	case *ast.Ident:
		if v, ok := env[t.Name]; ok {
			return v
		}
		e.bad("unbound %s", t.Name)
	case *ast.SelectorExpr:
		if id, ok := t.X.(*ast.Ident); ok {
			if lb, ok := env[id.Name].(*weLabel); ok {
				switch t.Sel.Name {
				case "D0":
					return lb.D0
				case "D1":
					return lb.D1
				}
			}
		}
		e.bad("selector %s", types.ExprString(t))
	case *ast.BinaryExpr:
		a, ok1 := e.expr(pkg, env, t.X).(string)
		b, ok2 := e.expr(pkg, env, t.Y).(string)
		if ok1 && ok2 {
			if v := weBin(t.Op, a, b); v != "" {
				return v
			}
		}
		e.bad("expression %s", types.ExprString(t))
	case *ast.CompositeLit:
		if !strings.HasSuffix(types.ExprString(t.Type), "Label") {
			e.bad("literal %s", types.ExprString(t.Type))
			return nil
		}
		lb := &weLabel{"0", "0"}
		for _, el := range t.Elts {
			kv, ok := el.(*ast.KeyValueExpr)
			w, ok2 := e.expr(pkg, env, kvValue(kv, ok)).(string)
			if !ok || !ok2 {
				e.bad("literal element")
				return nil
			}
			switch types.ExprString(kv.Key) {
			case "D0":
				lb.D0 = w
			case "D1":
				lb.D1 = w
			}
		}
		return lb
	case *ast.CallExpr:
		// conversion
		if tv, ok := pkg.TypesInfo.Types[t.Fun]; ok && tv.IsType() && len(t.Args) == 1 {
			if w, ok := e.expr(pkg, env, t.Args[0]).(string); ok {
				return "u64(" + w + ")"
			}
			e.bad("conversion of a non-word")
			return nil
		}
		name := ""
		var recvX ast.Expr
		if sel, ok := t.Fun.(*ast.SelectorExpr); ok {
			name, recvX = sel.Sel.Name, sel.X
		} else if id, ok := t.Fun.(*ast.Ident); ok {
			name = id.Name
		}
		switch {
		case name == "PutUint64" && len(t.Args) == 2:
			key, bx, ok := window(t.Args[0])
			w, ok2 := e.expr(pkg, env, t.Args[1]).(string)
			buf, ok3 := env[idName(asIdent(bx))].(weBuf)
			if !ok || !ok2 || !ok3 {
				e.bad("PutUint64 form")
				return nil
			}
			buf[key] = w
			return nil
		case name == "Uint64" && len(t.Args) == 1:
			key, bx, ok := window(t.Args[0])
			buf, ok3 := env[idName(asIdent(bx))].(weBuf)
			if !ok || !ok3 || buf[key] == "" {
				e.bad("Uint64 of a window that was not written")
				return nil
			}
			return buf[key]
		case name == "Encrypt" && len(t.Args) == 2:
			_, bx, ok := window(t.Args[0])
			_, sx, ok2 := window(t.Args[1])
			buf, ok3 := env[idName(asIdent(bx))].(weBuf)
			if !ok || !ok2 || !ok3 || types.ExprString(bx) != types.ExprString(sx) || buf["0:8"] == "" || buf["8:16"] == "" {
				e.bad("Encrypt form")
				return nil
			}
			in := "AES[" + buf["0:8"] + "," + buf["8:16"] + "]"
			buf["0:8"], buf["8:16"] = in+".hi", in+".lo"
			return nil
		}
		cp, fd := e.declOf(pkg, t.Fun)
		if fd == nil {
			e.bad("call of %s", types.ExprString(t.Fun))
			return nil
		}
		var recv any
		if fd.Recv != nil && recvX != nil {
			recv = e.expr(pkg, env, recvX)
		}
		var args []any
		for _, a := range t.Args {
			args = append(args, e.expr(pkg, env, a))
		}
		return e.call(cp, fd, recv, args)
	default:
		e.bad("expression %T", x)
	}
	return nil
}

func kvValue(kv *ast.KeyValueExpr, ok bool) ast.Expr {
	if !ok {
		return &ast.BasicLit{Kind: token.INT, Value: "0"}
	}
	return kv.Value
}

func asIdent(x ast.Expr) (*ast.Ident, bool) {
	id, ok := x.(*ast.Ident)
	return id, ok
}

// halfGateByReference returns circuit.encryptHalfReference if encryptHalf is shown to be the same function of
// the label's two words, the tweak and the cipher; nil (with the reason) otherwise.
func halfGateByReference(p *load.Program) (*ssa.Function, string) {
	pkg := p.ByPath[load.Module+"/circuit"]
	if pkg == nil {
		return nil, "package circuit not loaded"
	}
	find := func(name string) *ast.FuncDecl {
		for _, f := range pkg.Syntax {
			for _, d := range f.Decls {
				if fd, ok := d.(*ast.FuncDecl); ok && fd.Recv == nil && fd.Name.Name == name && fd.Body != nil {
					return fd
				}
			}
		}
		return nil
	}
	fast, ref := find("encryptHalf"), find("encryptHalfReference")
	if fast == nil || ref == nil {
		return nil, "encryptHalf or its reference not found"
	}
	run := func(fd *ast.FuncDecl) (string, string) {
		e := &wordEval{p: p}
		v := e.call(pkg, fd, nil, []any{nil, &weLabel{"x.D0", "x.D1"}, "i", weBuf{}})
		if e.fail != "" {
			return "", e.fail
		}
		lb, ok := v.(*weLabel)
		if !ok {
			return "", "no label returned"
		}
		return lb.D0 + " ; " + lb.D1, ""
	}
	a, why := run(fast)
	if why != "" {
		return nil, "encryptHalf: " + why
	}
	b, why := run(ref)
	if why != "" {
		return nil, "encryptHalfReference: " + why
	}
	if a != b {
		return nil, "encryptHalf and encryptHalfReference differ on symbolic words: " + a + " vs " + b
	}
	fn, err := p.Func("circuit", "encryptHalfReference")
	if err != nil {
		return nil, err.Error()
	}
	return fn, ""
}
