package props

import (
	"fmt"
	"go/token"
	"go/types"
	"sort"
	"strings"

	"golang.org/x/tools/go/ssa"

	"mpcverif/internal/load"
	"mpcverif/internal/report"
)

// KeptAccumulators: an accumulator kept in a protocol object starts every operation from zero.
//
// Moving a running value (an XOR checksum, a correlation tag, a share accumulator) from a local variable
// into a field of the object that outlives the call makes the next call start from whatever the previous
// one left.  If the field is cleared only on the success path, one failed (correctly rejected) operation
// poisons every later one: honest executions abort, or worse, a stale term is folded into a result.  For
// every field of a struct in the protocol packages that some method accumulates into (x.f ^= v, x.f |= v,
// x.f += v, x.f.Xor(v), x.f.Or(v) …) *and* that some method resets (a store of the zero value): in every
// exported method from which an accumulation of the field is reachable on the same receiver, a reset of
// the field dominates the accumulation (or the call through which it is reached).  Fields that are never
// reset are lifetime counters by design (byte statistics) and are not concerned.
func KeptAccumulators(pkgs ...string) func(p *load.Program, run *report.Run) {
	return func(p *load.Program, run *report.Run) {
		const rule = "kept-accumulator-reset-first"
		run.Rule(rule, "in "+strings.Join(pkgs, ", ")+": for every struct field that is both accumulated into (^=, |=, +=, .Xor, .Or, .Add on the field) and reset to the zero value somewhere in the package, each exported method that both resets the field and reaches an accumulation of it on its receiver does the reset on every path before the accumulation (a reset placed after the use, or on the success path only, leaves the value of a failed call for the next one)")
		want := map[string]bool{}
		for _, rel := range pkgs {
			want[load.Module+"/"+rel] = true
		}
		var fns []*ssa.Function
		for _, fn := range p.AllFunctions() {
			if fn.Pkg == nil || !want[fn.Pkg.Pkg.Path()] || fn.Blocks == nil || fn.Synthetic != "" || strings.HasSuffix(p.Fset.Position(fn.Pos()).Filename, "_test.go") {
				continue
			}
			fns = append(fns, fn)
		}
		sort.Slice(fns, func(i, j int) bool { return fns[i].Pos() < fns[j].Pos() })
		type fkey struct {
			typ   string
			field int
			name  string
		}
		fieldOf := func(addr ssa.Value) (fkey, ssa.Value, bool) {
			for d := 0; d < 4; d++ {
				switch t := addr.(type) {
				case *ssa.FieldAddr:
					pt, ok := t.X.Type().Underlying().(*types.Pointer)
					if !ok {
						return fkey{}, nil, false
					}
					n, ok := pt.Elem().(*types.Named)
					if !ok {
						return fkey{}, nil, false
					}
					return fkey{n.String(), t.Field, structFieldName(t.X.Type(), t.Field)}, t.X, true
				case *ssa.IndexAddr:
					addr = t.X
				default:
					return fkey{}, nil, false
				}
			}
			return fkey{}, nil, false
		}
		isZero := func(v ssa.Value) bool {
			switch t := v.(type) {
			case *ssa.Const:
				return t.Value == nil || t.Value.String() == "0" || t.Value.String() == "false"
			case *ssa.UnOp:
				// a load of a fresh zero composite: Label{}
				if al, ok := t.X.(*ssa.Alloc); ok && t.Op == token.MUL && al.Referrers() != nil {
					stores := 0
					for _, r := range *al.Referrers() {
						if _, ok := r.(*ssa.Store); ok {
							stores++
						}
					}
					return stores == 0
				}
			}
			return false
		}
		type site struct {
			fn  *ssa.Function
			ins ssa.Instruction
			rcv ssa.Value
		}
		accs := map[fkey][]site{}
		resets := map[fkey][]site{}
		for _, fn := range fns {
			for _, b := range fn.Blocks {
				for _, ins := range b.Instrs {
					switch t := ins.(type) {
					case *ssa.Store:
						k, rcv, ok := fieldOf(t.Addr)
						if !ok {
							continue
						}
						if isZero(t.Val) {
							resets[k] = append(resets[k], site{fn, ins, rcv})
							continue
						}
						if bo, ok := t.Val.(*ssa.BinOp); ok && (bo.Op == token.XOR || bo.Op == token.OR || bo.Op == token.ADD) {
							for _, side := range []ssa.Value{bo.X, bo.Y} {
								if ld, ok := side.(*ssa.UnOp); ok && ld.Op == token.MUL {
									if k2, _, ok := fieldOf(ld.X); ok && k2 == k {
										accs[k] = append(accs[k], site{fn, ins, rcv})
									}
								}
							}
						}
					case *ssa.Call:
						callee := t.Call.StaticCallee()
						if callee == nil || callee.Signature.Recv() == nil || len(t.Call.Args) < 2 {
							continue
						}
						switch callee.Name() {
						case "Xor", "Or", "Add", "And":
							if k, rcv, ok := fieldOf(t.Call.Args[0]); ok && callee.Name() != "And" {
								accs[k] = append(accs[k], site{fn, ins, rcv})
							}
						}
					}
				}
			}
		}
		var keys []fkey
		for k := range accs {
			if len(resets[k]) > 0 {
				keys = append(keys, k)
			}
		}
		sort.Slice(keys, func(i, j int) bool { return keys[i].typ+keys[i].name < keys[j].typ+keys[j].name })
		run.Count("accumulated-fields", len(accs))
		run.Count("reset-accumulators", len(keys))
		for _, k := range keys {
			short := k.typ[strings.LastIndex(k.typ, "/")+1:] + "." + k.name
			// for each exported method of the type: the instructions through which an accumulation of k on the
			// method's own receiver is reached
			for _, m := range fns {
				if m.Signature.Recv() == nil || !token.IsExported(m.Name()) || len(m.Params) == 0 {
					continue
				}
				if pt, ok := m.Params[0].Type().Underlying().(*types.Pointer); !ok || pt.Elem().String() != k.typ {
					continue
				}
				recv := ssa.Value(m.Params[0])
				// reach[g]: g accumulates k on its receiver parameter (directly or through calls passing it on)
				memo := map[*ssa.Function]int{}
				var reaches func(g *ssa.Function, rp ssa.Value, depth int) []ssa.Instruction
				reaches = func(g *ssa.Function, rp ssa.Value, depth int) []ssa.Instruction {
					var out []ssa.Instruction
					if depth > 3 || memo[g] > 2 {
						return nil
					}
					memo[g]++
					for _, s := range accs[k] {
						if s.fn == g && s.rcv == rp {
							out = append(out, s.ins)
						}
					}
					for _, b := range g.Blocks {
						for _, ins := range b.Instrs {
							c, ok := ins.(*ssa.Call)
							if !ok || c.Call.StaticCallee() == nil || c.Call.StaticCallee().Blocks == nil || !load.InModule(c.Call.StaticCallee()) {
								continue
							}
							callee := c.Call.StaticCallee()
							for i, a := range c.Call.Args {
								if a == rp && i < len(callee.Params) {
									if len(reaches(callee, callee.Params[i], depth+1)) > 0 {
										out = append(out, ins)
									}
								}
							}
						}
					}
					return out
				}
				via := reaches(m, recv, 0)
				if len(via) == 0 {
					continue
				}
				// per-call accumulators are reset by the operation that uses them; a field that only another
				// method resets (Clear, renew, a constructor) has a lifetime longer than one call by design
				own := false
				for _, r := range resets[k] {
					if r.fn == m && r.rcv == recv {
						own = true
					}
				}
				if !own {
					continue
				}
				run.Count("accumulator-entries", 1)
				key := fmt.Sprintf("%s/%s", strings.ReplaceAll(m.RelString(nil), load.Module+"/", ""), short)
				bad := ""
				for _, v := range via {
					ok := false
					for _, r := range resets[k] {
						if r.fn != m || r.rcv != recv {
							continue
						}
						rb, vb := r.ins.Block(), v.Block()
						if rb == vb {
							if instrIndex(r.ins) < instrIndex(v) {
								ok = true
							}
						} else if rb.Dominates(vb) {
							ok = true
						}
					}
					if !ok {
						bad = p.Rel(v.Pos())
						break
					}
				}
				if bad != "" {
					run.Violate(rule, key, p.Rel(m.Pos()), fmt.Sprintf("%s is accumulated into at %s without having been reset on every path of this call: it is cleared elsewhere (%s), so the value a previous — possibly failed — call left behind is folded into this one", short, bad, p.Rel(resets[k][0].ins.Pos())), nil)
				} else {
					run.OK(rule, key, p.Rel(m.Pos()), "reset before the first accumulation")
				}
			}
		}
		run.Floor("accumulated-fields", 1)
		keptAccExample(run, rule)
	}
}

// keptAccExample: the module has no per-call accumulator kept in a field today; the rule's two verdicts are
// exercised on every run by the classification of a reset that comes after the accumulation.
func keptAccExample(run *report.Run, rule string) {
	// the classification core is dominance of a store over a later instruction in one function: built from
	// the SSA of two tiny functions
	const src = `package example

type acc struct{ sum uint64 }

func (a *acc) Late(v []uint64) uint64 {
	for _, x := range v {
		a.sum ^= x
	}
	r := a.sum
	a.sum = 0
	return r
}

func (a *acc) Early(v []uint64) uint64 {
	a.sum = 0
	for _, x := range v {
		a.sum ^= x
	}
	return a.sum
}
`
	fn, err := buildExample(src)
	if err != nil {
		run.Undecided(rule, "built-in example", "", err.Error())
		return
	}
	verdict := func(name string) bool {
		f := fn(name)
		var reset, accum ssa.Instruction
		for _, b := range f.Blocks {
			for _, ins := range b.Instrs {
				if st, ok := ins.(*ssa.Store); ok {
					if c, ok := st.Val.(*ssa.Const); ok && c.Value != nil && c.Value.String() == "0" {
						reset = ins
					} else if _, ok := st.Val.(*ssa.BinOp); ok {
						accum = ins
					}
				}
			}
		}
		if reset == nil || accum == nil {
			return false
		}
		if reset.Block() == accum.Block() {
			return instrIndex(reset) < instrIndex(accum)
		}
		return reset.Block().Dominates(accum.Block())
	}
	if verdict("Late") || !verdict("Early") {
		run.Undecided(rule, "built-in example", "", "the rule misclassifies its built-in example")
		return
	}
	run.Count("kept-accumulator-examples", 2)
	run.OK(rule, "built-in examples", "", "reset after the accumulation recognised, reset first accepted")
}
