package props

import (
	"fmt"
	"go/constant"
	"go/token"
	"go/types"
	"strings"

	"golang.org/x/tools/go/ssa"

	"mpcverif/internal/load"
)

// A label decider is a function that is handed a wire (its two labels) and a label and says which of the
// two it is — or that it is neither.  However it is written (a chain of Label.Equal tests, constant-time
// byte comparisons combined with arithmetic, a switch), it is decided by *evaluating it on the three cases*
// the label can be in — equal to L0, equal to L1, equal to neither — over a small abstract domain: labels
// are the tokens L0, L1, X; Label.Bytes(buf) writes the token into the buffer it is given and returns a
// view of that buffer (so two serialisations into one buffer see the later token); comparisons compare
// tokens; integers and booleans are concrete.  The function is a decider if the case L0 yields the bit 0
// and success, L1 yields the bit 1 and success, and X yields failure (ok == false or a non-nil error).
type deciderTable struct {
	ok      bool   // the three cases evaluated and gave the right answers
	why     string // otherwise: what went wrong (not evaluable, or which case is wrong)
	shape   bool   // the function has the shape of a decider at all (wire, label in; bit and ok/error out)
	boolOK  bool   // the last result is a bool (true = known label), not an error
	sticky  string // the verdict is left in this error field of the pointer receiver (nil = known label)
	evaluee *ssa.Function
}

type ldLabel string  // a label token
type ldWire struct{} // the wire operand: field L0 is token L0, field L1 is token L1
type ldCell struct {
	v      any
	fields map[string]any
}
type ldView struct{ c *ldCell } // a byte view of a buffer
type ldErr struct{}
type ldOpaque struct{}
type ldFieldRef struct {
	cell *ldCell
	name string
}

var deciderMemo = map[*ssa.Function]*deciderTable{}

func labelDecider(fn *ssa.Function) *deciderTable {
	if t, ok := deciderMemo[fn]; ok {
		return t
	}
	t := &deciderTable{evaluee: fn}
	deciderMemo[fn] = t
	if fn == nil || fn.Blocks == nil {
		return t
	}
	isNamed := func(ty types.Type, name string) bool {
		if pt, ok := ty.(*types.Pointer); ok {
			ty = pt.Elem()
		}
		n, ok := ty.(*types.Named)
		return ok && n.Obj().Pkg() != nil && n.Obj().Pkg().Path() == load.Module+"/ot" && n.Obj().Name() == name
	}
	var wireP, labelP *ssa.Parameter
	for _, prm := range fn.Params {
		switch {
		case isNamed(prm.Type(), "Wire") && wireP == nil:
			wireP = prm
		case isNamed(prm.Type(), "Label") && labelP == nil:
			if _, isPtr := prm.Type().(*types.Pointer); !isPtr {
				labelP = prm
			}
		}
	}
	res := fn.Signature.Results()
	// a method that records the verdict in an error field of its pointer receiver instead of returning it
	var recvP *ssa.Parameter
	errField := ""
	if wireP != nil && labelP != nil && res.Len() == 1 && fn.Signature.Recv() != nil && len(fn.Params) > 0 {
		if pt, ok := fn.Params[0].Type().Underlying().(*types.Pointer); ok {
			if st, ok := pt.Elem().Underlying().(*types.Struct); ok {
				for i := 0; i < st.NumFields(); i++ {
					if st.Field(i).Type().String() == "error" {
						errField = st.Field(i).Name()
					}
				}
				if errField != "" {
					recvP = fn.Params[0]
				}
			}
		}
	}
	if wireP == nil || labelP == nil || (res.Len() != 2 && recvP == nil) {
		return t
	}
	first, isBasic := res.At(0).Type().Underlying().(*types.Basic)
	if !isBasic || first.Info()&(types.IsInteger|types.IsBoolean) == 0 {
		return t
	}
	switch {
	case recvP != nil:
		t.sticky = errField
	case res.At(1).Type().String() == "error":
	case res.At(1).Type().String() == "bool":
		t.boolOK = true
	default:
		return t
	}
	t.shape = true
	want := map[ldLabel][2]any{"L0": {int64(0), true}, "L1": {int64(1), true}, "X": {nil, false}}
	for _, cs := range []ldLabel{"L0", "L1", "X"} {
		args := make([]any, len(fn.Params))
		var recvCell *ldCell
		for i, prm := range fn.Params {
			switch {
			case prm == labelP:
				args[i] = cs
			case prm == wireP:
				if _, isPtr := prm.Type().(*types.Pointer); isPtr {
					args[i] = &ldCell{v: ldWire{}}
				} else {
					args[i] = ldWire{}
				}
			case prm == recvP:
				recvCell = &ldCell{fields: map[string]any{errField: nil}}
				args[i] = recvCell
			default:
				if _, isPtr := prm.Type().(*types.Pointer); isPtr {
					args[i] = &ldCell{}
				} else {
					args[i] = ldOpaque{}
				}
			}
		}
		vals, why := ldEval(fn, args, 0)
		if why != "" {
			t.why = "not evaluable: " + why
			return t
		}
		if recvP != nil {
			if len(vals) != 1 {
				t.why = "does not return one value"
				return t
			}
			vals = append(vals, recvCell.fields[errField])
		}
		if len(vals) != 2 {
			t.why = "does not return two values"
			return t
		}
		known := false
		switch x := vals[1].(type) {
		case bool:
			known = x
		case nil:
			known = !t.boolOK
		case ldErr:
			known = false
		default:
			t.why = fmt.Sprintf("for a label equal to %s the second result is not decided", cs)
			return t
		}
		if known != want[cs][1].(bool) {
			if cs == "X" {
				t.why = "a label that is neither L0 nor L1 is accepted"
			} else {
				t.why = fmt.Sprintf("the label %s is rejected", cs)
			}
			return t
		}
		if cs != "X" {
			var bit int64 = -1
			switch x := vals[0].(type) {
			case int64:
				bit = x
			case bool:
				if x {
					bit = 1
				} else {
					bit = 0
				}
			}
			if bit != want[cs][0].(int64) {
				t.why = fmt.Sprintf("the label %s is resolved to %v", cs, vals[0])
				return t
			}
		}
	}
	t.ok = true
	return t
}

// ldEval runs fn with the label parameter equal to the token which.
func ldEval(fn *ssa.Function, args []any, depth int) ([]any, string) {
	env := map[ssa.Value]any{}
	for i, prm := range fn.Params {
		if i < len(args) {
			env[prm] = args[i]
		}
	}
	fail := ""
	bad := func(f string, a ...any) any {
		if fail == "" {
			fail = fmt.Sprintf(f, a...)
		}
		return ldOpaque{}
	}
	var get func(v ssa.Value) any
	get = func(v ssa.Value) any {
		if x, ok := env[v]; ok {
			return x
		}
		switch t := v.(type) {
		case *ssa.Const:
			if t.Value == nil {
				return nil
			}
			switch t.Value.Kind() {
			case constant.Int:
				k, _ := constant.Int64Val(t.Value)
				return k
			case constant.Bool:
				return constant.BoolVal(t.Value)
			}
			return ldOpaque{}
		case *ssa.Parameter:
			return ldOpaque{}
		case *ssa.Global, *ssa.Function, *ssa.Builtin:
			return ldOpaque{}
		}
		return ldOpaque{}
	}
	content := func(x any) (ldLabel, bool) {
		switch t := x.(type) {
		case ldView:
			l, ok := t.c.v.(ldLabel)
			return l, ok
		case ldLabel:
			return t, true
		}
		return "", false
	}
	fieldTok := func(name string) any {
		switch name {
		case "L0":
			return ldLabel("L0")
		case "L1":
			return ldLabel("L1")
		}
		return ldOpaque{}
	}
	b := fn.Blocks[0]
	var prev *ssa.BasicBlock
	for steps := 0; steps < 400 && fail == ""; steps++ {
		// phis first
		for _, ins := range b.Instrs {
			ph, ok := ins.(*ssa.Phi)
			if !ok {
				break
			}
			for k, p := range b.Preds {
				if p == prev {
					env[ph] = get(ph.Edges[k])
				}
			}
		}
		var next *ssa.BasicBlock
		for _, ins := range b.Instrs {
			switch t := ins.(type) {
			case *ssa.Phi, *ssa.DebugRef:
			case *ssa.Alloc:
				env[t] = &ldCell{}
			case *ssa.Store:
				switch a := get(t.Addr).(type) {
				case *ldCell:
					a.v = get(t.Val)
				case ldFieldRef:
					if a.cell.fields != nil {
						a.cell.fields[a.name] = get(t.Val)
					}
				case ldOpaque:
				default:
					_ = a
				}
			case *ssa.UnOp:
				switch t.Op {
				case token.MUL:
					switch a := get(t.X).(type) {
					case *ldCell:
						env[t] = a.v
						if a.v == nil {
							// an unset local: the zero value
							env[t] = ldOpaque{}
						}
					case ldFieldRef:
						if _, isWire := a.cell.v.(ldWire); isWire {
							env[t] = fieldTok(a.name)
						} else if a.cell.fields != nil {
							if fv, ok := a.cell.fields[a.name]; ok {
								env[t] = fv
							} else {
								env[t] = ldOpaque{}
							}
						} else {
							env[t] = ldOpaque{}
						}
					default:
						env[t] = ldOpaque{}
					}
				case token.NOT:
					if x, ok := get(t.X).(bool); ok {
						env[t] = !x
					} else {
						env[t] = ldOpaque{}
					}
				default:
					env[t] = ldOpaque{}
				}
			case *ssa.FieldAddr:
				if c, ok := get(t.X).(*ldCell); ok {
					env[t] = ldFieldRef{c, structFieldName(t.X.Type(), t.Field)}
				} else {
					env[t] = ldOpaque{}
				}
			case *ssa.Field:
				if _, ok := get(t.X).(ldWire); ok {
					if st, ok := t.X.Type().Underlying().(*types.Struct); ok {
						env[t] = fieldTok(st.Field(t.Field).Name())
					}
				} else {
					env[t] = ldOpaque{}
				}
			case *ssa.Slice:
				switch a := get(t.X).(type) {
				case *ldCell:
					env[t] = ldView{a}
				case ldView:
					env[t] = a
				default:
					env[t] = ldOpaque{}
				}
			case *ssa.Convert:
				env[t] = get(t.X)
			case *ssa.ChangeType:
				env[t] = get(t.X)
			case *ssa.MakeInterface:
				env[t] = ldOpaque{}
			case *ssa.IndexAddr, *ssa.Index, *ssa.MakeSlice, *ssa.Lookup, *ssa.TypeAssert, *ssa.ChangeInterface, *ssa.MakeClosure:
				env[ins.(ssa.Value)] = ldOpaque{}
			case *ssa.Extract:
				if tu, ok := get(t.Tuple).([]any); ok && t.Index < len(tu) {
					env[t] = tu[t.Index]
				} else {
					env[t] = ldOpaque{}
				}
			case *ssa.BinOp:
				x, y := get(t.X), get(t.Y)
				xi, okx := x.(int64)
				yi, oky := y.(int64)
				xb, okxb := x.(bool)
				yb, okyb := y.(bool)
				switch {
				case okx && oky:
					switch t.Op {
					case token.OR:
						env[t] = xi | yi
					case token.AND:
						env[t] = xi & yi
					case token.XOR:
						env[t] = xi ^ yi
					case token.ADD:
						env[t] = xi + yi
					case token.SUB:
						env[t] = xi - yi
					case token.MUL:
						env[t] = xi * yi
					case token.EQL:
						env[t] = xi == yi
					case token.NEQ:
						env[t] = xi != yi
					case token.LSS:
						env[t] = xi < yi
					case token.GTR:
						env[t] = xi > yi
					default:
						env[t] = ldOpaque{}
					}
				case okxb && okyb:
					switch t.Op {
					case token.EQL:
						env[t] = xb == yb
					case token.NEQ:
						env[t] = xb != yb
					case token.AND, token.LAND:
						env[t] = xb && yb
					case token.OR, token.LOR:
						env[t] = xb || yb
					default:
						env[t] = ldOpaque{}
					}
				default:
					// error == nil
					if t.Op == token.EQL || t.Op == token.NEQ {
						_, xe := x.(ldErr)
						_, ye := y.(ldErr)
						if (x == nil || xe) && (y == nil || ye) {
							env[t] = (xe == ye) == (t.Op == token.EQL)
							break
						}
					}
					env[t] = ldOpaque{}
				}
			case *ssa.Call:
				callee := t.Call.StaticCallee()
				name := ""
				if callee != nil {
					name = callee.String()
				}
				args := t.Call.Args
				switch {
				case name == "("+load.Module+"/ot.Label).Equal" && len(args) == 2:
					a, ok1 := content(get(args[0]))
					c, ok2 := content(get(args[1]))
					if !ok1 || !ok2 {
						return nil, "Equal on a value that is not one of the labels"
					}
					env[t] = a == c
				case name == "("+load.Module+"/ot.Label).Bytes" && len(args) == 2:
					l, ok1 := get(args[0]).(ldLabel)
					c, ok2 := get(args[1]).(*ldCell)
					if !ok1 || !ok2 {
						return nil, "Bytes of a value that is not one of the labels"
					}
					c.v = l
					env[t] = ldView{c}
				case (name == "crypto/subtle.ConstantTimeCompare" || name == "bytes.Equal") && len(args) == 2:
					a, ok1 := content(get(args[0]))
					c, ok2 := content(get(args[1]))
					if !ok1 || !ok2 {
						return nil, "a byte comparison of something that is not a serialised label"
					}
					if name == "bytes.Equal" {
						env[t] = a == c
					} else if a == c {
						env[t] = int64(1)
					} else {
						env[t] = int64(0)
					}
				case name == "crypto/subtle.ConstantTimeSelect" && len(args) == 3:
					c, ok1 := get(args[0]).(int64)
					x, ok2 := get(args[1]).(int64)
					y, ok3 := get(args[2]).(int64)
					if !ok1 || !ok2 || !ok3 {
						return nil, "ConstantTimeSelect on values that are not decided"
					}
					if c == 1 {
						env[t] = x
					} else {
						env[t] = y
					}
				case name == "crypto/subtle.ConstantTimeEq" && len(args) == 2:
					x, ok1 := get(args[0]).(int64)
					y, ok2 := get(args[1]).(int64)
					if !ok1 || !ok2 {
						return nil, "ConstantTimeEq on values that are not decided"
					}
					if x == y {
						env[t] = int64(1)
					} else {
						env[t] = int64(0)
					}
				case strings.HasSuffix(name, ".Errorf") || name == "errors.New":
					env[t] = ldErr{}
				case callee != nil && load.InModule(callee) && callee.Blocks != nil && depth < 3:
					// a function of the module: evaluate it on the values at hand
					sub := make([]any, len(args))
					for i, a := range args {
						sub[i] = get(a)
					}
					rv, why := ldEval(callee, sub, depth+1)
					if why != "" {
						env[t] = ldOpaque{}
						break
					}
					if len(rv) == 1 {
						env[t] = rv[0]
					} else {
						env[t] = rv
					}
				default:
					env[t] = ldOpaque{}
				}
			case *ssa.If:
				c, ok := get(t.Cond).(bool)
				if !ok {
					return nil, "a branch on a value the three cases do not decide"
				}
				if c {
					next = b.Succs[0]
				} else {
					next = b.Succs[1]
				}
			case *ssa.Jump:
				next = b.Succs[0]
			case *ssa.Return:
				var out []any
				for _, r := range load.Results(t) {
					out = append(out, get(r))
				}
				return out, fail
			case *ssa.RunDefers, *ssa.Defer:
			default:
				if v, ok := ins.(ssa.Value); ok {
					env[v] = ldOpaque{}
				}
			}
		}
		if next == nil {
			return nil, "the function does not return"
		}
		prev, b = b, next
	}
	_ = bad
	if fail != "" {
		return nil, fail
	}
	return nil, "too many steps"
}
