package props

import (
	"fmt"
	"go/token"
	"go/types"
	"sort"
	"strings"

	"golang.org/x/tools/go/ssa"

	"mpcverif/internal/load"
	"mpcverif/internal/report"
)

// lazyResets decides state that an object creates on first use (`if x.f == nil { x.f = … }`) and that
// belongs to a session the object can start again: types with Init… methods (InitSender / InitReceiver of
// an OT).  Such a field holds what the two parties derived together in the session (a hash seeded by a
// value one of them sent); a new session must start without it on *both* sides.  Every Init… method of the
// type must store nil to the field; a reset in the sender's initialisation only leaves the receiver
// with the old value, the sender then sends a seed nobody reads and every later transfer is unmasked with
// the wrong keys.  The result maps "pkg.Type.field" to "" when every Init… method resets it and to the
// reason otherwise; fields of types without Init… methods are not concerned.
func lazyResets(p *load.Program, run *report.Run, pkgs []string) map[string]string {
	const rule = "lazy-session-state-reset-by-every-init"
	run.Rule(rule, "for every pointer field that a method creates on first use under a nil test of the field while exchanging data with the peer (the creating branch sends or receives through an interface, directly or in a helper), in a struct type that has methods named Init…: each of those Init… methods stores nil to the field (the state of the previous session is dropped by whichever role re-initialises)")
	want := map[string]bool{}
	for _, rel := range pkgs {
		want[load.Module+"/"+rel] = true
	}
	var fns []*ssa.Function
	for _, fn := range p.AllFunctions() {
		if fn.Pkg == nil || !want[fn.Pkg.Pkg.Path()] || fn.Blocks == nil || fn.Synthetic != "" || strings.HasSuffix(p.Fset.Position(fn.Pos()).Filename, "_test.go") {
			continue
		}
		fns = append(fns, fn)
	}
	sort.Slice(fns, func(i, j int) bool { return fns[i].Pos() < fns[j].Pos() })
	type fkey struct {
		typ   string
		field int
	}
	keyOf := func(addr ssa.Value) (fkey, bool) {
		fa, ok := addr.(*ssa.FieldAddr)
		if !ok {
			return fkey{}, false
		}
		pt, ok := fa.X.Type().Underlying().(*types.Pointer)
		if !ok {
			return fkey{}, false
		}
		if _, isParam := fa.X.(*ssa.Parameter); !isParam {
			return fkey{}, false
		}
		return fkey{pt.Elem().String(), fa.Field}, true
	}
	lazy := map[fkey]string{}
	for _, fn := range fns {
		for _, b := range fn.Blocks {
			iff, ok := b.Instrs[len(b.Instrs)-1].(*ssa.If)
			if !ok {
				continue
			}
			bo, ok := iff.Cond.(*ssa.BinOp)
			if !ok || bo.Op != token.EQL {
				continue
			}
			k, isNil := bo.Y.(*ssa.Const)
			ld, isLoad := bo.X.(*ssa.UnOp)
			if !isNil || !k.IsNil() || !isLoad || ld.Op != token.MUL {
				continue
			}
			fk, ok := keyOf(ld.X)
			if !ok {
				continue
			}
			// a store to the same field in the region the true edge dominates; the state belongs to the
			// session if creating it involves the peer (the region sends or receives): a key pair or a table
			// made from the object's own configuration is the same in every session
			start := b.Succs[0]
			stored, talks := false, false
			for _, x := range fn.Blocks {
				if !start.Dominates(x) || len(start.Preds) != 1 {
					continue
				}
				for _, ins := range x.Instrs {
					if st, ok := ins.(*ssa.Store); ok {
						if k2, ok := keyOf(st.Addr); ok && k2 == fk {
							stored = true
						}
					}
					if c, ok := ins.(ssa.CallInstruction); ok && communicates(c, 0) {
						talks = true
					}
				}
			}
			if stored && talks {
				lazy[fk] = structFieldName(ld.X.(*ssa.FieldAddr).X.Type(), fk.field)
			}
		}
	}
	out := map[string]string{}
	var keys []fkey
	for k := range lazy {
		keys = append(keys, k)
	}
	sort.Slice(keys, func(i, j int) bool { return keys[i].typ+lazy[keys[i]] < keys[j].typ+lazy[keys[j]] })
	for _, fk := range keys {
		var inits []*ssa.Function
		for _, fn := range fns {
			if fn.Signature.Recv() == nil || !strings.HasPrefix(fn.Name(), "Init") || len(fn.Params) == 0 {
				continue
			}
			if pt, ok := fn.Params[0].Type().Underlying().(*types.Pointer); ok && pt.Elem().String() == fk.typ {
				inits = append(inits, fn)
			}
		}
		if len(inits) == 0 {
			continue
		}
		short := fk.typ[strings.LastIndex(fk.typ, "/")+1:]
		cell := short + "." + lazy[fk]
		var missing []string
		for _, fn := range inits {
			resets := false
			for _, b := range fn.Blocks {
				for _, ins := range b.Instrs {
					if st, ok := ins.(*ssa.Store); ok {
						if k2, ok := keyOf(st.Addr); ok && k2 == fk {
							if c, ok := st.Val.(*ssa.Const); ok && c.IsNil() {
								resets = true
							}
						}
					}
				}
			}
			if !resets {
				missing = append(missing, fn.Name())
			}
		}
		run.Count("lazy-session-fields", 1)
		if len(missing) > 0 {
			msg := fmt.Sprintf("%s is created on first use and kept; %s does not reset it: after that role re-initialises, its side goes on with the previous session's value while the peer starts a new one", cell, strings.Join(missing, ", "))
			run.Violate(rule, cell, "", msg, nil)
			out[cell] = msg
		} else {
			run.OK(rule, cell, "", fmt.Sprintf("reset by %d Init methods", len(inits)))
			out[cell] = ""
		}
	}
	return out
}

// communicates: the call sends to or receives from the peer — a Send…/Receive…/Flush method invoked through
// an interface or on a connection, directly or inside a module helper that is handed the interface.
func communicates(c ssa.CallInstruction, depth int) bool {
	cc := c.Common()
	name := ""
	if cc.IsInvoke() {
		name = cc.Method.Name()
	} else if callee := cc.StaticCallee(); callee != nil {
		name = callee.Name()
		if callee.Signature.Recv() == nil || !strings.HasSuffix(callee.Signature.Recv().Type().String(), "p2p.Conn") {
			// a helper of the module: look inside
			if depth < 2 && callee.Blocks != nil && load.InModule(callee) {
				for _, b := range callee.Blocks {
					for _, ins := range b.Instrs {
						if c2, ok := ins.(ssa.CallInstruction); ok && communicates(c2, depth+1) {
							return true
						}
					}
				}
			}
			return false
		}
	}
	return strings.HasPrefix(name, "Send") || strings.HasPrefix(name, "Receive") || name == "Flush"
}
