package props

import (
	"fmt"
	"go/ast"
	"strings"

	"mpcverif/internal/dispatch"
	"mpcverif/internal/load"
	"mpcverif/internal/report"
)

// LevelsKeepOrder: assigning levels leaves the gate list in an order in which it can be evaluated.
//
// Circuit.AssignLevels computes, for the Yao target, the position of each gate in topological order and,
// for the GMW target, its AND depth.  Compute, Garble, Eval and the GMW scheduler walk c.Gates front to
// back: a gate may only read wires that are circuit inputs or outputs of gates before it.  A version of
// AssignLevels that also sorts the gates by level has to respect that in *both* level schemes — with AND
// depths an AND gate of level L reads XOR outputs of level L, so "AND gates first" puts it before them.
// The function is interpreted from source on small gate lists for both targets; afterwards every gate's
// inputs must be defined by then, and its level must be the scheme's.
func LevelsKeepOrder(p *load.Program, run *report.Run) {
	const rule = "levels-keep-evaluation-order"
	run.Rule(rule, "circuit.Circuit.AssignLevels, interpreted from source on a list of small circuits (mixes of INV, XOR and AND gates, two inputs) for the Yao and the GMW target, leaves a gate list in which every gate reads only circuit inputs and outputs of earlier gates, with the same gates as before; the levels of the GMW target are the AND depths")
	pkg, fd := dispatch.FindFunc(p, "circuit", "Circuit", "AssignLevels")
	if fd == nil {
		run.Undecided(rule, "circuit.Circuit.AssignLevels", "", "function not found")
		return
	}
	consts := map[string]int64{}
	for _, n := range []string{"XOR", "XNOR", "AND", "OR", "INV", "NumLevels", "MaxWidth"} {
		k, ok := pkgConstIn(p, "circuit", n)
		if !ok {
			run.Undecided(rule, "circuit."+n, "", "constant not found")
			return
		}
		consts[n] = k
	}
	yao, ok1 := pkgConstIn(p, "compiler/utils", "TargetYao")
	gmw, ok2 := pkgConstIn(p, "compiler/utils", "TargetGMW")
	if !ok1 || !ok2 {
		run.Undecided(rule, "compiler/utils.Target", "", "constants not found")
		return
	}
	type gate struct {
		op            string
		in0, in1, out int64
	}
	// wires 0 and 1 are the inputs
	circuits := [][]gate{
		{{"INV", 0, 0, 2}, {"AND", 0, 2, 3}},
		{{"XOR", 0, 1, 2}, {"AND", 2, 0, 3}, {"XOR", 3, 1, 4}, {"AND", 4, 2, 5}},
		{{"AND", 0, 1, 2}, {"INV", 2, 0, 3}, {"AND", 3, 0, 4}, {"XOR", 4, 2, 5}, {"AND", 5, 3, 6}},
		{{"XOR", 0, 1, 2}, {"XOR", 2, 0, 3}, {"INV", 3, 0, 4}, {"AND", 4, 3, 5}, {"AND", 0, 1, 6}, {"XOR", 5, 6, 7}},
		{{"AND", 0, 1, 2}, {"AND", 2, 1, 3}, {"AND", 3, 0, 4}},
	}
	if fd.Recv == nil || len(fd.Recv.List) != 1 || len(fd.Recv.List[0].Names) != 1 || len(fd.Type.Params.List) != 1 || len(fd.Type.Params.List[0].Names) != 1 {
		run.Undecided(rule, "circuit.Circuit.AssignLevels", p.Rel(fd.Pos()), "unexpected signature")
		return
	}
	recv, tparam := fd.Recv.List[0].Names[0].Name, fd.Type.Params.List[0].Names[0].Name
	bad := ""
	cells := 0
	for ci, circ := range circuits {
		for _, target := range []int64{yao, gmw} {
			cells++
			tname := map[int64]string{yao: "yao", gmw: "gmw"}[target]
			w := &wInterp{pkg: pkg}
			w.push()
			w.set(recv, "c", true)
			w.set(tparam, target, true)
			nw := int64(2)
			var gs []wv
			for i, g := range circ {
				h := fmt.Sprintf("g%d", i)
				gs = append(gs, h)
				w.envSetGlobal(h+".Input0", g.in0)
				w.envSetGlobal(h+".Input1", g.in1)
				w.envSetGlobal(h+".Output", g.out)
				w.envSetGlobal(h+".Op", consts[g.op])
				w.envSetGlobal(h+".Level", int64(-1))
				if g.out+1 > nw {
					nw = g.out + 1
				}
			}
			w.envSetGlobal("c.Gates", gs)
			w.envSetGlobal("c.NumWires", nw)
			w.envSetGlobal("c.NumGates", int64(len(circ)))
			stats := make([]wv, 32)
			for i := range stats {
				stats[i] = int64(0)
			}
			w.envSetGlobal("c.Stats", stats)
			for n, k := range consts {
				w.envSetGlobal(n, k)
			}
			w.envSetGlobal("utils", "utils")
			w.envSetGlobal("utils.TargetYao", yao)
			w.envSetGlobal("utils.TargetGMW", gmw)
			w.zeroInts = true
			w.hook = func(name string, c *ast.CallExpr) (wv, bool) {
				switch name {
				case "panic", "Printf", "Println":
					return nil, true
				}
				return nil, false
			}
			w.stmts(fd.Body.List)
			if w.fail != "" {
				bad = fmt.Sprintf("circuit %d, %s target: %s", ci, tname, w.fail)
				break
			}
			gv, _ := w.lookup("c.Gates")
			after, ok := gv.([]wv)
			if !ok || len(after) != len(circ) {
				bad = fmt.Sprintf("circuit %d, %s target: the gate list has %d gates afterwards, %d before", ci, tname, len(after), len(circ))
				break
			}
			defined := map[int64]bool{0: true, 1: true}
			seen := map[string]bool{}
			depth := map[int64]int64{0: 0, 1: 0}
			for k, hv := range after {
				h, _ := hv.(string)
				if h == "" || seen[h] {
					bad = fmt.Sprintf("circuit %d, %s target: position %d of the gate list holds no gate of the circuit, or one twice", ci, tname, k)
					break
				}
				seen[h] = true
				get := func(f string) int64 {
					v, _ := w.lookup(h + "." + f)
					k, _ := v.(int64)
					return k
				}
				in0, in1, out, op, lvl := get("Input0"), get("Input1"), get("Output"), get("Op"), get("Level")
				if !defined[in0] || (op != consts["INV"] && !defined[in1]) {
					bad = fmt.Sprintf("circuit %d, %s target: after AssignLevels gate %s (position %d) reads a wire that no earlier gate has produced: the list is walked front to back by Compute, Garble, Eval and the GMW scheduler, which then use a wire before it has a value", ci, tname, h, k)
					break
				}
				d := depth[in0]
				if op != consts["INV"] && depth[in1] > d {
					d = depth[in1]
				}
				if target == gmw && lvl != d {
					bad = fmt.Sprintf("circuit %d, gmw target: gate %s gets level %d, its AND depth is %d", ci, h, lvl, d)
					break
				}
				if op == consts["AND"] {
					d++
				}
				depth[out] = d
				defined[out] = true
			}
			if bad != "" {
				break
			}
		}
		if bad != "" {
			break
		}
	}
	run.Count("levelling-cells", cells)
	run.Floor("levelling-cells", 2)
	if bad != "" {
		if strings.Contains(bad, "reads a wire") || strings.Contains(bad, "gets level") || strings.Contains(bad, "gate list") {
			run.Violate(rule, "circuit.Circuit.AssignLevels", p.Rel(fd.Pos()), bad, nil)
		} else {
			run.Undecided(rule, "circuit.Circuit.AssignLevels", p.Rel(fd.Pos()), bad)
		}
		return
	}
	run.OK(rule, "circuit.Circuit.AssignLevels", p.Rel(fd.Pos()), fmt.Sprintf("%d circuits x 2 targets", len(circuits)))
}

var _ = load.Module
