package props

import (
	"go/types"
	"golang.org/x/tools/go/ssa"
	"sort"
	"strings"

	"mpcverif/internal/lints"
	"mpcverif/internal/load"
	"mpcverif/internal/report"
)

// C07 structural clauses.
func C07(p *load.Program, run *report.Run) {
	run.Rule("indexed-fill", "a `for i < len(S)` loop storing into S must index with i")
	run.Rule("const-index-guard", "a constant index k>=1 on an operand-width slice needs a dominating condition implying len > k")
	lints.FillLoop(p, run, []string{"compiler/circuits"})
	lints.ConstIndex(p, run, []string{"compiler/circuits"}, nil)
	run.Floor("fill-loops", 5)
	run.Floor("const-indices", 3)
}

// C06rounding is the rounding-discipline clause.
func C06rounding(p *load.Program, run *report.Run) {
	run.Rule("rounding-discipline", "every division/shift of a count is a ceil idiom, a checked exact division, a quotient/remainder pair, or has its remainder handled")
	lints.Rounding(p, run, []string{"ot", "gmw"}, nil,
		map[string]string{})
	run.Floor("division-sites", 15)
}

// C14lints are the parser discipline rules.
func C14lints(p *load.Program, run *report.Run) {
	run.Rule("short-read", "a Read whose count is discarded must be io.ReadFull (bytes.Reader reads accepted after a length check)")
	run.Rule("unbounded-index-store", "an index store with an unbounded loop counter needs a preceding bound check")
	var files map[string]bool
	lints.ShortRead(p, run, []string{"circuit"}, files)
	lints.UnboundedIndexStore(p, run, []string{"circuit"}, files)
	run.Rule("decoder-divisor-guard", "in the circuit-file parsers and the functions of the package they call, a division by a decoded (non-constant) integer is dominated by a test that it is not zero")
	lints.DivisorGuard(p, run, "circuit", []string{"ParseMPCLC", "ParseBristol"})
	run.Floor("input-divisions", 1)
	run.Floor("read-sites", 1)
	run.Floor("counter-index-stores", 2)
}

// C18lints are the decoder discipline rules.
func C18lints(p *load.Program, run *report.Run) {
	run.Rule("short-read", "a Read whose count is discarded must be io.ReadFull (bytes.Reader reads accepted after a length check)")
	lints.ShortRead(p, run, []string{"sha2pc"}, nil)
	run.Floor("read-sites", 7)
}

// C06pack: bit-packing freshness in the OT package.
func C06pack(p *load.Program, run *report.Run) {
	run.Rule("or-pack-fresh", "a store S[e] |= v inside the OT code packs into storage that is zero at every position it may touch: assign-bit form, or a buffer allocated/cleared before the packing with every loop in between moving the position; a loop OR-ing into a caller's buffer without clearing is reported")
	lints.OrPack(p, run, []string{"ot"}, nil)
	run.Floor("or-pack-sites", 3)
}

// PackShifts: bit packing into machine words never shifts by the width or more (shared by the properties
// whose values travel as packed bits: OT choice and result bits, GMW share vectors, sha2pc sign bits, the
// garbler's result mask).
func PackShifts(p *load.Program, run *report.Run) {
	run.Rule("pack-shift-bounded", "in `X |= 1 << c`, `X &^= 1 << c`, `X = X | 1 << c` the count c is below the width of X by construction: e % K or e & (K-1) with K <= width, a constant, a variable assigned only such values, or the variable of a loop with a constant bound <= width")
	lints.PackShift(p, run, []string{"ot", "gmw", "sha2pc", "circuit", "compiler/ssa", "vole", "bmr", "p2p"}, map[string]string{
		"ot.Label.SetBit": "the bit index of a 128-bit label is the method's documented domain (0..127); it is split at 64 into the two words before the shift",
	})
	run.Floor("pack-shift-sites", 10)
}

// WordExact: the fixed-width arithmetic of the OT package does not depend on the platform's int size.
func WordExact(p *load.Program, run *report.Run) {
	run.Rule("no-platform-width-truncation", "in package ot (GF(2^128) products, label words, bit matrices) every conversion of an int64/uint64 value to int, uint or uintptr has an operand that fits in 31 bits by construction (constant, e & K, e % K, e >> k with k >= 33)")
	lints.PlatformWidth(p, run, []string{"ot"}, nil)
	// the portable siblings of the amd64 assembly are not in the native file set: the rule reads them from
	// the arm64 configuration in every tier (they are what runs on the platforms the rule is about)
	if q, err := p.OtherArch(); err != nil {
		run.Undecided("no-platform-width-truncation", "GOARCH=arm64", "", err.Error())
	} else if q != nil {
		lints.PlatformWidth(q, run, []string{"ot"}, func(rel string) bool { return !p.HasFile(rel) })
	}
	run.Floor("wide-to-platform-conversions", 1)
}

// C18pack: the same rule for the bit/byte conversions of sha2pc.
func C18pack(p *load.Program, run *report.Run) {
	run.Rule("or-pack-fresh", "a store S[e] |= v in the sha2pc codecs packs into storage that is zero at every position it may touch")
	lints.OrPack(p, run, []string{"sha2pc"}, nil)
	run.Floor("or-pack-sites", 2)
}

// OTwindows: the batch-window rule over the OT package (shared by C02, C06 and C15:
// a misaligned window breaks the transfer, the correlation and the honest run of the
// consistency check alike).
func OTwindows(p *load.Program, run *report.Run) {
	run.Rule("window-alignment", "inside a stride loop (i += W) over a batch every batch-sized sequence is addressed relative to the window (index or slice bound depending on i); scratch buffers of constant length are exempt")
	lints.WindowAlignment(p, run, []string{"ot"}, nil)
	run.Floor("stride-loops", 6)
	run.Rule("stride-tail", "a loop over whole groups of K elements (i+K <= n; i += K) is followed by a tail for the last n mod K elements or guarded by n % K; with a built-in positive and negative example")
	lints.StrideTail(p, run, []string{"ot", "gmw", "vole"})
	run.Floor("stride-tail-examples", 2)
	run.Rule("stride-equals-window", "a loop `for i < N; i += S` whose step handles count = min(N-i, C) elements (clamp written out, min(), or a module helper that is that clamp) has C = S as constants: every row of every block gets its check coefficient exactly once")
	lints.StrideCoverage(p, run, []string{"ot", "gmw", "vole", "bmr"})
	run.Floor("stride-clamps", 2)
}

// C10take: the take-the-remainder rule over the GMW triple pool.
func C10take(p *load.Program, run *report.Run) {
	run.Rule("take-remainder", "a loop `for acc < total` that accumulates `acc += take(...)` asks each take for the remainder total-acc, so the units consumed from the source depend on total only, not on how full the source was")
	lints.RemainingRequest(p, run, []string{"gmw"})
	run.Floor("take-loops", 1)
}

// C19shift: the overlapping-copy rule over the mesh code (peer lists are kept ordered by id).
func C19shift(p *load.Program, run *report.Run) {
	run.Rule("overlap-shift", "a loop that moves the elements of a sequence within itself (S[i+k] = S[i]) runs against the direction of the move; checked in p2p and gmw, with a built-in positive and negative example")
	lints.OverlapShift(p, run, []string{"p2p", "gmw"})
	run.Floor("overlap-examples", 2)
}

// C20rounding: the rounding discipline over the multiplication gadgets (element sizes in bytes).
func C20rounding(p *load.Program, run *report.Run) {
	run.Rule("rounding-discipline", "every division/shift of a count in vole and bmr is a ceil idiom, a checked exact division, a quotient/remainder pair, or has its remainder handled (a byte size of floor(bits/8) drops the top bits of an element)")
	lints.Rounding(p, run, []string{"vole", "bmr"}, nil, map[string]string{})
}

var keptState = map[string]string{
	"ot.COT.iknpS":                "the extension sender is created once per initialised instance by design; its stream state is decided by prg-lockstep and mitccrh-schedule",
	"ot.COT.iknpR":                "as iknpS",
	"ot.ROT.iknpS":                "as COT.iknpS",
	"ot.ROT.iknpR":                "as COT.iknpS",
	"circuit.Streaming.tmp":       "the temporary wire store is grown on demand and reused by every streamed circuit; stream-garble-forms reads every slot as stale before it is written",
	"circuit.StreamEval.tmp":      "as Streaming.tmp on the evaluator side (stream-eval-forms)",
	"circuit.Circuit.garblePool":  "the per-circuit pool of garbling scratch; what a pooled scratch holds is decided by put-at-most-once, release-escape, the stale-scratch atoms of the garbling forms and pool-publications",
	"ssa.Program.zeroWire":        "the session's constant-zero wire, created by the first use in a Stream call and streamed once; a Program is streamed once (Compiler.Stream compiles a fresh Program per session) — a second Stream on the same Program is outside C05 (observed by a seeding agent to return 0 for (a&b)+3)",
	"ssa.Program.oneWire":         "as Program.zeroWire",
	"ssa.allocByValue.ids":        "the id vector of an allocation header, derived on demand from its wires; header contents across recycling are decided by recycled-object-reinitialised and hash-chain-integrity",
	"circuits.Compiler.invI0Wire": "one per circuits.Compiler, which lives for one circuit (NewCompiler per compilation and per streamed instruction)",
	"circuits.Compiler.zeroWire":  "as invI0Wire; its use as a constant is decided by gate-helpers and constprop",
	"circuits.Compiler.oneWire":   "as zeroWire",
	"gmw.Network.output":          "set by the first received output share of a run and XOR-accumulated; the share algebra rule (output-reconstruction) decides its value from the statement that resets it in run",
}

func keptStateRule(p *load.Program, run *report.Run, pkgs []string) {
	run.Rule("kept-state-inventory", "every reference-typed field that a method of the package creates on first use and keeps (if x.f == nil / len(x.f) != n { x.f = ... }, or x.f.Store/CompareAndSwap on a sync/atomic cell) is in the inventory of kept state with the rule that covers its contents; an unlisted one is undecided")
	// buffers cached in atomic cells are decided by their own rule; a cell it discharges is covered
	inv := map[string]string{}
	for k, v := range keptState {
		inv[k] = v
	}
	for cell, why := range cachedBuffers(p, run, pkgs) {
		if _, listed := inv[cell]; listed {
			continue
		}
		if why == "" {
			inv[cell] = "a cached buffer; ownership and clearing are decided by cached-buffer-exclusive-and-cleared"
		} else {
			inv[cell] = "reported by cached-buffer-exclusive-and-cleared"
		}
	}
	for cell, why := range ownedBuffers(p, run, pkgs).verdict {
		if _, listed := inv[cell]; listed {
			continue
		}
		if why == "" {
			inv[cell] = "a buffer owned through a busy flag; ownership is decided by busy-flag-released-only-by-owner"
		} else {
			inv[cell] = "reported by busy-flag-released-only-by-owner"
		}
	}
	for cell, why := range lazyResets(p, run, pkgs) {
		if _, listed := inv[cell]; listed {
			continue
		}
		if why == "" {
			inv[cell] = "session state; dropped by every Init method (lazy-session-state-reset-by-every-init)"
		} else {
			inv[cell] = "reported by lazy-session-state-reset-by-every-init"
		}
	}
	for cell, why := range ownCaches(p, run, pkgs) {
		if _, listed := inv[cell]; listed {
			continue
		}
		if why == "" {
			inv[cell] = "made from the object's own configuration, the same in every session (own-cache-leaves-shared-fields-fresh)"
		} else {
			inv[cell] = "reported by own-cache-leaves-shared-fields-fresh"
		}
	}
	lints.LazyState(p, run, pkgs, inv)
}

// Kept-state inventory per property (histories: repeated batches, runs, reuse).
func C06kept(p *load.Program, run *report.Run) { keptStateRule(p, run, []string{"ot"}) }
func C10kept(p *load.Program, run *report.Run) {
	// no floor: an inventory may become empty (keeping less state is not a finding)
	keptStateRule(p, run, []string{"gmw"})
}
func C20kept(p *load.Program, run *report.Run) { keptStateRule(p, run, []string{"vole", "bmr"}) }
func C17kept(p *load.Program, run *report.Run) {
	keptStateRule(p, run, []string{"circuit"})
	run.Floor("kept-fields", 1)
}
func C11kept(p *load.Program, run *report.Run) { keptStateRule(p, run, []string{"p2p"}) }
func C18kept(p *load.Program, run *report.Run) { keptStateRule(p, run, []string{"sha2pc"}) }

// C04rand: the random source of labels and offsets is read in full.
func C04rand(p *load.Program, run *report.Run) {
	run.Rule("short-read", "a Read on a caller-supplied io.Reader whose count is discarded must be io.ReadFull: a short read leaves the rest of a label (or of the offset R) zero")
	lints.ShortRead(p, run, []string{"ot", "circuit"}, nil)
	run.Floor("read-sites", 1)
}

// C08compare: a comparison that decides whether a kept circuit is reused must not
// compare a value with its own copy (apps/garbled keeps the circuit of the previous session).
func C08compare(p *load.Program, run *report.Run) {
	run.Rule("compare-with-own-copy", "a slices/bytes/DeepEqual comparison or ==/!= between two path expressions, where one operand was assigned from the other earlier in the same statement list and nothing assigns to, takes the address of, passes to a call or captures either operand in between, is constant: what it guards (the circuit an evaluator keeps between sessions) is never refreshed; checked over every package of the module including apps, with built-in examples")
	var pkgs []string
	for path := range p.ByPath {
		if path == load.Module {
			pkgs = append(pkgs, "")
		} else if strings.HasPrefix(path, load.Module+"/") {
			pkgs = append(pkgs, strings.TrimPrefix(path, load.Module+"/"))
		}
	}
	sort.Strings(pkgs)
	lints.SelfCompare(p, run, pkgs)
	run.Floor("compare-examples", 3)
	run.Floor("key-comparisons", 4)
}

// C05recycle: the wire allocator's recycled headers start clean.
func C05recycle(p *load.Program, run *report.Run) {
	run.Rule("recycled-object-reinitialised", "for every free list of struct headers in compiler/ssa and compiler/circuits (a field of type []*T that is appended to and popped from), every field of T is overwritten before the object is put on the list or on every path of the popping function after it is taken: a header of a collected value cannot carry its id vector, chain link or base to the next value")
	lints.RecycledReinit(p, run, []string{"compiler/ssa", "compiler/circuits", "circuit", "ot", "p2p"})
	run.Floor("recycling-lists", 1)
	run.Floor("recycled-fields", 5)
}

// BuilderErrors: no error of a circuit builder is dropped.
func BuilderErrors(p *load.Program, run *report.Run) {
	run.Rule("builder-errors-propagated", "in compiler/circuits and compiler/ssa, no call of a function of compiler/circuits whose last result is an error is a bare statement, a go statement, or has that result assigned to _ (test files excluded): a builder that rejects a shape has driven nothing; each such call is counted, a dropped one is reported with its site")
	lints.DroppedError(p, run, []string{"compiler/circuits", "compiler/ssa"}, "compiler/circuits")
	run.Floor("builder-calls-returning-error", 60)
	run.OK("builder-errors-propagated", "compiler/circuits+compiler/ssa", "", "every other counted call uses its error result")
}

// ConstLoops: construction-time constness of a wire never ends a loop over an operand's bits.
func ConstLoops(p *load.Program, run *report.Run) {
	run.Rule("constness-never-ends-a-bit-loop", "in compiler/circuits, a comparison of an element of a wire vector with another wire, or of its Value(), may select how one bit is built but may not appear in a loop condition nor guard a break: the shared constant wires stand for interior bits too; with built-in examples")
	lints.ConstTerminatedLoop(p, run, []string{"compiler/circuits"})
	run.Floor("constness-examples", 3)
}

// C13scan: the bit-length scan of circuit.Sizes covers every position.
func C13scan(p *load.Program, run *report.Run) {
	run.Rule("scan-default-continues-the-scan", "a descending scan `for i := H; i > L; i-- { if test(i) { return i+k } }; return D` (or with >=) has D equal to the answer of the first position it does not test; checked in circuit, types and the root package, with built-in examples")
	lints.ScanDefault(p, run, []string{"circuit", "types", ""})
	run.Floor("scan-examples", 3)
	// no floor on the sites: a scan may legitimately be replaced by math/bits; the rule is kept alive by its
	// built-in examples (scan-examples)
	run.Rule("write-window-equals-advance", "in circuit/ioarg.go, a SetBit(result, ofs+i, ...) in `for i := 0; i < B` (or a single SetBit at ofs) of a function returning `ofs + A` has B = A up to integer conversions")
	lints.WriteWindow(p, run, []string{"circuit"}, nil)
	run.Floor("packed-member-writes", 2)
}

// C14seen: the parsers reach the seen-wires table only through its checked methods.
func C14seen(p *load.Program, run *report.Run) {
	run.Rule("checked-table-access", "outside the methods of circuit.Seen (which return an error for an index past the end), a Seen table is indexed only by the variable of a loop bounded by len() of, or ranging over, that table; no slice expression is applied to it")
	run.Rule("single-assignment", "Seen.Set returns an error for an element that is already set, before it marks it: every wire of a parsed circuit is assigned once, by the inputs or by exactly one gate")
	if t, err := p.Type("circuit", "Seen"); err == nil {
		if _, isSlice := t.Underlying().(*types.Slice); !isSlice {
			// another representation (a bit set in a struct): what the methods do is decided by
			// seen-table-contract; structurally, only the type's own methods and constructor touch its fields
			bad := 0
			for _, fn := range p.AllFunctions() {
				if fn.Pkg == nil || !load.InModule(fn) || fn.Blocks == nil || strings.HasSuffix(p.Fset.Position(fn.Pos()).Filename, "_test.go") {
					continue
				}
				own := false
				if r := fn.Signature.Recv(); r != nil && strings.HasSuffix(strings.TrimPrefix(r.Type().String(), "*"), "/circuit.Seen") {
					own = true
				}
				if res := fn.Signature.Results(); res.Len() == 1 && strings.HasSuffix(strings.TrimPrefix(res.At(0).Type().String(), "*"), "/circuit.Seen") {
					own = true // the constructor
				}
				for _, b := range fn.Blocks {
					for _, ins := range b.Instrs {
						fa, ok := ins.(*ssa.FieldAddr)
						if !ok || !strings.HasSuffix(strings.TrimPrefix(fa.X.Type().String(), "*"), "/circuit.Seen") {
							continue
						}
						run.Count("checked-table-accesses", 1)
						if !own {
							bad++
							run.Violate("checked-table-access", strings.ReplaceAll(fn.RelString(nil), load.Module+"/", "")+"/field", p.Rel(ins.Pos()), "the representation of the seen-wire table is reached outside its methods: the range and single-assignment checks of Get and Set are bypassed", nil)
						}
					}
				}
			}
			if bad == 0 {
				run.OK("checked-table-access", "circuit.Seen", "", "the table's fields are touched by its methods and constructor only")
			}
			run.Floor("checked-table-accesses", 2)
			return
		}
	}
	lints.CheckedTable(p, run, "circuit", "Seen")
	run.Floor("checked-table-setters", 1)
	run.Floor("checked-table-method-calls", 3)
	run.Floor("checked-table-accesses", 2)
}

// C18widths: byte widths of curve elements in the sha2pc session and its OT helpers round up.
func C18widths(p *load.Program, run *report.Run) {
	run.Rule("rounding-discipline", "every division/shift of a count in sha2pc and in ot/co_helpers.go is a ceil idiom, a checked exact division, a quotient/remainder pair, or has its remainder handled: a byte width of floor(bits/8) is one byte short for P-521, where the session code uses (bits+7)/8")
	lints.Rounding(p, run, []string{"sha2pc"}, nil, map[string]string{
		"sha2pc.decodeLabels/len(data) / labelSize": "len(data) is compared with the constant garblerInputLabelBytes (a multiple of the label size) at the top of the function",
	})
	lints.Rounding(p, run, []string{"ot"}, nil, map[string]string{})
	run.Floor("division-sites", 3)
}

// LoopErrors: an error assigned in a loop body is tested in the same iteration.
func LoopErrors(p *load.Program, run *report.Run) {
	run.Rule("loop-error-checked-per-iteration", "in sha2pc, circuit, ot and p2p, an error variable declared outside a loop and assigned from a call in the loop body is mentioned by a condition, return or call later in the same body: no element's error is overwritten by the next element's; with built-in examples")
	lints.LoopErrOverwrite(p, run, []string{"sha2pc", "circuit", "ot", "p2p", ""})
	run.Floor("loop-error-examples", 2)
}

// C12guards: the operand extractions of the constant-folding built-ins read the operand they report.
func C12guards(p *load.Program, run *report.Run) {
	run.Rule("guard-names-what-it-tests", "in compiler/ast, a checked type assertion `v, ok := R.….(T)` followed by `if !ok { … }` whose body names another variable of R's type and not R itself is a copied block that still reads the other operand (wideMulEval multiplied a by a); every such extraction is counted")
	lints.GuardNames(p, run, []string{"compiler/ast"})
	run.Floor("checked-extractions", 5)
}

// C05kept: kept state of the streaming compiler.
func C05kept(p *load.Program, run *report.Run) {
	keptStateRule(p, run, []string{"compiler/ssa", "compiler/circuits"})
}

// C17entropy: the randomness of a garbling is read completely.  A Read on an io.Reader may return fewer bytes
// than asked for; a garbling whose pooled buffers are only partly overwritten keeps labels of the garbling that
// was released before it.
func C17entropy(p *load.Program, run *report.Run) {
	run.Rule("short-read", "in package circuit (all files): a Read on an io.Reader whose count is discarded is io.ReadFull")
	lints.ShortRead(p, run, []string{"circuit"}, nil)
	run.OK("short-read", "circuit", "", "no Read with a discarded count")
}
