package props

import (
	"fmt"
	"go/ast"
	"go/token"
	"go/types"
	"sort"
	"strings"

	"mpcverif/internal/load"
	"mpcverif/internal/report"
)

// MemoKeys: what a memo table hands back is determined by its key.
//
// A package-level table that caches built objects (divider circuits by operand width) makes a compilation
// depend on what the process compiled before unless the cached object is a function of the key alone.  For
// every function of the compiler packages that both looks a key up in a package-level map and stores into
// that map on the miss path: every field of a parameter that the function reads (the object is built from
// them) must be a component of the key *as itself* — a field of the key struct or the key value — and not
// merely an input of an arithmetic expression that forms the key (`max(x.bits, y.bits)` merges
// (133, 32) and (133, 97)).  The module has no such table today; the rule carries built-in examples.
func MemoKeys(p *load.Program, run *report.Run) {
	const rule = "memo-key-covers-inputs"
	run.Rule(rule, "in the compiler packages, a function that looks up and fills a package-level map reads no field of its parameters that is not, as itself, the key or a field of the key struct; with built-in examples")
	tables := 0
	for _, pk := range p.Pkgs {
		if !strings.HasPrefix(pk.PkgPath, load.Module+"/compiler") {
			continue
		}
		for _, f := range pk.Syntax {
			if strings.HasSuffix(p.Fset.Position(f.Pos()).Filename, "_test.go") {
				continue
			}
			for _, d := range f.Decls {
				fd, ok := d.(*ast.FuncDecl)
				if !ok || fd.Body == nil {
					continue
				}
				memoHelperDecls = map[types.Object]*ast.FuncDecl{}
				for _, f2 := range pk.Syntax {
					for _, d2 := range f2.Decls {
						if fd2, ok := d2.(*ast.FuncDecl); ok {
							memoHelperDecls[pk.TypesInfo.Defs[fd2.Name]] = fd2
						}
					}
				}
				for _, v := range memoKeyCheck(pk.TypesInfo, fd) {
					tables++
					key := strings.TrimPrefix(pk.PkgPath, load.Module+"/") + "." + fd.Name.Name + "/" + v.table
					if v.missing != "" {
						run.Violate(rule, key, p.Rel(v.pos), fmt.Sprintf("the object stored in %s is built from %s, which is not a component of the key (%s): two calls that differ only there get the same cached object, and which one depends on what ran before in the process", v.table, v.missing, v.keyDesc), nil)
					} else {
						run.OK(rule, key, p.Rel(v.pos), "key components: "+v.keyDesc)
					}
				}
			}
		}
	}
	run.Count("memo-tables", tables)
	// built-in examples
	fset := token.NewFileSet()
	_ = fset
	good, bad, err := memoKeyExamples()
	switch {
	case err != nil:
		run.Undecided(rule, "built-in example", "", err.Error())
	case good != 0 || bad != 1:
		run.Undecided(rule, "built-in example", "", fmt.Sprintf("the rule misclassifies its built-in examples (%d reports on the sound table, %d on the lossy one)", good, bad))
	default:
		run.Count("memo-key-examples", 2)
		run.OK(rule, "built-in examples", "", "a key of the inputs themselves accepted, a key of their maximum reported")
	}
	run.Floor("memo-key-examples", 2)
}

type memoVerdict struct {
	table   string
	pos     token.Pos
	missing string
	keyDesc string
}

// paramPaths lists the selector chains rooted at a parameter that occur in n (x.bits, instr.Out.Type.Bits).
func paramPaths(info *types.Info, params map[types.Object]bool, n ast.Node) map[string]bool {
	return paramPathsSkipping(info, params, n, nil)
}

// paramPathsSkipping: as paramPaths, without the sub-expressions whose text is in skip (a key component that
// merges several fields: a read inside the very same expression is a read of the component) and without the
// left-hand sides of assignments (a field the function sets is not an input).
func paramPathsSkipping(info *types.Info, params map[types.Object]bool, n ast.Node, skip map[string]bool) map[string]bool {
	out := map[string]bool{}
	written := map[ast.Expr]bool{}
	if skip != nil {
		ast.Inspect(n, func(m ast.Node) bool {
			if as, ok := m.(*ast.AssignStmt); ok && as.Tok == token.ASSIGN {
				for _, l := range as.Lhs {
					written[ast.Unparen(l)] = true
				}
			}
			return true
		})
	}
	ast.Inspect(n, func(m ast.Node) bool {
		if e, ok := m.(ast.Expr); ok && skip != nil {
			if written[e] {
				return false
			}
			if _, isCall := e.(*ast.CallExpr); isCall && skip[types.ExprString(e)] {
				return false
			}
		}
		sel, ok := m.(*ast.SelectorExpr)
		if !ok {
			return true
		}
		root := ast.Expr(sel)
		var chain []string
		for {
			switch t := root.(type) {
			case *ast.SelectorExpr:
				chain = append([]string{t.Sel.Name}, chain...)
				root = t.X
				continue
			case *ast.ParenExpr:
				root = t.X
				continue
			case *ast.StarExpr:
				root = t.X
				continue
			}
			break
		}
		id, ok := root.(*ast.Ident)
		if !ok || !params[info.ObjectOf(id)] {
			return true
		}
		// method calls on a parameter are not fields
		if _, isFunc := info.ObjectOf(sel.Sel).(*types.Func); isFunc {
			return true
		}
		out[id.Name+"."+strings.Join(chain, ".")] = true
		return false
	})
	return out
}

func memoKeyCheck(info *types.Info, fd *ast.FuncDecl) []memoVerdict {
	params := map[types.Object]bool{}
	if fd.Recv != nil {
		for _, f := range fd.Recv.List {
			for _, n := range f.Names {
				params[info.ObjectOf(n)] = true
			}
		}
	}
	for _, f := range fd.Type.Params.List {
		for _, n := range f.Names {
			params[info.ObjectOf(n)] = true
		}
	}
	isPkgMap := func(e ast.Expr) (string, bool) {
		id, ok := ast.Unparen(e).(*ast.Ident)
		if !ok {
			return "", false
		}
		v, ok := info.ObjectOf(id).(*types.Var)
		if !ok || v.Parent() == nil || v.Pkg() == nil || v.Parent() != v.Pkg().Scope() {
			return "", false
		}
		_, isMap := v.Type().Underlying().(*types.Map)
		return id.Name, isMap
	}
	type use struct {
		key        ast.Expr
		lookup, st bool
		pos        token.Pos
	}
	tables := map[string]*use{}
	ast.Inspect(fd.Body, func(n ast.Node) bool {
		as, ok := n.(*ast.AssignStmt)
		if !ok {
			return true
		}
		for _, l := range as.Lhs {
			if ix, ok := ast.Unparen(l).(*ast.IndexExpr); ok {
				if name, ok := isPkgMap(ix.X); ok {
					if tables[name] == nil {
						tables[name] = &use{}
					}
					tables[name].st, tables[name].key, tables[name].pos = true, ix.Index, as.Pos()
				}
			}
		}
		for _, r := range as.Rhs {
			if ix, ok := ast.Unparen(r).(*ast.IndexExpr); ok {
				if name, ok := isPkgMap(ix.X); ok {
					if tables[name] == nil {
						tables[name] = &use{}
					}
					tables[name].lookup = true
				}
			}
		}
		return true
	})
	var names []string
	for n, u := range tables {
		if u.lookup && u.st {
			names = append(names, n)
		}
	}
	sort.Strings(names)
	var out []memoVerdict
	for _, name := range names {
		u := tables[name]
		// the components of the key: the key expression itself, or, for a key variable, the values it was given
		comps := map[string]bool{}
		opaque := map[string]bool{}
		var addComp func(e ast.Expr, depth int)
		addComp = func(e ast.Expr, depth int) {
			e = ast.Unparen(e)
			if depth > 4 {
				return
			}
			switch t := e.(type) {
			case *ast.SelectorExpr:
				for pth := range paramPaths(info, params, t) {
					comps[pth] = true
				}
			case *ast.CompositeLit:
				for _, el := range t.Elts {
					if kv, ok := el.(*ast.KeyValueExpr); ok {
						addComp(kv.Value, depth+1)
					} else {
						addComp(el, depth+1)
					}
				}
			case *ast.CallExpr:
				// a conversion keeps the value; any other call merges its inputs: the merged value is a
				// component as a whole (a read inside the same expression elsewhere reads that component)
				if tv, ok := info.Types[t.Fun]; ok && tv.IsType() && len(t.Args) == 1 {
					addComp(t.Args[0], depth+1)
				} else {
					opaque[types.ExprString(t)] = true
				}
			case *ast.Ident:
				obj := info.ObjectOf(t)
				ast.Inspect(fd.Body, func(m ast.Node) bool {
					as, ok := m.(*ast.AssignStmt)
					if !ok || len(as.Lhs) != len(as.Rhs) {
						return true
					}
					for i, l := range as.Lhs {
						switch lt := ast.Unparen(l).(type) {
						case *ast.Ident:
							if info.ObjectOf(lt) == obj {
								addComp(as.Rhs[i], depth+1)
							}
						case *ast.SelectorExpr:
							// key.f = v
							if id, ok := ast.Unparen(lt.X).(*ast.Ident); ok && info.ObjectOf(id) == obj {
								addComp(as.Rhs[i], depth+1)
							}
						}
					}
					return true
				})
			}
		}
		addComp(u.key, 0)
		var cl []string
		for c := range comps {
			cl = append(cl, c)
		}
		sort.Strings(cl)
		desc := strings.Join(cl, ", ")
		if desc == "" {
			desc = "no parameter field as itself"
		}
		missing := ""
		var reads []string
		for r := range paramPathsSkipping(info, params, fd.Body, opaque) {
			reads = append(reads, r)
		}
		// helpers of the package that are handed the parameters under their own names build the object too
		for _, h := range memoHelpers(info, fd, params) {
			hp := map[types.Object]bool{}
			if h.Recv != nil {
				for _, f := range h.Recv.List {
					for _, n := range f.Names {
						hp[info.ObjectOf(n)] = true
					}
				}
			}
			for _, f := range h.Type.Params.List {
				for _, n := range f.Names {
					hp[info.ObjectOf(n)] = true
				}
			}
			for r := range paramPathsSkipping(info, hp, h.Body, opaque) {
				reads = append(reads, r)
			}
		}
		sort.Strings(reads)
		for _, r := range reads {
			if !comps[r] {
				// a read of a longer or shorter chain of a covered component is covered (x.bits covers x.bits)
				cov := false
				for c := range comps {
					if strings.HasPrefix(r, c+".") {
						cov = true
					}
				}
				if !cov && missing == "" {
					missing = r
				}
			}
		}
		out = append(out, memoVerdict{name, u.pos, missing, desc})
	}
	return out
}

func memoKeyExamples() (good, bad int, err error) {
	const src = `package example

type num struct{ bits int }

type circ struct{ n int }

type pairKey struct{ x, y int }

var byPair = map[pairKey]*circ{}
var byMax = map[int]*circ{}

func build(a, b int) *circ { return &circ{a*1000 + b} }

func sound(x, y *num) *circ {
	key := pairKey{x: x.bits, y: y.bits}
	if c, ok := byPair[key]; ok {
		return c
	}
	c := build(x.bits, y.bits)
	byPair[key] = c
	return c
}

func lossy(x, y *num) *circ {
	bits := x.bits
	if y.bits > bits {
		bits = y.bits
	}
	key := bits + 0
	if c, ok := byMax[key]; ok {
		return c
	}
	c := build(x.bits, y.bits)
	byMax[key] = c
	return c
}
`
	info, files, e := typecheckExample(src)
	if e != nil {
		return 0, 0, e
	}
	for _, f := range files {
		for _, d := range f.Decls {
			fd, ok := d.(*ast.FuncDecl)
			if !ok {
				continue
			}
			for _, v := range memoKeyCheck(info, fd) {
				if v.missing == "" {
					continue
				}
				switch fd.Name.Name {
				case "sound":
					good++
				case "lossy":
					bad++
				}
			}
		}
	}
	return good, bad, nil
}

// memoHelperDecls is set by MemoKeys: the function declarations of the package under analysis by object.
var memoHelperDecls map[types.Object]*ast.FuncDecl

// memoHelpers: functions of the package called in fd with receiver and arguments that are parameters of fd
// passed under the names the callee gives them (the callee's reads are then reads of fd's parameters).
func memoHelpers(info *types.Info, fd *ast.FuncDecl, params map[types.Object]bool) []*ast.FuncDecl {
	var out []*ast.FuncDecl
	ast.Inspect(fd.Body, func(n ast.Node) bool {
		c, ok := n.(*ast.CallExpr)
		if !ok {
			return true
		}
		var obj types.Object
		var recvName string
		switch t := c.Fun.(type) {
		case *ast.Ident:
			obj = info.Uses[t]
		case *ast.SelectorExpr:
			obj = info.Uses[t.Sel]
			if id, ok := ast.Unparen(t.X).(*ast.Ident); ok && params[info.ObjectOf(id)] {
				recvName = id.Name
			}
		}
		h := memoHelperDecls[obj]
		if h == nil || h == fd || h.Body == nil {
			return true
		}
		if h.Recv != nil {
			if len(h.Recv.List) != 1 || len(h.Recv.List[0].Names) != 1 || h.Recv.List[0].Names[0].Name != recvName {
				return true
			}
		}
		i := 0
		same := true
		for _, f := range h.Type.Params.List {
			for _, nm := range f.Names {
				if i < len(c.Args) {
					if id, ok := ast.Unparen(c.Args[i]).(*ast.Ident); ok && params[info.ObjectOf(id)] && id.Name != nm.Name {
						same = false
					}
				}
				i++
			}
		}
		if same {
			out = append(out, h)
		}
		return true
	})
	return out
}
