package props

import (
	"fmt"
	"go/ast"
	"go/token"
	"go/types"
	"strings"

	"mpcverif/internal/load"
	"mpcverif/internal/report"
)

// MemoSyncMaps: what a shared table hands back is determined by its key (sync.Map form).
//
// `table.LoadOrStore(key, obj)` on a package-level sync.Map makes obj the answer for every later caller with
// an equal key, in any object of the process.  If obj (a pool whose New closure sizes its buffers) refers to
// a local value that is not the key — a row count computed from this circuit's gates while the key holds
// the wire and gate counts only — the next circuit with the same key gets buffers sized for another
// circuit.  Every variable the stored expression mentions must be the key variable, or a parameter field
// that is a component of the key as itself.
func MemoSyncMaps(pkgs ...string) func(p *load.Program, run *report.Run) {
	return func(p *load.Program, run *report.Run) {
		const rule = "shared-table-object-from-key"
		run.Rule(rule, "in "+strings.Join(pkgs, ", ")+": in every LoadOrStore/Store on a package-level sync.Map, each variable that the stored expression mentions (also inside function literals) is the key variable itself or a parameter field that the key's composite literal holds as a field value; with built-in examples")
		n := 0
		for _, rel := range pkgs {
			pk := p.ByPath[load.Module+"/"+rel]
			if pk == nil {
				run.Undecided(rule, rel, "", "package not loaded")
				continue
			}
			for _, f := range pk.Syntax {
				if strings.HasSuffix(p.Fset.Position(f.Pos()).Filename, "_test.go") {
					continue
				}
				for _, d := range f.Decls {
					fd, ok := d.(*ast.FuncDecl)
					if !ok || fd.Body == nil {
						continue
					}
					for _, v := range memoSyncCheck(pk.TypesInfo, fd) {
						n++
						key := rel + "." + fd.Name.Name + "/" + v.table
						if v.foreign != "" {
							run.Violate(rule, key, p.Rel(v.pos), fmt.Sprintf("the object stored in %s under the key %s mentions %s, which is not part of the key: every later caller with an equal key gets an object built from this caller's %s", v.table, v.keyDesc, v.foreign, v.foreign), nil)
						} else {
							run.OK(rule, key, p.Rel(v.pos), "the stored object mentions the key only ("+v.keyDesc+")")
						}
					}
				}
			}
		}
		run.Count("shared-table-stores", n)
		info, fdBad, err := parseExampleFunc(memoSyncExample, "poolBad")
		if err != nil {
			run.Undecided(rule, "built-in example", "", err.Error())
			return
		}
		info2, fdGood, _ := parseExampleFunc(memoSyncExample, "poolGood")
		bad := memoSyncCheck(info, fdBad)
		good := memoSyncCheck(info2, fdGood)
		if len(bad) != 1 || bad[0].foreign != "rows" || len(good) != 1 || good[0].foreign != "" {
			run.Undecided(rule, "built-in example", "", "the rule misclassifies its built-in example")
			return
		}
		run.Count("shared-table-examples", 2)
		run.OK(rule, "built-in examples", "", "an object sized by a local that is not in the key reported; an object that mentions the key only accepted")
		run.Floor("shared-table-examples", 2)
	}
}

type memoSyncVerdict struct {
	table, keyDesc, foreign string
	pos                     token.Pos
}

func memoSyncCheck(info *types.Info, fd *ast.FuncDecl) []memoSyncVerdict {
	var out []memoSyncVerdict
	params := map[types.Object]bool{}
	if fd.Recv != nil {
		for _, f := range fd.Recv.List {
			for _, n := range f.Names {
				params[info.ObjectOf(n)] = true
			}
		}
	}
	for _, f := range fd.Type.Params.List {
		for _, n := range f.Names {
			params[info.ObjectOf(n)] = true
		}
	}
	ast.Inspect(fd.Body, func(n ast.Node) bool {
		c, ok := n.(*ast.CallExpr)
		if !ok || len(c.Args) != 2 {
			return true
		}
		sel, ok := c.Fun.(*ast.SelectorExpr)
		if !ok || (sel.Sel.Name != "LoadOrStore" && sel.Sel.Name != "Store") {
			return true
		}
		tid, ok := ast.Unparen(sel.X).(*ast.Ident)
		if !ok {
			return true
		}
		tv, ok := info.ObjectOf(tid).(*types.Var)
		if !ok || tv.Pkg() == nil || tv.Parent() != tv.Pkg().Scope() || !strings.HasSuffix(tv.Type().String(), ".Map") {
			return true
		}
		// the key: a variable (with the composite literal it was given) or a literal
		keyVars := map[types.Object]bool{}
		comps := map[string]bool{}
		var lit ast.Expr = c.Args[0]
		if id, ok := ast.Unparen(c.Args[0]).(*ast.Ident); ok {
			keyVars[info.ObjectOf(id)] = true
			ast.Inspect(fd.Body, func(m ast.Node) bool {
				if as, ok := m.(*ast.AssignStmt); ok && len(as.Lhs) == 1 && len(as.Rhs) == 1 {
					if l, ok := as.Lhs[0].(*ast.Ident); ok && info.ObjectOf(l) == info.ObjectOf(id) {
						lit = as.Rhs[0]
					}
				}
				return true
			})
		}
		if cl, ok := ast.Unparen(lit).(*ast.CompositeLit); ok {
			for _, el := range cl.Elts {
				v := el
				if kv, ok := el.(*ast.KeyValueExpr); ok {
					v = kv.Value
				}
				for pth := range paramPaths(info, params, v) {
					if types.ExprString(ast.Unparen(v)) == pth {
						comps[pth] = true
					}
				}
			}
		}
		var desc []string
		for o := range keyVars {
			desc = append(desc, o.Name())
		}
		for cpt := range comps {
			desc = append(desc, cpt)
		}
		foreign := ""
		var walk func(e ast.Node)
		walk = func(e ast.Node) {
			ast.Inspect(e, func(m ast.Node) bool {
				switch t := m.(type) {
				case *ast.SelectorExpr:
					if comps[types.ExprString(t)] {
						return false
					}
				case *ast.Ident:
					v, ok := info.Uses[t].(*types.Var)
					if !ok || v.IsField() || v.Pkg() == nil || v.Parent() == v.Pkg().Scope() {
						return true
					}
					if keyVars[v] {
						return true
					}
					// a variable declared inside the stored expression itself
					if v.Pos() >= c.Args[1].Pos() && v.Pos() <= c.Args[1].End() {
						return true
					}
					if foreign == "" {
						foreign = t.Name
					}
				}
				return true
			})
		}
		walk(c.Args[1])
		out = append(out, memoSyncVerdict{tid.Name, strings.Join(desc, ", "), foreign, c.Pos()})
		return true
	})
	return out
}

const memoSyncExample = `package example

type Map struct{}

func (t *Map) LoadOrStore(k, v interface{}) (interface{}, bool) { return v, false }

type dims struct{ wires, gates, rows int }

type pool struct{ New func() []int }

type circ struct {
	NumWires, NumGates int
	Ops                []int
}

var pools Map

func poolBad(c *circ) interface{} {
	key := dims{wires: c.NumWires, gates: c.NumGates}
	rows := 0
	for _, op := range c.Ops {
		rows += op
	}
	v, _ := pools.LoadOrStore(key, &pool{New: func() []int { return make([]int, rows+key.wires) }})
	return v
}

func poolGood(c *circ) interface{} {
	key := dims{wires: c.NumWires, gates: c.NumGates}
	for _, op := range c.Ops {
		key.rows += op
	}
	v, _ := pools.LoadOrStore(key, &pool{New: func() []int { return make([]int, key.rows+key.wires) }})
	return v
}
`
