package props

import (
	"fmt"
	"go/ast"
	"go/constant"
	"go/token"
	"go/types"
	"strings"

	"golang.org/x/tools/go/packages"

	"mpcverif/internal/dispatch"
	"mpcverif/internal/load"
)

// exprNorm renders an expression with the receiver and the parameters of the
// enclosing function replaced by positional tokens (recv, $0, $1, ...), so that
// rules comparing source fragments do not depend on how those are spelled.
func exprNorm(fd *ast.FuncDecl, e ast.Expr) string {
	return normNames(fd, types.ExprString(e))
}

func normNames(fd *ast.FuncDecl, s string) string {
	ren := map[string]string{}
	if fd.Recv != nil && len(fd.Recv.List) == 1 && len(fd.Recv.List[0].Names) == 1 {
		ren[fd.Recv.List[0].Names[0].Name] = "recv"
	}
	i := 0
	for _, f := range fd.Type.Params.List {
		for _, n := range f.Names {
			ren[n.Name] = fmt.Sprintf("$%d", i)
			i++
		}
		if len(f.Names) == 0 {
			i++
		}
	}
	return renameTokens(ren, s)
}

// renameTokens replaces identifier tokens of s that are not selected from
// something (not preceded by a dot) according to ren.
func renameTokens(ren map[string]string, s string) string {
	if len(ren) == 0 {
		return s
	}
	var b strings.Builder
	isId := func(c byte) bool {
		return c == '_' || c >= 'a' && c <= 'z' || c >= 'A' && c <= 'Z' || c >= '0' && c <= '9'
	}
	for k := 0; k < len(s); {
		if isId(s[k]) {
			j := k
			for j < len(s) && isId(s[j]) {
				j++
			}
			w := s[k:j]
			if r, ok := ren[w]; ok && (k == 0 || s[k-1] != '.') {
				b.WriteString(r)
			} else {
				b.WriteString(w)
			}
			k = j
			continue
		}
		b.WriteByte(s[k])
		k++
	}
	return b.String()
}

// isSel reports whether e is a selector of the named field or method.
func isSel(e ast.Expr, name string) bool {
	s, ok := ast.Unparen(e).(*ast.SelectorExpr)
	return ok && s.Sel.Name == name
}

// namedType is the name of the (possibly pointed-to) named type of e, or "".
func namedType(info *types.Info, e ast.Expr) string {
	tv, ok := info.Types[e]
	if !ok {
		if id, ok := e.(*ast.Ident); ok {
			if o := info.ObjectOf(id); o != nil {
				return typeName(o.Type())
			}
		}
		return ""
	}
	return typeName(tv.Type)
}

func typeName(t types.Type) string {
	if p, ok := t.(*types.Pointer); ok {
		t = p.Elem()
	}
	if n, ok := t.(*types.Named); ok {
		return n.Obj().Name()
	}
	return ""
}

// canonIdent gives role-bearing identifiers a canonical spelling: the rules
// of a package are written against those spellings (nw, self, peer, instr)
// and see the source through cx, so they do not depend on how the variables
// are actually named.
var canonIdent = map[*ast.Ident]string{}

// registerCanon assigns canonical names in every function of pkg: a variable
// assigned from <receiver>.<selfField> is "self"; a variable whose named type
// is a key of byType gets that canonical name if all such variables of the
// function (apart from self) are spelled alike.
func registerCanon(pkg *packages.Package, byType map[string]string, selfField string) {
	canonObj := map[types.Object]string{}
	for _, f := range pkg.Syntax {
		for _, d := range f.Decls {
			fd, ok := d.(*ast.FuncDecl)
			if !ok || fd.Body == nil {
				continue
			}
			recv := ""
			if fd.Recv != nil && len(fd.Recv.List) == 1 && len(fd.Recv.List[0].Names) == 1 {
				recv = fd.Recv.List[0].Names[0].Name
			}
			selfObjs := map[types.Object]bool{}
			if selfField != "" && recv != "" {
				ast.Inspect(fd.Body, func(n ast.Node) bool {
					if as, ok := n.(*ast.AssignStmt); ok && as.Tok == token.DEFINE && len(as.Lhs) == 1 && len(as.Rhs) == 1 {
						if id, ok := as.Lhs[0].(*ast.Ident); ok && types.ExprString(as.Rhs[0]) == recv+"."+selfField {
							if o := pkg.TypesInfo.ObjectOf(id); o != nil {
								selfObjs[o] = true
								canonObj[o] = "self"
							}
						}
					}
					return true
				})
			}
			group := map[string][]types.Object{}
			seen := map[types.Object]bool{}
			ast.Inspect(fd, func(n ast.Node) bool {
				id, ok := n.(*ast.Ident)
				if !ok {
					return true
				}
				o, ok := pkg.TypesInfo.Defs[id].(*types.Var)
				if !ok || o == nil || o.IsField() || seen[o] || selfObjs[o] || id.Name == "_" {
					return true
				}
				seen[o] = true
				if c, ok := byType[typeName(o.Type())]; ok {
					group[c] = append(group[c], o)
				}
				return true
			})
			for c, os := range group {
				// one role per type: all such variables carry one spelling (several
				// loops may each declare it); with two spellings there are two roles
				same := true
				for _, o := range os {
					if o.Name() != os[0].Name() {
						same = false
					}
				}
				if same {
					for _, o := range os {
						canonObj[o] = c
					}
				}
			}
		}
	}
	for id, o := range pkg.TypesInfo.Defs {
		if c, ok := canonObj[o]; ok {
			canonIdent[id] = c
		}
	}
	for id, o := range pkg.TypesInfo.Uses {
		if c, ok := canonObj[o]; ok {
			canonIdent[id] = c
		}
	}
}

// cx renders e with canonical names for the registered identifiers.
func cx(e ast.Expr) string {
	if e == nil {
		return ""
	}
	var ren map[string]string
	ast.Inspect(e, func(n ast.Node) bool {
		if id, ok := n.(*ast.Ident); ok {
			if c, ok := canonIdent[id]; ok && c != id.Name {
				if ren == nil {
					ren = map[string]string{}
				}
				ren[id.Name] = c
			}
		}
		return true
	})
	return renameTokens(ren, types.ExprString(e))
}

var canonDone = map[*packages.Package]bool{}

// canonFor registers the canonical names the GMW and streaming rules use.
func canonFor(p *load.Program) {
	for rel, spec := range map[string]struct {
		byType map[string]string
		self   string
	}{
		"gmw":          {map[string]string{"Network": "nw", "Peer": "peer"}, "self"},
		"compiler/ssa": {map[string]string{"Instr": "instr"}, ""},
	} {
		if pkg := p.ByPath[load.Module+"/"+rel]; pkg != nil && !canonDone[pkg] {
			canonDone[pkg] = true
			registerCanon(pkg, spec.byType, spec.self)
		}
	}
}

// isNoop reports statements without effect on what the rules look at: the
// empty statement and a blank assignment of call-free expressions.
func isNoop(s ast.Stmt) bool {
	switch t := s.(type) {
	case *ast.EmptyStmt:
		return true
	case *ast.AssignStmt:
		for _, l := range t.Lhs {
			if id, ok := l.(*ast.Ident); !ok || id.Name != "_" {
				return false
			}
		}
		pure := true
		for _, r := range t.Rhs {
			ast.Inspect(r, func(n ast.Node) bool {
				if _, ok := n.(*ast.CallExpr); ok {
					pure = false
				}
				return pure
			})
		}
		return pure
	}
	return false
}

// effective drops the no-op statements of a list.
func effective(list []ast.Stmt) []ast.Stmt {
	var out []ast.Stmt
	for _, s := range list {
		if !isNoop(s) {
			out = append(out, s)
		}
	}
	return out
}

// stdQuiet reports calls into the formatting, logging and string helper
// packages of the standard library (and the builtins len and cap): they have
// no effect on what the source interpreters model, their result is opaque.
func stdQuiet(info *types.Info, c *ast.CallExpr) bool {
	switch f := ast.Unparen(c.Fun).(type) {
	case *ast.Ident:
		if b, ok := info.Uses[f].(*types.Builtin); ok {
			return b.Name() == "len" || b.Name() == "cap"
		}
	case *ast.SelectorExpr:
		if id, ok := f.X.(*ast.Ident); ok {
			if pn, ok := info.Uses[id].(*types.PkgName); ok {
				switch pn.Imported().Path() {
				case "fmt", "log", "errors", "strings", "strconv":
					return true
				}
			}
		}
	}
	return false
}

// isQuiet extends isNoop by statements that only call quiet functions: a blank
// assignment or an expression statement whose calls are all stdQuiet.
func isQuiet(info *types.Info, s ast.Stmt) bool {
	if isNoop(s) {
		return true
	}
	var exprs []ast.Expr
	switch t := s.(type) {
	case *ast.AssignStmt:
		for _, l := range t.Lhs {
			if id, ok := l.(*ast.Ident); !ok || id.Name != "_" {
				return false
			}
		}
		exprs = t.Rhs
	case *ast.ExprStmt:
		if _, ok := t.X.(*ast.CallExpr); !ok {
			return false
		}
		exprs = []ast.Expr{t.X}
	case *ast.DeferStmt:
		// a deferred empty (or quiet) function literal, or a deferred quiet call
		if fl, ok := t.Call.Fun.(*ast.FuncLit); ok {
			for _, st := range fl.Body.List {
				if !isQuiet(info, st) {
					return false
				}
			}
			return len(t.Call.Args) == 0
		}
		exprs = []ast.Expr{t.Call}
	default:
		return false
	}
	quiet := true
	for _, e := range exprs {
		ast.Inspect(e, func(n ast.Node) bool {
			if c, ok := n.(*ast.CallExpr); ok && !stdQuiet(info, c) {
				// a conversion is not a call
				if tv, ok := info.Types[c.Fun]; !ok || !tv.IsType() {
					quiet = false
				}
			}
			return quiet
		})
	}
	return quiet
}

// effectiveQ drops the quiet statements of a list.
func effectiveQ(info *types.Info, list []ast.Stmt) []ast.Stmt {
	var out []ast.Stmt
	for _, s := range list {
		if !isQuiet(info, s) {
			out = append(out, s)
		}
	}
	return out
}

// unwrapFunc follows thin wrappers: a function whose body is a single `return g(...)` with g a
// package-level function of the same package stands for g (Parse(val) -> parse(val, 0)).
func unwrapFunc(p *load.Program, rel string, fd *ast.FuncDecl) *ast.FuncDecl {
	pk := p.ByPath[load.Module+"/"+rel]
	for i := 0; i < 3 && fd != nil && fd.Body != nil && pk != nil; i++ {
		body := effectiveQ(pk.TypesInfo, fd.Body.List)
		if len(body) != 1 {
			break
		}
		r, ok := body[0].(*ast.ReturnStmt)
		if !ok || len(r.Results) != 1 {
			break
		}
		call, ok := r.Results[0].(*ast.CallExpr)
		if !ok {
			break
		}
		id, ok := call.Fun.(*ast.Ident)
		if !ok {
			break
		}
		_, next := dispatch.FindFunc(p, rel, "", id.Name)
		if next == nil {
			break
		}
		fd = next
	}
	return fd
}

// ordCmp reads an ordered comparison in either direction: big > small (strict) or big >= small.
func ordCmp(e ast.Expr) (big, small ast.Expr, strict, ok bool) {
	be, isBin := ast.Unparen(e).(*ast.BinaryExpr)
	if !isBin {
		return nil, nil, false, false
	}
	switch be.Op {
	case token.GTR:
		return be.X, be.Y, true, true
	case token.GEQ:
		return be.X, be.Y, false, true
	case token.LSS:
		return be.Y, be.X, true, true
	case token.LEQ:
		return be.Y, be.X, false, true
	}
	return nil, nil, false, false
}

// addedConst recognises the statements that add a constant to a variable: x += K, x -= K, x++, x--,
// x = x + K, x = K + x, x = x - K.
func addedConst(info *types.Info, s ast.Stmt) (target ast.Expr, k int64, ok bool) {
	val := func(e ast.Expr) (int64, bool) {
		if tv, ok := info.Types[e]; ok && tv.Value != nil {
			if v, exact := constant.Int64Val(constant.ToInt(tv.Value)); exact {
				return v, true
			}
		}
		return 0, false
	}
	switch t := s.(type) {
	case *ast.IncDecStmt:
		if t.Tok == token.INC {
			return t.X, 1, true
		}
		return t.X, -1, true
	case *ast.AssignStmt:
		if len(t.Lhs) != 1 || len(t.Rhs) != 1 {
			return nil, 0, false
		}
		switch t.Tok {
		case token.ADD_ASSIGN, token.SUB_ASSIGN:
			if v, ok := val(t.Rhs[0]); ok {
				if t.Tok == token.SUB_ASSIGN {
					v = -v
				}
				return t.Lhs[0], v, true
			}
		case token.ASSIGN:
			if be, ok := ast.Unparen(t.Rhs[0]).(*ast.BinaryExpr); ok && (be.Op == token.ADD || be.Op == token.SUB) {
				l := types.ExprString(t.Lhs[0])
				if v, ok := val(be.Y); ok && types.ExprString(ast.Unparen(be.X)) == l {
					if be.Op == token.SUB {
						v = -v
					}
					return t.Lhs[0], v, true
				}
				if v, ok := val(be.X); ok && be.Op == token.ADD && types.ExprString(ast.Unparen(be.Y)) == l {
					return t.Lhs[0], v, true
				}
			}
		}
	}
	return nil, 0, false
}

// declRef is a function declaration together with the package that holds it.
type declRef struct {
	pkg *packages.Package
	fd  *ast.FuncDecl
}

var declIndex map[*types.Func]declRef

// calleeDecls lists the declarations of the module functions that fd calls statically (methods and
// functions, any package of the module), transitively up to depth levels, without fd itself.  Rules that
// look for a construct "in role function F" use it to keep finding the construct after a maintainer moved
// it into a helper.
func calleeDecls(p *load.Program, pkg *packages.Package, fd *ast.FuncDecl, depth int) []declRef {
	if declIndex == nil {
		declIndex = map[*types.Func]declRef{}
		for _, pk := range p.Pkgs {
			if !strings.HasPrefix(pk.PkgPath, load.Module) {
				continue
			}
			for _, f := range pk.Syntax {
				for _, d := range f.Decls {
					if x, ok := d.(*ast.FuncDecl); ok && x.Body != nil {
						if fn, ok := pk.TypesInfo.Defs[x.Name].(*types.Func); ok {
							declIndex[fn] = declRef{pk, x}
						}
					}
				}
			}
		}
	}
	seen := map[*ast.FuncDecl]bool{fd: true}
	var out []declRef
	var walk func(pk *packages.Package, d *ast.FuncDecl, level int)
	walk = func(pk *packages.Package, d *ast.FuncDecl, level int) {
		if level >= depth {
			return
		}
		ast.Inspect(d.Body, func(n ast.Node) bool {
			c, ok := n.(*ast.CallExpr)
			if !ok {
				return true
			}
			var id *ast.Ident
			switch f := ast.Unparen(c.Fun).(type) {
			case *ast.Ident:
				id = f
			case *ast.SelectorExpr:
				id = f.Sel
			}
			if id == nil {
				return true
			}
			fn, ok := pk.TypesInfo.Uses[id].(*types.Func)
			if !ok {
				return true
			}
			if ref, ok := declIndex[fn]; ok && !seen[ref.fd] {
				seen[ref.fd] = true
				out = append(out, ref)
				walk(ref.pkg, ref.fd, level+1)
			}
			return true
		})
	}
	walk(pkg, fd, 0)
	return out
}
