package props

import (
	"fmt"
	"go/token"
	"go/types"
	"sort"
	"strings"

	"golang.org/x/tools/go/ssa"

	"mpcverif/internal/load"
	"mpcverif/internal/report"
)

// NarrowCounters: nothing that counts gates, wires or levels is kept in 16 bits.
//
// A circuit has up to 2^32 wires and its AND depth is bounded only by its size; a depth, an index or a
// count kept in a uint16 wraps at 65536 and the schedule built from it runs a gate before the gates that
// feed it — every party computes the same wrong value, without an error.  In the scheduling and evaluation
// packages no value of an 8- or 16-bit integer type is the result of an addition inside a loop.
func NarrowCounters(pkgs ...string) func(p *load.Program, run *report.Run) {
	return func(p *load.Program, run *report.Run) {
		const rule = "no-narrow-counter"
		run.Rule(rule, "in "+strings.Join(pkgs, ", ")+": no addition or subtraction whose result type is int16 or uint16 (other than on constants; 8-bit values are operation codes and bytes) lies in a block that is part of a loop; with built-in examples")
		want := map[string]bool{}
		for _, rel := range pkgs {
			want[load.Module+"/"+rel] = true
		}
		var fns []*ssa.Function
		for _, fn := range p.AllFunctions() {
			if fn.Pkg == nil || !want[fn.Pkg.Pkg.Path()] || fn.Blocks == nil || fn.Synthetic != "" || strings.HasSuffix(p.Fset.Position(fn.Pos()).Filename, "_test.go") {
				continue
			}
			fns = append(fns, fn)
		}
		sort.Slice(fns, func(i, j int) bool { return fns[i].Pos() < fns[j].Pos() })
		adds := 0
		for _, fn := range fns {
			for _, s := range narrowCounterSites(fn, &adds) {
				run.Violate(rule, strings.ReplaceAll(fn.RelString(nil), load.Module+"/", "")+"/"+s.typ, p.Rel(s.pos), fmt.Sprintf("a value of type %s is advanced inside a loop: it wraps at %d, and what is scheduled or indexed by it after that is wrong without an error", s.typ, s.wrap), nil)
			}
		}
		run.Count("loop-additions", adds)
		run.Floor("loop-additions", 10)
		look, err := buildExample(narrowCounterExample)
		if err != nil {
			run.Undecided(rule, "built-in example", "", err.Error())
			return
		}
		n := 0
		if len(narrowCounterSites(look("levels16"), &n)) == 0 || len(narrowCounterSites(look("levels32"), &n)) != 0 {
			run.Undecided(rule, "built-in example", "", "the rule misclassifies its built-in example")
			return
		}
		run.Count("narrow-counter-examples", 2)
		run.OK(rule, "built-in examples", "", "a depth kept in uint16 reported, in uint32 accepted")
		run.Floor("narrow-counter-examples", 2)
	}
}

type narrowCounterSite struct {
	typ  string
	wrap int
	pos  token.Pos
}

func narrowCounterSites(fn *ssa.Function, adds *int) []narrowCounterSite {
	if fn == nil {
		return nil
	}
	// blocks in a cycle
	inLoop := map[*ssa.BasicBlock]bool{}
	for _, b := range fn.Blocks {
		seen := map[*ssa.BasicBlock]bool{}
		stack := append([]*ssa.BasicBlock{}, b.Succs...)
		for len(stack) > 0 {
			x := stack[len(stack)-1]
			stack = stack[:len(stack)-1]
			if seen[x] {
				continue
			}
			seen[x] = true
			if x == b {
				inLoop[b] = true
				break
			}
			stack = append(stack, x.Succs...)
		}
	}
	var out []narrowCounterSite
	for _, b := range fn.Blocks {
		if !inLoop[b] {
			continue
		}
		for _, ins := range b.Instrs {
			bo, ok := ins.(*ssa.BinOp)
			if !ok || (bo.Op != token.ADD && bo.Op != token.SUB) {
				continue
			}
			bt, ok := bo.Type().Underlying().(*types.Basic)
			if !ok || bt.Info()&types.IsInteger == 0 {
				continue
			}
			*adds++
			_, cx := bo.X.(*ssa.Const)
			_, cy := bo.Y.(*ssa.Const)
			if cx && cy {
				continue
			}
			switch bt.Kind() {
			case types.Int16, types.Uint16:
				out = append(out, narrowCounterSite{bt.Name(), 65536, bo.Pos()})
			}
		}
	}
	return out
}

const narrowCounterExample = `package example

func levels16(in []int) []uint16 {
	out := make([]uint16, len(in))
	var level uint16
	for i, x := range in {
		if x > 0 {
			level++
		}
		out[i] = level
	}
	return out
}

func levels32(in []int) []uint32 {
	out := make([]uint32, len(in))
	var level uint32
	for i, x := range in {
		if x > 0 {
			level++
		}
		out[i] = level
	}
	return out
}
`
