package props

import (
	"fmt"
	"go/ast"
	"go/token"
	"go/types"
	"strings"

	"mpcverif/internal/load"
)

// narrowFlagInvariant: a flag of circuit.Streaming that selects the 16-bit gate encoding for a whole circuit is
// set so that it implies every wire index of that circuit fits 16 bits.
//
// The indices a gate record carries are elements of stream.in, elements of stream.out, or — for temporary wires —
// the gate's own circuit wire number, which is below the circuit's NumWires.  The flag is accepted when
//
//   - it is assigned at exactly one place, in a method F of Streaming that also assigns stream.in and stream.out
//     from two of its parameters,
//   - the assigned value is a conjunction that contains `M <= K` with K <= 0xffff, M an upper bound of both
//     parameters (built with a function of the package that folds a maximum over a slice: `for _, w := range s
//     { if w > max { max = w } }; return max`), and `c.NumWires <= K2` with K2 <= 0x10000 for a *Circuit
//     parameter c of F,
//   - and the function whose loop calls garbleGate calls F before that loop.
//
// That gate wire numbers are below NumWires is the well-formedness of a circuit (rule gate-wires-validated for
// parsed files, the compiler by construction); it is the one premise taken from outside.
func narrowFlagInvariant(p *load.Program, field string) string {
	pkg := p.ByPath[load.Module+"/circuit"]
	if pkg == nil {
		return "package circuit not loaded"
	}
	info := pkg.TypesInfo
	isStreaming := func(e ast.Expr) bool {
		t := info.TypeOf(e)
		return t != nil && strings.HasSuffix(strings.TrimPrefix(t.String(), "*"), "circuit.Streaming")
	}
	var setter *ast.FuncDecl
	var rhs ast.Expr
	sites := 0
	decls := map[string]*ast.FuncDecl{}
	for _, f := range pkg.Syntax {
		if strings.HasSuffix(p.Fset.Position(f.Pos()).Filename, "_test.go") {
			continue
		}
		for _, d := range f.Decls {
			fd, ok := d.(*ast.FuncDecl)
			if !ok || fd.Body == nil {
				continue
			}
			if fd.Recv == nil {
				decls[fd.Name.Name] = fd
			}
			ast.Inspect(fd.Body, func(n ast.Node) bool {
				as, ok := n.(*ast.AssignStmt)
				if !ok || len(as.Lhs) != len(as.Rhs) {
					return true
				}
				for i, l := range as.Lhs {
					if sel, ok := l.(*ast.SelectorExpr); ok && sel.Sel.Name == field && isStreaming(sel.X) {
						sites++
						setter, rhs = fd, as.Rhs[i]
					}
				}
				return true
			})
		}
	}
	if sites != 1 {
		return fmt.Sprintf("the flag %s is assigned at %d places", field, sites)
	}
	params := map[string]types.Type{}
	for _, f := range setter.Type.Params.List {
		for _, n := range f.Names {
			params[n.Name] = info.TypeOf(f.Type)
		}
	}
	// stream.in = P1; stream.out = P2
	tables := map[string]string{}
	ast.Inspect(setter.Body, func(n ast.Node) bool {
		as, ok := n.(*ast.AssignStmt)
		if !ok || len(as.Lhs) != len(as.Rhs) {
			return true
		}
		for i, l := range as.Lhs {
			sel, ok := l.(*ast.SelectorExpr)
			if !ok || !isStreaming(sel.X) || (sel.Sel.Name != "in" && sel.Sel.Name != "out") {
				continue
			}
			if id, ok := ast.Unparen(as.Rhs[i]).(*ast.Ident); ok && params[id.Name] != nil {
				tables[sel.Sel.Name] = id.Name
			} else {
				tables[sel.Sel.Name] = "?"
			}
		}
		return true
	})
	if tables["in"] == "" || tables["out"] == "" || tables["in"] == "?" || tables["out"] == "?" {
		return fmt.Sprintf("%s, which sets the flag, does not take stream.in and stream.out from its parameters", setter.Name.Name)
	}
	// locals assigned once
	defs := map[string]ast.Expr{}
	count := map[string]int{}
	ast.Inspect(setter.Body, func(n ast.Node) bool {
		if as, ok := n.(*ast.AssignStmt); ok && len(as.Lhs) == len(as.Rhs) {
			for i, l := range as.Lhs {
				if id, ok := l.(*ast.Ident); ok {
					count[id.Name]++
					defs[id.Name] = as.Rhs[i]
				}
			}
		}
		return true
	})
	// is g a function that folds a maximum over its slice parameter, starting from its first parameter?
	foldsMax := func(g *ast.FuncDecl) bool {
		if g == nil || g.Type.Params.NumFields() != 2 || len(g.Body.List) != 2 {
			return false
		}
		var names []string
		for _, f := range g.Type.Params.List {
			for _, n := range f.Names {
				names = append(names, n.Name)
			}
		}
		if len(names) != 2 {
			return false
		}
		acc, sl := names[0], names[1]
		rs, ok := g.Body.List[0].(*ast.RangeStmt)
		if !ok || types.ExprString(rs.X) != sl || rs.Value == nil || len(rs.Body.List) != 1 {
			return false
		}
		el := types.ExprString(rs.Value)
		ifs, ok := rs.Body.List[0].(*ast.IfStmt)
		if !ok || ifs.Else != nil || len(ifs.Body.List) != 1 {
			return false
		}
		c := types.ExprString(ifs.Cond)
		if c != el+" > "+acc && c != acc+" < "+el {
			return false
		}
		as, ok := ifs.Body.List[0].(*ast.AssignStmt)
		if !ok || len(as.Lhs) != 1 || types.ExprString(as.Lhs[0]) != acc || types.ExprString(as.Rhs[0]) != el {
			return false
		}
		ret, ok := g.Body.List[1].(*ast.ReturnStmt)
		return ok && len(ret.Results) == 1 && types.ExprString(ret.Results[0]) == acc
	}
	var covered func(e ast.Expr, d int) map[string]bool
	covered = func(e ast.Expr, d int) map[string]bool {
		out := map[string]bool{}
		if d > 5 {
			return out
		}
		e = ast.Unparen(e)
		switch t := e.(type) {
		case *ast.Ident:
			if count[t.Name] == 1 && defs[t.Name] != nil {
				return covered(defs[t.Name], d+1)
			}
		case *ast.CallExpr:
			if id, ok := t.Fun.(*ast.Ident); ok && len(t.Args) == 2 && foldsMax(decls[id.Name]) {
				out = covered(t.Args[0], d+1)
				if s, ok := ast.Unparen(t.Args[1]).(*ast.Ident); ok {
					out[s.Name] = true
				}
			}
		}
		return out
	}
	constOfE := func(e ast.Expr) (int64, bool) {
		return constOf(pkg, e)
	}
	upper := func(be *ast.BinaryExpr) (ast.Expr, int64, bool) {
		// X <= K, X < K (as X <= K-1), K >= X, K > X
		switch be.Op {
		case token.LEQ:
			if k, ok := constOfE(be.Y); ok {
				return be.X, k, true
			}
		case token.LSS:
			if k, ok := constOfE(be.Y); ok {
				return be.X, k - 1, true
			}
		case token.GEQ:
			if k, ok := constOfE(be.X); ok {
				return be.Y, k, true
			}
		case token.GTR:
			if k, ok := constOfE(be.X); ok {
				return be.Y, k - 1, true
			}
		}
		return nil, 0, false
	}
	idsBounded, tmpBounded := false, false
	for _, c := range conjunctExprs(rhs, token.LAND) {
		be, ok := ast.Unparen(c).(*ast.BinaryExpr)
		if !ok {
			continue
		}
		x, k, ok := upper(be)
		if !ok {
			continue
		}
		if cv := covered(x, 0); cv[tables["in"]] && cv[tables["out"]] && k <= 0xffff {
			idsBounded = true
		}
		if sel, ok := ast.Unparen(x).(*ast.SelectorExpr); ok && sel.Sel.Name == "NumWires" && k <= 0x10000 {
			if id, ok := ast.Unparen(sel.X).(*ast.Ident); ok && params[id.Name] != nil && strings.HasSuffix(params[id.Name].String(), "circuit.Circuit") {
				tmpBounded = true
			}
		}
	}
	if !idsBounded {
		return fmt.Sprintf("the value assigned to %s in %s does not bound the indices in stream.in and stream.out by 0xffff", field, setter.Name.Name)
	}
	if !tmpBounded {
		return fmt.Sprintf("the value assigned to %s in %s bounds the permanent indices only: a temporary wire is addressed by its circuit wire number, which can reach NumWires-1 > 0xffff", field, setter.Name.Name)
	}
	// the function whose loop calls garbleGate calls the setter before the loop
	okOrder := false
	for _, f := range pkg.Syntax {
		for _, d := range f.Decls {
			fd, ok := d.(*ast.FuncDecl)
			if !ok || fd.Body == nil {
				continue
			}
			calledAt, loopAt := token.NoPos, token.NoPos
			ast.Inspect(fd.Body, func(n ast.Node) bool {
				switch t := n.(type) {
				case *ast.CallExpr:
					if sel, ok := t.Fun.(*ast.SelectorExpr); ok && sel.Sel.Name == setter.Name.Name && calledAt == token.NoPos {
						calledAt = t.Pos()
					}
				case *ast.ForStmt, *ast.RangeStmt:
					has := false
					ast.Inspect(n, func(m ast.Node) bool {
						if c, ok := m.(*ast.CallExpr); ok {
							if sel, ok := c.Fun.(*ast.SelectorExpr); ok && sel.Sel.Name == "garbleGate" {
								has = true
							}
						}
						return true
					})
					if has && loopAt == token.NoPos {
						loopAt = n.Pos()
					}
				}
				return true
			})
			if calledAt != token.NoPos && loopAt != token.NoPos && calledAt < loopAt {
				okOrder = true
			}
		}
	}
	if !okOrder {
		return fmt.Sprintf("%s is not called before the loop that garbles the gates", setter.Name.Name)
	}
	return ""
}

func conjunctExprs(e ast.Expr, op token.Token) []ast.Expr {
	e = ast.Unparen(e)
	if be, ok := e.(*ast.BinaryExpr); ok && be.Op == op {
		return append(conjunctExprs(be.X, op), conjunctExprs(be.Y, op)...)
	}
	return []ast.Expr{e}
}
