package props

import (
	"fmt"
	"go/ast"
	"go/constant"
	"go/token"
	"go/types"
	"sort"
	"strconv"
	"strings"

	"golang.org/x/tools/go/ssa"

	"mpcverif/internal/load"
	"mpcverif/internal/report"
)

// NarrowSends: a value sent through a 16-bit (or 8-bit) field fits it, and the field takes all of its range.
//
// Conn.SendUint16(val int) writes the low 16 bits of val; the receiver reads a different, valid value when
// val was larger, and the two sides go on out of step (a run of 65536 return wires is announced as a run of
// 0: the evaluator waits for more, the garbler for the result).  Two obligations:
//
//   - caller side: the argument of every SendUint16 / SendByte-of-a-conversion in the module has a constant
//     upper bound within the field — a constant, a bounded expression, or a counter whose increment is
//     guarded by `n < K`;
//   - callee side: a range check inside SendUint16/SendUint32 (an error return under a comparison of the
//     value with constants) rejects no value of the field: it is evaluated for 0, 2^(N-1)-1, 2^(N-1) and 2^N-1.
func NarrowSends(p *load.Program, run *report.Run) {
	const rule = "narrow-send-in-range"
	run.Rule(rule, "every argument of (*p2p.Conn).SendUint16 in the module has a constant upper bound of at most 65535 (a constant, arithmetic over bounded values, or a counter incremented only under a guard n < K); and an error return inside SendUint16/SendUint32 guarded by comparisons of the value with constants is not taken for 0, 2^(N-1)-1, 2^(N-1), 2^N-1; with built-in examples")
	var fns []*ssa.Function
	for _, fn := range p.AllFunctions() {
		if fn.Pkg == nil || !load.InModule(fn) || fn.Blocks == nil || fn.Synthetic != "" || strings.HasSuffix(p.Fset.Position(fn.Pos()).Filename, "_test.go") || strings.Contains(fn.Pkg.Pkg.Path(), "/apps/") {
			continue
		}
		fns = append(fns, fn)
	}
	sort.Slice(fns, func(i, j int) bool { return fns[i].Pos() < fns[j].Pos() })
	sites := narrowSendSites(fns)
	for _, s := range sites {
		key := strings.ReplaceAll(s.fn.RelString(nil), load.Module+"/", "") + "/" + s.callee + "#" + strconv.Itoa(s.nth)
		if s.why == "" {
			run.OK(rule, key, p.Rel(s.pos), s.note)
		} else {
			run.Violate(rule, key, p.Rel(s.pos), s.why, nil)
		}
	}
	run.Count("narrow-send-calls", len(sites))
	// callee side
	if pk := p.ByPath[load.Module+"/p2p"]; pk != nil {
		n := 0
		for _, f := range pk.Syntax {
			for _, d := range f.Decls {
				fd, ok := d.(*ast.FuncDecl)
				if !ok || fd.Body == nil || fd.Recv == nil {
					continue
				}
				bits := map[string]int{"SendUint16": 16, "SendUint32": 32, "SendByte": 8}[fd.Name.Name]
				if bits == 0 {
					continue
				}
				n++
				if why := rangeCheckRejects(pk.TypesInfo, fd, bits); why != "" {
					run.Violate(rule, "p2p.Conn."+fd.Name.Name+"/range check", p.Rel(fd.Pos()), why, nil)
				} else {
					run.OK(rule, "p2p.Conn."+fd.Name.Name+"/range check", p.Rel(fd.Pos()), "no value of the field is rejected")
				}
			}
		}
		run.Count("typed-send-functions", n)
		run.Floor("typed-send-functions", 2)
	} else {
		run.Undecided(rule, "p2p", "", "package not loaded")
	}
	// built-in examples
	look, err := buildExample(narrowSendExample)
	if err != nil {
		run.Undecided(rule, "built-in example", "", err.Error())
		return
	}
	got := map[string]bool{}
	for _, s := range narrowSendSites(exampleFuncsOf(look, "anchor")) {
		got[s.fn.Name()] = s.why == ""
	}
	info, fdBad, err1 := parseExampleFunc(narrowSendExample, "SendUint16Bad")
	info2, fdGood, err2 := parseExampleFunc(narrowSendExample, "SendUint16")
	if err1 != nil || err2 != nil {
		run.Undecided(rule, "built-in example", "", "example does not parse")
		return
	}
	if len(got) != 4 || got["runsUnbounded"] || !got["runsCapped"] || !got["fixed"] || got["byLength"] || rangeCheckRejects(info, fdBad, 16) == "" || rangeCheckRejects(info2, fdGood, 16) != "" {
		run.Undecided(rule, "built-in example", "", fmt.Sprintf("the rule misclassifies its built-in example: %v", got))
		return
	}
	run.Count("narrow-send-examples", 6)
	run.OK(rule, "built-in examples", "", "a run length counted without a cap and a slice length reported, a capped counter and a constant accepted; a range check with the bound of the signed type reported, with the bound of the field accepted")
	run.Floor("narrow-send-examples", 6)
}

type narrowSite struct {
	fn        *ssa.Function
	callee    string
	nth       int
	pos       token.Pos
	why, note string
}

func narrowSendSites(fns []*ssa.Function) []narrowSite {
	var out []narrowSite
	for _, fn := range fns {
		nth := 0
		for _, b := range fn.Blocks {
			for _, ins := range b.Instrs {
				c, ok := ins.(ssa.CallInstruction)
				if !ok {
					continue
				}
				callee := c.Common().StaticCallee()
				if callee == nil || callee.Name() != "SendUint16" || callee.Signature.Recv() == nil || len(c.Common().Args) != 2 {
					continue
				}
				nth++
				s := narrowSite{fn: fn, callee: "SendUint16", nth: nth, pos: c.Pos()}
				max, ok := guardedBound(c.Common().Args[1], 0)
				switch {
				case !ok:
					s.why = "the value sent through the 16-bit field has no constant upper bound: SendUint16 writes its low 16 bits, so a value of 65536 or more is received as another, valid value and the two sides go on out of step"
				case max > 0xffff:
					s.why = fmt.Sprintf("the value sent through the 16-bit field can be as large as %d: SendUint16 writes its low 16 bits", max)
				default:
					s.note = fmt.Sprintf("at most %d", max)
				}
				out = append(out, s)
			}
		}
	}
	return out
}

// guardedBound: a constant upper bound of v — what upperBound finds, or for a counter `n := c; for n < K
// && … { n++ }` the bound K its guard gives.
func guardedBound(v ssa.Value, depth int) (int64, bool) {
	if depth > 4 {
		return 0, false
	}
	if ph, ok := v.(*ssa.Phi); ok {
		var start *ssa.Const
		var step *ssa.BinOp
		for _, e := range ph.Edges {
			switch t := e.(type) {
			case *ssa.Const:
				if t.Value != nil {
					start = t
				}
			case *ssa.BinOp:
				if t.Op == token.ADD && (t.X == ssa.Value(ph) || t.Y == ssa.Value(ph)) {
					step = t
				}
			}
		}
		if start != nil && step != nil && len(ph.Edges) == 2 {
			d, ok := step.Y.(*ssa.Const)
			if step.Y == ssa.Value(ph) {
				d, ok = step.X.(*ssa.Const)
			}
			if ok && d.Value != nil && d.Int64() > 0 && ph.Referrers() != nil {
				for _, r := range *ph.Referrers() {
					bo, isCmp := r.(*ssa.BinOp)
					if !isCmp || bo.Referrers() == nil {
						continue
					}
					var k *ssa.Const
					strict := false
					switch {
					case bo.Op == token.LSS && bo.X == ssa.Value(ph):
						k, _ = bo.Y.(*ssa.Const)
						strict = true
					case bo.Op == token.LEQ && bo.X == ssa.Value(ph):
						k, _ = bo.Y.(*ssa.Const)
					case bo.Op == token.GTR && bo.Y == ssa.Value(ph):
						k, _ = bo.X.(*ssa.Const)
						strict = true
					case bo.Op == token.GEQ && bo.Y == ssa.Value(ph):
						k, _ = bo.X.(*ssa.Const)
					}
					if k == nil || k.Value == nil {
						continue
					}
					for _, u := range *bo.Referrers() {
						iff, ok := u.(*ssa.If)
						if !ok {
							continue
						}
						t := iff.Block().Succs[0]
						if len(t.Preds) == 1 && (t == step.Block() || t.Dominates(step.Block())) {
							max := k.Int64() + d.Int64()
							if strict {
								max--
							}
							if start.Int64() > max {
								max = start.Int64()
							}
							return max, true
						}
					}
				}
			}
		}
	}
	ub := upperBound(v, nil, 0)
	if ub.known && ub.param == "" {
		return ub.max, true
	}
	return 0, false
}

// rangeCheckRejects: an `if` of fd whose body returns a non-nil error and whose condition, a boolean
// expression over comparisons of the first parameter with constants, is true for a value of the field.
func rangeCheckRejects(info *types.Info, fd *ast.FuncDecl, bits int) string {
	if fd.Type.Params == nil || len(fd.Type.Params.List) == 0 || len(fd.Type.Params.List[0].Names) == 0 {
		return ""
	}
	val := info.ObjectOf(fd.Type.Params.List[0].Names[0])
	var eval func(e ast.Expr, x int64) (bool, bool)
	num := func(e ast.Expr, x int64) (int64, bool) {
		e = ast.Unparen(e)
		if id, ok := e.(*ast.Ident); ok && info.ObjectOf(id) == val {
			return x, true
		}
		if c, ok := e.(*ast.CallExpr); ok && len(c.Args) == 1 {
			if tv, ok := info.Types[c.Fun]; ok && tv.IsType() {
				if id, ok := ast.Unparen(c.Args[0]).(*ast.Ident); ok && info.ObjectOf(id) == val {
					return x, true
				}
			}
		}
		if tv, ok := info.Types[e]; ok && tv.Value != nil {
			if v, exact := constant.Int64Val(constant.ToInt(tv.Value)); exact {
				return v, true
			}
		}
		return 0, false
	}
	eval = func(e ast.Expr, x int64) (bool, bool) {
		e = ast.Unparen(e)
		be, ok := e.(*ast.BinaryExpr)
		if !ok {
			return false, false
		}
		switch be.Op {
		case token.LOR, token.LAND:
			a, ok1 := eval(be.X, x)
			b, ok2 := eval(be.Y, x)
			if !ok1 || !ok2 {
				return false, false
			}
			if be.Op == token.LOR {
				return a || b, true
			}
			return a && b, true
		case token.LSS, token.LEQ, token.GTR, token.GEQ, token.EQL, token.NEQ:
			a, ok1 := num(be.X, x)
			b, ok2 := num(be.Y, x)
			if !ok1 || !ok2 {
				return false, false
			}
			switch be.Op {
			case token.LSS:
				return a < b, true
			case token.LEQ:
				return a <= b, true
			case token.GTR:
				return a > b, true
			case token.GEQ:
				return a >= b, true
			case token.EQL:
				return a == b, true
			}
			return a != b, true
		}
		return false, false
	}
	why := ""
	ast.Inspect(fd.Body, func(n ast.Node) bool {
		ifs, ok := n.(*ast.IfStmt)
		if !ok || why != "" || len(ifs.Body.List) == 0 {
			return true
		}
		ret, ok := ifs.Body.List[len(ifs.Body.List)-1].(*ast.ReturnStmt)
		if !ok || len(ret.Results) == 0 {
			return true
		}
		if id, ok := ret.Results[len(ret.Results)-1].(*ast.Ident); ok && id.Name == "nil" {
			return true
		}
		for _, x := range []int64{0, 1, 1<<uint(bits-1) - 1, 1 << uint(bits-1), 1<<uint(bits) - 1} {
			if taken, decided := eval(ifs.Cond, x); decided && taken {
				why = fmt.Sprintf("the %d-bit value %d, which the field can carry, is refused with an error: the peer waits for a value that is never sent", bits, x)
				return false
			}
		}
		return true
	})
	return why
}

const narrowSendExample = `package example

type Conn struct{ buf []byte }

type failure struct{}

func (failure) Error() string { return "failed" }

func anchor() {}

func (c *Conn) SendUint16(val int) error {
	if val < 0 || val > 65535 {
		return failure{}
	}
	c.buf = append(c.buf, byte(val>>8), byte(val))
	return nil
}

func (c *Conn) SendUint16Bad(val int) error {
	if val < 0 || val > 32767 {
		return failure{}
	}
	c.buf = append(c.buf, byte(val>>8), byte(val))
	return nil
}

func runsUnbounded(c *Conn, ids []uint32) error {
	for i := 0; i < len(ids); {
		n := 1
		for i+n < len(ids) && ids[i+n] == ids[i]+uint32(n) {
			n++
		}
		if err := c.SendUint16(n); err != nil {
			return err
		}
		i += n
	}
	return nil
}

func runsCapped(c *Conn, ids []uint32) error {
	for i := 0; i < len(ids); {
		n := 1
		for n < 0xffff && i+n < len(ids) && ids[i+n] == ids[i]+uint32(n) {
			n++
		}
		if err := c.SendUint16(n); err != nil {
			return err
		}
		i += n
	}
	return nil
}

func fixed(c *Conn) error { return c.SendUint16(43) }

func byLength(c *Conn, data []byte) error { return c.SendUint16(len(data)) }
`
