package props

import (
	"fmt"
	"go/token"
	"go/types"
	"sort"
	"strings"

	"golang.org/x/tools/go/ssa"

	"mpcverif/internal/load"
	"mpcverif/internal/report"
)

// NeedSpaceBounded: what is reserved in the fixed write buffer does not grow with a message.
//
// Conn.NeedSpace(n) flushes if fewer than n bytes are free; it cannot provide more than the buffer holds
// (64 KiB).  A caller that goes on to write n bytes into Conn.WriteBuf is therefore only right when n has
// a bound that does not depend on how long the vector or circuit at hand is.  The rule evaluates the
// argument of every NeedSpace call outside package p2p to an upper bound: constants, arithmetic on them,
// a length capped by a comparison with a constant (`if n > chunk { n = chunk }`), and module helpers of
// one expression are followed.  An amount that is a multiple of the length of a slice parameter of the
// enclosing function, with no cap, is reported: the reservation succeeds for the sizes the tests use and
// overruns the buffer (or panics) beyond them.  Amounts whose bound is not visible here (a row count read
// from a data structure) are left to the rules that know the structure.
func NeedSpaceBounded(p *load.Program, run *report.Run) {
	const rule = "reservation-independent-of-message-length"
	run.Rule(rule, "for every call of (*p2p.Conn).NeedSpace outside package p2p and every call of (*p2p.Conn).Fill: the amount is not an unbounded function of len(parameter) of the enclosing function — it is a constant, or every parameter length it depends on passes through a cap by a constant; with built-in examples")
	var fns []*ssa.Function
	for _, fn := range p.AllFunctions() {
		if fn.Pkg == nil || !load.InModule(fn) || fn.Blocks == nil || strings.Contains(fn.Pkg.Pkg.Path(), "/apps/") || strings.HasSuffix(p.Fset.Position(fn.Pos()).Filename, "_test.go") {
			continue
		}
		fns = append(fns, fn)
	}
	sort.Slice(fns, func(i, j int) bool { return fns[i].Pos() < fns[j].Pos() })
	calls := 0
	for _, fn := range fns {
		for _, b := range fn.Blocks {
			for _, ins := range b.Instrs {
				c, ok := ins.(*ssa.Call)
				if !ok || c.Call.StaticCallee() == nil || len(c.Call.Args) < 2 {
					continue
				}
				cs := c.Call.StaticCallee().String()
				what := ""
				switch {
				case cs == "(*"+load.Module+"/p2p.Conn).NeedSpace" && fn.Pkg.Pkg.Path() != load.Module+"/p2p":
					what = "NeedSpace"
				case cs == "(*"+load.Module+"/p2p.Conn).Fill":
					what = "Fill"
				default:
					continue
				}
				calls++
				key := strings.ReplaceAll(fn.RelString(nil), load.Module+"/", "") + "/" + what
				bd := upperBound(c.Call.Args[1], nil, 0)
				switch {
				case bd.param != "":
					run.Violate(rule, key, p.Rel(c.Pos()), fmt.Sprintf("the amount asked for grows with len(%s) without a cap: %s works inside one fixed buffer (NeedSpace cannot free more than the write buffer holds, Fill never returns once the request exceeds the read buffer), so a vector beyond that size overruns the buffer or blocks forever", bd.param, what), nil)
				case bd.known:
					run.OK(rule, key, p.Rel(c.Pos()), fmt.Sprintf("at most %d bytes", bd.max))
				default:
					run.OK(rule, key, p.Rel(c.Pos()), "does not depend on a parameter's length")
				}
			}
		}
	}
	run.Count("need-space-calls", calls)
	look, err := buildExample(needSpaceExample)
	if err != nil {
		run.Undecided(rule, "built-in example", "", err.Error())
		return
	}
	verdict := func(name string) string {
		f := look(name)
		for _, b := range f.Blocks {
			for _, ins := range b.Instrs {
				if c, ok := ins.(*ssa.Call); ok && c.Call.StaticCallee() != nil && c.Call.StaticCallee().Name() == "NeedSpace" {
					bd := upperBound(c.Call.Args[1], nil, 0)
					switch {
					case bd.param != "":
						return "param"
					case bd.known:
						return fmt.Sprint(bd.max)
					}
					return "unknown"
				}
			}
		}
		return "none"
	}
	if verdict("whole") != "param" || verdict("chunked") != "8192" || verdict("rows") != "unknown" {
		run.Undecided(rule, "built-in example", "", fmt.Sprintf("the rule misclassifies its built-in examples (%s %s %s)", verdict("whole"), verdict("chunked"), verdict("rows")))
		return
	}
	run.Count("need-space-examples", 3)
	run.OK(rule, "built-in examples", "", "a reservation proportional to the vector is reported; a chunked one and one that depends on a stored row count are accepted")
	run.Floor("need-space-examples", 3)
	run.Floor("need-space-calls", 6)
}

type ubound struct {
	known bool // max is an upper bound
	max   int64
	param string // non-empty: grows with the length of this parameter
}

// upperBound evaluates v; binds maps parameters of an inlined helper to the bounds of its arguments.
func upperBound(v ssa.Value, binds map[*ssa.Parameter]ubound, depth int) ubound {
	if depth > 8 {
		return ubound{}
	}
	comb := func(a, b ubound, f func(x, y int64) int64) ubound {
		out := ubound{}
		if a.param != "" {
			out.param = a.param
		} else if b.param != "" {
			out.param = b.param
		}
		if a.known && b.known {
			out.known, out.max = true, f(a.max, b.max)
		}
		return out
	}
	if lp, ok := v.(lenProbe); ok {
		root := lp.Value
		for d := 0; d < 4; d++ {
			if sl, ok := root.(*ssa.Slice); ok {
				if sl.High != nil {
					return upperBound(sl.High, binds, depth+1)
				}
				root = sl.X
				continue
			}
			break
		}
		if prm, ok := root.(*ssa.Parameter); ok {
			if b, ok := binds[prm]; ok {
				return b
			}
			if _, isSlice := prm.Type().Underlying().(*types.Slice); isSlice {
				return ubound{param: prm.Name()}
			}
		}
		return ubound{}
	}
	switch t := v.(type) {
	case *ssa.Const:
		if t.Value != nil {
			return ubound{known: true, max: t.Int64()}
		}
	case *ssa.Parameter:
		if b, ok := binds[t]; ok {
			return b
		}
	case *ssa.Convert:
		return upperBound(t.X, binds, depth+1)
	case *ssa.ChangeType:
		return upperBound(t.X, binds, depth+1)
	case *ssa.BinOp:
		a, b := upperBound(t.X, binds, depth+1), upperBound(t.Y, binds, depth+1)
		switch t.Op {
		case token.ADD:
			return comb(a, b, func(x, y int64) int64 { return x + y })
		case token.MUL:
			return comb(a, b, func(x, y int64) int64 { return x * y })
		case token.QUO:
			if b.known && b.max > 0 {
				return comb(a, b, func(x, y int64) int64 { return x / y })
			}
			return ubound{param: a.param}
		case token.SHL:
			return comb(a, b, func(x, y int64) int64 { return x << uint(y) })
		case token.SHR, token.SUB, token.REM, token.AND:
			// not larger than the left operand
			return ubound{known: a.known, max: a.max, param: a.param}
		}
	case *ssa.Call:
		if bi, ok := t.Call.Value.(*ssa.Builtin); ok && bi.Name() == "len" && len(t.Call.Args) == 1 {
			root := t.Call.Args[0]
			for d := 0; d < 4; d++ {
				if sl, ok := root.(*ssa.Slice); ok {
					if sl.High != nil || sl.Low != nil {
						// a window of the parameter: its length is what the bounds say
						if sl.High != nil {
							hb := upperBound(sl.High, binds, depth+1)
							return hb
						}
					}
					root = sl.X
					continue
				}
				break
			}
			if prm, ok := root.(*ssa.Parameter); ok {
				if b, ok := binds[prm]; ok {
					return b
				}
				if _, isSlice := prm.Type().Underlying().(*types.Slice); isSlice {
					return ubound{param: prm.Name()}
				}
			}
			if ph, ok := root.(*ssa.Phi); ok {
				// batch := v; if len(batch) > K { batch = batch[:K] }
				for _, e := range ph.Edges {
					if sl, ok := e.(*ssa.Slice); ok && sl.High != nil {
						if hb := upperBound(sl.High, binds, depth+1); hb.known && hb.param == "" {
							return hb
						}
					}
				}
				// a slice variable advanced in a loop (bits = bits[n:]) that starts as a parameter
				for _, e := range ph.Edges {
					if prm, ok := e.(*ssa.Parameter); ok {
						if _, isSlice := prm.Type().Underlying().(*types.Slice); isSlice {
							return ubound{param: prm.Name()}
						}
					}
				}
			}
			return ubound{}
		}
		callee := t.Call.StaticCallee()
		if callee != nil && load.InModuleOrExample(callee) && callee.Blocks != nil && len(callee.Blocks) <= 3 && callee.Signature.Results().Len() == 1 {
			nb := map[*ssa.Parameter]ubound{}
			for i, prm := range callee.Params {
				if i < len(t.Call.Args) {
					if _, isSlice := prm.Type().Underlying().(*types.Slice); isSlice {
						// len(param) inside the helper is len(argument) here
						lb := upperBound(lenOfValue(t.Call.Args[i]), binds, depth+1)
						nb[prm] = lb
						continue
					}
					nb[prm] = upperBound(t.Call.Args[i], binds, depth+1)
				}
			}
			out := ubound{known: true}
			found := false
			for _, b := range callee.Blocks {
				if r, ok := b.Instrs[len(b.Instrs)-1].(*ssa.Return); ok && len(r.Results) == 1 {
					rb := upperBound(r.Results[0], nb, depth+1)
					found = true
					if rb.param != "" {
						out.param = rb.param
					}
					if !rb.known {
						out.known = false
					} else if rb.max > out.max {
						out.max = rb.max
					}
				}
			}
			if found {
				return out
			}
		}
	case *ssa.Phi:
		// n := X; if n > C { n = C }: phi(X, C) below a comparison of X with C
		var cst *ssa.Const
		var other ssa.Value
		if len(t.Edges) == 2 {
			for i, e := range t.Edges {
				if k, ok := e.(*ssa.Const); ok && k.Value != nil {
					cst, other = k, t.Edges[1-i]
				}
			}
		}
		if cst != nil && other != nil && other.Referrers() != nil {
			for _, r := range *other.Referrers() {
				if bo, ok := r.(*ssa.BinOp); ok && (bo.Op == token.GTR || bo.Op == token.LSS || bo.Op == token.GEQ || bo.Op == token.LEQ) {
					if k, ok := bo.Y.(*ssa.Const); ok && k.Value != nil && k.Int64() == cst.Int64() && bo.X == other {
						return ubound{known: true, max: cst.Int64()}
					}
					if k, ok := bo.X.(*ssa.Const); ok && k.Value != nil && k.Int64() == cst.Int64() && bo.Y == other {
						return ubound{known: true, max: cst.Int64()}
					}
				}
			}
		}
		out := ubound{known: true}
		for _, e := range t.Edges {
			if e == ssa.Value(t) {
				continue
			}
			if bo, ok := e.(*ssa.BinOp); ok && (bo.X == ssa.Value(t) || bo.Y == ssa.Value(t)) {
				out.known = false // a loop-carried value
				continue
			}
			eb := upperBound(e, binds, depth+1)
			if eb.param != "" {
				out.param = eb.param
			}
			if !eb.known {
				out.known = false
			} else if eb.max > out.max {
				out.max = eb.max
			}
		}
		return out
	}
	return ubound{}
}

// lenOfValue builds nothing: it returns a value whose upperBound is the length of v — the len call on v
// if the function has one, else v itself marked through a synthetic wrapper is not possible in SSA, so the
// bound is computed directly by the caller on the slice's root.
func lenOfValue(v ssa.Value) ssa.Value {
	if v.Referrers() != nil {
		for _, r := range *v.Referrers() {
			if c, ok := r.(*ssa.Call); ok {
				if bi, ok := c.Call.Value.(*ssa.Builtin); ok && bi.Name() == "len" {
					return c
				}
			}
		}
	}
	// no len call on it in the caller: describe it by its root
	return lenProbe{v}
}

// lenProbe stands for len(X) of a slice value X that the caller never measures itself.
type lenProbe struct{ ssa.Value }

const needSpaceExample = `package example

type Conn struct {
	WriteBuf []byte
	WritePos int
}

func (c *Conn) NeedSpace(n int) error { return nil }

func size(n int) int { return (n + 1) / 2 * 16 }

func whole(c *Conn, b0 []uint64) error {
	return c.NeedSpace(2 * size(len(b0)))
}

func chunked(c *Conn, bits []uint64) error {
	for len(bits) > 0 {
		n := len(bits)
		if n > 1024 {
			n = 1024
		}
		if err := c.NeedSpace(size(n)); err != nil {
			return err
		}
		bits = bits[n:]
	}
	return nil
}

type garbled struct{ gates [][]uint64 }

func rows(c *Conn, g *garbled) error {
	for _, data := range g.gates {
		if err := c.NeedSpace(4 + len(data)*16); err != nil {
			return err
		}
	}
	return nil
}
`
