package props

import (
	"fmt"
	"go/token"
	"go/types"
	"sort"

	"golang.org/x/tools/go/ssa"

	"mpcverif/internal/load"
	"mpcverif/internal/report"
)

// OTExtensionCounts: the two ends of an OT built on the IKNP extension extend the same number of rows.
//
// COT and ROT wrap one conversation of the extension: the sender's Send(wires) calls IKNPSender.Send(n), the
// receiver's Receive(flags, result) calls IKNPReceiver.Receive with a choice vector.  Both ends are called with
// vectors of one length L, and the extension (its matrix chunks, and in malicious mode its consistency check)
// only works when n and the length of the choice vector are the same number.  The rule writes both as
// expressions in L and compares them: a sender that rounds up to whole batches while the receiver passes
// its flags on as they are makes the check sum over different rows, and every batch that is not a multiple
// of eight fails or yields labels that do not match.
func OTExtensionCounts(p *load.Program, run *report.Run) {
	const rule = "ot-extension-rows-agree"
	run.Rule(rule, "for every type of package ot whose Send calls (*IKNPSender).Send and whose Receive calls (*IKNPReceiver).Receive: the row count given by Send and the length of the choice vector given by Receive are the same expression in the length of the method's first parameter (len(param), a function of the package applied to it, arithmetic with constants; a vector padded to f(len) under the test f(len) != len has length f(len)); with built-in examples")
	pkg, err := p.Pkg("ot")
	if err != nil {
		run.Undecided(rule, "ot", "", err.Error())
		return
	}
	var names []string
	for n, m := range pkg.Members {
		if _, ok := m.(*ssa.Type); ok {
			names = append(names, n)
		}
	}
	sort.Strings(names)
	n := 0
	for _, name := range names {
		t := pkg.Members[name].(*ssa.Type)
		ms := p.SSA.MethodSets.MethodSet(types.NewPointer(t.Type()))
		var send, recv *ssa.Function
		for i := 0; i < ms.Len(); i++ {
			f := p.SSA.MethodValue(ms.At(i))
			if f == nil || f.Blocks == nil {
				continue
			}
			switch f.Name() {
			case "Send":
				send = f
			case "Receive":
				recv = f
			}
		}
		s, r := extRows(send, "Send"), extRows(recv, "Receive")
		if s == "" || r == "" {
			continue
		}
		n++
		key := "ot." + name
		switch {
		case s == "?" || r == "?":
			run.Undecided(rule, key, p.Rel(send.Pos()), fmt.Sprintf("the row counts were not recognised (Send %s, Receive %s)", s, r))
		case s != r:
			run.Violate(rule, key, p.Rel(send.Pos()), fmt.Sprintf("Send extends %s rows, Receive %s (L the length of the vector both are called with): the two ends run the extension and its consistency check over different rows", s, r), nil)
		default:
			run.OK(rule, key, p.Rel(send.Pos()), "both ends extend "+s+" rows")
		}
	}
	run.Count("ot-extension-wrappers", n)
	run.Floor("ot-extension-wrappers", 2)
	look, err := buildExample(otExtExample)
	if err != nil {
		run.Undecided(rule, "built-in example", "", err.Error())
		return
	}
	get := func(name, kind string) string {
		for _, f := range exampleFuncsOf(look, "anchor") {
			if f.Name() == name {
				return extRows(f, kind)
			}
		}
		return "missing"
	}
	a, b, c, d := get("SendPlain", "Send"), get("SendRounded", "Send"), get("ReceivePlain", "Receive"), get("ReceivePadded", "Receive")
	if a != "L" || b != "roundUp(L)" || c != "L" || d != "roundUp(L)" {
		run.Undecided(rule, "built-in example", "", fmt.Sprintf("the rule misreads its built-in example (%s %s %s %s)", a, b, c, d))
		return
	}
	run.Count("ot-extension-examples", 4)
	run.OK(rule, "built-in examples", "", "plain and rounded counts, plain and padded choice vectors read as L and roundUp(L)")
	run.Floor("ot-extension-examples", 4)
}

// extRows: the number of rows fn hands to the extension, as an expression in L = len(first parameter); "" if fn
// does not call the extension, "?" if the expression is not recognised.
func extRows(fn *ssa.Function, kind string) string {
	if fn == nil || len(fn.Params) < 2 {
		return ""
	}
	vec := fn.Params[1]
	var norm func(v ssa.Value, d int) string
	norm = func(v ssa.Value, d int) string {
		if d > 6 {
			return "?"
		}
		switch t := v.(type) {
		case *ssa.Const:
			return t.Value.String()
		case *ssa.Convert:
			return norm(t.X, d+1)
		case *ssa.Call:
			if bi, ok := t.Call.Value.(*ssa.Builtin); ok && bi.Name() == "len" && len(t.Call.Args) == 1 {
				return lenOf(t.Call.Args[0], vec, norm, d+1)
			}
			if callee := t.Call.StaticCallee(); callee != nil && len(t.Call.Args) == 1 && callee.Signature.Recv() == nil {
				return callee.Name() + "(" + norm(t.Call.Args[0], d+1) + ")"
			}
		case *ssa.BinOp:
			return "(" + norm(t.X, d+1) + " " + t.Op.String() + " " + norm(t.Y, d+1) + ")"
		}
		return "?"
	}
	out := ""
	for _, b := range fn.Blocks {
		for _, ins := range b.Instrs {
			c, ok := ins.(*ssa.Call)
			if !ok || c.Call.StaticCallee() == nil || c.Call.StaticCallee().Signature.Recv() == nil || len(c.Call.Args) < 2 {
				continue
			}
			callee := c.Call.StaticCallee()
			if callee.Name() != kind || callee == fn {
				continue
			}
			rt := callee.Signature.Recv().Type().String()
			if kind == "Send" && !hasSuffixAny(rt, "IKNPSender", "extSender") || kind == "Receive" && !hasSuffixAny(rt, "IKNPReceiver", "extReceiver") {
				continue
			}
			var e string
			if kind == "Send" {
				e = norm(c.Call.Args[1], 0)
			} else {
				e = lenOf(c.Call.Args[1], vec, norm, 0)
			}
			if out != "" && out != e {
				return "?"
			}
			out = e
		}
	}
	return out
}

func hasSuffixAny(s string, sufs ...string) bool {
	for _, x := range sufs {
		if len(s) >= len(x) && s[len(s)-len(x):] == x {
			return true
		}
	}
	return false
}

// lenOf: the length of slice value v as an expression in L = len(vec).
func lenOf(v ssa.Value, vec ssa.Value, norm func(ssa.Value, int) string, d int) string {
	if d > 6 {
		return "?"
	}
	switch t := v.(type) {
	case *ssa.Parameter:
		if t == vec {
			return "L"
		}
	case *ssa.MakeSlice:
		return norm(t.Len, d+1)
	case *ssa.Phi:
		// `x := vec; if n := f(len(vec)); n != len(vec) { x = make(…, n) }`: the length is n on both edges
		var made, kept string
		var madeLen ssa.Value
		for _, e := range t.Edges {
			if ms, ok := e.(*ssa.MakeSlice); ok {
				made = norm(ms.Len, d+1)
				madeLen = ms.Len
			} else {
				kept = lenOf(e, vec, norm, d+1)
			}
		}
		if made == "" || kept != "L" {
			return "?"
		}
		// the test that chooses between them compares the made length with len(vec)
		for _, b := range t.Block().Parent().Blocks {
			iff, ok := b.Instrs[len(b.Instrs)-1].(*ssa.If)
			if !ok {
				continue
			}
			bo, ok := iff.Cond.(*ssa.BinOp)
			if !ok || (bo.Op != token.NEQ && bo.Op != token.EQL) {
				continue
			}
			x, y := bo.X, bo.Y
			if y == madeLen {
				x, y = y, x
			}
			if x != madeLen || norm(y, d+1) != "L" {
				continue
			}
			fresh := b.Succs[0]
			if bo.Op == token.EQL {
				fresh = b.Succs[1]
			}
			if ms, ok := madeLen.(ssa.Value); ok && ms != nil {
				for i, pred := range t.Block().Preds {
					if _, isMake := t.Edges[i].(*ssa.MakeSlice); isMake && (pred == fresh || fresh.Dominates(pred)) {
						return made
					}
				}
			}
		}
		return "?"
	}
	return "?"
}

const otExtExample = `package example

func anchor() {}

type extSender struct{ n int }

func (s *extSender) Send(n int, m bool) ([]int, error) { s.n += n; return make([]int, n), nil }

type extReceiver struct{ n int }

func (r *extReceiver) Receive(flags []bool, out []int, m bool) error { r.n += len(flags); return nil }

func roundUp(n int) int { return (n + 7) / 8 * 8 }

type W struct {
	s *extSender
	r *extReceiver
}

func (w *W) SendPlain(v []int) error {
	_, err := w.s.Send(len(v), false)
	return err
}

func (w *W) SendRounded(v []int) error {
	_, err := w.s.Send(roundUp(len(v)), false)
	return err
}

func (w *W) ReceivePlain(flags []bool, out []int) error {
	return w.r.Receive(flags, out, false)
}

func (w *W) ReceivePadded(flags []bool, out []int) error {
	choices, data := flags, out
	if n := roundUp(len(flags)); n != len(flags) {
		choices = make([]bool, n)
		copy(choices, flags)
		data = make([]int, n)
	}
	return w.r.Receive(choices, data, false)
}
`
