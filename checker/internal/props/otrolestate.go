package props

import (
	"fmt"
	"go/token"
	"go/types"
	"sort"

	"golang.org/x/tools/go/ssa"

	"mpcverif/internal/load"
	"mpcverif/internal/report"
)

// OTRoleState: an OT used in the role it was not initialised for fails with an error, not a crash.
//
// An ot.OT is initialised as sender or as receiver and then asked to Send or Receive.  The IKNP
// extension uses its base OT in the *opposite* role (NewIKNPReceiver calls base.Send), and NewCOT/NewROT
// accept any ot.OT as base.  COT and ROT keep their role state in fields only their own Init sets and
// test them first ("not initialized as sender").  An implementation whose Send reads a pointer that only
// InitSender sets, without that test, dereferences nil when the roles are crossed: COT over an RSA base
// ends the process instead of the transfer (F42).  The rule asks of every implementation what its
// siblings do: a pointer field stored by exactly one of InitSender/InitReceiver is read by the matching
// transfer method only after a nil test whose nil side leaves with an error.
func OTRoleState(p *load.Program, run *report.Run) {
	const rule = "ot-role-state-tested"
	run.Rule(rule, "for every type of package ot with methods InitSender, InitReceiver, Send, Receive: a pointer-typed field that exactly one of the two Init methods stores is loaded by the transfer method of that role (Send for InitSender, Receive for InitReceiver) only where a test of that field against nil, whose nil side leaves the method with an error, dominates the load; with built-in examples")
	pkg, err := p.Pkg("ot")
	if err != nil {
		run.Undecided(rule, "ot", "", err.Error())
		return
	}
	var names []string
	for n, m := range pkg.Members {
		if _, ok := m.(*ssa.Type); ok {
			names = append(names, n)
		}
	}
	sort.Strings(names)
	types_ := 0
	for _, name := range names {
		t := pkg.Members[name].(*ssa.Type)
		ms := p.SSA.MethodSets.MethodSet(types.NewPointer(t.Type()))
		m := map[string]*ssa.Function{}
		for i := 0; i < ms.Len(); i++ {
			if f := p.SSA.MethodValue(ms.At(i)); f != nil && f.Blocks != nil {
				m[f.Name()] = f
			}
		}
		if m["InitSender"] == nil || m["InitReceiver"] == nil || m["Send"] == nil || m["Receive"] == nil {
			continue
		}
		types_++
		res := otRoleStateCheck(m)
		if len(res) == 0 {
			run.OK(rule, "ot."+name, p.Rel(m["Send"].Pos()), "no pointer field is the state of one role only")
		}
		for _, r := range res {
			key := "ot." + name + "." + r.method + "/" + r.field
			if r.bad {
				run.Violate(rule, key, p.Rel(r.pos), fmt.Sprintf("%s reads %s, which only %s sets, without testing it against nil first: used in the other role (the IKNP extension drives its base OT that way) the method dereferences nil and the process ends instead of the transfer", r.method, r.field, r.init), nil)
			} else {
				run.OK(rule, key, p.Rel(r.pos), "tested against nil first, error on the nil side")
			}
		}
	}
	run.Count("ot-implementations", types_)
	run.Floor("ot-implementations", 4)
	look, err := buildExample(otRoleExample)
	if err != nil {
		run.Undecided(rule, "built-in example", "", err.Error())
		return
	}
	collect := func(recv string) map[string]*ssa.Function {
		m := map[string]*ssa.Function{}
		for _, f := range exampleFuncsOf(look, "anchor") {
			if f.Signature.Recv() != nil && f.Signature.Recv().Type().String() == "*example."+recv {
				m[f.Name()] = f
			}
		}
		return m
	}
	g, b := otRoleStateCheck(collect("Good")), otRoleStateCheck(collect("Bad"))
	if len(g) != 1 || g[0].bad || len(b) != 1 || !b[0].bad {
		run.Undecided(rule, "built-in example", "", fmt.Sprintf("the rule misclassifies its built-in example (%v %v)", g, b))
		return
	}
	run.Count("ot-role-examples", 2)
	run.OK(rule, "built-in examples", "", "a role pointer tested first accepted; one dereferenced untested reported")
	run.Floor("ot-role-examples", 2)
}

type otRoleResult struct {
	method, field, init string
	pos                 token.Pos
	bad                 bool
}

func otRoleStateCheck(m map[string]*ssa.Function) []otRoleResult {
	fieldName := func(fa *ssa.FieldAddr) string {
		st, ok := fa.X.Type().Underlying().(*types.Pointer).Elem().Underlying().(*types.Struct)
		if !ok {
			return ""
		}
		return st.Field(fa.Field).Name()
	}
	storedBy := func(f *ssa.Function) map[string]bool {
		out := map[string]bool{}
		if f == nil {
			return out
		}
		for _, b := range f.Blocks {
			for _, ins := range b.Instrs {
				st, ok := ins.(*ssa.Store)
				if !ok {
					continue
				}
				fa, ok := st.Addr.(*ssa.FieldAddr)
				if !ok || fa.X != ssa.Value(f.Params[0]) {
					continue
				}
				if _, isPtr := st.Val.Type().Underlying().(*types.Pointer); !isPtr {
					continue
				}
				if k, isC := st.Val.(*ssa.Const); isC && k.IsNil() {
					continue
				}
				out[fieldName(fa)] = true
			}
		}
		return out
	}
	s, r := storedBy(m["InitSender"]), storedBy(m["InitReceiver"])
	var out []otRoleResult
	for _, role := range []struct {
		init, method string
		own, other   map[string]bool
	}{{"InitSender", "Send", s, r}, {"InitReceiver", "Receive", r, s}} {
		f := m[role.method]
		if f == nil {
			continue
		}
		var fields []string
		for k := range role.own {
			if !role.other[k] {
				fields = append(fields, k)
			}
		}
		sort.Strings(fields)
		for _, fld := range fields {
			// loads of the field in the transfer method
			var loads []*ssa.UnOp
			var guards []*ssa.BasicBlock // blocks entered only with the field non-nil
			for _, b := range f.Blocks {
				for _, ins := range b.Instrs {
					if ld, ok := ins.(*ssa.UnOp); ok && ld.Op == token.MUL {
						if fa, ok := ld.X.(*ssa.FieldAddr); ok && fa.X == ssa.Value(f.Params[0]) && fieldName(fa) == fld {
							loads = append(loads, ld)
						}
					}
				}
			}
			for _, ld := range loads {
				refs := ld.Referrers()
				if refs == nil {
					continue
				}
				for _, rf := range *refs {
					bo, ok := rf.(*ssa.BinOp)
					if !ok || (bo.Op != token.EQL && bo.Op != token.NEQ) {
						continue
					}
					other := bo.Y
					if other == ssa.Value(ld) {
						other = bo.X
					}
					if k, isC := other.(*ssa.Const); !isC || !k.IsNil() {
						continue
					}
					for _, r2 := range *bo.Referrers() {
						iff, ok := r2.(*ssa.If)
						if !ok {
							continue
						}
						nilSide, okSide := iff.Block().Succs[0], iff.Block().Succs[1]
						if bo.Op == token.NEQ {
							nilSide, okSide = okSide, nilSide
						}
						if errorExit(nilSide) && len(okSide.Preds) == 1 {
							guards = append(guards, okSide)
						}
					}
				}
			}
			for _, ld := range loads {
				// a load whose only use is the nil test is the test itself
				onlyTest := ld.Referrers() != nil && len(*ld.Referrers()) > 0
				if onlyTest {
					for _, rf := range *ld.Referrers() {
						if bo, ok := rf.(*ssa.BinOp); !ok || (bo.Op != token.EQL && bo.Op != token.NEQ) {
							onlyTest = false
						}
					}
				}
				if onlyTest {
					continue
				}
				ok := false
				for _, g := range guards {
					if g == ld.Block() || g.Dominates(ld.Block()) {
						ok = true
					}
				}
				out = append(out, otRoleResult{role.method, fld, role.init, ld.Pos(), !ok})
				break // one verdict per field: the first load in block order
			}
		}
	}
	return out
}

const otRoleExample = `package example

func anchor() {}

type failure struct{}

func (failure) Error() string { return "not initialized" }

type key struct{ d int }

type Good struct {
	priv *key
	pub  *key
}

func (g *Good) InitSender() error   { g.priv = &key{1}; g.pub = &key{2}; return nil }
func (g *Good) InitReceiver() error { g.pub = &key{2}; return nil }
func (g *Good) Send(n int) error {
	if g.priv == nil {
		return failure{}
	}
	_ = g.priv.d + g.pub.d + n
	return nil
}
func (g *Good) Receive(n int) error { _ = g.pub.d + n; return nil }

type Bad struct {
	priv *key
	pub  *key
}

func (g *Bad) InitSender() error   { g.priv = &key{1}; g.pub = &key{2}; return nil }
func (g *Bad) InitReceiver() error { g.pub = &key{2}; return nil }
func (g *Bad) Send(n int) error {
	for i := 0; i < n; i++ {
		_ = g.priv.d + g.pub.d
	}
	return nil
}
func (g *Bad) Receive(n int) error { _ = g.pub.d + n; return nil }
`
