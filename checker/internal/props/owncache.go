package props

import (
	"fmt"
	"go/token"
	"go/types"
	"sort"
	"strings"

	"golang.org/x/tools/go/ssa"

	"mpcverif/internal/load"
	"mpcverif/internal/report"
)

// ownCaches decides kept state that an object makes for itself: a field created on first use
// (`if x.f == nil { x.f = make(x.cfg…) }`) from the object's own fields and constants only, without a word
// to or from the peer and without reading an argument of the call — a key pair, a table.  Such a value is
// the same whichever session creates it, so keeping it changes nothing; what can go wrong is what the
// creating branch sets *besides* it.  A second field written only in that branch is no longer written on
// later calls; if another method of the type also writes it (the other role's initialisation storing the
// peer's public key in the same slot), the later call goes on with that foreign value.  Every such field
// must be written again outside the branch — before the test or right after it — or have no other writer.
// The result maps "pkg.Type.field" to "" for a discharged cache and to the reason otherwise.
func ownCaches(p *load.Program, run *report.Run, pkgs []string) map[string]string {
	const rule = "own-cache-leaves-shared-fields-fresh"
	run.Rule(rule, "for every pointer field created on first use under a nil test of the field from the receiver's own fields and constants (no call argument read, nothing sent or received in the creating branch): every other field of the receiver stored in that branch either has no store in any other method of the type, or is stored by the same method on every call as well (in a block dominating the test, or in the block the test falls through to)")
	want := map[string]bool{}
	for _, rel := range pkgs {
		want[load.Module+"/"+rel] = true
	}
	var fns []*ssa.Function
	for _, fn := range p.AllFunctions() {
		if fn.Pkg == nil || !want[fn.Pkg.Pkg.Path()] || fn.Blocks == nil || fn.Synthetic != "" || strings.HasSuffix(p.Fset.Position(fn.Pos()).Filename, "_test.go") {
			continue
		}
		fns = append(fns, fn)
	}
	sort.Slice(fns, func(i, j int) bool { return fns[i].Pos() < fns[j].Pos() })
	out := map[string]string{}
	for _, v := range ownCacheCheck(fns) {
		run.Count("own-caches", 1)
		if v.why == "" {
			run.OK(rule, v.cell, p.Rel(v.pos), "made from the object's own configuration; "+v.note)
		} else {
			run.Violate(rule, v.cell, p.Rel(v.pos), v.why, nil)
		}
		out[v.cell] = v.why
	}
	// built-in examples
	look, err := buildExample(ownCacheExample)
	if err != nil {
		run.Undecided(rule, "built-in example", "", err.Error())
		return out
	}
	got := map[string]bool{}
	for _, v := range ownCacheCheck(exampleFuncsOf(look, "anchor")) {
		got[v.cell] = v.why == ""
	}
	if len(got) != 2 || !got["example.Good.priv"] || got["example.Bad.priv"] {
		run.Undecided(rule, "built-in example", "", fmt.Sprintf("the rule misclassifies its built-in example: %v", got))
		return out
	}
	run.Count("own-cache-examples", 3)
	run.OK(rule, "built-in examples", "", "a key pair kept with the public half re-stored on every call accepted; the public half stored on first use only while the other role overwrites it reported; a value created from a received seed is not an own cache")
	run.Floor("own-cache-examples", 3)
	return out
}

type ownCacheVerdict struct {
	cell, why, note string
	pos             token.Pos
}

func ownCacheCheck(fns []*ssa.Function) []ownCacheVerdict {
	type fkey struct {
		typ   string
		field int
	}
	keyOf := func(addr ssa.Value) (fkey, *ssa.FieldAddr, bool) {
		fa, ok := addr.(*ssa.FieldAddr)
		if !ok {
			return fkey{}, nil, false
		}
		pt, ok := fa.X.Type().Underlying().(*types.Pointer)
		if !ok {
			return fkey{}, nil, false
		}
		if par, isParam := fa.X.(*ssa.Parameter); !isParam || par.Parent() == nil || len(par.Parent().Params) == 0 || par.Parent().Params[0] != par {
			return fkey{}, nil, false
		}
		return fkey{pt.Elem().String(), fa.Field}, fa, true
	}
	// stores per field per function
	writers := map[fkey]map[*ssa.Function]bool{}
	for _, fn := range fns {
		for _, b := range fn.Blocks {
			for _, ins := range b.Instrs {
				if st, ok := ins.(*ssa.Store); ok {
					if k, _, ok := keyOf(st.Addr); ok {
						if c, isC := st.Val.(*ssa.Const); isC && c.IsNil() {
							continue // dropping the value is not a foreign value
						}
						if writers[k] == nil {
							writers[k] = map[*ssa.Function]bool{}
						}
						writers[k][fn] = true
					}
				}
			}
		}
	}
	var out []ownCacheVerdict
	seen := map[fkey]bool{}
	for _, fn := range fns {
		if fn.Signature.Recv() == nil || len(fn.Params) == 0 {
			continue
		}
		recv := fn.Params[0]
		for _, b := range fn.Blocks {
			iff, ok := b.Instrs[len(b.Instrs)-1].(*ssa.If)
			if !ok {
				continue
			}
			bo, ok := iff.Cond.(*ssa.BinOp)
			if !ok || bo.Op != token.EQL {
				continue
			}
			k, isNil := bo.Y.(*ssa.Const)
			ld, isLoad := bo.X.(*ssa.UnOp)
			if !isNil || !k.IsNil() || !isLoad || ld.Op != token.MUL {
				continue
			}
			fk, tfa, ok := keyOf(ld.X)
			if !ok || seen[fk] {
				continue
			}
			start := b.Succs[0]
			if len(start.Preds) != 1 {
				continue
			}
			inRegion := func(x *ssa.BasicBlock) bool { return start.Dominates(x) }
			var created *ssa.Store
			talks, readsArg := false, false
			var others []*ssa.Store
			for _, x := range fn.Blocks {
				if !inRegion(x) {
					continue
				}
				for _, ins := range x.Instrs {
					switch t := ins.(type) {
					case *ssa.Store:
						if k2, _, ok := keyOf(t.Addr); ok {
							if k2 == fk {
								created = t
							} else {
								others = append(others, t)
							}
						}
					case ssa.CallInstruction:
						if communicates(t, 0) {
							talks = true
						}
					}
					for _, op := range ins.Operands(nil) {
						if par, ok := (*op).(*ssa.Parameter); ok && par != recv {
							readsArg = true
						}
					}
				}
			}
			if created == nil || talks || readsArg {
				continue
			}
			seen[fk] = true
			tname := fk.typ[strings.LastIndex(fk.typ, "/")+1:]
			cell := tname + "." + structFieldName(tfa.X.Type(), fk.field)
			v := ownCacheVerdict{cell: cell, pos: created.Pos(), note: "no other field is set only on first use"}
			for _, st := range others {
				k2, fa2, _ := keyOf(st.Addr)
				gname := structFieldName(fa2.X.Type(), k2.field)
				foreign := ""
				for w := range writers[k2] {
					if w != fn {
						foreign = w.Name()
					}
				}
				if foreign == "" {
					continue
				}
				// stored on every call as well?
				every := false
				for _, x := range fn.Blocks {
					if inRegion(x) {
						continue
					}
					for _, ins := range x.Instrs {
						if s2, ok := ins.(*ssa.Store); ok {
							if k3, _, ok := keyOf(s2.Addr); ok && k3 == k2 {
								if x == b.Succs[1] || x == b || x.Dominates(b) {
									every = true
								}
							}
						}
					}
				}
				if every {
					v.note = tname + "." + gname + " is set again on every call"
					continue
				}
				v.why = fmt.Sprintf("%s is created on first use and kept, and %s.%s is set in the same branch only; %s also stores %s.%s: once it has run, %s goes on with that value because the branch is not taken again", cell, tname, gname, foreign, tname, gname, fn.Name())
			}
			out = append(out, v)
		}
	}
	sort.Slice(out, func(i, j int) bool { return out[i].cell < out[j].cell })
	return out
}

const ownCacheExample = `package example

type key struct{ pub int }

type link interface {
	SendData([]byte) error
	ReceiveData() ([]byte, error)
}

func anchor() {}

func generate(bits int) *key { return &key{pub: bits * 3} }

type Good struct {
	bits int
	io   link
	priv *key
	pub  *int
}

func (g *Good) InitSender(io link) error {
	g.io = io
	if g.priv == nil {
		g.priv = generate(g.bits)
	}
	g.pub = &g.priv.pub
	return io.SendData(nil)
}

func (g *Good) InitReceiver(io link, peer *int) error {
	g.io = io
	g.pub = peer
	return nil
}

type Bad struct {
	bits int
	io   link
	priv *key
	pub  *int
}

func (g *Bad) InitSender(io link) error {
	g.io = io
	if g.priv == nil {
		g.priv = generate(g.bits)
		g.pub = &g.priv.pub
	}
	return io.SendData(nil)
}

func (g *Bad) InitReceiver(io link, peer *int) error {
	g.io = io
	g.pub = peer
	return nil
}

type Session struct {
	io   link
	hash *key
}

func (s *Session) Send() error {
	if s.hash == nil {
		seed, err := s.io.ReceiveData()
		if err != nil {
			return err
		}
		s.hash = generate(len(seed))
	}
	return nil
}
`
