package props

import (
	"fmt"
	"go/token"
	"go/types"
	"sort"
	"strings"

	"golang.org/x/tools/go/ssa"

	"mpcverif/internal/load"
	"mpcverif/internal/report"
)

// ownedBuffers decides buffers kept in a struct and guarded by a busy flag (a sync/atomic.Bool field of the
// same struct): `if x.busy.Swap(true) { private buffer } else { use x.buf; defer x.busy.Store(false) }`.
// The buffer is exclusive to whoever found the flag clear, for as long as the flag stays set.  That holds
// only if (1) every access to the buffer field lies in the region that the acquiring edge of a test of the
// flag dominates, and (2) every release of the flag — a Store(false), direct or deferred — lies in such a
// region too.  A release outside (a defer placed after the if/else, which also runs for a caller that
// fell back to a private buffer) clears the flag while the owner is still working, and the next caller
// shares its memory.  The result maps "pkg.Type.field" of each such buffer to "" when the discipline
// holds and to the reason when it does not; owned(fa) tells other rules which field addresses are covered.
type ownedBufs struct {
	verdict map[string]string
	fields  map[string]bool // "type#fieldIndex" of the buffer fields that are owned and whose discipline holds
}

func (o *ownedBufs) owned(fa *ssa.FieldAddr) bool {
	if o == nil {
		return false
	}
	pt, ok := fa.X.Type().Underlying().(*types.Pointer)
	if !ok {
		return false
	}
	return o.fields[fmt.Sprintf("%s#%d", pt.Elem().String(), fa.Field)]
}

var ownedMemo = map[*load.Program]map[string]*ownedBufs{}

func ownedBuffers(p *load.Program, run *report.Run, pkgs []string) *ownedBufs {
	mk := strings.Join(pkgs, ",")
	if ownedMemo[p] == nil {
		ownedMemo[p] = map[string]*ownedBufs{}
	}
	const rule = "busy-flag-released-only-by-owner"
	if run != nil {
		run.Rule(rule, "for every sync/atomic.Bool field that is acquired with Swap(true) or CompareAndSwap(false, true): each Store(false) on it, direct or deferred, lies in the region dominated by the acquiring edge of such a test in the same function; the buffer fields of the struct that are accessed only inside such regions are owned by whoever holds the flag")
	}
	if o, ok := ownedMemo[p][mk]; ok {
		return o
	}
	out := &ownedBufs{verdict: map[string]string{}, fields: map[string]bool{}}
	ownedMemo[p][mk] = out
	want := map[string]bool{}
	for _, rel := range pkgs {
		want[load.Module+"/"+rel] = true
	}
	var fns []*ssa.Function
	for _, fn := range p.AllFunctions() {
		if fn.Pkg == nil || !want[fn.Pkg.Pkg.Path()] || fn.Blocks == nil || strings.HasSuffix(p.Fset.Position(fn.Pos()).Filename, "_test.go") {
			continue
		}
		fns = append(fns, fn)
	}
	sort.Slice(fns, func(i, j int) bool { return fns[i].Pos() < fns[j].Pos() })
	type fkey struct {
		typ   string
		field int
	}
	keyOf := func(addr ssa.Value) (fkey, bool) {
		fa, ok := addr.(*ssa.FieldAddr)
		if !ok {
			return fkey{}, false
		}
		pt, ok := fa.X.Type().Underlying().(*types.Pointer)
		if !ok {
			return fkey{}, false
		}
		return fkey{pt.Elem().String(), fa.Field}, true
	}
	// owner regions per function and flag
	regions := map[*ssa.Function]map[fkey]map[*ssa.BasicBlock]bool{}
	flags := map[fkey]string{}
	for _, fn := range fns {
		for _, b := range fn.Blocks {
			iff, ok := b.Instrs[len(b.Instrs)-1].(*ssa.If)
			if !ok {
				continue
			}
			cond := iff.Cond
			neg := false
			for {
				if u, ok := cond.(*ssa.UnOp); ok && u.Op == token.NOT {
					cond, neg = u.X, !neg
					continue
				}
				break
			}
			c, ok := cond.(*ssa.Call)
			if !ok || c.Call.StaticCallee() == nil || len(c.Call.Args) < 2 {
				continue
			}
			ownerEdge := -1
			switch c.Call.StaticCallee().String() {
			case "(*sync/atomic.Bool).Swap":
				if k, ok := c.Call.Args[1].(*ssa.Const); ok && k.Value != nil && k.Value.String() == "true" {
					ownerEdge = 1 // the old value was false
				}
			case "(*sync/atomic.Bool).CompareAndSwap":
				ownerEdge = 0
			}
			if ownerEdge < 0 {
				continue
			}
			if neg {
				ownerEdge = 1 - ownerEdge
			}
			fk, ok := keyOf(c.Call.Args[0])
			if !ok {
				continue
			}
			flags[fk] = structFieldName(c.Call.Args[0].(*ssa.FieldAddr).X.Type(), fk.field)
			start := b.Succs[ownerEdge]
			if len(start.Preds) != 1 {
				continue
			}
			if regions[fn] == nil {
				regions[fn] = map[fkey]map[*ssa.BasicBlock]bool{}
			}
			if regions[fn][fk] == nil {
				regions[fn][fk] = map[*ssa.BasicBlock]bool{}
			}
			for _, x := range fn.Blocks {
				if start.Dominates(x) {
					regions[fn][fk][x] = true
				}
			}
		}
	}
	if len(flags) == 0 {
		return out
	}
	var fks []fkey
	for k := range flags {
		fks = append(fks, k)
	}
	sort.Slice(fks, func(i, j int) bool { return fks[i].typ+fmt.Sprint(fks[i].field) < fks[j].typ+fmt.Sprint(fks[j].field) })
	for _, fk := range fks {
		short := fk.typ[strings.LastIndex(fk.typ, "/")+1:]
		// releases
		bad := ""
		releases := 0
		for _, fn := range fns {
			for _, b := range fn.Blocks {
				for _, ins := range b.Instrs {
					ci, ok := ins.(ssa.CallInstruction)
					if !ok || ci.Common().StaticCallee() == nil || ci.Common().StaticCallee().String() != "(*sync/atomic.Bool).Store" || len(ci.Common().Args) < 2 {
						continue
					}
					k2, ok := keyOf(ci.Common().Args[0])
					if !ok || k2 != fk {
						continue
					}
					if k, ok := ci.Common().Args[1].(*ssa.Const); !ok || k.Value == nil || k.Value.String() != "false" {
						continue
					}
					releases++
					if !regions[fn][fk][b] {
						bad = fmt.Sprintf("%s.%s is released at %s outside the branch that acquired it: a caller that found it set (and works on a private buffer) clears it while the owner is still using the shared one, and the next caller is handed the same memory", short, flags[fk], p.Rel(ins.Pos()))
					}
				}
			}
		}
		if run != nil {
			run.Count("busy-flags", 1)
			key := short + "." + flags[fk]
			switch {
			case bad != "":
				run.Violate(rule, key, "", bad, nil)
			case releases == 0:
				run.Violate(rule, key, "", short+"."+flags[fk]+" is acquired and never released", nil)
			default:
				run.OK(rule, key, "", fmt.Sprintf("%d releases, all by the owner", releases))
			}
		}
		// the buffer fields accessed only in owner regions of this flag
		access := map[fkey]bool{} // field -> all accesses inside
		for _, fn := range fns {
			for _, b := range fn.Blocks {
				for _, ins := range b.Instrs {
					fa, ok := ins.(*ssa.FieldAddr)
					if !ok {
						continue
					}
					k2, _ := keyOf(fa)
					if k2.typ != fk.typ || k2.field == fk.field {
						continue
					}
					st := fa.X.Type().Underlying().(*types.Pointer).Elem().Underlying().(*types.Struct)
					if _, isSlice := st.Field(k2.field).Type().Underlying().(*types.Slice); !isSlice {
						continue
					}
					inside := regions[fn][fk][b]
					if prev, seen := access[k2]; seen {
						access[k2] = prev && inside
					} else {
						access[k2] = inside
					}
				}
			}
		}
		for k2, inside := range access {
			if !inside {
				continue
			}
			st, _ := lookupStruct(p, k2.typ)
			name := fmt.Sprint(k2.field)
			if st != nil {
				name = st.Field(k2.field).Name()
			}
			cell := short + "." + name
			if i := strings.LastIndex(k2.typ, "/"); i >= 0 {
				cell = k2.typ[i+1:] + "." + name
			}
			if bad == "" && releases > 0 {
				out.verdict[cell] = ""
				out.fields[fmt.Sprintf("%s#%d", k2.typ, k2.field)] = true
			} else {
				out.verdict[cell] = "busy flag discipline broken"
			}
		}
	}
	return out
}

func lookupStruct(p *load.Program, typ string) (*types.Struct, bool) {
	i := strings.LastIndex(typ, ".")
	if i < 0 {
		return nil, false
	}
	pk := p.ByPath[typ[:i]]
	if pk == nil {
		return nil, false
	}
	obj := pk.Types.Scope().Lookup(typ[i+1:])
	if obj == nil {
		return nil, false
	}
	st, ok := obj.Type().Underlying().(*types.Struct)
	return st, ok
}
