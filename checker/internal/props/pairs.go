package props

import (
	"mpcverif/internal/load"
	"mpcverif/internal/proto"
	"mpcverif/internal/report"
)

func otPairs() []proto.Pair {
	var ps []proto.Pair
	for _, impl := range []string{"CO", "RSA", "COT", "ROT"} {
		ps = append(ps,
			proto.Pair{Name: impl + ".Init", A: proto.Ref{Pkg: "ot", Type: impl, Name: "InitSender"}, B: proto.Ref{Pkg: "ot", Type: impl, Name: "InitReceiver"},
				Mode: "exact", EntryDirtyA: true},
		)
		mode, reason := "exact", ""
		if impl == "COT" {
			mode = "starred"
			reason = "sender's inner loop sends 2k labels one per iteration, receiver takes two per iteration"
		}
		ps = append(ps, proto.Pair{Name: impl + ".Transfer", A: proto.Ref{Pkg: "ot", Type: impl, Name: "Send"}, B: proto.Ref{Pkg: "ot", Type: impl, Name: "Receive"},
			Mode: mode, Reason: reason})
	}
	ps = append(ps,
		proto.Pair{Name: "IKNP labels", A: proto.Ref{Pkg: "ot", Type: "IKNPSender", Name: "Send"}, B: proto.Ref{Pkg: "ot", Type: "IKNPReceiver", Name: "Receive"}, Mode: "exact"},
		proto.Pair{Name: "IKNP bits", A: proto.Ref{Pkg: "ot", Type: "IKNPSender", Name: "SendBits"}, B: proto.Ref{Pkg: "ot", Type: "IKNPReceiver", Name: "ReceiveBits"}, Mode: "exact"},
		proto.Pair{Name: "IKNP setup", A: proto.Ref{Pkg: "ot", Name: "NewIKNPSender"}, B: proto.Ref{Pkg: "ot", Name: "NewIKNPReceiver"}, Mode: "exact"},
	)
	return ps
}

// C02 decides the protocol-shape clauses of the two-party protocol.
func C02(p *load.Program, run *report.Run) {
	run.Rule("duality", "the success-path communication automata of the two roles are dual (exact: loops as cycles; starred only where frozen)")
	run.Rule("flush-before-receive", "no blocking receive is reachable with unflushed sends; roles return flushed")
	pairs := append([]proto.Pair{{Name: "2PC", A: proto.Ref{Pkg: "circuit", Name: "Garbler"}, B: proto.Ref{Pkg: "circuit", Name: "Evaluator"}, Mode: "exact"}}, otPairs()...)
	proto.Check(p, run, proto.NewBuilder(), nil, pairs)
	run.Floor("role-pairs", 12)
	run.Floor("event-sites", 80)
}
