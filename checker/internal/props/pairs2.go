package props

import (
	"golang.org/x/tools/go/ssa"

	"mpcverif/internal/load"
	"mpcverif/internal/proto"
	"mpcverif/internal/report"
)

// C06duality: the OT pairs (shared with C02) decided under C06.
func C06duality(p *load.Program, run *report.Run) {
	run.Rule("duality", "every OT sender/receiver pair (CO, RSA, COT, ROT, IKNP label and bit form, IKNP setup) is dual")
	run.Rule("flush-before-receive", "no blocking receive with unflushed sends inside the OT implementations")
	proto.Check(p, run, proto.NewBuilder(), nil, otPairs())
	run.Floor("role-pairs", 11)
}

// C20transport: transport shape of the multiplication gadgets.
func C20transport(p *load.Program, run *report.Run) {
	run.Rule("duality", "vole.Sender.Mul and vole.Receiver.Mul are dual; FxSend/FxReceive and FxkSend/FxkReceive use one OT send against one OT receive")
	pairs := []proto.Pair{
		{Name: "vole.Mul", A: proto.Ref{Pkg: "vole", Type: "Sender", Name: "Mul"}, B: proto.Ref{Pkg: "vole", Type: "Receiver", Name: "Mul"}, Mode: "exact"},
		{Name: "vole.New", A: proto.Ref{Pkg: "vole", Name: "NewSender"}, B: proto.Ref{Pkg: "vole", Name: "NewReceiver"}, Mode: "exact", EntryDirtyA: true},
		{Name: "bmr.Fx", A: proto.Ref{Pkg: "bmr", Name: "FxSend"}, B: proto.Ref{Pkg: "bmr", Name: "FxReceive"}, Mode: "exact"},
		{Name: "bmr.Fxk", A: proto.Ref{Pkg: "bmr", Name: "FxkSend"}, B: proto.Ref{Pkg: "bmr", Name: "FxkReceive"}, Mode: "exact"},
	}
	proto.Check(p, run, proto.NewBuilder(), nil, pairs)
	run.Floor("role-pairs", 4)
}

// C10duality: the pairwise exchanges of the GMW network.
func C10duality(p *load.Program, run *report.Run) {
	run.Rule("duality", "every pairwise GMW exchange is dual")
	pairs := []proto.Pair{
		{Name: "bitvec", A: proto.Ref{Pkg: "gmw", Type: "Peer", Name: "SendBitvec"}, B: proto.Ref{Pkg: "gmw", Type: "Peer", Name: "ReceiveBitvec"}, Mode: "exact"},
		{Name: "bitvec2", A: proto.Ref{Pkg: "gmw", Type: "Peer", Name: "SendBitvec2"}, B: proto.Ref{Pkg: "gmw", Type: "Peer", Name: "ReceiveBitvec2"}, Mode: "exact"},
		{Name: "input share", A: proto.Ref{Pkg: "gmw", Type: "Peer", Name: "shareInput"}, B: proto.Ref{Pkg: "gmw", Type: "Network", Name: "receiveInput"}, Mode: "exact"},
		{Name: "output share", A: proto.Ref{Pkg: "gmw", Type: "Network", Name: "sendOutput"}, B: proto.Ref{Pkg: "gmw", Type: "Network", Name: "receiveOutput"}, Mode: "exact"},
		// Frozen: acceptLoop consumes the connection magic before it dispatches.
		{Name: "offline hello", A: proto.Ref{Pkg: "gmw", Type: "Network", Name: "dialOffline"}, B: proto.Ref{Pkg: "gmw", Type: "Network", Name: "acceptOffline"}, Mode: "exact", PrefixB: []string{"?U32"}},
		{Name: "online hello", A: proto.Ref{Pkg: "gmw", Type: "Network", Name: "dialOnline"}, B: proto.Ref{Pkg: "gmw", Type: "Network", Name: "acceptOnline"}, Mode: "exact", PrefixB: []string{"?U32"}},
		{Name: "iknp setup", A: proto.Ref{Pkg: "gmw", Type: "Network", Name: "iknpSender"}, B: proto.Ref{Pkg: "gmw", Type: "Network", Name: "iknpReceiver"}, Mode: "exact", EntryDirtyA: true},
	}
	proto.Check(p, run, proto.NewBuilder(), nil, pairs)
	run.Floor("role-pairs", 7)
}

// C19duality: hello and peer-list messages of the p2p mesh.
func C19duality(p *load.Program, run *report.Run) {
	run.Rule("duality", "dial/acceptConn and connectLeader/connectPeerToLeader (for connection id 0) are dual")
	b := proto.NewBuilder()
	b.Assume["(*"+load.Module+"/p2p.Network).connectLeader"] = map[string]int64{"connID": 0}
	// Frozen: the leader serves every peer in a loop; one iteration is one peer's conversation.
	b.OnceLoop["(*"+load.Module+"/p2p.Network).connectLeader"] = true
	pairs := []proto.Pair{
		{Name: "hello", A: proto.Ref{Pkg: "p2p", Type: "Network", Name: "dial"}, B: proto.Ref{Pkg: "p2p", Type: "Network", Name: "acceptConn"}, Mode: "exact"},
		// Frozen: the peer's hello is consumed by the leader's accept goroutine (pair "hello").
		{Name: "peer list", A: proto.Ref{Pkg: "p2p", Type: "Network", Name: "connectLeader"}, B: proto.Ref{Pkg: "p2p", Type: "Network", Name: "connectPeerToLeader"}, Mode: "exact",
			PrefixA: []string{"?U32", "?U32", "?Data"}, IgnoreEmptyA: true},
	}
	proto.Check(p, run, b, nil, pairs)
	run.Floor("role-pairs", 2)
}

// C05session: the streaming session.
func C05session(p *load.Program, run *report.Run) {
	run.Rule("duality", "Program.Stream (with sendArgument, garble) and StreamEvaluator (with receiveArgument) are dual; the gate records are one opaque symbol on both sides")
	b := proto.NewBuilder()
	b.Opaque["(*"+load.Module+"/circuit.Streaming).Garble"] = "GATES"
	b.CollapseLoop[load.Module+"/circuit.StreamEvaluator"] = struct{ Callee, Sym string }{"(*" + load.Module + "/p2p.Conn).ReceiveByte", "GATES"}
	// Frozen: the Ret step is the last step of a program (Program.GC panics otherwise),
	// so control leaving the Ret arm leaves the step loop.
	b.ExitLoopAfter["(*"+load.Module+"/compiler/ssa.Program).Stream"] = func(i ssa.Instruction) bool {
		c, ok := i.(*ssa.Call)
		if !ok || c.Call.StaticCallee() == nil || c.Call.StaticCallee().Name() != "SendUint32" || len(c.Call.Args) < 2 {
			return false
		}
		k, ok := c.Call.Args[1].(*ssa.Const)
		return ok && k.Value != nil && k.Int64() == 2 // circuit.OpReturn
	}
	rec := map[string]string{"receiveArgument": "sendArgument"}
	pairs := []proto.Pair{
		{Name: "arguments", A: proto.Ref{Pkg: "compiler/ssa", Name: "sendArgument"}, B: proto.Ref{Pkg: "circuit", Name: "receiveArgument"}, Mode: "exact", DirtyExitOKA: true, EntryDirtyA: true},
		{Name: "session", A: proto.Ref{Pkg: "compiler/ssa", Type: "Program", Name: "Stream"}, B: proto.Ref{Pkg: "circuit", Name: "StreamEvaluator"}, Mode: "exact"},
	}
	proto.Check(p, run, b, rec, pairs)
	run.Floor("role-pairs", 2)
}

// C11composite: the composite codecs of Conn are dual over the primitive ones.
func C11composite(p *load.Program, run *report.Run) {
	run.Rule("duality", "SendString/ReceiveString and SendInputSizes/ReceiveInputSizes are dual sequences of the primitive codecs (count-prefixed, one element per iteration)")
	b := proto.NewBuilder()
	pairs := []proto.Pair{
		{Name: "string", A: proto.Ref{Pkg: "p2p", Type: "Conn", Name: "SendString"}, B: proto.Ref{Pkg: "p2p", Type: "Conn", Name: "ReceiveString"}, Mode: "exact", DirtyExitOKA: true, EntryDirtyA: true},
		{Name: "input sizes", A: proto.Ref{Pkg: "p2p", Type: "Conn", Name: "SendInputSizes"}, B: proto.Ref{Pkg: "p2p", Type: "Conn", Name: "ReceiveInputSizes"}, Mode: "exact", DirtyExitOKA: true, EntryDirtyA: true},
	}
	proto.Check(p, run, b, nil, pairs)
	run.Floor("role-pairs", 2)
}
