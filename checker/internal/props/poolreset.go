package props

import (
	"fmt"
	"go/token"
	"go/types"
	"sort"
	"strings"

	"golang.org/x/tools/go/ssa"

	"mpcverif/internal/load"
	"mpcverif/internal/report"
)

// PoolResets: what goes back to a sync.Pool carries nothing of the call that used it.
//
// A pooled object with a slice field that is filled by appending (an encoder's scratch buffer, a list of
// pending items) starts the next use with whatever the previous one left unless the field is truncated.
// If the truncation happens only where the use succeeds (after a successful flush), a use that fails
// half-way returns the object to the pool with its leftovers, and the next, unrelated operation emits
// them in front of its own output: a circuit file that begins with the tail of another one.  For every
// struct type T of the module of which a *T is handed to (*sync.Pool).Put, and every slice field f of T
// that some function appends to in place: the function that Puts resets x.f (x.f = x.f[:0] or nil) on every
// path before the Put, or the function that Gets the object resets it before anything else can use it.
func PoolResets(p *load.Program, run *report.Run) {
	const rule = "pooled-accumulator-reset"
	run.Rule(rule, "for every *T passed to (*sync.Pool).Put in the module and every slice field of T that is appended to in place (x.f = append(x.f, …) or x.f = F(x.f, …)): a store of x.f[:0] or nil to the field dominates the Put in the putting function, or dominates every return of the function that takes the object out of the pool; with built-in examples")
	var fns []*ssa.Function
	for _, fn := range p.AllFunctions() {
		if fn.Pkg == nil || !load.InModule(fn) || fn.Blocks == nil || strings.Contains(fn.Pkg.Pkg.Path(), "/apps/") || strings.HasSuffix(p.Fset.Position(fn.Pos()).Filename, "_test.go") {
			continue
		}
		fns = append(fns, fn)
	}
	sort.Slice(fns, func(i, j int) bool { return fns[i].Pos() < fns[j].Pos() })
	puts, bad := poolResetCheck(fns, func(pos token.Pos) string { return p.Rel(pos) })
	run.Count("pool-put-sites", puts)
	for _, b := range bad {
		run.Violate(rule, b.key, b.pos, b.msg, nil)
	}
	if puts > 0 && len(bad) == 0 {
		run.OK(rule, "module", "", fmt.Sprintf("%d Put sites, no appended-to field goes back unreset", puts))
	}
	// second rule: a pooled object keeps no memory of its caller
	const rule2 = "pooled-object-keeps-no-caller-memory"
	run.Rule(rule2, "no function stores a slice, pointer or map parameter (itself or a sub-slice of it, not a copy) into a field of an object it took out of a sync.Pool: the object outlives the call, the caller may reuse the memory — a cached key that aliases the caller's key buffer always compares equal to it")
	kept := pooledKeepsParam(fns)
	for _, k := range kept {
		run.Violate(rule2, strings.ReplaceAll(k.Parent().RelString(nil), load.Module+"/", "")+"/pooled field", p.Rel(k.Pos()), "a parameter of reference type is stored into an object that came out of a sync.Pool and goes back into it: the object then refers to memory the caller still owns and may overwrite (a cached copy of a key must be a copy)", nil)
	}
	if len(kept) == 0 {
		run.OK(rule2, "module", "", "no pooled object is handed caller memory")
	}
	look, err := buildExample(poolResetExample)
	if err != nil {
		run.Undecided(rule, "built-in example", "", err.Error())
		return
	}
	var ex []*ssa.Function
	ex = exampleFuncs(look)
	n, b := poolResetCheck(ex, func(token.Pos) string { return "example" })
	if k := pooledKeepsParam(ex); len(k) != 1 || k[0].Parent().Name() != "cacheAlias" {
		run.Undecided(rule2, "built-in example", "", fmt.Sprintf("the rule misclassifies its built-in examples (%d reports)", len(k)))
		return
	}
	if n != 3 || len(b) != 1 || !strings.Contains(b[0].key, "releaseLeaky") {
		run.Undecided(rule, "built-in example", "", fmt.Sprintf("the rule misclassifies its built-in examples (%d put sites, %d reports)", n, len(b)))
		return
	}
	run.Count("pool-reset-examples", 3)
	run.OK(rule, "built-in examples", "", "a buffer truncated only after a successful flush is reported; truncation before Put accepted")
	run.Floor("pool-reset-examples", 3)
	run.Floor("pool-put-sites", 1)
}

type prViolation struct{ key, pos, msg string }

func poolResetCheck(fns []*ssa.Function, rel func(token.Pos) string) (int, []prViolation) {
	type fkey struct {
		typ   string
		field int
	}
	fieldOf := func(addr ssa.Value) (fkey, ssa.Value, bool) {
		fa, ok := addr.(*ssa.FieldAddr)
		if !ok {
			return fkey{}, nil, false
		}
		pt, ok := fa.X.Type().Underlying().(*types.Pointer)
		if !ok {
			return fkey{}, nil, false
		}
		if _, isSlice := pt.Elem().Underlying().(*types.Struct).Field(fa.Field).Type().Underlying().(*types.Slice); !isSlice {
			return fkey{}, nil, false
		}
		return fkey{pt.Elem().String(), fa.Field}, fa.X, true
	}
	// fields appended to in place
	appended := map[fkey]string{}
	for _, fn := range fns {
		for _, b := range fn.Blocks {
			for _, ins := range b.Instrs {
				st, ok := ins.(*ssa.Store)
				if !ok {
					continue
				}
				k, _, ok := fieldOf(st.Addr)
				if !ok {
					continue
				}
				c, ok := st.Val.(*ssa.Call)
				if !ok || len(c.Call.Args) == 0 {
					continue
				}
				if ld, ok := c.Call.Args[0].(*ssa.UnOp); ok && ld.Op == token.MUL {
					if k2, _, ok := fieldOf(ld.X); ok && k2 == k {
						appended[k] = structFieldName(st.Addr.(*ssa.FieldAddr).X.Type(), k.field)
					}
				}
			}
		}
	}
	isReset := func(st *ssa.Store) bool {
		switch v := st.Val.(type) {
		case *ssa.Const:
			return v.Value == nil
		case *ssa.Slice:
			if h, ok := v.High.(*ssa.Const); ok && h.Value != nil && h.Value.String() == "0" {
				return true
			}
		}
		return false
	}
	resetsOn := func(fn *ssa.Function, obj ssa.Value, k fkey) []*ssa.Store {
		var out []*ssa.Store
		for _, b := range fn.Blocks {
			for _, ins := range b.Instrs {
				if st, ok := ins.(*ssa.Store); ok && isReset(st) {
					if k2, x, ok := fieldOf(st.Addr); ok && k2 == k && x == obj {
						out = append(out, st)
					}
				}
			}
		}
		return out
	}
	dominatesIns := func(a, b ssa.Instruction) bool {
		if a.Block() == b.Block() {
			return instrIndex(a) < instrIndex(b)
		}
		return a.Block().Dominates(b.Block())
	}
	// acquire sites that reset: type -> fields reset on acquire in every getter
	type getter struct {
		fn  *ssa.Function
		obj ssa.Value
	}
	getters := map[string][]getter{}
	for _, fn := range fns {
		for _, b := range fn.Blocks {
			for _, ins := range b.Instrs {
				ta, ok := ins.(*ssa.TypeAssert)
				if !ok {
					continue
				}
				c, ok := ta.X.(*ssa.Call)
				if !ok || c.Call.StaticCallee() == nil || !isPoolMethod(c.Call.StaticCallee(), "Get") {
					continue
				}
				var obj ssa.Value = ta
				if ta.CommaOk && ta.Referrers() != nil {
					for _, r := range *ta.Referrers() {
						if ex, ok := r.(*ssa.Extract); ok && ex.Index == 0 {
							obj = ex
						}
					}
				}
				if pt, ok := obj.Type().Underlying().(*types.Pointer); ok {
					getters[pt.Elem().String()] = append(getters[pt.Elem().String()], getter{fn, obj})
				}
			}
		}
	}
	puts := 0
	var bad []prViolation
	for _, fn := range fns {
		for _, b := range fn.Blocks {
			for _, ins := range b.Instrs {
				c, ok := ins.(ssa.CallInstruction)
				if !ok || c.Common().StaticCallee() == nil || !isPoolMethod(c.Common().StaticCallee(), "Put") || len(c.Common().Args) < 2 {
					continue
				}
				mi, ok := c.Common().Args[1].(*ssa.MakeInterface)
				if !ok {
					continue
				}
				pt, ok := mi.X.Type().Underlying().(*types.Pointer)
				if !ok {
					continue
				}
				puts++
				tname := pt.Elem().String()
				var keys []fkey
				for k := range appended {
					if k.typ == tname {
						keys = append(keys, k)
					}
				}
				sort.Slice(keys, func(i, j int) bool { return keys[i].field < keys[j].field })
				for _, k := range keys {
					ok := false
					for _, r := range resetsOn(fn, mi.X, k) {
						if dominatesIns(r, ins) {
							ok = true
						}
					}
					if !ok && len(getters[tname]) > 0 {
						all := true
						for _, g := range getters[tname] {
							got := false
							for _, r := range resetsOn(g.fn, g.obj, k) {
								domAll := true
								for _, bb := range g.fn.Blocks {
									if ret, isRet := bb.Instrs[len(bb.Instrs)-1].(*ssa.Return); isRet && !dominatesIns(r, ret) {
										// returns that cannot carry the object (before the Get) do not count
										if blockReaches(r.Block(), bb) || r.Block() == bb {
											continue
										}
										if g.obj.(ssa.Instruction).Block().Dominates(bb) {
											domAll = false
										}
									}
								}
								if domAll {
									got = true
								}
							}
							if !got {
								all = false
							}
						}
						ok = all
					}
					if !ok {
						short := tname[strings.LastIndex(tname, "/")+1:]
						bad = append(bad, prViolation{
							key: strings.ReplaceAll(fn.RelString(nil), load.Module+"/", "") + "/Put/" + short + "." + appended[k],
							pos: rel(ins.Pos()),
							msg: fmt.Sprintf("%s.%s is filled by appending and the object goes back to the pool here without the field having been truncated on every path (and it is not truncated when it is taken out): a use that ended early leaves its bytes for the next, unrelated one", short, appended[k]),
						})
					}
				}
			}
		}
	}
	return puts, bad
}

func isPoolMethod(f *ssa.Function, name string) bool {
	s := f.String()
	return s == "(*sync.Pool)."+name || s == "(*example.Pool)."+name
}

const poolResetExample = `package example

type Pool struct{ items []interface{} }

func (p *Pool) Get() interface{}  { return &enc{} }
func (p *Pool) Put(x interface{}) { p.items = append(p.items, x) }

var pool, pool2, pool3 Pool

type enc struct {
	buf []byte
	out func([]byte) error
}

type enc2 struct{ buf []byte }

type enc3 struct{ buf []byte }

func (e *enc) add(b byte)   { e.buf = append(e.buf, b) }
func (e *enc2) add(b byte)  { e.buf = append(e.buf, b) }
func (e *enc3) add(b byte)  { e.buf = append(e.buf, b) }

func (e *enc) flushOnly() error {
	if err := e.out(e.buf); err != nil {
		return err
	}
	e.buf = e.buf[:0]
	return nil
}

func (e *enc) releaseLeaky() {
	e.out = nil
	pool.Put(e)
}

func (e *enc2) releaseClean() {
	e.buf = e.buf[:0]
	pool2.Put(e)
}

func acquireClean() *enc3 {
	e := pool3.Get().(*enc3)
	e.buf = e.buf[:0]
	return e
}

func (e *enc3) releasePlain() {
	pool3.Put(e)
}

func cacheAlias(key []byte) *enc {
	e := pool.Get().(*enc)
	e.buf = key
	return e
}

func cacheCopy(key []byte) *enc {
	e := pool.Get().(*enc)
	e.buf = append(e.buf[:0], key...)
	return e
}
`

// exampleFuncs lists every function and method of a built-in example package.
func exampleFuncs(look func(string) *ssa.Function) []*ssa.Function {
	return exampleFuncsOf(look, "acquireClean")
}

// pooledKeepsParam lists the stores of a reference-typed parameter into a field of an object taken from a pool.
func pooledKeepsParam(fns []*ssa.Function) []*ssa.Store {
	var out []*ssa.Store
	for _, fn := range fns {
		pooled := map[ssa.Value]bool{}
		for _, b := range fn.Blocks {
			for _, ins := range b.Instrs {
				if ta, ok := ins.(*ssa.TypeAssert); ok {
					if c, ok := ta.X.(*ssa.Call); ok && c.Call.StaticCallee() != nil && isPoolMethod(c.Call.StaticCallee(), "Get") {
						pooled[ta] = true
						if ta.Referrers() != nil {
							for _, r := range *ta.Referrers() {
								if ex, ok := r.(*ssa.Extract); ok && ex.Index == 0 {
									pooled[ex] = true
								}
							}
						}
					}
				}
			}
		}
		if len(pooled) == 0 {
			continue
		}
		for _, b := range fn.Blocks {
			for _, ins := range b.Instrs {
				st, ok := ins.(*ssa.Store)
				if !ok {
					continue
				}
				fa, ok := st.Addr.(*ssa.FieldAddr)
				if !ok || !pooled[fa.X] {
					continue
				}
				v := st.Val
				for d := 0; d < 4; d++ {
					switch t := v.(type) {
					case *ssa.Slice:
						v = t.X
						continue
					case *ssa.ChangeType:
						v = t.X
						continue
					}
					break
				}
				if prm, ok := v.(*ssa.Parameter); ok {
					switch prm.Type().Underlying().(type) {
					case *types.Slice, *types.Pointer, *types.Map:
						out = append(out, st)
					}
				}
			}
		}
	}
	return out
}
