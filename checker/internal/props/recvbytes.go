package props

import (
	"go/token"
	"sort"
	"strings"

	"golang.org/x/tools/go/ssa"

	"mpcverif/internal/load"
	"mpcverif/internal/report"
)

// RecvBytes: a received byte string is used position by position only after its length was checked.
//
// A length-prefixed payload has whatever length the sender's encoding produced: (*big.Int).Bytes() drops
// leading zero bytes, so a share whose top byte happens to be zero arrives one byte shorter.  Parsing the
// payload as an integer (SetBytes) is indifferent to that; combining it byte by byte with a buffer of the
// nominal width is not — the bytes land in the wrong positions, for about one value in 256, and every party
// computes the same wrong result.  In the protocol packages, every element-wise use (indexing, ranging,
// copy into a positioned window) of the []byte returned by ReceiveData is dominated by a test of its length
// against an expected value whose failing side cannot reach a success return.
func RecvBytes(pkgs ...string) func(p *load.Program, run *report.Run) {
	return func(p *load.Program, run *report.Run) {
		const rule = "received-bytes-length-checked"
		run.Rule(rule, "in "+strings.Join(pkgs, ", ")+": every indexing or ranging over the []byte returned by ReceiveData is dominated by an equality test of its length against an expected value whose failing side leads to an error return (an upper bound keeps the access in range but does not fix the positions)")
		want := map[string]bool{}
		for _, rel := range pkgs {
			want[load.Module+"/"+rel] = true
		}
		var fns []*ssa.Function
		for _, fn := range p.AllFunctions() {
			if fn.Pkg == nil || !want[fn.Pkg.Pkg.Path()] || fn.Blocks == nil || strings.HasSuffix(p.Fset.Position(fn.Pos()).Filename, "_test.go") {
				continue
			}
			fns = append(fns, fn)
		}
		sort.Slice(fns, func(i, j int) bool { return fns[i].Pos() < fns[j].Pos() })
		recvs := 0
		for _, fn := range fns {
			succ := map[*ssa.BasicBlock]bool{}
			for _, b := range successBlocks(fn) {
				succ[b] = true
			}
			for changed := true; changed; {
				changed = false
				for _, b := range fn.Blocks {
					if succ[b] {
						continue
					}
					for _, s := range b.Succs {
						if succ[s] {
							succ[b] = true
							changed = true
						}
					}
				}
			}
			for _, b := range fn.Blocks {
				for _, ins := range b.Instrs {
					c, ok := ins.(*ssa.Call)
					if !ok || c.Call.StaticCallee() == nil || c.Call.StaticCallee().Name() != "ReceiveData" || c.Referrers() == nil {
						continue
					}
					var data ssa.Value
					for _, r := range *c.Referrers() {
						if ex, ok := r.(*ssa.Extract); ok && ex.Index == 0 {
							data = ex
						}
					}
					if data == nil || data.Referrers() == nil {
						continue
					}
					recvs++
					// element-wise uses (through re-slicing)
					var uses []ssa.Instruction
					var walk func(v ssa.Value, depth int)
					walk = func(v ssa.Value, depth int) {
						if depth > 4 || v.Referrers() == nil {
							return
						}
						for _, r := range *v.Referrers() {
							switch t := r.(type) {
							case *ssa.IndexAddr:
								uses = append(uses, t)
							case *ssa.Slice:
								walk(t, depth+1)
							case *ssa.Phi:
								walk(t, depth+1)
							}
						}
					}
					walk(data, 0)
					if len(uses) == 0 {
						continue
					}
					key := strings.ReplaceAll(fn.RelString(nil), load.Module+"/", "") + "/ReceiveData"
					checked := func(at *ssa.BasicBlock) bool {
						for _, d := range fn.Blocks {
							iff, ok := d.Instrs[len(d.Instrs)-1].(*ssa.If)
							if !ok || d == at || !d.Dominates(at) {
								continue
							}
							bo, ok := iff.Cond.(*ssa.BinOp)
							if !ok || (bo.Op != token.EQL && bo.Op != token.NEQ) {
								continue // an upper bound keeps the access in range but does not fix the positions
							}
							isLen := func(v ssa.Value) bool {
								cl, ok := v.(*ssa.Call)
								if !ok {
									return false
								}
								bi, ok := cl.Call.Value.(*ssa.Builtin)
								return ok && bi.Name() == "len" && cl.Call.Args[0] == data
							}
							if !isLen(bo.X) && !isLen(bo.Y) {
								continue
							}
							// one side of the test cannot succeed, the other dominates the use
							for k, s := range d.Succs {
								other := d.Succs[1-k]
								if !succ[other] && (s == at || s.Dominates(at)) {
									return true
								}
							}
						}
						return false
					}
					bad := ""
					for _, u := range uses {
						if !checked(u.Block()) {
							bad = p.Rel(u.Pos())
							break
						}
					}
					if bad != "" {
						run.Violate(rule, key, p.Rel(c.Pos()), "the received bytes are used position by position at "+bad+" without a check of their length: an encoding that drops leading zero bytes (big.Int.Bytes) arrives shorter and its bytes land in the wrong positions", nil)
					} else {
						run.OK(rule, key, p.Rel(c.Pos()), "length checked before positional use")
					}
				}
			}
		}
		run.Count("data-receives", recvs)
		run.Floor("data-receives", 1)
	}
}
