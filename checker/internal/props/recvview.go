package props

import (
	"fmt"
	"go/token"
	"go/types"
	"sort"
	"strings"

	"golang.org/x/tools/go/ssa"

	"mpcverif/internal/load"
	"mpcverif/internal/report"
)

// RecvViews: a slice handed out by IO.ReceiveData is not kept across the next receive.
//
// ot.IO is an interface; its in-memory implementation (ot.Pipe) returns a view of the read buffer it
// reuses for the next message, the network one (p2p.Conn) returns fresh memory.  Code that keeps the
// returned slice itself — appends it to a [][]byte, stores it in a field, a map or an array element — and
// then receives again works over p2p.Conn and reads the *next* message's bytes through the kept view over
// the pipe: every chunk of a batch but the last is combined with the wrong data.  For every ReceiveData
// call made through the interface: the result (not a copy of it) is not stored into an aggregate from
// which a further receive on an IO is reachable.  `append([]byte(nil), chunk...)`, copy(dst, chunk) and
// uses that finish before the next receive are fine.
func RecvViews(pkgs ...string) func(p *load.Program, run *report.Run) {
	return func(p *load.Program, run *report.Run) {
		const rule = "received-view-not-retained"
		run.Rule(rule, "in "+strings.Join(pkgs, ", ")+": the []byte returned by a ReceiveData call made through an interface (ot.IO) is not stored — itself, or a sub-slice of it — into a slice/array element, a struct field or a map when another Receive* call through an interface is reachable from the store; with built-in examples")
		want := map[string]bool{}
		for _, rel := range pkgs {
			want[load.Module+"/"+rel] = true
		}
		var fns []*ssa.Function
		for _, fn := range p.AllFunctions() {
			if fn.Pkg == nil || !want[fn.Pkg.Pkg.Path()] || fn.Blocks == nil || strings.HasSuffix(p.Fset.Position(fn.Pos()).Filename, "_test.go") {
				continue
			}
			fns = append(fns, fn)
		}
		sort.Slice(fns, func(i, j int) bool { return fns[i].Pos() < fns[j].Pos() })
		sites := 0
		for _, fn := range fns {
			n, bad := retainedViews(fn)
			sites += n
			for _, b := range bad {
				key := strings.ReplaceAll(fn.RelString(nil), load.Module+"/", "") + "/ReceiveData"
				run.Violate(rule, key, p.Rel(b.Pos()), "the slice returned by ReceiveData is kept here and another message is received afterwards: an IO that reuses its read buffer (ot.Pipe) overwrites the kept bytes with the next message; copy the data before keeping it", nil)
			}
		}
		run.Count("interface-receive-data-calls", sites)
		if sites > 0 {
			run.OK(rule, "interface receives", "", fmt.Sprintf("%d ReceiveData calls through an interface examined", sites))
		}
		look, err := buildExample(recvViewExample)
		if err != nil {
			run.Undecided(rule, "built-in example", "", err.Error())
			return
		}
		n1, b1 := retainedViews(look("kept"))
		n2, b2 := retainedViews(look("copied"))
		n3, b3 := retainedViews(look("usedAtOnce"))
		if n1+n2+n3 != 3 || len(b1) != 1 || len(b2) != 0 || len(b3) != 0 {
			run.Undecided(rule, "built-in example", "", fmt.Sprintf("the rule misclassifies its built-in examples (%d/%d/%d sites, %d/%d/%d reports)", n1, n2, n3, len(b1), len(b2), len(b3)))
			return
		}
		run.Count("received-view-examples", 3)
		run.OK(rule, "built-in examples", "", "a kept view is reported; a kept copy and a view used before the next receive are accepted")
		run.Floor("received-view-examples", 3)
		run.Floor("interface-receive-data-calls", 4)
	}
}

func retainedViews(fn *ssa.Function) (int, []ssa.Instruction) {
	if fn == nil {
		return 0, nil
	}
	isRecv := func(ins ssa.Instruction) bool {
		c, ok := ins.(ssa.CallInstruction)
		return ok && c.Common().IsInvoke() && strings.HasPrefix(c.Common().Method.Name(), "Receive")
	}
	// blocks from which a receive is reachable (including later in the same block)
	recvAfter := func(at ssa.Instruction) bool {
		b := at.Block()
		past := false
		for _, ins := range b.Instrs {
			if ins == at {
				past = true
				continue
			}
			if past && isRecv(ins) {
				return true
			}
		}
		for _, x := range fn.Blocks {
			if blockReaches(b, x) {
				for _, ins := range x.Instrs {
					if isRecv(ins) {
						return true
					}
				}
			}
		}
		return false
	}
	sites := 0
	var bad []ssa.Instruction
	for _, b := range fn.Blocks {
		for _, ins := range b.Instrs {
			c, ok := ins.(*ssa.Call)
			if !ok || !c.Call.IsInvoke() || c.Call.Method.Name() != "ReceiveData" {
				continue
			}
			sites++
			// the []byte result and its views
			seen := map[ssa.Value]bool{}
			var views []ssa.Value
			var add func(v ssa.Value)
			add = func(v ssa.Value) {
				if v == nil || seen[v] {
					return
				}
				seen[v] = true
				views = append(views, v)
				if v.Referrers() == nil {
					return
				}
				for _, r := range *v.Referrers() {
					switch t := r.(type) {
					case *ssa.Extract:
						if sl, ok := t.Type().Underlying().(*types.Slice); ok && types.Identical(sl.Elem(), types.Typ[types.Byte]) {
							add(t)
						}
					case *ssa.Slice:
						add(t)
					case *ssa.Phi:
						add(t)
					case *ssa.Store:
						// a local []byte variable: its loads are views
						if al, ok := t.Addr.(*ssa.Alloc); ok && t.Val == v {
							if _, isSlice := al.Type().Underlying().(*types.Pointer).Elem().Underlying().(*types.Slice); isSlice && al.Referrers() != nil {
								for _, r2 := range *al.Referrers() {
									if ld, ok := r2.(*ssa.UnOp); ok && ld.Op == token.MUL {
										add(ld)
									}
								}
							}
						}
					}
				}
			}
			if _, isTuple := c.Type().(*types.Tuple); isTuple {
				add(c)
				views = views[1:] // the tuple itself is not a slice
			} else {
				add(c)
			}
			for _, v := range views {
				if v.Referrers() == nil {
					continue
				}
				for _, r := range *v.Referrers() {
					keep := false
					switch t := r.(type) {
					case *ssa.Store:
						if t.Val != v {
							break
						}
						switch t.Addr.(type) {
						case *ssa.IndexAddr, *ssa.FieldAddr:
							keep = true
						}
					case *ssa.MapUpdate:
						keep = t.Value == v
					}
					if keep && recvAfter(r) {
						bad = append(bad, r)
					}
				}
			}
		}
	}
	return sites, bad
}

const recvViewExample = `package example

type IO interface {
	ReceiveData() ([]byte, error)
}

func kept(io IO, n int) ([][]byte, error) {
	var chunks [][]byte
	for i := 0; i < n; i++ {
		chunk, err := io.ReceiveData()
		if err != nil {
			return nil, err
		}
		chunks = append(chunks, chunk)
	}
	return chunks, nil
}

func copied(io IO, n int) ([][]byte, error) {
	var chunks [][]byte
	for i := 0; i < n; i++ {
		chunk, err := io.ReceiveData()
		if err != nil {
			return nil, err
		}
		chunks = append(chunks, append([]byte(nil), chunk...))
	}
	return chunks, nil
}

func usedAtOnce(io IO, n int) (int, error) {
	sum := 0
	for i := 0; i < n; i++ {
		chunk, err := io.ReceiveData()
		if err != nil {
			return 0, err
		}
		for _, b := range chunk {
			sum += int(b)
		}
	}
	return sum, nil
}
`
