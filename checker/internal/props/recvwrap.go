package props

import (
	"strings"

	"golang.org/x/tools/go/ssa"

	"mpcverif/internal/load"
)

// recvWrapper: fn is a module function that receives one value from the peer on behalf of its caller —
// it calls exactly one Receive* method of p2p.Conn or ot.IO and one of its results is (a value set by) what
// that call received.  The errWriter idiom wraps every transfer of a role this way (`func (p *peer)
// receiveUint32() (val int)`); to the rules that reason about received data, a call of the wrapper is the
// receive.  The returned string is the wrapped method's name, "" if fn is not a wrapper.
var recvWrapMemo = map[*ssa.Function]string{}

func recvWrapper(fn *ssa.Function) string {
	if fn == nil || fn.Blocks == nil || !load.InModule(fn) {
		return ""
	}
	if v, ok := recvWrapMemo[fn]; ok {
		return v
	}
	recvWrapMemo[fn] = ""
	if fn.Signature.Results().Len() == 0 || len(fn.Blocks) > 6 {
		return ""
	}
	name, n := "", 0
	for _, b := range fn.Blocks {
		for _, ins := range b.Instrs {
			c, ok := ins.(ssa.CallInstruction)
			if !ok {
				continue
			}
			cc := c.Common()
			m := ""
			if cc.IsInvoke() {
				if strings.HasSuffix(cc.Value.Type().String(), "/ot.IO") {
					m = cc.Method.Name()
				}
			} else if callee := cc.StaticCallee(); callee != nil && callee.Signature.Recv() != nil && strings.HasSuffix(callee.Signature.Recv().Type().String(), "/p2p.Conn") {
				m = callee.Name()
			} else if callee != nil && load.InModule(callee) && callee.Blocks != nil {
				return "" // more than a wrapper
			}
			if strings.HasPrefix(m, "Receive") {
				name = m
				n++
			} else if strings.HasPrefix(m, "Send") || m == "Flush" {
				return ""
			}
		}
	}
	if n != 1 {
		return ""
	}
	recvWrapMemo[fn] = name
	return name
}
