package props

import (
	"fmt"
	"go/token"
	"sort"
	"strings"

	"golang.org/x/tools/go/ssa"

	"mpcverif/internal/load"
	"mpcverif/internal/report"
)

// ResliceGrowth: a slice grown back inside its capacity is cleared.
//
// `if n <= cap(x.f) { x.f = x.f[:n] }` makes the first n elements of the backing array visible again, with
// whatever they held when the slice was last cut down (`x.f = x.f[:0]` on release to a pool): a recycled
// bit set comes back with the previous compilation's bits set, and what the compiler emits then depends on
// what the process compiled before.  Allocation (`make`) gives zeroed memory, re-slicing does not.  Every
// store `x.f = x.f[:n]` in a function that consults cap(x.f) is followed, on every path, by clear() of (a
// part of) x.f or by a loop that stores the zero value into its elements.
func ResliceGrowth(p *load.Program, run *report.Run) {
	const rule = "reslice-growth-cleared"
	run.Rule(rule, "in every function of the module that assigns a field its own re-slice x.f = x.f[:n] and consults cap(x.f): the assignment is followed in the same function (same block later, or a dominated block) by the builtin clear on a slice of x.f, or by a store of a zero constant into an element of x.f; with built-in examples")
	var fns []*ssa.Function
	for _, fn := range p.AllFunctions() {
		if fn.Pkg == nil || !load.InModule(fn) || fn.Blocks == nil || fn.Synthetic != "" || strings.HasSuffix(p.Fset.Position(fn.Pos()).Filename, "_test.go") {
			continue
		}
		fns = append(fns, fn)
	}
	sort.Slice(fns, func(i, j int) bool { return fns[i].Pos() < fns[j].Pos() })
	n := 0
	for _, s := range resliceGrowthSites(fns) {
		n++
		key := strings.ReplaceAll(s.fn.RelString(nil), load.Module+"/", "") + "/" + s.field
		if s.cleared {
			run.OK(rule, key, p.Rel(s.pos), "the re-exposed elements are cleared")
		} else {
			run.Violate(rule, key, p.Rel(s.pos), fmt.Sprintf("%s is grown back inside its capacity and not cleared: its elements hold what the previous user left when the slice was cut down (memory from make is zero, a re-slice is not)", s.field), nil)
		}
	}
	run.Count("reslice-growth-sites", n)
	look, err := buildExample(resliceGrowthExample)
	if err != nil {
		run.Undecided(rule, "built-in example", "", err.Error())
		return
	}
	got := map[string]bool{}
	for _, s := range resliceGrowthSites(exampleFuncsOf(look, "anchor")) {
		got[s.fn.Name()] = s.cleared
	}
	if len(got) != 2 || got["growStale"] || !got["growCleared"] {
		run.Undecided(rule, "built-in example", "", fmt.Sprintf("the rule misclassifies its built-in example: %v", got))
		return
	}
	run.Count("reslice-growth-examples", 3)
	run.OK(rule, "built-in examples", "", "growth inside the capacity without clearing reported, with clear() accepted, cutting down to zero length not concerned")
	run.Floor("reslice-growth-examples", 3)
}

type resliceSite struct {
	fn      *ssa.Function
	field   string
	pos     token.Pos
	cleared bool
}

func resliceGrowthSites(fns []*ssa.Function) []resliceSite {
	var out []resliceSite
	sameField := func(a, b ssa.Value) bool {
		fa, ok1 := a.(*ssa.FieldAddr)
		fb, ok2 := b.(*ssa.FieldAddr)
		return ok1 && ok2 && fa.Field == fb.Field && fa.X == fb.X
	}
	for _, fn := range fns {
		// the fields whose capacity the function consults
		capOf := map[*ssa.FieldAddr]bool{}
		for _, b := range fn.Blocks {
			for _, ins := range b.Instrs {
				c, ok := ins.(*ssa.Call)
				if !ok {
					continue
				}
				if bi, ok := c.Call.Value.(*ssa.Builtin); ok && bi.Name() == "cap" && len(c.Call.Args) == 1 {
					if ld, ok := c.Call.Args[0].(*ssa.UnOp); ok && ld.Op == token.MUL {
						if fa, ok := ld.X.(*ssa.FieldAddr); ok {
							capOf[fa] = true
						}
					}
				}
			}
		}
		if len(capOf) == 0 {
			continue
		}
		for _, b := range fn.Blocks {
			for _, ins := range b.Instrs {
				st, ok := ins.(*ssa.Store)
				if !ok {
					continue
				}
				fa, ok := st.Addr.(*ssa.FieldAddr)
				if !ok {
					continue
				}
				sl, ok := st.Val.(*ssa.Slice)
				if !ok || sl.Low != nil || sl.High == nil {
					continue
				}
				if k, isConst := sl.High.(*ssa.Const); isConst && k.Value != nil && k.Int64() == 0 {
					continue
				}
				ld, ok := sl.X.(*ssa.UnOp)
				if !ok || ld.Op != token.MUL || !sameField(ld.X, fa) {
					continue
				}
				consulted := false
				for c := range capOf {
					if sameField(c, fa) {
						consulted = true
					}
				}
				if !consulted {
					continue
				}
				site := resliceSite{fn: fn, field: structFieldName(fa.X.Type(), fa.Field), pos: st.Pos()}
				after := func(x ssa.Instruction) bool {
					if x.Block() == st.Block() {
						return instrIndex(x) > instrIndex(st)
					}
					return st.Block().Dominates(x.Block())
				}
				fromField := func(v ssa.Value) bool {
					for d := 0; d < 6; d++ {
						switch t := v.(type) {
						case *ssa.Slice:
							v = t.X
						case *ssa.IndexAddr:
							v = t.X
						case *ssa.UnOp:
							if t.Op == token.MUL && sameField(t.X, fa) {
								return true
							}
							return false
						default:
							return false
						}
					}
					return false
				}
				for _, b2 := range fn.Blocks {
					for _, i2 := range b2.Instrs {
						if !after(i2) {
							continue
						}
						switch t := i2.(type) {
						case *ssa.Call:
							if bi, ok := t.Call.Value.(*ssa.Builtin); ok && bi.Name() == "clear" && len(t.Call.Args) == 1 && fromField(t.Call.Args[0]) {
								site.cleared = true
							}
						case *ssa.Store:
							if k, ok := t.Val.(*ssa.Const); ok && (k.Value == nil || k.Value.String() == "0") {
								if ia, ok := t.Addr.(*ssa.IndexAddr); ok && fromField(ia) {
									site.cleared = true
								}
							}
						}
					}
				}
				out = append(out, site)
			}
		}
	}
	return out
}

const resliceGrowthExample = `package example

type set struct{ bits []uint64 }

func anchor() {}

func (s *set) release() { s.bits = s.bits[:0] }

func (s *set) growStale(n int) {
	if n <= cap(s.bits) {
		s.bits = s.bits[:n]
		return
	}
	bits := make([]uint64, n, n+n/4)
	copy(bits, s.bits)
	s.bits = bits
}

func (s *set) growCleared(n int) {
	if n <= cap(s.bits) {
		old := len(s.bits)
		s.bits = s.bits[:n]
		clear(s.bits[old:])
		return
	}
	bits := make([]uint64, n, n+n/4)
	copy(bits, s.bits)
	s.bits = bits
}
`
