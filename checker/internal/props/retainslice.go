package props

import (
	"fmt"
	"go/token"
	"go/types"
	"sort"
	"strings"

	"golang.org/x/tools/go/ssa"

	"mpcverif/internal/load"
	"mpcverif/internal/report"
)

// RetainedCallerSlices: a value a function hands back does not keep the caller's slice.
//
// The pure helper functions of the OT (build a choice bundle, then decrypt with it) are separate steps of
// a resumable protocol: between them the application serialises the state, or clears and reuses its
// buffers.  A result that holds the caller's slice by reference changes when the caller's buffer does —
// the bundle's choice bits are wiped, the later step picks the other ciphertext and returns a pseudo-random
// label without an error.  In the exported functions of the package, a slice parameter (or a re-slice of
// one) is not stored into a struct that the function returns; a copy is.
func RetainedCallerSlices(pkgs ...string) func(p *load.Program, run *report.Run) {
	return func(p *load.Program, run *report.Run) {
		const rule = "result-keeps-no-caller-slice"
		run.Rule(rule, "in "+strings.Join(pkgs, ", ")+": in every exported function without a receiver that returns a struct or a pointer to one, no field of the returned value is assigned a slice parameter of the function or a re-slice of one (append([]T(nil), p...), copy into a make, or a clone are copies); with built-in examples")
		want := map[string]bool{}
		for _, rel := range pkgs {
			want[load.Module+"/"+rel] = true
		}
		var fns []*ssa.Function
		for _, fn := range p.AllFunctions() {
			if fn.Pkg == nil || !want[fn.Pkg.Pkg.Path()] || fn.Blocks == nil || fn.Synthetic != "" || strings.HasSuffix(p.Fset.Position(fn.Pos()).Filename, "_test.go") {
				continue
			}
			fns = append(fns, fn)
		}
		sort.Slice(fns, func(i, j int) bool { return fns[i].Pos() < fns[j].Pos() })
		n, checked := 0, 0
		for _, fn := range fns {
			if fn.Signature.Recv() != nil || !token.IsExported(fn.Name()) || fn.Parent() != nil {
				continue
			}
			checked++
			for _, s := range retainedSlices(fn) {
				n++
				run.Violate(rule, strings.ReplaceAll(fn.RelString(nil), load.Module+"/", "")+"/"+s.field, p.Rel(s.pos), fmt.Sprintf("the returned value's field %s is the caller's slice %s itself: when the caller clears or reuses that buffer the returned value changes with it", s.field, s.param), nil)
			}
		}
		run.Count("exported-constructors", checked)
		run.Count("retained-caller-slices", n)
		run.Floor("exported-constructors", 10)
		if n == 0 {
			run.OK(rule, strings.Join(pkgs, "+"), "", fmt.Sprintf("%d exported functions, none stores a slice parameter into what it returns", checked))
		}
		look, err := buildExample(retainedSliceExample)
		if err != nil {
			run.Undecided(rule, "built-in example", "", err.Error())
			return
		}
		kept, copied := look("BuildKept"), look("BuildCopied")
		if kept == nil || copied == nil || len(retainedSlices(kept)) != 1 || len(retainedSlices(copied)) != 0 {
			run.Undecided(rule, "built-in example", "", "the rule misclassifies its built-in example")
			return
		}
		run.Count("retained-slice-examples", 2)
		run.OK(rule, "built-in examples", "", "a bundle holding the caller's bits reported, one holding a copy accepted")
		run.Floor("retained-slice-examples", 2)
	}
}

type retainedSlice struct {
	field, param string
	pos          token.Pos
}

func retainedSlices(fn *ssa.Function) []retainedSlice {
	// the objects the function returns: allocations reaching a return (directly, or loaded for a by-value return)
	returned := map[ssa.Value]bool{}
	for _, b := range fn.Blocks {
		ret, ok := b.Instrs[len(b.Instrs)-1].(*ssa.Return)
		if !ok {
			continue
		}
		for _, r := range ret.Results {
			v := r
			for d := 0; d < 4; d++ {
				switch t := v.(type) {
				case *ssa.UnOp:
					if t.Op == token.MUL {
						v = t.X
						continue
					}
				case *ssa.MakeInterface:
					v = t.X
					continue
				}
				break
			}
			if al, ok := v.(*ssa.Alloc); ok {
				returned[al] = true
			}
		}
	}
	var out []retainedSlice
	paramOf := func(v ssa.Value) *ssa.Parameter {
		for d := 0; d < 4; d++ {
			switch t := v.(type) {
			case *ssa.Parameter:
				if _, isSlice := t.Type().Underlying().(*types.Slice); isSlice {
					return t
				}
				return nil
			case *ssa.Slice:
				v = t.X
				continue
			}
			break
		}
		return nil
	}
	for _, b := range fn.Blocks {
		for _, ins := range b.Instrs {
			st, ok := ins.(*ssa.Store)
			if !ok {
				continue
			}
			fa, ok := st.Addr.(*ssa.FieldAddr)
			if !ok || !returned[fa.X] {
				continue
			}
			if prm := paramOf(st.Val); prm != nil {
				out = append(out, retainedSlice{structFieldName(fa.X.Type(), fa.Field), prm.Name(), st.Pos()})
			}
		}
	}
	return out
}

const retainedSliceExample = `package example

type Bundle struct {
	Bits []bool
	N    int
}

func BuildKept(bits []bool) (*Bundle, error) {
	return &Bundle{Bits: bits, N: len(bits)}, nil
}

func BuildCopied(bits []bool) (*Bundle, error) {
	return &Bundle{Bits: append([]bool(nil), bits...), N: len(bits)}, nil
}
`
