package props

import (
	"fmt"
	"go/token"
	"sort"
	"strings"

	"golang.org/x/tools/go/ssa"

	"mpcverif/internal/load"
	"mpcverif/internal/report"
)

// RSAMaskDomain: the RSA OT blinds and unblinds a message in one and the same domain.
//
// The sender transfers m' = m + k, the receiver recovers m = m' - k, with k the blinding value both derived.
// That round trip is the identity over the integers, and over Z_N when both ends reduce with the
// non-negative residue.  It is not when only one end reduces (m + k >= N wraps at the sender and the
// receiver's plain difference is negative: its bytes are those of |m' - k|), and it is not when the
// difference is reduced with the truncated remainder (big.Int.Rem keeps the sign of a negative
// difference).  The rule reads every big-integer expression whose bytes the RSA OT sends or parses, through
// the helpers of ot and ot/mpint, as a term over add, sub, mod, rem, and compares the blinding terms with the
// unblinding terms.
func RSAMaskDomain(p *load.Program, run *report.Run) {
	const rule = "rsa-blinding-one-domain"
	run.Rule(rule, "in package ot: every value whose Bytes() are taken and that is, through the helpers of ot and ot/mpint (read from their bodies: big.Int Add, Sub, Mod, Rem, Exp), a sum add(m,k) or a difference sub(m',k), possibly reduced: all sums have one form, all differences have one form, the sums are reduced modulo N exactly when the differences are, and no difference is reduced with Rem; with built-in examples")
	var fns []*ssa.Function
	for _, fn := range p.AllFunctions() {
		if fn.Pkg == nil || fn.Pkg.Pkg.Path() != load.Module+"/ot" || fn.Blocks == nil || fn.Synthetic != "" || strings.HasSuffix(p.Fset.Position(fn.Pos()).Filename, "_test.go") {
			continue
		}
		fns = append(fns, fn)
	}
	sort.Slice(fns, func(i, j int) bool { return fns[i].Pos() < fns[j].Pos() })
	sites := rsaMaskSites(fns)
	run.Count("rsa-blinding-sites", len(sites))
	run.Floor("rsa-blinding-sites", 6)
	for _, v := range rsaMaskVerdict(sites) {
		if v.bad {
			run.Violate(rule, "ot/"+v.key, p.Rel(v.site.pos), v.msg, nil)
		} else {
			run.OK(rule, "ot/"+v.key, p.Rel(v.site.pos), v.msg)
		}
	}
	look, err := buildExample(rsaMaskExample)
	if err != nil {
		run.Undecided(rule, "built-in example", "", err.Error())
		return
	}
	verdict := func(names ...string) string {
		var fs []*ssa.Function
		for _, f := range exampleFuncsOf(look, "anchor") {
			for _, n := range names {
				if f.Name() == n {
					fs = append(fs, f)
				}
			}
		}
		out := ""
		for _, v := range rsaMaskVerdict(rsaMaskSites(fs)) {
			if v.bad {
				out += "x"
			} else {
				out += "o"
			}
		}
		return out
	}
	a, b, c, d := verdict("maskPlain", "unmaskPlain"), verdict("maskMod", "unmaskMod"), verdict("maskMod", "unmaskPlain"), verdict("maskMod", "unmaskRem")
	if a != "oo" || b != "oo" || !strings.Contains(c, "x") || !strings.Contains(d, "x") {
		run.Undecided(rule, "built-in example", "", fmt.Sprintf("the rule misclassifies its built-in example (%s %s %s %s)", a, b, c, d))
		return
	}
	run.Count("rsa-blinding-examples", 4)
	run.OK(rule, "built-in examples", "", "plain/plain and mod/mod accepted; mod/plain and a difference reduced with Rem reported")
	run.Floor("rsa-blinding-examples", 4)
}

type rsaMaskSite struct {
	fn   string
	term string
	pos  token.Pos
}

type rsaMaskResult struct {
	site rsaMaskSite
	key  string
	msg  string
	bad  bool
}

// rsaTerm reads v as a term over add, sub, mod, rem; anything else is the leaf "·".
func rsaTerm(v ssa.Value, env map[*ssa.Parameter]string, depth int) string {
	if depth > 8 {
		return "·"
	}
	switch t := v.(type) {
	case *ssa.Parameter:
		if s, ok := env[t]; ok {
			return s
		}
	case *ssa.Call:
		callee := t.Call.StaticCallee()
		if callee == nil {
			return "·"
		}
		args := t.Call.Args
		if callee.Signature.Recv() != nil && strings.HasSuffix(callee.Signature.Recv().Type().String(), ".Int") {
			switch callee.Name() {
			case "Add":
				if len(args) == 3 {
					return "add(" + rsaTerm(args[1], env, depth+1) + "," + rsaTerm(args[2], env, depth+1) + ")"
				}
			case "Sub":
				if len(args) == 3 {
					return "sub(" + rsaTerm(args[1], env, depth+1) + "," + rsaTerm(args[2], env, depth+1) + ")"
				}
			case "Mod":
				if len(args) == 3 {
					return "mod(" + rsaTerm(args[1], env, depth+1) + ")"
				}
			case "Rem":
				if len(args) == 3 {
					return "rem(" + rsaTerm(args[1], env, depth+1) + ")"
				}
			case "Exp":
				if len(args) == 4 {
					return "exp(" + rsaTerm(args[1], env, depth+1) + ")"
				}
			case "Set":
				if len(args) == 2 {
					return rsaTerm(args[1], env, depth+1)
				}
			}
			return "·"
		}
		// a helper of the module with one result: its return value with the arguments put in
		if callee.Blocks != nil && callee.Pkg != nil && (load.InModule(callee) || callee.Pkg.Pkg.Path() == "example") && callee.Signature.Results().Len() == 1 {
			inner := map[*ssa.Parameter]string{}
			for i, prm := range callee.Params {
				if i < len(args) {
					inner[prm] = rsaTerm(args[i], env, depth+1)
				}
			}
			out := ""
			for _, b := range callee.Blocks {
				if ret, ok := b.Instrs[len(b.Instrs)-1].(*ssa.Return); ok {
					s := rsaTerm(load.Results(ret)[0], inner, depth+1)
					if out != "" && out != s {
						return "·"
					}
					out = s
				}
			}
			if out != "" {
				return out
			}
		}
	}
	return "·"
}

func rsaMaskSites(fns []*ssa.Function) []rsaMaskSite {
	var out []rsaMaskSite
	for _, fn := range fns {
		for _, b := range fn.Blocks {
			for _, ins := range b.Instrs {
				c, ok := ins.(*ssa.Call)
				if !ok || c.Call.StaticCallee() == nil || c.Call.StaticCallee().Name() != "Bytes" || len(c.Call.Args) != 1 {
					continue
				}
				term := rsaTerm(c.Call.Args[0], map[*ssa.Parameter]string{}, 0)
				shape := rsaShape(term)
				if shape == "" {
					continue
				}
				out = append(out, rsaMaskSite{fn.Name(), shape, c.Pos()})
			}
		}
	}
	return out
}

// rsaShape keeps the outer operators of a term down to its first add or sub: "add", "mod(add)", "rem(sub)", …
func rsaShape(term string) string {
	shape, rest, closers := "", term, ""
	for {
		switch {
		case strings.HasPrefix(rest, "mod("):
			shape += "mod("
			closers += ")"
			rest = rest[4:]
		case strings.HasPrefix(rest, "rem("):
			shape += "rem("
			closers += ")"
			rest = rest[4:]
		case strings.HasPrefix(rest, "add("), strings.HasPrefix(rest, "sub("):
			// the sum with a power of a fresh random value is the receiver's blinded query, not a blinded message
			if strings.Contains(rest, "exp(·)") {
				return ""
			}
			return shape + rest[:3] + closers
		default:
			return ""
		}
	}
}

func rsaMaskVerdict(sites []rsaMaskSite) []rsaMaskResult {
	var out []rsaMaskResult
	sums, diffs := map[string]bool{}, map[string]bool{}
	for _, s := range sites {
		if strings.Contains(s.term, "add") {
			sums[s.term] = true
		} else {
			diffs[s.term] = true
		}
	}
	list := func(m map[string]bool) string {
		var ks []string
		for k := range m {
			ks = append(ks, k)
		}
		sort.Strings(ks)
		return strings.Join(ks, ", ")
	}
	nth := map[string]int{}
	for _, s := range sites {
		nth[s.fn]++
		key := fmt.Sprintf("%s/%s#%d", s.fn, map[bool]string{true: "blind", false: "unblind"}[strings.Contains(s.term, "add")], nth[s.fn])
		r := rsaMaskResult{site: s, key: key, msg: s.term}
		isSum := strings.Contains(s.term, "add")
		reduced := s.term != "add" && s.term != "sub"
		switch {
		case !isSum && strings.Contains(s.term, "rem("):
			r.bad = true
			r.msg = "the difference m' - k is reduced with Rem, which keeps the sign of a negative difference: for m' < k the receiver parses the bytes of a negative number's magnitude instead of the message"
		case isSum && len(sums) > 1:
			r.bad = true
			r.msg = "the blinding sums of the RSA OT have different forms (" + list(sums) + ")"
		case !isSum && len(diffs) > 1:
			r.bad = true
			r.msg = "the unblinding differences of the RSA OT have different forms (" + list(diffs) + ")"
		case isSum && len(diffs) > 0 && reduced != (list(diffs) != "sub"), !isSum && len(sums) > 0 && reduced != (list(sums) != "add"):
			r.bad = true
			r.msg = "one end works modulo N and the other over the integers (blinding " + list(sums) + ", unblinding " + list(diffs) + "): when m + k passes N the receiver's difference is not the message"
		}
		out = append(out, r)
	}
	return out
}

const rsaMaskExample = `package example

func anchor() {}

type Int struct{ v int }

func (z *Int) Bytes() []byte       { return []byte{byte(z.v)} }
func (z *Int) Add(x, y *Int) *Int { z.v = x.v + y.v; return z }
func (z *Int) Sub(x, y *Int) *Int { z.v = x.v - y.v; return z }
func (z *Int) Mod(x, y *Int) *Int { z.v = ((x.v % y.v) + y.v) % y.v; return z }
func (z *Int) Rem(x, y *Int) *Int { z.v = x.v % y.v; return z }

func Add(a, b *Int) *Int { return new(Int).Add(a, b) }
func Sub(a, b *Int) *Int { return new(Int).Sub(a, b) }
func Mod(a, n *Int) *Int { return new(Int).Mod(a, n) }
func Rem(a, n *Int) *Int {
	z := new(Int).Set(a)
	return z.Rem(z, n)
}
func (z *Int) Set(x *Int) *Int { z.v = x.v; return z }

func maskPlain(m, k, n *Int) []byte   { return Add(m, k).Bytes() }
func unmaskPlain(m, k, n *Int) []byte { return Sub(m, k).Bytes() }
func maskMod(m, k, n *Int) []byte     { return Mod(Add(m, k), n).Bytes() }
func unmaskMod(m, k, n *Int) []byte   { return Mod(Sub(m, k), n).Bytes() }
func unmaskRem(m, k, n *Int) []byte   { return Rem(Sub(m, k), n).Bytes() }
`
