package props

import (
	"fmt"
	"go/types"
	"sort"
	"strings"

	"golang.org/x/tools/go/ssa"

	"mpcverif/internal/load"
	"mpcverif/internal/report"
)

// ScratchListedTwice: a scratch buffer that lives across the iterations of a loop is not put into a list once
// per iteration.
//
// `list = append(list, buf[:n])` inside a loop, with buf declared outside the loop (or carried round it and
// only replaced when too small), puts the same memory into the list every time: the second iteration
// overwrites what the first listed.  The streamer's operand prelude is such a loop — one entry of `wires` per
// operand of an instruction — and with one shared buffer for width-cast constants an instruction with two
// such operands sees the second constant twice (`phi c $1 $2` always yields $2).  A buffer chosen by the
// loop's own index (`bufs[i][:n]`), a window that moves with the iteration (`buf[lo:hi]`), or a fresh
// allocation per iteration are distinct memory and are accepted.
func ScratchListedTwice(pkgs ...string) func(p *load.Program, run *report.Run) {
	return func(p *load.Program, run *report.Run) {
		const rule = "scratch-not-listed-twice"
		run.Rule(rule, "in packages "+strings.Join(pkgs, ", ")+" (tests excluded): no append(list, x) inside a loop where x is a slice expression from offset 0 of a buffer that is the same in every iteration of that loop (a value defined outside the loop, or a loop-carried variable), and elements of x are stored in the loop; with built-in examples")
		n := 0
		for _, name := range pkgs {
			pkg, err := p.Pkg(name)
			if err != nil {
				run.Undecided(rule, name, "", err.Error())
				continue
			}
			var fns []*ssa.Function
			for _, fn := range p.AllFunctions() {
				if fn.Pkg == pkg && fn.Blocks != nil && fn.Synthetic == "" && !strings.HasSuffix(p.Fset.Position(fn.Pos()).Filename, "_test.go") {
					fns = append(fns, fn)
				}
			}
			sort.Slice(fns, func(i, j int) bool { return fns[i].Pos() < fns[j].Pos() })
			for _, fn := range fns {
				sites, bad := scratchListed(fn)
				n += sites
				for _, b := range bad {
					run.Violate(rule, strings.ReplaceAll(fn.RelString(nil), load.Module+"/", "")+"/append", p.Rel(b.Pos()), "the slice appended to the list in this loop starts at offset 0 of a buffer that is the same in every iteration, and the loop writes its elements: all entries listed by the loop share one memory and hold what the last iteration wrote", nil)
				}
			}
		}
		run.Count("slice-list-appends-in-loops", n)
		run.Floor("slice-list-appends-in-loops", 3)
		run.OK(rule, strings.Join(pkgs, ","), "", fmt.Sprintf("%d appends of slices to lists inside loops examined", n))
		look, err := buildExample(scratchListedExample)
		if err != nil {
			run.Undecided(rule, "built-in example", "", err.Error())
			return
		}
		got := map[string]int{}
		for _, f := range exampleFuncsOf(look, "anchor") {
			_, bad := scratchListed(f)
			got[f.Name()] = len(bad)
		}
		if got["shared"] != 1 || got["perOperand"] != 0 || got["fresh"] != 0 || got["windows"] != 0 {
			run.Undecided(rule, "built-in example", "", fmt.Sprintf("the rule misclassifies its built-in example (%v)", got))
			return
		}
		run.Count("scratch-list-examples", 4)
		run.OK(rule, "built-in examples", "", "one shared scratch listed per iteration reported; a scratch per index, a fresh buffer and moving windows accepted")
		run.Floor("scratch-list-examples", 4)
	}
}

func scratchListed(fn *ssa.Function) (sites int, bad []*ssa.Call) {
	inLoop := func(h, b *ssa.BasicBlock) bool {
		// b is in the natural loop of header h
		if !h.Dominates(b) {
			return false
		}
		seen := map[*ssa.BasicBlock]bool{}
		stack := []*ssa.BasicBlock{b}
		for len(stack) > 0 {
			x := stack[len(stack)-1]
			stack = stack[:len(stack)-1]
			if seen[x] {
				continue
			}
			seen[x] = true
			for _, s := range x.Succs {
				if s == h {
					return true
				}
				if h.Dominates(s) {
					stack = append(stack, s)
				}
			}
		}
		return false
	}
	var headers []*ssa.BasicBlock
	for _, h := range fn.Blocks {
		for _, pr := range h.Preds {
			if h.Dominates(pr) {
				headers = append(headers, h)
				break
			}
		}
	}
	for _, b := range fn.Blocks {
		for _, ins := range b.Instrs {
			c, ok := ins.(*ssa.Call)
			if !ok {
				continue
			}
			bi, ok := c.Call.Value.(*ssa.Builtin)
			if !ok || bi.Name() != "append" || len(c.Call.Args) != 2 {
				continue
			}
			// append(list, x...) with the variadic part a one-element slice literal holding x
			lt, ok := c.Call.Args[0].Type().Underlying().(*types.Slice)
			if !ok {
				continue
			}
			if _, isSliceOfSlices := lt.Elem().Underlying().(*types.Slice); !isSliceOfSlices {
				continue
			}
			x := variadicSingle(c.Call.Args[1])
			if x == nil {
				continue
			}
			// the innermost loop containing the append
			var loop *ssa.BasicBlock
			for _, h := range headers {
				if inLoop(h, b) && (loop == nil || loop.Dominates(h)) {
					loop = h
				}
			}
			if loop == nil {
				continue
			}
			sites++
			sl, ok := x.(*ssa.Slice)
			if !ok {
				continue
			}
			if sl.Low != nil {
				if k, isC := sl.Low.(*ssa.Const); !isC || k.Int64() != 0 {
					continue // a window that need not start at the same place
				}
			}
			base := sl.X
			same := false
			switch t := base.(type) {
			case *ssa.Phi:
				// carried round this loop (or an enclosing one)
				same = t.Block() == loop || t.Block().Dominates(loop)
				if t.Block() != loop && inLoop(loop, t.Block()) {
					// a merge inside the body: the same buffer if one of its edges is loop-carried
					for _, e := range t.Edges {
						if ph, ok := e.(*ssa.Phi); ok && (ph.Block() == loop || ph.Block().Dominates(loop)) {
							same = true
						}
					}
				}
			case *ssa.UnOp:
				// a load of a cell that is not addressed by anything varying in the loop
				if al, ok := t.X.(*ssa.Alloc); ok && !inLoop(loop, al.Block()) {
					same = true
				}
			case *ssa.Parameter, *ssa.FreeVar:
				same = true
			default:
				if v, ok := base.(ssa.Instruction); ok && !inLoop(loop, v.Block()) {
					same = true
				}
			}
			if !same {
				continue
			}
			// the loop stores elements of x
			written := false
			for _, lb := range fn.Blocks {
				if !inLoop(loop, lb) && lb != loop {
					continue
				}
				for _, li := range lb.Instrs {
					if st, ok := li.(*ssa.Store); ok {
						if ia, ok := st.Addr.(*ssa.IndexAddr); ok && ia.X == ssa.Value(sl) {
							written = true
						}
					}
				}
			}
			if written {
				bad = append(bad, c)
			}
		}
	}
	return sites, bad
}

// variadicSingle: v is the slice `[]T{x}` built for a variadic call with one argument; returns x.
func variadicSingle(v ssa.Value) ssa.Value {
	sl, ok := v.(*ssa.Slice)
	if !ok {
		return nil
	}
	al, ok := sl.X.(*ssa.Alloc)
	if !ok || al.Referrers() == nil {
		return nil
	}
	var out ssa.Value
	n := 0
	for _, rf := range *al.Referrers() {
		ia, ok := rf.(*ssa.IndexAddr)
		if !ok || ia.Referrers() == nil {
			continue
		}
		for _, r2 := range *ia.Referrers() {
			if st, ok := r2.(*ssa.Store); ok && st.Addr == ssa.Value(ia) {
				out = st.Val
				n++
			}
		}
	}
	if n != 1 {
		return nil
	}
	return out
}

const scratchListedExample = `package example

func anchor() {}

func shared(ops [][]int) [][]int {
	var list [][]int
	var scratch []int
	for _, op := range ops {
		if cap(scratch) < len(op)+1 {
			scratch = make([]int, len(op)+1)
		}
		cw := scratch[:len(op)+1]
		for j := range op {
			cw[j] = op[j]
		}
		list = append(list, cw)
	}
	return list
}

func perOperand(ops [][]int) [][]int {
	var list, scratch [][]int
	for i, op := range ops {
		for len(scratch) <= i {
			scratch = append(scratch, nil)
		}
		if cap(scratch[i]) < len(op)+1 {
			scratch[i] = make([]int, len(op)+1)
		}
		cw := scratch[i][:len(op)+1]
		for j := range op {
			cw[j] = op[j]
		}
		list = append(list, cw)
	}
	return list
}

func fresh(ops [][]int) [][]int {
	var list [][]int
	for _, op := range ops {
		cw := make([]int, len(op)+1)
		for j := range op {
			cw[j] = op[j]
		}
		list = append(list, cw)
	}
	return list
}

func windows(buf []int, n int) [][]int {
	var list [][]int
	for i := 0; i+n <= len(buf); i += n {
		w := buf[i : i+n]
		w[0] = i
		list = append(list, w)
	}
	return list
}
`
