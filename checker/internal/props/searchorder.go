package props

import (
	"go/ast"
	"go/types"
	"strings"

	"mpcverif/internal/dispatch"
	"mpcverif/internal/load"
	"mpcverif/internal/report"
)

// SearchOrderConfigured: which package a name resolves to depends on the configuration, not on directory names.
//
// Compiler.parsePkg tries the package root and then the directories of Params.PkgPath, in that order; the
// first directory that holds the package wins.  Both parties compile the same program with the same
// parameters and must get the same circuit; where their installations live is not a parameter.  Sorting the
// list of directories (to de-duplicate it, say) makes the winner depend on how the absolute directory names
// compare: an overlay directory shadows the package root on one machine and not on the other.
func SearchOrderConfigured(p *load.Program, run *report.Run) {
	const rule = "package-search-order-as-configured"
	run.Rule(rule, "in compiler.Compiler.parsePkg the slice ranged over by the loop that tries the directories (the loop calling tryParsePkg, or any loop over a []string built from Params.PkgPath) is not handed to a sorting function (sort.*, slices.Sort*) anywhere in the function")
	pkg, fd := dispatch.FindFunc(p, "compiler", "Compiler", "parsePkg")
	if fd == nil {
		run.Undecided(rule, "compiler.Compiler.parsePkg", "", "function not found")
		return
	}
	var lists []string
	ast.Inspect(fd.Body, func(n ast.Node) bool {
		r, ok := n.(*ast.RangeStmt)
		if !ok {
			return true
		}
		if t := pkg.TypesInfo.TypeOf(r.X); t != nil {
			if sl, ok := t.Underlying().(*types.Slice); ok {
				if b, ok := sl.Elem().Underlying().(*types.Basic); ok && b.Kind() == types.String {
					lists = append(lists, types.ExprString(r.X))
				}
			}
		}
		return true
	})
	run.Count("directory-loops", len(lists))
	run.Floor("directory-loops", 1)
	bad := ""
	ast.Inspect(fd.Body, func(n ast.Node) bool {
		c, ok := n.(*ast.CallExpr)
		if !ok || len(c.Args) == 0 {
			return true
		}
		f := types.ExprString(c.Fun)
		if !strings.HasPrefix(f, "sort.") && !strings.HasPrefix(f, "slices.Sort") {
			return true
		}
		for _, l := range lists {
			if types.ExprString(c.Args[0]) == l {
				bad = p.Rel(c.Pos())
			}
		}
		return true
	})
	if bad != "" {
		run.Violate(rule, "compiler.Compiler.parsePkg", bad, "the list of directories searched for a package is sorted: the first hit wins, so which package is compiled depends on how the installations' directory names compare — two parties with the same program and parameters get different circuits", nil)
	} else {
		run.OK(rule, "compiler.Compiler.parsePkg", p.Rel(fd.Pos()), "the directories are tried in the configured order")
	}
	_ = load.Module
}
