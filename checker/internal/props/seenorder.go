package props

import (
	"fmt"
	"go/token"
	"sort"
	"strings"

	"golang.org/x/tools/go/ssa"

	"mpcverif/internal/load"
	"mpcverif/internal/report"
)

// SeenOrder: a gate's inputs are looked up before its output is marked.
//
// The parsers keep a table of the wires that have a value.  For every gate they look up the inputs (Get:
// must be set) and mark the output (Set: must not be set yet).  The two commute unless a gate names its
// own output as an input; with the output marked first such a gate passes the lookup, and the parser
// returns a circuit with a self-loop — a gate input that is not defined before use.  Within one iteration
// of the gate loop no lookup may follow a marking: from a call of Seen.Set no call of Seen.Get is reachable
// without passing the head of the loop that contains both.
func SeenOrder(p *load.Program, run *report.Run) {
	const rule = "inputs-looked-up-before-output-marked"
	run.Rule(rule, "in package circuit: in every function that calls both Seen.Get and Seen.Set inside one loop, no Seen.Get call is reachable from a Seen.Set call without passing the header of the innermost loop containing both (helpers that are handed the table are treated as the calls they make; a helper that is handed the table and does both outside any common loop is one iteration as a whole); with built-in examples")
	var fns []*ssa.Function
	for _, fn := range p.AllFunctions() {
		if fn.Pkg == nil || fn.Pkg.Pkg.Path() != load.Module+"/circuit" || fn.Blocks == nil || fn.Synthetic != "" || strings.HasSuffix(p.Fset.Position(fn.Pos()).Filename, "_test.go") {
			continue
		}
		fns = append(fns, fn)
	}
	sort.Slice(fns, func(i, j int) bool { return fns[i].Pos() < fns[j].Pos() })
	n := 0
	for _, fn := range fns {
		v := seenOrderCheck(fn)
		if !v.applies {
			continue
		}
		n++
		key := strings.ReplaceAll(fn.RelString(nil), load.Module+"/", "")
		if v.why != "" {
			run.Violate(rule, key, p.Rel(v.pos), v.why, nil)
		} else {
			run.OK(rule, key, p.Rel(fn.Pos()), "lookups of the inputs come before the marking of the output in every iteration")
		}
	}
	run.Count("seen-table-loops", n)
	run.Floor("seen-table-loops", 1)
	look, err := buildExample(seenOrderExample)
	if err != nil {
		run.Undecided(rule, "built-in example", "", err.Error())
		return
	}
	g, b := seenOrderCheck(look("parseGood")), seenOrderCheck(look("parseBad"))
	var hg, hb seenOrderVerdict
	for _, f := range exampleFuncsOf(look, "parseGood") {
		switch f.Name() {
		case "define":
			hg = seenOrderCheck(f)
		case "defineBad":
			hb = seenOrderCheck(f)
		}
	}
	if !hg.applies || hg.why != "" || !hb.applies || hb.why == "" {
		run.Undecided(rule, "built-in example", "", fmt.Sprintf("the rule misclassifies the helpers of its built-in example (%v %q / %v %q)", hg.applies, hg.why, hb.applies, hb.why))
		return
	}
	if !g.applies || g.why != "" || !b.applies || b.why == "" {
		run.Undecided(rule, "built-in example", "", fmt.Sprintf("the rule misclassifies its built-in example (%v %q / %v %q)", g.applies, g.why, b.applies, b.why))
		return
	}
	run.Count("seen-order-examples", 4)
	run.OK(rule, "built-in examples", "", "inputs looked up first accepted; output marked first reported")
	run.Floor("seen-order-examples", 4)
}

type seenOrderVerdict struct {
	applies bool
	why     string
	pos     token.Pos
}

func seenOrderCheck(fn *ssa.Function) (out seenOrderVerdict) {
	if fn == nil {
		return
	}
	kindOf := func(ins ssa.Instruction, depth int) string { return "" }
	var kindRec func(ins ssa.Instruction, depth int) string
	kindRec = func(ins ssa.Instruction, depth int) string {
		c, ok := ins.(ssa.CallInstruction)
		if !ok {
			return ""
		}
		callee := c.Common().StaticCallee()
		if callee == nil {
			return ""
		}
		if callee.Signature.Recv() != nil && strings.HasSuffix(strings.TrimPrefix(callee.Signature.Recv().Type().String(), "*"), "Seen") {
			if callee.Name() == "Get" || callee.Name() == "Set" {
				return callee.Name()
			}
			// another method of the table is a helper that is handed it
		}
		// a helper of the package that is handed the table
		if depth < 2 && callee.Blocks != nil && callee.Pkg == fn.Pkg {
			handed := false
			for _, a := range c.Common().Args {
				if strings.HasSuffix(strings.TrimPrefix(a.Type().String(), "*"), "Seen") {
					handed = true
				}
			}
			if handed {
				g, s := false, false
				for _, b := range callee.Blocks {
					for _, x := range b.Instrs {
						switch kindRec(x, depth+1) {
						case "Get":
							g = true
						case "Set":
							s = true
						case "GetSet":
							g, s = true, true
						}
					}
				}
				switch {
				case g && s:
					return "GetSet"
				case g:
					return "Get"
				case s:
					return "Set"
				}
			}
		}
		return ""
	}
	kindOf = kindRec
	type site struct {
		ins  ssa.Instruction
		kind string
	}
	var gets, sets []site
	for _, b := range fn.Blocks {
		for _, ins := range b.Instrs {
			switch kindOf(ins, 0) {
			case "Get":
				gets = append(gets, site{ins, "Get"})
			case "Set":
				sets = append(sets, site{ins, "Set"})
			case "GetSet":
				// a helper that does both validates a whole gate: its own body is checked as a function
			}
		}
	}
	if len(gets) == 0 || len(sets) == 0 {
		return
	}
	// loop headers: blocks with a predecessor they dominate
	headerOf := func(x *ssa.BasicBlock) []*ssa.BasicBlock {
		var hs []*ssa.BasicBlock
		for _, h := range fn.Blocks {
			isHeader := false
			for _, p := range h.Preds {
				if h.Dominates(p) {
					isHeader = true
				}
			}
			if !isHeader || !h.Dominates(x) {
				continue
			}
			// x is in the loop of h if h is reachable from x
			seen := map[*ssa.BasicBlock]bool{}
			stack := []*ssa.BasicBlock{x}
			in := false
			for len(stack) > 0 && !in {
				y := stack[len(stack)-1]
				stack = stack[:len(stack)-1]
				if seen[y] {
					continue
				}
				seen[y] = true
				for _, s := range y.Succs {
					if s == h {
						in = true
					}
					if h.Dominates(s) {
						stack = append(stack, s)
					}
				}
			}
			if in {
				hs = append(hs, h)
			}
		}
		return hs
	}
	// a helper that is handed the table and does the lookups and the marking of one gate outside any common
	// loop: its whole body is one iteration
	helperMode := false
	for _, prm := range fn.Params {
		if strings.HasSuffix(strings.TrimPrefix(prm.Type().String(), "*"), "Seen") {
			helperMode = true
		}
	}
	if helperMode {
		for _, s := range sets {
			for _, g := range gets {
				hg := map[*ssa.BasicBlock]bool{}
				for _, h := range headerOf(g.ins.Block()) {
					hg[h] = true
				}
				for _, h := range headerOf(s.ins.Block()) {
					if hg[h] {
						helperMode = false
					}
				}
			}
		}
	}
	for _, s := range sets {
		for _, g := range gets {
			// innermost common loop header
			var common *ssa.BasicBlock
			hs := headerOf(s.ins.Block())
			hg := map[*ssa.BasicBlock]bool{}
			for _, h := range headerOf(g.ins.Block()) {
				hg[h] = true
			}
			for _, h := range hs {
				if hg[h] && (common == nil || common.Dominates(h)) {
					common = h
				}
			}
			if common == nil && !helperMode {
				continue
			}
			out.applies = true
			// is g reachable from s without passing common?
			reach := false
			if s.ins.Block() == g.ins.Block() && instrIndex(s.ins) < instrIndex(g.ins) {
				reach = true
			}
			seen := map[*ssa.BasicBlock]bool{}
			stack := append([]*ssa.BasicBlock{}, s.ins.Block().Succs...)
			for len(stack) > 0 && !reach {
				y := stack[len(stack)-1]
				stack = stack[:len(stack)-1]
				if seen[y] || y == common {
					continue
				}
				seen[y] = true
				if y == g.ins.Block() {
					reach = true
					break
				}
				stack = append(stack, y.Succs...)
			}
			if reach && out.why == "" {
				out.why = "a wire is marked as set (Seen.Set) before the lookups of the gate's inputs (Seen.Get) in the same iteration: a gate that names its own output as an input passes the lookup, and the parser returns a circuit with a gate input that is not defined before use"
				out.pos = s.ins.Pos()
			}
		}
	}
	return
}

const seenOrderExample = `package example

type Seen []bool

type failure struct{}

func (failure) Error() string { return "failed" }

func (s Seen) Get(i int) (bool, error) {
	if i >= len(s) {
		return false, failure{}
	}
	return s[i], nil
}

func (s Seen) Set(i int) error {
	if i >= len(s) || s[i] {
		return failure{}
	}
	s[i] = true
	return nil
}

func parseGood(lines [][3]int, seen Seen) error {
	for _, l := range lines {
		for _, in := range l[:2] {
			ok, err := seen.Get(in)
			if err != nil || !ok {
				return failure{}
			}
		}
		if err := seen.Set(l[2]); err != nil {
			return err
		}
	}
	return nil
}

func (s Seen) define(l [3]int) error {
	for _, in := range l[:2] {
		ok, err := s.Get(in)
		if err != nil || !ok {
			return failure{}
		}
	}
	return s.Set(l[2])
}

func (s Seen) defineBad(l [3]int) error {
	if err := s.Set(l[2]); err != nil {
		return err
	}
	for _, in := range l[:2] {
		ok, err := s.Get(in)
		if err != nil || !ok {
			return failure{}
		}
	}
	return nil
}

func parseVia(lines [][3]int, seen Seen) error {
	for _, l := range lines {
		if err := seen.define(l); err != nil {
			return err
		}
		if err := seen.defineBad(l); err != nil {
			return err
		}
	}
	return nil
}

func parseBad(lines [][3]int, seen Seen) error {
	for _, l := range lines {
		if err := seen.Set(l[2]); err != nil {
			return err
		}
		for _, in := range l[:2] {
			ok, err := seen.Get(in)
			if err != nil || !ok {
				return failure{}
			}
		}
	}
	return nil
}
`
