package props

import (
	"fmt"
	"go/token"
	"go/types"
	"sort"
	"strings"

	"golang.org/x/tools/go/ssa"

	"mpcverif/internal/load"
	"mpcverif/internal/report"
)

// SelectDrain: "closed" does not overtake what was written before the close.
//
// A reader that selects between its data queue and a closed-signal and answers the signal with io.EOF
// loses data: once the writer has queued its last blocks and closed, both cases are ready and select takes
// one at random — EOF can be reported while written blocks are still in the queue, and "closing delivers
// everything still buffered" fails in the runs where the scheduler picks the signal.  For every blocking
// select that receives from a data channel and from a signal channel (chan struct{}), both kept in fields:
// the branch taken for the signal may reach a return of io.EOF only through another receive from the data
// channel (a non-blocking drain).
func SelectDrain(pkgs ...string) func(p *load.Program, run *report.Run) {
	return func(p *load.Program, run *report.Run) {
		const rule = "eof-does-not-overtake-queued-data"
		run.Rule(rule, "in "+strings.Join(pkgs, ", ")+": in every blocking select with a receive from a data channel held in a field and a receive from a chan struct{} held in a field, a return whose error is io.EOF is reachable from the signal's case only through a further receive from the data channel; with built-in examples")
		want := map[string]bool{}
		for _, rel := range pkgs {
			want[load.Module+"/"+rel] = true
		}
		var fns []*ssa.Function
		for _, fn := range p.AllFunctions() {
			if fn.Pkg == nil || !want[fn.Pkg.Pkg.Path()] || fn.Blocks == nil || strings.HasSuffix(p.Fset.Position(fn.Pos()).Filename, "_test.go") {
				continue
			}
			fns = append(fns, fn)
		}
		sort.Slice(fns, func(i, j int) bool { return fns[i].Pos() < fns[j].Pos() })
		sel := 0
		for _, fn := range fns {
			n, bad := selectDrainCheck(fn)
			sel += n
			for _, b := range bad {
				run.Violate(rule, strings.ReplaceAll(fn.RelString(nil), load.Module+"/", "")+"/select", p.Rel(b.Pos()), "when the closed-signal and the data queue are both ready this select may take the signal and report io.EOF while written data is still queued: drain the queue (a non-blocking receive) before reporting the end", nil)
			}
		}
		run.Count("functions-scanned", len(fns))
		run.Count("queue-or-closed-selects", sel)
		if sel > 0 {
			run.OK(rule, "selects", "", fmt.Sprintf("%d selects over a data queue and a closed-signal examined", sel))
		}
		look, err := buildExample(selectDrainExample)
		if err != nil {
			run.Undecided(rule, "built-in example", "", err.Error())
			return
		}
		n1, b1 := selectDrainCheck(look("readLossy"))
		n2, b2 := selectDrainCheck(look("readDraining"))
		if n1 != 1 || n2 != 1 || len(b1) != 1 || len(b2) != 0 {
			run.Undecided(rule, "built-in example", "", fmt.Sprintf("the rule misclassifies its built-in examples (%d/%d selects, %d/%d reports)", n1, n2, len(b1), len(b2)))
			return
		}
		run.Count("select-drain-examples", 2)
		run.OK(rule, "built-in examples", "", "EOF straight from the signal case is reported, EOF after a non-blocking drain accepted")
		run.Floor("select-drain-examples", 2)
		run.Floor("functions-scanned", 20)
	}
}

func selectDrainCheck(fn *ssa.Function) (int, []ssa.Instruction) {
	if fn == nil {
		return 0, nil
	}
	isSignal := func(v ssa.Value) bool {
		ch, ok := v.Type().Underlying().(*types.Chan)
		if !ok {
			return false
		}
		st, ok := ch.Elem().Underlying().(*types.Struct)
		return ok && st.NumFields() == 0
	}
	recvOn := func(ins ssa.Instruction, key string) bool {
		switch t := ins.(type) {
		case *ssa.UnOp:
			return t.Op == token.ARROW && condKey(t.X) == key
		case *ssa.Select:
			for _, st := range t.States {
				if st.Dir == types.RecvOnly && condKey(st.Chan) == key {
					return true
				}
			}
		}
		return false
	}
	returnsEOF := func(b *ssa.BasicBlock) bool {
		r, ok := b.Instrs[len(b.Instrs)-1].(*ssa.Return)
		if !ok {
			return false
		}
		rs := load.Results(r)
		if len(rs) == 0 {
			return false
		}
		v := rs[len(rs)-1]
		if ld, ok := v.(*ssa.UnOp); ok && ld.Op == token.MUL {
			if g, ok := ld.X.(*ssa.Global); ok && g.Name() == "EOF" {
				return true
			}
		}
		if mi, ok := v.(*ssa.MakeInterface); ok {
			_ = mi
		}
		return false
	}
	n := 0
	var bad []ssa.Instruction
	for _, b := range fn.Blocks {
		for _, ins := range b.Instrs {
			sel, ok := ins.(*ssa.Select)
			if !ok || !sel.Blocking {
				continue
			}
			dataKey, sigIdx := "", -1
			for i, st := range sel.States {
				if st.Dir != types.RecvOnly {
					continue
				}
				k := condKey(st.Chan)
				if k == "" {
					continue
				}
				if isSignal(st.Chan) {
					sigIdx = i
				} else {
					dataKey = k
				}
			}
			if dataKey == "" || sigIdx < 0 {
				continue
			}
			n++
			// the branch of the signal case: index == sigIdx
			var start *ssa.BasicBlock
			if sel.Referrers() != nil {
				for _, r := range *sel.Referrers() {
					ex, ok := r.(*ssa.Extract)
					if !ok || ex.Index != 0 || ex.Referrers() == nil {
						continue
					}
					for _, r2 := range *ex.Referrers() {
						bo, ok := r2.(*ssa.BinOp)
						if !ok || bo.Op != token.EQL || bo.Referrers() == nil {
							continue
						}
						if k, ok := bo.Y.(*ssa.Const); !ok || k.Value == nil || k.Int64() != int64(sigIdx) {
							continue
						}
						for _, r3 := range *bo.Referrers() {
							if iff, ok := r3.(*ssa.If); ok {
								start = iff.Block().Succs[0]
							}
						}
					}
				}
			}
			if start == nil {
				// the last case is the fall-through of the comparison chain: the block no other index selects
				continue
			}
			// reach a return of io.EOF from start without passing a receive on the data channel
			seen := map[*ssa.BasicBlock]bool{}
			stack := []*ssa.BasicBlock{start}
			lossy := false
			for len(stack) > 0 && !lossy {
				x := stack[len(stack)-1]
				stack = stack[:len(stack)-1]
				if seen[x] {
					continue
				}
				seen[x] = true
				drained := false
				for _, i2 := range x.Instrs {
					if i2 != ssa.Instruction(sel) && recvOn(i2, dataKey) {
						drained = true
					}
				}
				if drained {
					continue
				}
				if returnsEOF(x) {
					lossy = true
				}
				stack = append(stack, x.Succs...)
			}
			if lossy {
				bad = append(bad, ins)
			}
		}
	}
	return n, bad
}

const selectDrainExample = `package example

type errT struct{}

func (errT) Error() string { return "EOF" }

var EOF error = errT{}

type queue struct {
	blocks chan []byte
	done   chan struct{}
}

func readLossy(q *queue) ([]byte, error) {
	select {
	case b := <-q.blocks:
		return b, nil
	case <-q.done:
		return nil, EOF
	}
}

func readDraining(q *queue) ([]byte, error) {
	select {
	case b := <-q.blocks:
		return b, nil
	case <-q.done:
		select {
		case b := <-q.blocks:
			return b, nil
		default:
		}
		return nil, EOF
	}
}
`
