package props

import (
	"fmt"
	"go/ast"
	"go/token"
	"go/types"
	"strings"

	"mpcverif/internal/load"
	"mpcverif/internal/report"
)

// SharedInfoImmutable: a process-wide table of type infos holds only infos nobody specifies in place.
//
// Two compilations in one process (a server compiling for several sessions, the evaluator of apps/garbled) must
// not see each other.  A package-level table that interns `*Info` values and hands the same pointer to every
// array type with that element makes the pointee process-wide state.  `Info.Instantiate` specifies an
// unspecified element type *through* that pointer (`i.ElementType.Instantiate(...)`, guarded by
// `!i.ElementType.Concrete()`).  So the table may hold concrete infos only: the function that fills it has to
// return a fresh copy for everything the in-place writes can reach.  Otherwise the first instantiation of
// `[]int` fixes the element width for every later compilation in the process.
func SharedInfoImmutable(p *load.Program, run *report.Run) {
	const rule = "interned-infos-are-concrete"
	run.Rule(rule, "in package types: if a package-level map or slice holds *Info values that a function hands out, every call of a pointer-receiver method of Info (or store) through an Info's pointer field is guarded by `!<field>.Concrete()`, Concrete() returns the IsConcrete field, and the handing-out function returns a fresh copy (before it touches the table) under a condition that has `!<receiver>.IsConcrete` as a disjunct")
	pkg := p.ByPath[load.Module+"/types"]
	if pkg == nil {
		run.Undecided(rule, "types", "", "package not loaded")
		return
	}
	info := pkg.TypesInfo
	isInfoPtr := func(t types.Type) bool {
		pt, ok := t.(*types.Pointer)
		if !ok {
			return false
		}
		nt, ok := pt.Elem().(*types.Named)
		return ok && nt.Obj().Name() == "Info"
	}
	// package-level tables of *Info
	tables := map[string]bool{}
	for _, f := range pkg.Syntax {
		if strings.HasSuffix(p.Fset.Position(f.Pos()).Filename, "_test.go") {
			continue
		}
		for _, d := range f.Decls {
			gd, ok := d.(*ast.GenDecl)
			if !ok || gd.Tok != token.VAR {
				continue
			}
			for _, sp := range gd.Specs {
				vs := sp.(*ast.ValueSpec)
				for _, nm := range vs.Names {
					switch t := info.TypeOf(nm).Underlying().(type) {
					case *types.Map:
						if isInfoPtr(t.Elem()) {
							tables[nm.Name] = true
						}
					case *types.Slice:
						if isInfoPtr(t.Elem()) {
							tables[nm.Name] = true
						}
					}
				}
			}
		}
	}
	run.Count("process-wide-info-tables", len(tables))
	if len(tables) == 0 {
		run.OK(rule, "types", "", "no process-wide table of *Info: every array type owns its element info")
		return
	}
	// the functions that use a table
	bad := ""
	checked := 0
	for _, f := range pkg.Syntax {
		for _, d := range f.Decls {
			fd, ok := d.(*ast.FuncDecl)
			if !ok || fd.Body == nil {
				continue
			}
			uses := false
			ast.Inspect(fd.Body, func(n ast.Node) bool {
				if id, ok := n.(*ast.Ident); ok && tables[id.Name] {
					if _, isVar := info.Uses[id].(*types.Var); isVar {
						uses = true
					}
				}
				return !uses
			})
			if !uses {
				continue
			}
			checked++
			recv := ""
			if fd.Recv != nil && len(fd.Recv.List) == 1 && len(fd.Recv.List[0].Names) == 1 {
				recv = fd.Recv.List[0].Names[0].Name
			}
			// early returns before the table is touched
			excluded := false
			for _, st := range fd.Body.List {
				touched := false
				ast.Inspect(st, func(n ast.Node) bool {
					if id, ok := n.(*ast.Ident); ok && tables[id.Name] {
						touched = true
					}
					return !touched
				})
				if touched {
					break
				}
				ast.Inspect(st, func(n ast.Node) bool {
					ifs, ok := n.(*ast.IfStmt)
					if !ok {
						return true
					}
					returns := false
					for _, b := range ifs.Body.List {
						if _, ok := b.(*ast.ReturnStmt); ok {
							returns = true
						}
					}
					if !returns {
						return true
					}
					for _, c := range conjunctExprs(ifs.Cond, token.LOR) {
						if u, ok := ast.Unparen(c).(*ast.UnaryExpr); ok && u.Op == token.NOT {
							if s := types.ExprString(ast.Unparen(u.X)); s == recv+".IsConcrete" || s == recv+".Concrete()" {
								excluded = true
							}
						}
					}
					return true
				})
			}
			if !excluded {
				bad = fmt.Sprintf("%s enters infos into the process-wide table %v without first returning a fresh copy for infos that are not concrete: Instantiate specifies such an info in place through the shared pointer, so the first instantiation in a process decides the element width for every later compilation", fd.Name.Name, keysOf(tables))
				run.Violate(rule, "types."+fd.Name.Name, p.Rel(fd.Pos()), bad, nil)
			} else {
				run.OK(rule, "types."+fd.Name.Name, p.Rel(fd.Pos()), "infos that are not concrete are never shared")
			}
		}
	}
	// the in-place writes are guarded by !Concrete(), and Concrete() is the IsConcrete field
	guarded, unguarded := 0, ""
	for _, f := range pkg.Syntax {
		for _, d := range f.Decls {
			fd, ok := d.(*ast.FuncDecl)
			if !ok || fd.Body == nil {
				continue
			}
			var stack []ast.Node
			ast.Inspect(fd.Body, func(n ast.Node) bool {
				if n == nil {
					stack = stack[:len(stack)-1]
					return true
				}
				stack = append(stack, n)
				c, ok := n.(*ast.CallExpr)
				if !ok {
					return true
				}
				sel, ok := c.Fun.(*ast.SelectorExpr)
				if !ok {
					return true
				}
				inner, ok := ast.Unparen(sel.X).(*ast.SelectorExpr)
				if !ok || !isInfoPtr(info.TypeOf(inner)) {
					return true
				}
				fo, ok := info.Uses[sel.Sel].(*types.Func)
				if !ok {
					return true
				}
				sig := fo.Type().(*types.Signature)
				if sig.Recv() == nil {
					return true
				}
				if _, ptr := sig.Recv().Type().(*types.Pointer); !ptr {
					return true
				}
				// guarded by !<inner>.Concrete() in an enclosing && chain or if
				want := "!" + types.ExprString(inner) + ".Concrete()"
				ok2 := false
				for _, anc := range stack {
					switch a := anc.(type) {
					case *ast.BinaryExpr:
						for _, cj := range conjunctExprs(a, token.LAND) {
							if types.ExprString(cj) == want {
								ok2 = true
							}
						}
					case *ast.IfStmt:
						for _, cj := range conjunctExprs(a.Cond, token.LAND) {
							if types.ExprString(cj) == want {
								ok2 = true
							}
						}
					}
				}
				if ok2 {
					guarded++
				} else {
					unguarded = p.Rel(c.Pos())
				}
				return true
			})
		}
	}
	run.Count("writes-through-info-pointers", guarded)
	switch {
	case unguarded != "":
		run.Violate(rule, "types/writes through *Info fields", unguarded, "an Info is changed through a pointer field without the test that it is not concrete, while infos are shared through a process-wide table", nil)
	case checked > 0:
		run.OK(rule, "types/writes through *Info fields", "", fmt.Sprintf("%d writes, all behind `!x.Concrete()`", guarded))
	}
}

func keysOf(m map[string]bool) []string {
	var out []string
	for k := range m {
		out = append(out, k)
	}
	return out
}
