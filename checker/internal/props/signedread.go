package props

import (
	"fmt"
	"go/token"
	"sort"
	"strings"

	"golang.org/x/tools/go/ssa"

	"mpcverif/internal/load"
	"mpcverif/internal/report"
)

// SignedReads: a constant read as a signed word is not used as a magnitude without a sign test.
//
// mpa.Int.Int64 returns the value as a signed integer of the constant's size class (32 or 64 bits): a
// uint32 constant with its top bit set reads as a negative number although BitLen says it fits.  Code that
// then treats the result as a magnitude — scans its bits with `for i > 0 { …; i >>= 1 }` — skips the scan
// for such a value and concludes "no bit set": 0x80000000 counts as zero-or-a-power-of-two and `x * C`
// is compiled to a shift by zero.  Where the result of Int64 (or a loop-carried shift of it) is compared
// with zero by an ordering, a branch that leaves the function for negative values (the value < 0, or
// Sign() < 0 on the constant) must come first.
func SignedReads(p *load.Program, run *report.Run) {
	const rule = "signed-read-needs-sign-test"
	run.Rule(rule, "in compiler/ast and compiler/ssa: if the result of (*mpa.Int).Int64, or a value carried from it through phis and right shifts, is an operand of <, <=, > or >= against the constant 0, then a branch on (that result < 0) or on (Sign() < 0) whose taken side returns dominates the comparison; with built-in examples")
	var fns []*ssa.Function
	for _, fn := range p.AllFunctions() {
		if fn.Pkg == nil || fn.Blocks == nil || fn.Synthetic != "" || strings.HasSuffix(p.Fset.Position(fn.Pos()).Filename, "_test.go") {
			continue
		}
		if pp := fn.Pkg.Pkg.Path(); pp != load.Module+"/compiler/ast" && pp != load.Module+"/compiler/ssa" {
			continue
		}
		fns = append(fns, fn)
	}
	sort.Slice(fns, func(i, j int) bool { return fns[i].Pos() < fns[j].Pos() })
	reads, bad := 0, 0
	for _, fn := range fns {
		for _, s := range signedReadSites(fn, &reads) {
			bad++
			run.Violate(rule, strings.ReplaceAll(fn.RelString(nil), load.Module+"/", "")+"/Int64", p.Rel(s), "the constant is read with Int64 — signed in its 32/64-bit size class — and the result is compared with 0 as if it were a magnitude, with no branch that leaves for negative values: a constant with the top bit of its size class set (0x80000000) is taken for a value without set bits", nil)
		}
	}
	run.Count("int64-reads", reads)
	run.Floor("int64-reads", 2)
	if bad == 0 {
		run.OK(rule, "compiler/ast+compiler/ssa", "", fmt.Sprintf("%d reads, none used as a magnitude without a sign test", reads))
	}
	look, err := buildExample(signedReadExample)
	if err != nil {
		run.Undecided(rule, "built-in example", "", err.Error())
		return
	}
	n := 0
	if len(signedReadSites(look("pow2Bad"), &n)) != 1 || len(signedReadSites(look("pow2Good"), &n)) != 0 || len(signedReadSites(look("asCount"), &n)) != 0 {
		run.Undecided(rule, "built-in example", "", "the rule misclassifies its built-in example")
		return
	}
	run.Count("signed-read-examples", 3)
	run.OK(rule, "built-in examples", "", "a bit scan of the signed read without a sign test reported; with one, and a plain conversion, accepted")
	run.Floor("signed-read-examples", 3)
}

func signedReadSites(fn *ssa.Function, reads *int) []token.Pos {
	if fn == nil {
		return nil
	}
	var out []token.Pos
	for _, b := range fn.Blocks {
		for _, ins := range b.Instrs {
			c, ok := ins.(*ssa.Call)
			if !ok {
				continue
			}
			callee := c.Call.StaticCallee()
			if callee == nil || callee.Name() != "Int64" || callee.Signature.Recv() == nil || !strings.HasSuffix(callee.Signature.Recv().Type().String(), "Int") {
				continue
			}
			*reads++
			// derived values
			derived := map[ssa.Value]bool{c: true}
			for changed := true; changed; {
				changed = false
				for _, b2 := range fn.Blocks {
					for _, i2 := range b2.Instrs {
						v, isVal := i2.(ssa.Value)
						if !isVal || derived[v] {
							continue
						}
						switch t := i2.(type) {
						case *ssa.Phi:
							for _, e := range t.Edges {
								if derived[e] {
									derived[v] = true
									changed = true
								}
							}
						case *ssa.BinOp:
							if t.Op == token.SHR && derived[t.X] {
								derived[v] = true
								changed = true
							}
						}
					}
				}
			}
			isZero := func(v ssa.Value) bool {
				k, ok := v.(*ssa.Const)
				return ok && k.Value != nil && k.Value.String() == "0"
			}
			var ordered []*ssa.BinOp
			var guards []*ssa.BasicBlock // blocks entered only with the value non-negative
			for _, b2 := range fn.Blocks {
				for _, i2 := range b2.Instrs {
					bo, ok := i2.(*ssa.BinOp)
					if !ok {
						continue
					}
					switch bo.Op {
					case token.LSS, token.GTR, token.LEQ, token.GEQ:
					default:
						continue
					}
					if !(derived[bo.X] && isZero(bo.Y) || derived[bo.Y] && isZero(bo.X)) {
						continue
					}
					// is this a rejecting sign test?  (v < 0) / (0 > v) with the taken side returning
					neg := bo.Op == token.LSS && derived[bo.X] || bo.Op == token.GTR && derived[bo.Y]
					rejecting := false
					if neg && bo.Referrers() != nil {
						for _, r := range *bo.Referrers() {
							if iff, ok := r.(*ssa.If); ok {
								t := iff.Block().Succs[0]
								if _, isRet := t.Instrs[len(t.Instrs)-1].(*ssa.Return); isRet && len(t.Preds) == 1 {
									rejecting = true
									guards = append(guards, iff.Block().Succs[1])
								}
							}
						}
					}
					if !rejecting {
						ordered = append(ordered, bo)
					}
				}
			}
			// Sign() < 0 on the same constant before the read
			recv := c.Call.Args[0]
			for _, b2 := range fn.Blocks {
				for _, i2 := range b2.Instrs {
					sc, ok := i2.(*ssa.Call)
					if !ok || sc.Call.StaticCallee() == nil || sc.Call.StaticCallee().Name() != "Sign" || len(sc.Call.Args) != 1 || sc.Call.Args[0] != recv || sc.Referrers() == nil {
						continue
					}
					for _, r := range *sc.Referrers() {
						bo, ok := r.(*ssa.BinOp)
						if !ok || bo.Referrers() == nil {
							continue
						}
						if !(bo.Op == token.LSS && bo.X == ssa.Value(sc) && isZero(bo.Y) || bo.Op == token.GTR && bo.Y == ssa.Value(sc) && isZero(bo.X)) {
							continue
						}
						for _, r2 := range *bo.Referrers() {
							if iff, ok := r2.(*ssa.If); ok {
								guards = append(guards, iff.Block().Succs[1])
							}
						}
					}
				}
			}
			for _, bo := range ordered {
				guarded := false
				for _, g := range guards {
					if g == bo.Block() || g.Dominates(bo.Block()) {
						guarded = true
					}
				}
				if !guarded {
					out = append(out, c.Pos())
					break
				}
			}
		}
	}
	return out
}

const signedReadExample = `package example

type Int struct{ v int64 }

func (i *Int) Int64() int64 { return i.v }
func (i *Int) Sign() int {
	if i.v < 0 {
		return -1
	}
	return 1
}

func pow2Bad(c *Int) (int64, bool) {
	i := c.Int64()
	count := 0
	for i > 0 {
		if i&1 == 1 {
			count++
		}
		i >>= 1
	}
	return c.Int64(), count <= 1
}

func pow2Good(c *Int) (int64, bool) {
	v := c.Int64()
	if v < 0 {
		return 0, false
	}
	count := 0
	for i := v; i > 0; i >>= 1 {
		if i&1 == 1 {
			count++
		}
	}
	return v, count <= 1
}

func asCount(c *Int) uint { return uint(c.Int64()) }
`
