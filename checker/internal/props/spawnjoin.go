package props

import (
	"fmt"
	"go/token"
	"sort"
	"strings"

	"golang.org/x/tools/go/ssa"

	"mpcverif/internal/load"
	"mpcverif/internal/report"
)

// SpawnsJoined: work the compiler hands to a goroutine is finished when the compilation returns.
//
// A compilation is a function of its inputs only if everything it writes — the circuit, the SSA listing,
// the assembly — is complete when the entry point returns.  A `go` statement in the compiler packages is
// therefore paired with its join: the goroutine signals completion on a channel or WaitGroup that the
// spawning function stores in a field, and *every exported function from which the spawn is reachable
// also reaches a wait on that field*.  An entry that starts the work and returns without waiting (an
// SSA-only path, an early return) delivers an output whose length depends on the scheduler.  The module
// has no goroutine in the compiler today; the rule is exercised on a built-in example on every run.
func SpawnsJoined(p *load.Program, run *report.Run) {
	const rule = "spawned-work-is-joined"
	run.Rule(rule, "for every go statement in compiler, compiler/ast, compiler/ssa, compiler/circuits, compiler/mpa: the goroutine signals completion (close, send, WaitGroup.Done) on an object stored in a field, and every exported function of the module that no other module function calls (an entry point of the library) and from which the go statement is reachable by static calls also reaches a receive or Wait on that field; with a built-in example")
	pkgs := map[string]bool{}
	for _, rel := range []string{"compiler", "compiler/ast", "compiler/ssa", "compiler/circuits", "compiler/mpa", "compiler/utils"} {
		pkgs[load.Module+"/"+rel] = true
	}
	var fns []*ssa.Function
	for _, fn := range p.AllFunctions() {
		if fn.Pkg == nil || !load.InModule(fn) || fn.Blocks == nil || strings.Contains(fn.Pkg.Pkg.Path(), "/apps/") || strings.Contains(fn.Pkg.Pkg.Path(), "/docs/") || strings.HasSuffix(p.Fset.Position(fn.Pos()).Filename, "_test.go") {
			continue
		}
		fns = append(fns, fn)
	}
	sort.Slice(fns, func(i, j int) bool { return fns[i].Pos() < fns[j].Pos() })
	bad := spawnJoinCheck(fns, func(fn *ssa.Function) bool {
		root := fn
		for root.Parent() != nil {
			root = root.Parent()
		}
		return root.Pkg != nil && pkgs[root.Pkg.Pkg.Path()]
	}, func(pos token.Pos) string { return p.Rel(pos) })
	run.Count("compiler-go-statements", bad.spawns)
	for _, v := range bad.viol {
		if v.undecided {
			run.Undecided(rule, v.key, v.pos, v.msg)
		} else {
			run.Violate(rule, v.key, v.pos, v.msg, nil)
		}
	}
	if bad.spawns > 0 && len(bad.viol) == 0 {
		run.OK(rule, "compiler", "", fmt.Sprintf("%d go statements, each joined from every entry that reaches it", bad.spawns))
	}
	// built-in example
	look, err := buildExample(spawnJoinExample)
	if err != nil {
		run.Undecided(rule, "built-in example", "", err.Error())
		return
	}
	var ex []*ssa.Function
	for _, n := range []string{"Listing", "listingBackground", "wait", "CompileAll", "CompileListingOnly"} {
		if f := look(n); f != nil {
			ex = append(ex, f)
			ex = append(ex, f.AnonFuncs...)
		}
	}
	res := spawnJoinCheck(ex, func(*ssa.Function) bool { return true }, func(token.Pos) string { return "example" })
	okEx := res.spawns == 1 && len(res.viol) == 1 && strings.Contains(res.viol[0].key, "CompileListingOnly")
	if !okEx {
		run.Undecided(rule, "built-in example", "", fmt.Sprintf("the rule misclassifies its built-in example (%d spawns, %d reports)", res.spawns, len(res.viol)))
		return
	}
	run.Count("spawn-join-examples", 2)
	run.OK(rule, "built-in examples", "", "the entry that waits is accepted, the entry that returns without waiting is reported")
	run.Floor("spawn-join-examples", 2)
}

type sjViolation struct {
	key, pos, msg string
	undecided     bool
}

type sjResult struct {
	spawns int
	viol   []sjViolation
}

func spawnJoinCheck(fns []*ssa.Function, inScope func(*ssa.Function) bool, rel func(token.Pos) string) sjResult {
	var res sjResult
	name := func(f *ssa.Function) string { return strings.ReplaceAll(f.RelString(nil), load.Module+"/", "") }
	reachMemo := map[*ssa.Function]map[*ssa.Function]bool{}
	reach := func(f *ssa.Function) map[*ssa.Function]bool {
		if r, ok := reachMemo[f]; ok {
			return r
		}
		seen := map[*ssa.Function]bool{}
		var walk func(g *ssa.Function)
		walk = func(g *ssa.Function) {
			if g == nil || seen[g] || g.Blocks == nil {
				return
			}
			seen[g] = true
			for _, b := range g.Blocks {
				for _, ins := range b.Instrs {
					if c, ok := ins.(ssa.CallInstruction); ok {
						walk(c.Common().StaticCallee())
					}
					for _, op := range ins.Operands(nil) {
						if cf, ok := (*op).(*ssa.Function); ok {
							walk(cf)
						}
					}
					if mc, ok := ins.(*ssa.MakeClosure); ok {
						if cf, ok := mc.Fn.(*ssa.Function); ok {
							walk(cf)
						}
					}
				}
			}
		}
		walk(f)
		reachMemo[f] = seen
		return seen
	}
	// joins: functions that receive from / Wait on a field
	joins := map[string]map[*ssa.Function]bool{}
	addJoin := func(k string, f *ssa.Function) {
		if k == "" {
			return
		}
		if joins[k] == nil {
			joins[k] = map[*ssa.Function]bool{}
		}
		joins[k][f] = true
	}
	for _, f := range fns {
		for _, b := range f.Blocks {
			for _, ins := range b.Instrs {
				switch t := ins.(type) {
				case *ssa.UnOp:
					if t.Op == token.ARROW {
						addJoin(condKey(t.X), f)
					}
				case *ssa.Select:
					for _, st := range t.States {
						if st.Dir == 2 { // types.RecvOnly
							addJoin(condKey(st.Chan), f)
						}
					}
				case ssa.CallInstruction:
					if callee := t.Common().StaticCallee(); callee != nil && callee.Name() == "Wait" && callee.Signature.Recv() != nil && strings.HasSuffix(callee.Signature.Recv().Type().String(), "sync.WaitGroup") && len(t.Common().Args) > 0 {
						addJoin(condKey(t.Common().Args[0]), f)
					}
				}
			}
		}
	}
	// an entry is an exported function no other function of the module calls: what a user of the library calls
	called := map[*ssa.Function]bool{}
	for _, f := range fns {
		for _, b := range f.Blocks {
			for _, ins := range b.Instrs {
				if c, ok := ins.(ssa.CallInstruction); ok {
					if callee := c.Common().StaticCallee(); callee != nil && callee != f {
						called[callee] = true
					}
				}
			}
		}
	}
	for _, f := range fns {
		if !inScope(f) {
			continue
		}
		for _, b := range f.Blocks {
			for _, ins := range b.Instrs {
				g, ok := ins.(*ssa.Go)
				if !ok {
					continue
				}
				res.spawns++
				key := name(f) + "/go"
				// the completion object: a channel or WaitGroup field the spawning function (or the goroutine) names
				var body *ssa.Function
				switch v := g.Call.Value.(type) {
				case *ssa.MakeClosure:
					body, _ = v.Fn.(*ssa.Function)
				case *ssa.Function:
					body = v
				}
				obj := ""
				// fields the spawning function stores a channel into, or WaitGroup fields it Adds to
				for _, b2 := range f.Blocks {
					for _, i2 := range b2.Instrs {
						switch t := i2.(type) {
						case *ssa.Store:
							if strings.HasPrefix(t.Val.Type().String(), "chan ") {
								if k := condKey(t.Addr); k != "" {
									obj = k
								}
							}
						case ssa.CallInstruction:
							if callee := t.Common().StaticCallee(); callee != nil && callee.Name() == "Add" && callee.Signature.Recv() != nil && strings.HasSuffix(callee.Signature.Recv().Type().String(), "sync.WaitGroup") && len(t.Common().Args) > 0 {
								if k := condKey(t.Common().Args[0]); k != "" {
									obj = k
								}
							}
						}
					}
				}
				_ = body
				if obj == "" {
					res.viol = append(res.viol, sjViolation{key, rel(g.Pos()), "the goroutine started here has no completion object kept in a field (a channel the function stores, a WaitGroup it adds to): nothing can wait for it, so what it writes may be incomplete when the compilation returns", false})
					continue
				}
				if len(joins[obj]) == 0 {
					res.viol = append(res.viol, sjViolation{key, rel(g.Pos()), "nothing in the module waits on " + obj + ": the work started here is never joined", false})
					continue
				}
				root := f
				for root.Parent() != nil {
					root = root.Parent()
				}
				for _, e := range fns {
					if e.Parent() != nil || e.Synthetic != "" || !token.IsExported(e.Name()) || called[e] || !reach(e)[root] {
						continue
					}
					joined := false
					for j := range joins[obj] {
						if reach(e)[j] {
							joined = true
						}
					}
					if !joined {
						res.viol = append(res.viol, sjViolation{fmt.Sprintf("%s from %s", key, name(e)), rel(g.Pos()), fmt.Sprintf("%s starts this goroutine (through %s) but nothing it calls waits on %s: it can return while the goroutine is still writing, and what it delivers depends on the scheduler", name(e), name(root), obj), false})
					}
				}
			}
		}
	}
	sort.Slice(res.viol, func(i, j int) bool { return res.viol[i].key < res.viol[j].key })
	return res
}

const spawnJoinExample = `package example

type Program struct {
	done chan struct{}
	out  []int
}

func (p *Program) Listing() {
	for i := 0; i < 3; i++ {
		p.out = append(p.out, i)
	}
}

func (p *Program) listingBackground() {
	done := make(chan struct{})
	p.done = done
	go func() {
		defer close(done)
		p.Listing()
	}()
}

func (p *Program) wait() {
	if p.done != nil {
		<-p.done
		p.done = nil
	}
}

func CompileAll(p *Program) int {
	p.listingBackground()
	p.wait()
	return len(p.out)
}

func CompileListingOnly(p *Program) int {
	p.listingBackground()
	return len(p.out)
}
`
