package props

import (
	"fmt"
	"go/ast"
	"go/constant"
	"go/token"
	"go/types"
	"strings"

	"golang.org/x/tools/go/packages"

	"mpcverif/internal/dispatch"
	"mpcverif/internal/load"
	"mpcverif/internal/report"
)

// SplitBits: IO.Split hands every argument exactly its own bits.
//
// Split is the last step of every protocol driver (garbler, evaluator, streaming, GMW): the packed result
// value is cut into the declared outputs.  It is a favourite of "faster" rewrites — shift and mask instead
// of bit by bit, a machine word when everything fits 64 bits, whole bytes when the width allows — and each
// of them has a boundary where it is wrong (a 64-bit output with its top bit set built through int64, a
// whole-byte output that does not start on a byte, a mask widened for one output and not narrowed for the
// next).  The rule interprets the source of Split on a packed value whose bits are *atoms* (bit k of the
// input is the symbol in[k], no values are enumerated) for a list of output shapes, with big.Int, uint64
// and byte-slice operations modelled bit by bit, and requires output j to be exactly in[ofs_j : ofs_j+w_j],
// non-negative, for every shape.  A branch on an input bit is followed on both sides and merged.
func SplitBits(p *load.Program, run *report.Run) {
	const rule = "split-partitions-bits"
	run.Rule(rule, "circuit.IO.Split, interpreted from source on a packed value whose bits are atoms, yields for every shape of a fixed list (single outputs of 1, 7, 8, 63, 64, 65, 128 bits; mixes such as 1+32, 3+8+5, 16+1+1+4+16, 33+64+2, 8+8+8, 64+64) a list with one non-negative value per output whose bit i is the atom in[ofs_j+i] and which has no bit at or above its width")
	pkg, fd := dispatch.FindFunc(p, "circuit", "IO", "Split")
	if fd == nil {
		run.Undecided(rule, "circuit.IO.Split", "", "function not found")
		return
	}
	shapes := [][]int{{1}, {7}, {8}, {63}, {64}, {65}, {128}, {1, 32}, {3, 8, 5}, {16, 1, 1, 4, 16}, {33, 64, 2}, {8, 8, 8}, {64, 64}, {1, 64}, {5, 3}, {32, 32}, {2, 1, 61}}
	bad := ""
	for _, sh := range shapes {
		if why := splitShape(pkg, fd, sh); why != "" {
			bad = fmt.Sprintf("outputs of %v bits: %s", sh, why)
			break
		}
	}
	run.Count("split-shapes", len(shapes))
	run.Floor("split-shapes", 10)
	if bad != "" {
		run.Violate(rule, "circuit.IO.Split", p.Rel(fd.Pos()), bad, nil)
	} else {
		run.OK(rule, "circuit.IO.Split", p.Rel(fd.Pos()), fmt.Sprintf("%d shapes", len(shapes)))
	}
}

// ---- bits -------------------------------------------------------------------------------------------

// sbit: 0 and 1 are the constants; 2+2k is the atom in[k], 3+2k its negation.
type sbit int32

func atomBit(k int) sbit     { return sbit(2 + 2*k) }
func (b sbit) isConst() bool { return b < 2 }
func (b sbit) not() sbit {
	if b.isConst() {
		return 1 - b
	}
	return b ^ 1
}
func (b sbit) String() string {
	switch {
	case b.isConst():
		return fmt.Sprint(int(b))
	case b&1 == 1:
		return fmt.Sprintf("!in[%d]", (int(b)-3)/2)
	}
	return fmt.Sprintf("in[%d]", (int(b)-2)/2)
}

type sbig struct {
	bits     []sbit
	neg      bool
	maybeNeg string // non-empty: the value was built from a machine word read as signed
}

type sword [64]sbit

// ssigned is a word converted to int64.
type ssigned struct{ w sword }

type sbytes [][8]sbit

type sarg struct{ bits int64 }

type sxEval struct {
	pkg  *packages.Package
	env  []map[string]any
	fail string
	n    int // input width
	args []sarg
	recv string
	step int
}

type sxReturn struct{ v any }

func (e *sxEval) bad(f string, a ...any) any {
	if e.fail == "" {
		e.fail = fmt.Sprintf(f, a...)
	}
	return nil
}

func (e *sxEval) lookup(n string) (any, bool) {
	for i := len(e.env) - 1; i >= 0; i-- {
		if v, ok := e.env[i][n]; ok {
			return v, true
		}
	}
	return nil, false
}

func (e *sxEval) set(n string, v any, define bool) {
	if define {
		e.env[len(e.env)-1][n] = v
		return
	}
	for i := len(e.env) - 1; i >= 0; i-- {
		if _, ok := e.env[i][n]; ok {
			e.env[i][n] = v
			return
		}
	}
	e.env[len(e.env)-1][n] = v
}

func trimBits(b []sbit) []sbit {
	for len(b) > 0 && b[len(b)-1] == 0 {
		b = b[:len(b)-1]
	}
	return b
}

func (e *sxEval) and(a, b sbit) sbit {
	switch {
	case a == 0 || b == 0:
		return 0
	case a == 1:
		return b
	case b == 1:
		return a
	case a == b:
		return a
	case a == b.not():
		return 0
	}
	e.bad("the AND of %v and %v is not a bit of the input", a, b)
	return 0
}

func (e *sxEval) or(a, b sbit) sbit { return e.and(a.not(), b.not()).not() }

func (e *sxEval) ite(c, x, y sbit) sbit {
	switch {
	case x == y:
		return x
	case c == 1:
		return x
	case c == 0:
		return y
	case x == 1 && y == 0:
		return c
	case x == 0 && y == 1:
		return c.not()
	case x == c && y == 0:
		return c
	}
	e.bad("a bit that is %v if %v and %v otherwise is not a bit of the input", x, c, y)
	return 0
}

func wordOf(k uint64) sword {
	var w sword
	for i := 0; i < 64; i++ {
		w[i] = sbit(k >> uint(i) & 1)
	}
	return w
}

func (w sword) concrete() (uint64, bool) {
	var k uint64
	for i, b := range w {
		if !b.isConst() {
			return 0, false
		}
		k |= uint64(b) << uint(i)
	}
	return k, true
}

func toInt(v any) (int64, bool) {
	switch t := v.(type) {
	case int64:
		return t, true
	case sword:
		k, ok := t.concrete()
		return int64(k), ok
	case ssigned:
		k, ok := t.w.concrete()
		return int64(k), ok
	}
	return 0, false
}

func toWord(v any) (sword, bool) {
	switch t := v.(type) {
	case sword:
		return t, true
	case ssigned:
		return t.w, true
	case int64:
		return wordOf(uint64(t)), true
	}
	return sword{}, false
}

// ---- expressions ------------------------------------------------------------------------------------

func (e *sxEval) isBig(x ast.Expr) bool {
	tv, ok := e.pkg.TypesInfo.Types[x]
	return ok && strings.HasSuffix(tv.Type.String(), "math/big.Int")
}

func (e *sxEval) expr(x ast.Expr) any {
	if e.fail != "" {
		return nil
	}
	if tv, ok := e.pkg.TypesInfo.Types[x]; ok && tv.Value != nil && tv.Value.Kind() == constant.Int {
		if k, exact := constant.Int64Val(tv.Value); exact {
			if b, isBasic := tv.Type.Underlying().(*types.Basic); isBasic && b.Info()&types.IsUnsigned != 0 {
				return wordOf(uint64(k))
			}
			return k
		}
		if k, exact := constant.Uint64Val(tv.Value); exact {
			return wordOf(k)
		}
	}
	switch t := x.(type) {
	case *ast.ParenExpr:
		return e.expr(t.X)
	case *ast.Ident:
		switch t.Name {
		case "nil":
			return nil
		case "true":
			return true
		case "false":
			return false
		}
		if v, ok := e.lookup(t.Name); ok {
			return v
		}
		return e.bad("unbound identifier %s", t.Name)
	case *ast.SelectorExpr:
		// arg.Type.Bits
		if t.Sel.Name == "Bits" {
			if in, ok := t.X.(*ast.SelectorExpr); ok && in.Sel.Name == "Type" {
				if a, ok := e.expr(in.X).(sarg); ok {
					if tv, ok := e.pkg.TypesInfo.Types[x]; ok {
						if b, isBasic := tv.Type.Underlying().(*types.Basic); isBasic && b.Info()&types.IsUnsigned != 0 {
							return wordOf(uint64(a.bits))
						}
					}
					return a.bits
				}
			}
		}
		return e.bad("selector %s not modelled", types.ExprString(x))
	case *ast.UnaryExpr:
		v := e.expr(t.X)
		switch t.Op {
		case token.SUB:
			if k, ok := v.(int64); ok {
				return -k
			}
		case token.NOT:
			switch b := v.(type) {
			case bool:
				return !b
			case sbit:
				return b.not()
			}
		case token.AND:
			return v
		}
		return e.bad("unary %s not modelled", t.Op)
	case *ast.StarExpr:
		return e.expr(t.X)
	case *ast.BinaryExpr:
		return e.binary(t)
	case *ast.IndexExpr:
		base := e.expr(t.X)
		k, ok := toInt(e.expr(t.Index))
		if !ok {
			return e.bad("index %s is not decided", types.ExprString(t.Index))
		}
		switch b := base.(type) {
		case []any:
			if k < 0 || k >= int64(len(b)) {
				return e.bad("index %d out of range [0,%d)", k, len(b))
			}
			return b[k]
		case sbytes:
			if k < 0 || k >= int64(len(b)) {
				return e.bad("index %d out of range [0,%d)", k, len(b))
			}
			var w sword
			copy(w[:8], b[k][:])
			return w
		}
		return e.bad("index of %T", base)
	case *ast.SliceExpr:
		base := e.expr(t.X)
		lo, hi := int64(0), int64(-1)
		if t.Low != nil {
			v, ok := toInt(e.expr(t.Low))
			if !ok {
				return e.bad("slice bound not decided")
			}
			lo = v
		}
		if t.High != nil {
			v, ok := toInt(e.expr(t.High))
			if !ok {
				return e.bad("slice bound not decided")
			}
			hi = v
		}
		switch b := base.(type) {
		case sbytes:
			if hi < 0 {
				hi = int64(len(b))
			}
			if lo < 0 || hi > int64(len(b)) || lo > hi {
				return e.bad("slice bounds [%d:%d] out of range for %d bytes", lo, hi, len(b))
			}
			return b[lo:hi]
		case []any:
			if hi < 0 {
				hi = int64(len(b))
			}
			if lo < 0 || hi > int64(len(b)) || lo > hi {
				return e.bad("slice bounds [%d:%d] out of range", lo, hi)
			}
			return b[lo:hi]
		}
		return e.bad("slice of %T", base)
	case *ast.CallExpr:
		return e.call(t)
	case *ast.CompositeLit:
		return e.bad("composite literal not modelled")
	}
	return e.bad("expression %T not modelled", x)
}

func (e *sxEval) binary(t *ast.BinaryExpr) any {
	if t.Op == token.LAND || t.Op == token.LOR {
		l := e.expr(t.X)
		lb, ok := l.(bool)
		if !ok {
			return e.bad("condition %s is not decided", types.ExprString(t.X))
		}
		if t.Op == token.LAND && !lb {
			return false
		}
		if t.Op == token.LOR && lb {
			return true
		}
		r := e.expr(t.Y)
		switch rb := r.(type) {
		case bool:
			return rb
		case sbit:
			return rb
		}
		return e.bad("condition %s is not decided", types.ExprString(t.Y))
	}
	l, r := e.expr(t.X), e.expr(t.Y)
	if e.fail != "" {
		return nil
	}
	// a bit of the input compared with a constant
	if lb, ok := l.(sbit); ok {
		if k, ok := toInt(r); ok && (t.Op == token.EQL || t.Op == token.NEQ) && (k == 0 || k == 1) {
			if (k == 1) == (t.Op == token.EQL) {
				return lb
			}
			return lb.not()
		}
		return e.bad("comparison of an input bit with %v", r)
	}
	li, lok := l.(int64)
	ri, rok := r.(int64)
	if lok && rok {
		switch t.Op {
		case token.ADD:
			return li + ri
		case token.SUB:
			return li - ri
		case token.MUL:
			return li * ri
		case token.QUO:
			if ri == 0 {
				return e.bad("division by zero")
			}
			return li / ri
		case token.REM:
			if ri == 0 {
				return e.bad("division by zero")
			}
			return li % ri
		case token.SHL:
			return li << uint(ri)
		case token.SHR:
			return li >> uint(ri)
		case token.AND:
			return li & ri
		case token.OR:
			return li | ri
		case token.LSS:
			return li < ri
		case token.LEQ:
			return li <= ri
		case token.GTR:
			return li > ri
		case token.GEQ:
			return li >= ri
		case token.EQL:
			return li == ri
		case token.NEQ:
			return li != ri
		}
	}
	lw, lwok := toWord(l)
	rw, rwok := toWord(r)
	if lwok && rwok {
		lc, lcon := lw.concrete()
		rc, rcon := rw.concrete()
		switch t.Op {
		case token.SHL, token.SHR:
			if !rcon {
				return e.bad("shift count is not decided")
			}
			var out sword
			for i := 0; i < 64; i++ {
				j := i - int(rc)
				if t.Op == token.SHR {
					j = i + int(rc)
				}
				if j >= 0 && j < 64 {
					out[i] = lw[j]
				}
			}
			return out
		case token.AND:
			var out sword
			for i := range out {
				out[i] = e.and(lw[i], rw[i])
			}
			return out
		case token.OR:
			var out sword
			for i := range out {
				out[i] = e.or(lw[i], rw[i])
			}
			return out
		}
		if lcon && rcon {
			switch t.Op {
			case token.ADD:
				return wordOf(lc + rc)
			case token.SUB:
				return wordOf(lc - rc)
			case token.MUL:
				return wordOf(lc * rc)
			case token.LSS:
				return lc < rc
			case token.LEQ:
				return lc <= rc
			case token.GTR:
				return lc > rc
			case token.GEQ:
				return lc >= rc
			case token.EQL:
				return lc == rc
			case token.NEQ:
				return lc != rc
			case token.QUO:
				if rc != 0 {
					return wordOf(lc / rc)
				}
			case token.REM:
				if rc != 0 {
					return wordOf(lc % rc)
				}
			}
		}
		return e.bad("%s on machine words that depend on the input", t.Op)
	}
	if t.Op == token.EQL || t.Op == token.NEQ {
		if l == nil || r == nil {
			return (l == nil && r == nil) == (t.Op == token.EQL)
		}
	}
	return e.bad("%s on %T and %T", t.Op, l, r)
}

func (e *sxEval) call(c *ast.CallExpr) any {
	info := e.pkg.TypesInfo
	// conversions
	if tv, ok := info.Types[c.Fun]; ok && tv.IsType() && len(c.Args) == 1 {
		v := e.expr(c.Args[0])
		b, isBasic := tv.Type.Underlying().(*types.Basic)
		if !isBasic {
			if _, isSlice := tv.Type.Underlying().(*types.Slice); isSlice && v == nil {
				return sbytes{}
			}
			return v
		}
		switch {
		case b.Info()&types.IsUnsigned != 0:
			w, ok := toWord(v)
			if !ok {
				return e.bad("conversion of %T to %s", v, b.Name())
			}
			width := map[types.BasicKind]int{types.Uint8: 8, types.Uint16: 16, types.Uint32: 32}[b.Kind()]
			if width > 0 {
				for i := width; i < 64; i++ {
					w[i] = 0
				}
			}
			return w
		case b.Info()&types.IsInteger != 0:
			if k, ok := v.(int64); ok {
				return k
			}
			if w, ok := toWord(v); ok {
				if k, con := w.concrete(); con {
					return int64(k)
				}
				if b.Kind() == types.Int64 || b.Kind() == types.Int {
					return ssigned{w}
				}
			}
			return e.bad("conversion of %T to %s", v, b.Name())
		}
		return v
	}
	switch f := c.Fun.(type) {
	case *ast.Ident:
		switch f.Name {
		case "len", "cap":
			switch v := e.expr(c.Args[0]).(type) {
			case []any:
				return int64(len(v))
			case sbytes:
				return int64(len(v))
			case string:
				if v == "io" {
					return int64(len(e.args))
				}
			}
			return e.bad("len of an unmodelled value")
		case "new":
			return &sbig{}
		case "make":
			n := int64(0)
			if len(c.Args) >= 2 {
				k, ok := toInt(e.expr(c.Args[1]))
				if !ok || k < 0 || k > 1<<16 {
					return e.bad("make with a size that is not decided")
				}
				n = k
			}
			if st, ok := info.Types[c.Args[0]]; ok {
				if sl, ok := st.Type.Underlying().(*types.Slice); ok {
					if b, ok := sl.Elem().Underlying().(*types.Basic); ok && b.Kind() == types.Uint8 {
						return make(sbytes, n)
					}
				}
			}
			return make([]any, n)
		case "append":
			base := e.expr(c.Args[0])
			if bs, ok := base.(sbytes); ok {
				out := append(sbytes{}, bs...)
				for _, a := range c.Args[1:] {
					v := e.expr(a)
					if more, ok := v.(sbytes); ok && c.Ellipsis.IsValid() {
						out = append(out, more...)
						continue
					}
					w, ok := toWord(v)
					if !ok {
						return e.bad("append of %T to bytes", v)
					}
					var by [8]sbit
					copy(by[:], w[:8])
					out = append(out, by)
				}
				return out
			}
			var out []any
			if b, ok := base.([]any); ok {
				out = append(out, b...)
			} else if base != nil {
				return e.bad("append to %T", base)
			}
			for _, a := range c.Args[1:] {
				out = append(out, e.expr(a))
			}
			return out
		case "min", "max":
			a, ok1 := toInt(e.expr(c.Args[0]))
			b, ok2 := toInt(e.expr(c.Args[1]))
			if !ok1 || !ok2 {
				return e.bad("%s of values that are not decided", f.Name)
			}
			if (f.Name == "min") == (a < b) {
				return a
			}
			return b
		}
		return e.bad("call %s not modelled", f.Name)
	case *ast.SelectorExpr:
		// big.NewInt
		if id, ok := f.X.(*ast.Ident); ok && id.Name == "big" && f.Sel.Name == "NewInt" && len(c.Args) == 1 {
			v := e.expr(c.Args[0])
			switch t := v.(type) {
			case int64:
				if t < 0 {
					return &sbig{neg: true}
				}
				return &sbig{bits: trimBits(append([]sbit{}, wordBits(wordOf(uint64(t)))...))}
			case ssigned:
				out := &sbig{bits: trimBits(append([]sbit{}, t.w[:63]...))}
				if t.w[63] != 0 {
					out.maybeNeg = fmt.Sprintf("it is built with big.NewInt from a 64-bit word read as int64, whose top bit is %v: with that bit set the value is negative", t.w[63])
				}
				return out
			}
			return e.bad("big.NewInt of %T", v)
		}
		if f.Sel.Name == "Size" && len(c.Args) == 0 {
			if s, ok := e.expr(f.X).(string); ok && s == "io" {
				return int64(e.n)
			}
		}
		if e.isBig(f.X) {
			return e.bigMethod(f, c)
		}
		return e.bad("call %s not modelled", types.ExprString(c.Fun))
	}
	return e.bad("call %s not modelled", types.ExprString(c.Fun))
}

func wordBits(w sword) []sbit { return w[:] }

func (e *sxEval) bigArg(x ast.Expr) *sbig {
	v, ok := e.expr(x).(*sbig)
	if !ok {
		if e.fail == "" {
			e.bad("%s is not a big integer of the model", types.ExprString(x))
		}
		return &sbig{}
	}
	return v
}

func (e *sxEval) bigMethod(f *ast.SelectorExpr, c *ast.CallExpr) any {
	recv := e.bigArg(f.X)
	if e.fail != "" {
		return nil
	}
	assign := func(v *sbig) any {
		// the method stores its result in the receiver
		if id, ok := ast.Unparen(f.X).(*ast.Ident); ok {
			e.set(id.Name, v, false)
		}
		return v
	}
	intArg := func(i int) (int64, bool) {
		k, ok := toInt(e.expr(c.Args[i]))
		if !ok {
			e.bad("%s with an argument that is not decided", f.Sel.Name)
		}
		return k, ok
	}
	nonneg := func(vs ...*sbig) bool {
		for _, v := range vs {
			if v.neg || v.maybeNeg != "" {
				e.bad("%s on a value that may be negative", f.Sel.Name)
				return false
			}
		}
		return true
	}
	switch f.Sel.Name {
	case "Bit":
		k, ok := intArg(0)
		if !ok || !nonneg(recv) {
			return nil
		}
		if k < 0 {
			return e.bad("Bit of a negative position")
		}
		if int(k) < len(recv.bits) {
			return recv.bits[k]
		}
		return sbit(0)
	case "SetBit":
		x := e.bigArg(c.Args[0])
		k, ok1 := intArg(1)
		b, ok2 := toInt(e.expr(c.Args[2]))
		if !ok1 || !ok2 || !nonneg(x) || k < 0 || k > 1<<14 {
			return e.bad("SetBit with arguments that are not decided")
		}
		out := append([]sbit{}, x.bits...)
		for int64(len(out)) <= k {
			out = append(out, 0)
		}
		out[k] = sbit(b & 1)
		return assign(&sbig{bits: trimBits(out)})
	case "Rsh", "Lsh":
		x := e.bigArg(c.Args[0])
		k, ok := intArg(1)
		if !ok || !nonneg(x) || k < 0 || k > 1<<14 {
			return nil
		}
		var out []sbit
		if f.Sel.Name == "Rsh" {
			if int(k) < len(x.bits) {
				out = append(out, x.bits[k:]...)
			}
		} else {
			out = append(make([]sbit, k), x.bits...)
		}
		return assign(&sbig{bits: trimBits(out)})
	case "And", "Or", "Xor", "AndNot":
		x, y := e.bigArg(c.Args[0]), e.bigArg(c.Args[1])
		if !nonneg(x, y) {
			return nil
		}
		n := len(x.bits)
		if len(y.bits) > n {
			n = len(y.bits)
		}
		out := make([]sbit, n)
		at := func(v *sbig, i int) sbit {
			if i < len(v.bits) {
				return v.bits[i]
			}
			return 0
		}
		for i := range out {
			a, b := at(x, i), at(y, i)
			switch f.Sel.Name {
			case "And":
				out[i] = e.and(a, b)
			case "Or":
				out[i] = e.or(a, b)
			case "AndNot":
				out[i] = e.and(a, b.not())
			case "Xor":
				switch {
				case b == 0:
					out[i] = a
				case a == 0:
					out[i] = b
				case b == 1:
					out[i] = a.not()
				case a == 1:
					out[i] = b.not()
				case a == b:
					out[i] = 0
				default:
					e.bad("the XOR of %v and %v is not a bit of the input", a, b)
				}
			}
		}
		return assign(&sbig{bits: trimBits(out)})
	case "Sub", "Add":
		x, y := e.bigArg(c.Args[0]), e.bigArg(c.Args[1])
		if !nonneg(x, y) {
			return nil
		}
		xv, ok1 := bigConcrete(x)
		yv, ok2 := bigConcrete(y)
		if !ok1 || !ok2 {
			return e.bad("%s on values that depend on the input", f.Sel.Name)
		}
		// small constants only (masks): computed on 128 bits split in two words is enough for 1<<n - 1
		res, ok := bigAddSub(xv, yv, f.Sel.Name == "Sub")
		if !ok {
			return e.bad("%s gives a negative value", f.Sel.Name)
		}
		return assign(&sbig{bits: res})
	case "Set":
		x := e.bigArg(c.Args[0])
		return assign(&sbig{bits: append([]sbit{}, x.bits...), neg: x.neg, maybeNeg: x.maybeNeg})
	case "SetUint64":
		w, ok := toWord(e.expr(c.Args[0]))
		if !ok {
			return e.bad("SetUint64 of an unmodelled value")
		}
		return assign(&sbig{bits: trimBits(append([]sbit{}, w[:]...))})
	case "SetInt64":
		v := e.expr(c.Args[0])
		if s, ok := v.(ssigned); ok {
			out := &sbig{bits: trimBits(append([]sbit{}, s.w[:63]...))}
			if s.w[63] != 0 {
				out.maybeNeg = fmt.Sprintf("it is set from a 64-bit word read as int64, whose top bit is %v", s.w[63])
			}
			return assign(out)
		}
		if k, ok := v.(int64); ok && k >= 0 {
			return assign(&sbig{bits: trimBits(append([]sbit{}, wordBits(wordOf(uint64(k)))...))})
		}
		return e.bad("SetInt64 of an unmodelled value")
	case "Uint64":
		if !nonneg(recv) {
			return nil
		}
		var w sword
		copy(w[:], recv.bits)
		return w
	case "Int64":
		if !nonneg(recv) {
			return nil
		}
		var w sword
		copy(w[:], recv.bits)
		return ssigned{w}
	case "Sign":
		if recv.neg {
			return int64(-1)
		}
		return int64(1) // the packed value is not negative
	case "BitLen":
		// the packed value has at most as many bits as the outputs take: the largest length is taken
		return int64(len(recv.bits))
	case "FillBytes":
		buf, ok := e.expr(c.Args[0]).(sbytes)
		if !ok || !nonneg(recv) {
			return e.bad("FillBytes into an unmodelled buffer")
		}
		if len(recv.bits) > 8*len(buf) {
			return e.bad("FillBytes into %d bytes of a value of %d bits panics", len(buf), len(recv.bits))
		}
		out := make(sbytes, len(buf))
		for i := 0; i < 8*len(buf); i++ {
			var b sbit
			if i < len(recv.bits) {
				b = recv.bits[i]
			}
			out[len(buf)-1-i/8][i%8] = b
		}
		return out
	case "Bytes":
		if !nonneg(recv) {
			return nil
		}
		n := (len(recv.bits) + 7) / 8
		out := make(sbytes, n)
		for i := 0; i < len(recv.bits); i++ {
			out[n-1-i/8][i%8] = recv.bits[i]
		}
		return out
	case "SetBytes":
		buf, ok := e.expr(c.Args[0]).(sbytes)
		if !ok {
			return e.bad("SetBytes of an unmodelled buffer")
		}
		out := make([]sbit, 8*len(buf))
		for i := range out {
			out[i] = buf[len(buf)-1-i/8][i%8]
		}
		return assign(&sbig{bits: trimBits(out)})
	}
	return e.bad("big.Int.%s not modelled", f.Sel.Name)
}

func bigConcrete(v *sbig) ([]sbit, bool) {
	for _, b := range v.bits {
		if !b.isConst() {
			return nil, false
		}
	}
	return v.bits, true
}

// bigAddSub: x+y or x-y on constant bit vectors; ok is false for a negative difference.
func bigAddSub(x, y []sbit, sub bool) ([]sbit, bool) {
	n := len(x)
	if len(y) > n {
		n = len(y)
	}
	n++
	out := make([]sbit, n)
	carry := sbit(0)
	at := func(v []sbit, i int) sbit {
		if i < len(v) {
			return v[i]
		}
		return 0
	}
	for i := 0; i < n; i++ {
		a, b := at(x, i), at(y, i)
		if sub {
			d := int(a) - int(b) - int(carry)
			if d < 0 {
				d += 2
				carry = 1
			} else {
				carry = 0
			}
			out[i] = sbit(d)
		} else {
			s := int(a) + int(b) + int(carry)
			out[i] = sbit(s & 1)
			carry = sbit(s >> 1)
		}
	}
	if sub && carry == 1 {
		return nil, false
	}
	return trimBits(out), true
}

// ---- statements -------------------------------------------------------------------------------------

func (e *sxEval) push() { e.env = append(e.env, map[string]any{}) }
func (e *sxEval) pop()  { e.env = e.env[:len(e.env)-1] }

func (e *sxEval) snapshot() []map[string]any {
	out := make([]map[string]any, len(e.env))
	for i, m := range e.env {
		c := make(map[string]any, len(m))
		for k, v := range m {
			c[k] = v
		}
		out[i] = c
	}
	return out
}

func (e *sxEval) block(list []ast.Stmt) *sxReturn {
	e.push()
	defer e.pop()
	for _, s := range list {
		if r := e.stmt(s); r != nil || e.fail != "" {
			return r
		}
	}
	return nil
}

type sxBreak struct{ cont bool }

func (e *sxEval) stmt(s ast.Stmt) *sxReturn {
	e.step++
	if e.step > 200000 {
		e.bad("the interpretation does not end")
		return nil
	}
	switch t := s.(type) {
	case *ast.ReturnStmt:
		if len(t.Results) != 1 {
			e.bad("return of %d values", len(t.Results))
			return nil
		}
		return &sxReturn{e.expr(t.Results[0])}
	case *ast.ExprStmt:
		e.expr(t.X)
	case *ast.DeclStmt:
		gd, ok := t.Decl.(*ast.GenDecl)
		if !ok {
			return nil
		}
		for _, sp := range gd.Specs {
			vs, ok := sp.(*ast.ValueSpec)
			if !ok {
				continue
			}
			for i, n := range vs.Names {
				var v any
				if i < len(vs.Values) {
					v = e.expr(vs.Values[i])
				} else if vs.Type != nil {
					v = e.zero(e.pkg.TypesInfo.TypeOf(vs.Type))
				}
				e.set(n.Name, v, true)
			}
		}
	case *ast.AssignStmt:
		e.assign(t)
	case *ast.IncDecStmt:
		id, ok := t.X.(*ast.Ident)
		v, ok2 := toInt(e.expr(t.X))
		if !ok || !ok2 {
			e.bad("%s on a value that is not decided", t.Tok)
			return nil
		}
		if t.Tok == token.INC {
			v++
		} else {
			v--
		}
		e.set(id.Name, e.sameKind(e.expr(t.X), v), false)
	case *ast.BlockStmt:
		return e.block(t.List)
	case *ast.IfStmt:
		e.push()
		defer e.pop()
		if t.Init != nil {
			if r := e.stmt(t.Init); r != nil {
				return r
			}
		}
		cond := e.expr(t.Cond)
		switch c := cond.(type) {
		case bool:
			if c {
				return e.block(t.Body.List)
			}
			if t.Else != nil {
				return e.stmt(t.Else)
			}
		case sbit:
			if c.isConst() {
				if c == 1 {
					return e.block(t.Body.List)
				}
				if t.Else != nil {
					return e.stmt(t.Else)
				}
				return nil
			}
			// both sides, merged
			before := e.snapshot()
			r1 := e.block(t.Body.List)
			thenEnv := e.env
			e.env = before
			var r2 *sxReturn
			if t.Else != nil {
				r2 = e.stmt(t.Else)
			}
			if r1 != nil || r2 != nil {
				e.bad("a return under a condition on an input bit")
				return nil
			}
			for i := range e.env {
				for k, v2 := range e.env[i] {
					v1, ok := thenEnv[i][k]
					if !ok {
						continue
					}
					e.env[i][k] = e.merge(c, v1, v2)
				}
			}
		default:
			if e.fail == "" {
				e.bad("condition %s is not decided", types.ExprString(t.Cond))
			}
		}
	case *ast.ForStmt:
		e.push()
		defer e.pop()
		if t.Init != nil {
			e.stmt(t.Init)
		}
		for iter := 0; e.fail == ""; iter++ {
			if iter > 100000 {
				e.bad("loop does not end")
				break
			}
			if t.Cond != nil {
				c, ok := e.expr(t.Cond).(bool)
				if !ok {
					if e.fail == "" {
						e.bad("loop condition %s is not decided", types.ExprString(t.Cond))
					}
					break
				}
				if !c {
					break
				}
			}
			r := e.loopBody(t.Body.List)
			if r != nil {
				if br, isBr := r.v.(sxBreak); isBr {
					if !br.cont {
						break
					}
				} else {
					return r
				}
			}
			if t.Post != nil {
				e.stmt(t.Post)
			}
		}
	case *ast.RangeStmt:
		e.push()
		defer e.pop()
		var elems []any
		switch v := e.expr(t.X).(type) {
		case string:
			if v == "io" {
				for _, a := range e.args {
					elems = append(elems, a)
				}
			}
		case []any:
			elems = v
		case sbytes:
			for _, by := range v {
				var w sword
				copy(w[:8], by[:])
				elems = append(elems, w)
			}
		default:
			e.bad("range over %T", v)
			return nil
		}
		for i, el := range elems {
			if id, ok := t.Key.(*ast.Ident); ok && id.Name != "_" {
				e.set(id.Name, int64(i), true)
			}
			if id, ok := t.Value.(*ast.Ident); ok && id.Name != "_" {
				e.set(id.Name, el, true)
			}
			r := e.loopBody(t.Body.List)
			if r != nil {
				if br, isBr := r.v.(sxBreak); isBr {
					if !br.cont {
						break
					}
					continue
				}
				return r
			}
			if e.fail != "" {
				break
			}
		}
	case *ast.BranchStmt:
		switch t.Tok {
		case token.BREAK:
			return &sxReturn{sxBreak{false}}
		case token.CONTINUE:
			return &sxReturn{sxBreak{true}}
		}
		e.bad("branch %s", t.Tok)
	case *ast.EmptyStmt:
	default:
		if emptyDefer(s) {
			return nil
		}
		e.bad("statement %T not modelled", s)
	}
	return nil
}

func (e *sxEval) loopBody(list []ast.Stmt) *sxReturn { return e.block(list) }

func (e *sxEval) zero(t types.Type) any {
	if t == nil {
		return nil
	}
	switch u := t.Underlying().(type) {
	case *types.Basic:
		if u.Info()&types.IsUnsigned != 0 {
			return wordOf(0)
		}
		if u.Info()&types.IsInteger != 0 {
			return int64(0)
		}
		if u.Info()&types.IsBoolean != 0 {
			return false
		}
	case *types.Slice:
		if b, ok := u.Elem().Underlying().(*types.Basic); ok && b.Kind() == types.Uint8 {
			return sbytes(nil)
		}
		return []any(nil)
	case *types.Pointer:
		return nil
	}
	return nil
}

func (e *sxEval) sameKind(old any, v int64) any {
	if _, isWord := old.(sword); isWord {
		return wordOf(uint64(v))
	}
	return v
}

func (e *sxEval) merge(c sbit, a, b any) any {
	switch x := a.(type) {
	case *sbig:
		y, ok := b.(*sbig)
		if !ok {
			if b == nil {
				y = &sbig{}
			} else {
				e.bad("a variable holds values of two kinds after a branch on an input bit")
				return a
			}
		}
		if x == y {
			return a
		}
		n := len(x.bits)
		if len(y.bits) > n {
			n = len(y.bits)
		}
		out := make([]sbit, n)
		for i := range out {
			var p, q sbit
			if i < len(x.bits) {
				p = x.bits[i]
			}
			if i < len(y.bits) {
				q = y.bits[i]
			}
			out[i] = e.ite(c, p, q)
		}
		mn := x.maybeNeg
		if mn == "" {
			mn = y.maybeNeg
		}
		return &sbig{bits: trimBits(out), maybeNeg: mn}
	case sword:
		y, ok := b.(sword)
		if !ok {
			e.bad("a variable holds values of two kinds after a branch on an input bit")
			return a
		}
		var out sword
		for i := range out {
			out[i] = e.ite(c, x[i], y[i])
		}
		return out
	case int64:
		if y, ok := b.(int64); ok && y == x {
			return a
		}
		e.bad("an integer depends on an input bit")
		return a
	case bool:
		if y, ok := b.(bool); ok && y == x {
			return a
		}
		e.bad("a condition depends on an input bit")
		return a
	case []any:
		y, ok := b.([]any)
		if !ok || len(x) != len(y) {
			e.bad("the length of a list depends on an input bit")
			return a
		}
		out := make([]any, len(x))
		for i := range x {
			out[i] = e.merge(c, x[i], y[i])
		}
		return out
	case sbytes:
		y, ok := b.(sbytes)
		if !ok || len(x) != len(y) {
			e.bad("the length of a buffer depends on an input bit")
			return a
		}
		out := make(sbytes, len(x))
		for i := range x {
			for j := 0; j < 8; j++ {
				out[i][j] = e.ite(c, x[i][j], y[i][j])
			}
		}
		return out
	}
	return a
}

func (e *sxEval) assign(t *ast.AssignStmt) {
	define := t.Tok == token.DEFINE
	if len(t.Lhs) != len(t.Rhs) {
		e.bad("assignment of %d values to %d places", len(t.Rhs), len(t.Lhs))
		return
	}
	vals := make([]any, len(t.Rhs))
	for i, r := range t.Rhs {
		vals[i] = e.expr(r)
	}
	if e.fail != "" {
		return
	}
	for i, l := range t.Lhs {
		v := vals[i]
		if t.Tok != token.ASSIGN && t.Tok != token.DEFINE {
			op := map[token.Token]token.Token{token.ADD_ASSIGN: token.ADD, token.SUB_ASSIGN: token.SUB, token.MUL_ASSIGN: token.MUL, token.SHL_ASSIGN: token.SHL, token.SHR_ASSIGN: token.SHR, token.AND_ASSIGN: token.AND, token.OR_ASSIGN: token.OR, token.QUO_ASSIGN: token.QUO}[t.Tok]
			if op == token.ILLEGAL {
				e.bad("assignment %s", t.Tok)
				return
			}
			v = e.binary(&ast.BinaryExpr{X: l, Op: op, Y: t.Rhs[i]})
		}
		switch lt := ast.Unparen(l).(type) {
		case *ast.Ident:
			if lt.Name != "_" {
				// keep the declared kind of an unsigned variable
				if !define {
					if old, ok := e.lookup(lt.Name); ok {
						if _, isWord := old.(sword); isWord {
							if k, isInt := v.(int64); isInt {
								v = wordOf(uint64(k))
							}
						}
					}
				} else if tv := e.pkg.TypesInfo.TypeOf(lt); tv != nil {
					if b, ok := tv.Underlying().(*types.Basic); ok && b.Info()&types.IsUnsigned != 0 {
						if k, isInt := v.(int64); isInt {
							v = wordOf(uint64(k))
						}
					}
				}
				e.set(lt.Name, v, define)
			}
		case *ast.IndexExpr:
			base := e.expr(lt.X)
			k, ok := toInt(e.expr(lt.Index))
			if !ok {
				e.bad("index %s is not decided", types.ExprString(lt.Index))
				return
			}
			switch b := base.(type) {
			case []any:
				if k < 0 || k >= int64(len(b)) {
					e.bad("index %d out of range [0,%d)", k, len(b))
					return
				}
				b[k] = v
			case sbytes:
				if k < 0 || k >= int64(len(b)) {
					e.bad("index %d out of range [0,%d)", k, len(b))
					return
				}
				w, ok := toWord(v)
				if !ok {
					e.bad("store of %T into a byte", v)
					return
				}
				copy(b[k][:], w[:8])
			default:
				e.bad("store into %T", base)
			}
		default:
			e.bad("assignment to %s", types.ExprString(l))
		}
	}
}

// splitShape interprets Split on one list of output widths.
func splitShape(pkg *packages.Package, fd *ast.FuncDecl, widths []int) string {
	e := &sxEval{pkg: pkg}
	for _, w := range widths {
		e.args = append(e.args, sarg{int64(w)})
		e.n += w
	}
	e.push()
	if fd.Recv != nil && len(fd.Recv.List) == 1 && len(fd.Recv.List[0].Names) == 1 {
		e.recv = fd.Recv.List[0].Names[0].Name
		e.set(e.recv, "io", true)
	}
	if fd.Type.Params == nil || len(fd.Type.Params.List) != 1 || len(fd.Type.Params.List[0].Names) != 1 {
		return "Split does not take one value"
	}
	in := &sbig{bits: make([]sbit, e.n)}
	for i := range in.bits {
		in.bits[i] = atomBit(i)
	}
	e.set(fd.Type.Params.List[0].Names[0].Name, in, true)
	if fd.Type.Results != nil {
		for _, f := range fd.Type.Results.List {
			for _, n := range f.Names {
				e.set(n.Name, e.zero(pkg.TypesInfo.TypeOf(f.Type)), true)
			}
		}
	}
	r := e.block(fd.Body.List)
	if e.fail != "" {
		return e.fail
	}
	if r == nil {
		return "Split does not return"
	}
	outs, ok := r.v.([]any)
	if !ok || len(outs) != len(widths) {
		return fmt.Sprintf("%d values are returned for %d outputs", len(outs), len(widths))
	}
	ofs := 0
	for j, w := range widths {
		v, ok := outs[j].(*sbig)
		if !ok {
			return fmt.Sprintf("output %d is not a value", j)
		}
		if v.neg {
			return fmt.Sprintf("output %d is negative", j)
		}
		if v.maybeNeg != "" {
			return fmt.Sprintf("output %d can come out negative: %s", j, v.maybeNeg)
		}
		if len(v.bits) > w {
			return fmt.Sprintf("output %d (%d bits wide) has bit %d = %v: it carries bits of another output", j, w, len(v.bits)-1, v.bits[len(v.bits)-1])
		}
		for i := 0; i < w; i++ {
			var got sbit
			if i < len(v.bits) {
				got = v.bits[i]
			}
			if got != atomBit(ofs+i) {
				return fmt.Sprintf("bit %d of output %d is %v, the packed value has it at in[%d]", i, j, got, ofs+i)
			}
		}
		ofs += w
	}
	return ""
}

// emptyDefer: `defer func() {}()` — a deferred function literal without statements does nothing.
func emptyDefer(s ast.Stmt) bool {
	d, ok := s.(*ast.DeferStmt)
	if !ok || len(d.Call.Args) != 0 {
		return false
	}
	fl, ok := ast.Unparen(d.Call.Fun).(*ast.FuncLit)
	return ok && fl.Body != nil && len(fl.Body.List) == 0
}
