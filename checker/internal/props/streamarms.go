package props

import (
	"fmt"
	"go/ast"
	"go/parser"
	"go/token"
	"go/types"
	"sort"
	"strings"

	"mpcverif/internal/dispatch"
	"mpcverif/internal/load"
	"mpcverif/internal/report"
)

// StreamGetSetArms: the streaming garbler reads a wire from where it stored it.
//
// A circuit's wire number w lives in one of three tables of the streaming garbler: stream.in (w below
// firstTmp), stream.out (w from firstOut on) or stream.tmp (between).  Streaming.Set (and the inlined copy in
// garbleGate) files a gate's output under that partition; Streaming.Get must look it up under the same one.  A
// Get without the arm for the result wires reads stream.tmp[w] for a wire that Set filed in stream.out: a gate
// of a native circuit that reads a result wire of an earlier gate gets a stale or zero label, and the
// evaluator — which resolves the index the garbler sends — decodes a different circuit.
func StreamGetSetArms(p *load.Program, run *report.Run) {
	const rule = "stream-get-set-partition"
	run.Rule(rule, "circuit.Streaming.Get and circuit.Streaming.Set (and every other method of Streaming with a chain of tests on a wire number against firstTmp/firstOut that indexes stream.in, stream.out or stream.tmp) partition the wire number the same way: the same conditions lead to the same table; with built-in examples")
	pkg, getFd := dispatch.FindFunc(p, "circuit", "Streaming", "Get")
	_, setFd := dispatch.FindFunc(p, "circuit", "Streaming", "Set")
	if getFd == nil || setFd == nil {
		run.Undecided(rule, "circuit.Streaming", "", "Get or Set not found")
		return
	}
	g, s := wireArms(pkg.TypesInfo, getFd), wireArms(pkg.TypesInfo, setFd)
	run.Count("stream-partition-arms", len(g)+len(s))
	run.Floor("stream-partition-arms", 6)
	if why := armsDiffer(g, s); why != "" {
		run.Violate(rule, "circuit.Streaming.Get<->Set", p.Rel(getFd.Pos()), "Get and Set file a wire number under different tables: "+why+" — a gate that reads such a wire gets a label other than the one stored for it", nil)
	} else {
		run.OK(rule, "circuit.Streaming.Get<->Set", p.Rel(getFd.Pos()), fmt.Sprintf("%d arms each, the same conditions lead to the same tables", len(g)))
	}
	// built-in example
	fset := token.NewFileSet()
	file, err := parser.ParseFile(fset, "example.go", streamArmsExample, 0)
	if err != nil {
		run.Undecided(rule, "built-in example", "", err.Error())
		return
	}
	decls := map[string]*ast.FuncDecl{}
	for _, d := range file.Decls {
		if fd, ok := d.(*ast.FuncDecl); ok {
			decls[fd.Name.Name] = fd
		}
	}
	var info *types.Info
	set := wireArms(info, decls["Set"])
	if armsDiffer(wireArms(info, decls["GetGood"]), set) != "" || armsDiffer(wireArms(info, decls["GetBad"]), set) == "" {
		run.Undecided(rule, "built-in example", "", "the rule misclassifies its built-in example")
		return
	}
	run.Count("stream-partition-examples", 2)
	run.OK(rule, "built-in examples", "", "a Get with the three arms of Set accepted (written with early returns); a Get without the arm for the result wires reported")
	run.Floor("stream-partition-examples", 2)
}

// wireArms: the chain of tests at the top of fd and, per arm, the table (in, out, tmp) the arm indexes.
func wireArms(info *types.Info, fd *ast.FuncDecl) map[string]string {
	out := map[string]string{}
	tableOf := func(stmts []ast.Stmt) string {
		t := ""
		for _, st := range stmts {
			ast.Inspect(st, func(n ast.Node) bool {
				if _, isIf := n.(*ast.IfStmt); isIf {
					return false
				}
				ix, ok := n.(*ast.IndexExpr)
				if !ok || t != "" {
					return true
				}
				if sel, ok := ast.Unparen(ix.X).(*ast.SelectorExpr); ok {
					switch sel.Sel.Name {
					case "in", "out", "tmp":
						t = sel.Sel.Name
					}
				}
				return true
			})
		}
		return t
	}
	var walk func(stmts []ast.Stmt, path []string, tail []ast.Stmt)
	walk = func(stmts []ast.Stmt, path []string, tail []ast.Stmt) {
		for i, st := range stmts {
			ifs, ok := st.(*ast.IfStmt)
			if !ok {
				continue
			}
			atom, pos, okc := canonLess(fd, ifs.Cond)
			if !okc || !strings.Contains(atom, "firstTmp") && !strings.Contains(atom, "firstOut") {
				continue
			}
			sign := map[bool]string{true: "", false: "!"}
			cond := sign[pos] + "(" + atom + ")"
			key := strings.Join(append(append([]string{}, path...), cond), " && ")
			if t := tableOf(ifs.Body.List); t != "" {
				out[key] = t
			}
			neg := append(append([]string{}, path...), sign[!pos]+"("+atom+")")
			switch e := ifs.Else.(type) {
			case *ast.BlockStmt:
				if t := tableOf(e.List); t != "" {
					out[strings.Join(neg, " && ")] = t
				}
				walk(e.List, neg, nil)
			case *ast.IfStmt:
				walk([]ast.Stmt{e}, neg, append(append([]ast.Stmt{}, stmts[i+1:]...), tail...))
			case nil:
				// an arm that leaves the function: what follows is the else
				if len(ifs.Body.List) > 0 {
					if _, isRet := ifs.Body.List[len(ifs.Body.List)-1].(*ast.ReturnStmt); isRet {
						rest := append(append([]ast.Stmt{}, stmts[i+1:]...), tail...)
						hasIf := false
						for _, r := range rest {
							if _, ok := r.(*ast.IfStmt); ok {
								hasIf = true
							}
						}
						if !hasIf {
							if t := tableOf(rest); t != "" {
								out[strings.Join(neg, " && ")] = t
							}
						}
						walk(rest, neg, nil)
					}
				}
			}
			return
		}
	}
	walk(fd.Body.List, nil, nil)
	_ = info
	return out
}

// canonLess writes an ordered comparison as a signed atom `x < y`: x <= y is !(y < x), x >= y is !(x < y).
func canonLess(fd *ast.FuncDecl, e ast.Expr) (atom string, pos bool, ok bool) {
	e = ast.Unparen(e)
	if u, isU := e.(*ast.UnaryExpr); isU && u.Op == token.NOT {
		a, p, ok := canonLess(fd, u.X)
		return a, !p, ok
	}
	be, isB := e.(*ast.BinaryExpr)
	if !isB {
		return "", false, false
	}
	x, y := normNames(fd, types.ExprString(be.X)), normNames(fd, types.ExprString(be.Y))
	switch be.Op {
	case token.LSS:
		return x + " < " + y, true, true
	case token.GTR:
		return y + " < " + x, true, true
	case token.LEQ:
		return y + " < " + x, false, true
	case token.GEQ:
		return x + " < " + y, false, true
	}
	return "", false, false
}

func armsDiffer(a, b map[string]string) string {
	var why []string
	keys := map[string]bool{}
	for k := range a {
		keys[k] = true
	}
	for k := range b {
		keys[k] = true
	}
	var ks []string
	for k := range keys {
		ks = append(ks, k)
	}
	sort.Strings(ks)
	for _, k := range ks {
		switch {
		case a[k] == "":
			why = append(why, fmt.Sprintf("under `%s` the second uses %s, the first has no such arm", k, b[k]))
		case b[k] == "":
			why = append(why, fmt.Sprintf("under `%s` the first uses %s, the second has no such arm", k, a[k]))
		case a[k] != b[k]:
			why = append(why, fmt.Sprintf("under `%s` the first uses %s, the second %s", k, a[k], b[k]))
		}
	}
	return strings.Join(why, "; ")
}

const streamArmsExample = `package example

type S struct {
	in, out  []int
	tmp      []int
	firstTmp int
	firstOut int
}

func (s *S) Set(w int, v int) {
	if w < s.firstTmp {
		s.in[w] = v
	} else if w >= s.firstOut {
		s.out[w-s.firstOut] = v
	} else {
		s.tmp[w] = v
	}
}

func (s *S) GetGood(w int) int {
	if w < s.firstTmp {
		return s.in[w]
	} else if w >= s.firstOut {
		return s.out[w-s.firstOut]
	}
	return s.tmp[w]
}

func (s *S) GetBad(w int) int {
	if w < s.firstTmp {
		return s.in[w]
	}
	return s.tmp[w]
}
`
