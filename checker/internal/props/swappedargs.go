package props

import (
	"fmt"
	"go/ast"
	"go/types"
	"sort"
	"strings"

	"mpcverif/internal/load"
	"mpcverif/internal/report"
)

// SwappedArgs: two arguments named like each other's parameters.
//
// A constructor that takes two options of one type (`shared, malicious bool`) is called by a sibling whose
// own parameters carry the same names in another order; passing them "in the order I have them" compiles,
// passes every honest test, and exchanges the two options (the malicious-mode check is switched off, the
// shared-randomness mode on).  Wherever a call of a module function passes plain variables a and b at
// positions i and j, and the callee's parameters at those positions are named b and a, with identical
// types, the two are exchanged.  The module has no such call; the rule carries built-in examples.
func SwappedArgs(pkgs ...string) func(p *load.Program, run *report.Run) {
	return func(p *load.Program, run *report.Run) {
		const rule = "arguments-not-exchanged"
		run.Rule(rule, "in "+strings.Join(pkgs, ", ")+": no call of a function or method of the module passes, at two positions i and j whose parameter types are one basic type (a flag, a count, a name), plain variables whose names are the callee's parameter names of j and i (each named like the other's parameter); with built-in examples")
		calls := 0
		for _, rel := range pkgs {
			pk := p.ByPath[load.Module+"/"+rel]
			if rel == "" {
				pk = p.ByPath[load.Module]
			}
			if pk == nil {
				run.Undecided(rule, rel, "", "package not loaded")
				continue
			}
			for _, f := range pk.Syntax {
				if strings.HasSuffix(p.Fset.Position(f.Pos()).Filename, "_test.go") {
					continue
				}
				for _, s := range swappedArgCalls(pk.TypesInfo, f, &calls) {
					run.Violate(rule, rel+"."+s.caller+"/"+s.callee, p.Rel(s.call.Pos()), fmt.Sprintf("%s is called with %s where its parameter %s is expected and %s where %s is expected: the two arguments are exchanged", s.callee, s.a, s.b, s.b, s.a), nil)
				}
			}
		}
		run.Count("calls-with-named-arguments", calls)
		run.Floor("calls-with-named-arguments", 20)
		info, fd, err := parseExampleFunc(swappedArgsExample, "NewSibling")
		if err != nil {
			run.Undecided(rule, "built-in example", "", err.Error())
			return
		}
		n := 0
		bad := swappedArgCalls(info, &ast.File{Decls: []ast.Decl{fd}}, &n)
		info2, fd2, _ := parseExampleFunc(swappedArgsExample, "NewTwin")
		var good []swappedCall
		if fd2 != nil {
			good = swappedArgCalls(info2, &ast.File{Decls: []ast.Decl{fd2}}, &n)
		}
		if len(bad) != 1 || len(good) != 0 || fd2 == nil {
			run.Undecided(rule, "built-in example", "", fmt.Sprintf("the rule misclassifies its built-in example (%d, %d)", len(bad), len(good)))
			return
		}
		run.Count("exchanged-argument-examples", 2)
		run.OK(rule, "built-in examples", "", "options passed in the callee's order accepted, in the caller's own order reported")
		run.Floor("exchanged-argument-examples", 2)
	}
}

type swappedCall struct {
	call           *ast.CallExpr
	caller, callee string
	a, b           string
}

func swappedArgCalls(info *types.Info, f *ast.File, calls *int) []swappedCall {
	var out []swappedCall
	for _, d := range f.Decls {
		fd, ok := d.(*ast.FuncDecl)
		if !ok || fd.Body == nil {
			continue
		}
		ast.Inspect(fd.Body, func(n ast.Node) bool {
			c, ok := n.(*ast.CallExpr)
			if !ok {
				return true
			}
			var fn *types.Func
			switch t := c.Fun.(type) {
			case *ast.Ident:
				fn, _ = info.Uses[t].(*types.Func)
			case *ast.SelectorExpr:
				fn, _ = info.Uses[t.Sel].(*types.Func)
			}
			if fn == nil {
				return true
			}
			sig, ok := fn.Type().(*types.Signature)
			if !ok || sig.Params().Len() < 2 || sig.Variadic() && len(c.Args) != sig.Params().Len() {
				return true
			}
			names := make([]string, len(c.Args))
			named := 0
			for i, a := range c.Args {
				if id, ok := ast.Unparen(a).(*ast.Ident); ok && i < sig.Params().Len() {
					if _, isVar := info.Uses[id].(*types.Var); isVar {
						names[i] = id.Name
						named++
					}
				}
			}
			if named >= 2 {
				*calls++
			}
			for i := 0; i < len(names) && i < sig.Params().Len(); i++ {
				for j := i + 1; j < len(names) && j < sig.Params().Len(); j++ {
					pi, pj := sig.Params().At(i), sig.Params().At(j)
					if names[i] == "" || names[j] == "" || pi.Name() == "" || pj.Name() == "" || pi.Name() == pj.Name() {
						continue
					}
					// options and counts (basic types); operand vectors are exchanged on purpose (x < y built as y > x)
					if _, basic := pi.Type().Underlying().(*types.Basic); !basic {
						continue
					}
					if names[i] == pj.Name() && names[j] == pi.Name() && types.Identical(pi.Type(), pj.Type()) {
						out = append(out, swappedCall{c, fd.Name.Name, fn.Name(), names[i], names[j]})
					}
				}
			}
			return true
		})
	}
	sort.Slice(out, func(i, j int) bool { return out[i].call.Pos() < out[j].call.Pos() })
	return out
}

const swappedArgsExample = `package example

type ext struct{ shared, malicious bool }

func newExtension(base int, shared, malicious bool) *ext {
	return &ext{shared: shared, malicious: malicious}
}

func NewTwin(base int, shared, malicious bool) *ext {
	return newExtension(base, shared, malicious)
}

func NewSibling(base int, malicious, shared bool) *ext {
	return newExtension(base, malicious, shared)
}
`
