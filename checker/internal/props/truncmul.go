package props

import (
	"fmt"
	"go/token"
	"go/types"
	"sort"
	"strings"

	"golang.org/x/tools/go/ssa"

	"mpcverif/internal/load"
	"mpcverif/internal/report"
)

// TruncatedProducts: a product that is kept in a wide integer is not computed in a machine word.
//
// `new(big.Int).SetUint64(x * y)` with two 64-bit operands keeps the low word of the product: a fast path
// for "both factors fit a word" in the arithmetic of wide constants (uint128 and up) folds K*K to 0 for
// K = 2^32·k.  Where a machine multiplication of two values that are not constants feeds
// big.Int.SetUint64 / SetInt64 / big.NewInt directly, the high word is lost; math/bits.Mul64 (two result
// words) or big.Int.Mul keep it.
func TruncatedProducts(pkgs ...string) func(p *load.Program, run *report.Run) {
	return func(p *load.Program, run *report.Run) {
		const rule = "wide-product-not-truncated"
		run.Rule(rule, "in "+strings.Join(pkgs, ", ")+": the argument of (*big.Int).SetUint64, (*big.Int).SetInt64 or big.NewInt is not (a conversion of) a machine multiplication of two 64-bit operands neither of which is a constant; with built-in examples")
		want := map[string]bool{}
		for _, rel := range pkgs {
			want[load.Module+"/"+rel] = true
		}
		var fns []*ssa.Function
		for _, fn := range p.AllFunctions() {
			if fn.Pkg == nil || !want[fn.Pkg.Pkg.Path()] || fn.Blocks == nil || fn.Synthetic != "" || strings.HasSuffix(p.Fset.Position(fn.Pos()).Filename, "_test.go") {
				continue
			}
			fns = append(fns, fn)
		}
		sort.Slice(fns, func(i, j int) bool { return fns[i].Pos() < fns[j].Pos() })
		sites, bad := 0, 0
		for _, fn := range fns {
			for _, s := range truncatedProducts(fn, &sites) {
				bad++
				run.Violate(rule, strings.ReplaceAll(fn.RelString(nil), load.Module+"/", "")+"/"+s.what, p.Rel(s.pos), "a big integer is set from the product of two 64-bit values computed in a machine word: the high 64 bits of the product are lost (math/bits.Mul64 or big.Int.Mul keep them)", nil)
			}
		}
		run.Count("big-from-word-sites", sites)
		if bad == 0 {
			run.OK(rule, strings.Join(pkgs, "+"), "", fmt.Sprintf("%d places set a big integer from a machine word, none from a product of two variables", sites))
		}
		look, err := buildExample(truncMulExample)
		if err != nil {
			run.Undecided(rule, "built-in example", "", err.Error())
			return
		}
		n := 0
		if len(truncatedProducts(look("mulWord"), &n)) != 1 || len(truncatedProducts(look("mulScaled"), &n)) != 0 {
			run.Undecided(rule, "built-in example", "", "the rule misclassifies its built-in example")
			return
		}
		run.Count("truncated-product-examples", 2)
		run.OK(rule, "built-in examples", "", "x*y into SetUint64 reported; x*8 accepted")
		run.Floor("truncated-product-examples", 2)
	}
}

type truncSite struct {
	what string
	pos  token.Pos
}

func truncatedProducts(fn *ssa.Function, sites *int) []truncSite {
	if fn == nil {
		return nil
	}
	var out []truncSite
	for _, b := range fn.Blocks {
		for _, ins := range b.Instrs {
			c, ok := ins.(*ssa.Call)
			if !ok {
				continue
			}
			callee := c.Call.StaticCallee()
			if callee == nil {
				continue
			}
			var arg ssa.Value
			switch {
			case (callee.Name() == "SetUint64" || callee.Name() == "SetInt64") && callee.Signature.Recv() != nil && strings.HasSuffix(callee.Signature.Recv().Type().String(), "Int") && len(c.Call.Args) == 2:
				arg = c.Call.Args[1]
			case callee.Name() == "NewInt" && callee.Signature.Recv() == nil && len(c.Call.Args) == 1:
				arg = c.Call.Args[0]
			default:
				continue
			}
			*sites++
			for d := 0; d < 3; d++ {
				if cv, ok := arg.(*ssa.Convert); ok {
					arg = cv.X
					continue
				}
				break
			}
			bo, ok := arg.(*ssa.BinOp)
			if !ok || bo.Op != token.MUL {
				continue
			}
			bt, ok := bo.Type().Underlying().(*types.Basic)
			if !ok || !(bt.Kind() == types.Uint64 || bt.Kind() == types.Int64 || bt.Kind() == types.Uint || bt.Kind() == types.Int) {
				continue
			}
			_, cx := bo.X.(*ssa.Const)
			_, cy := bo.Y.(*ssa.Const)
			if cx || cy {
				continue
			}
			out = append(out, truncSite{callee.Name(), c.Pos()})
		}
	}
	return out
}

const truncMulExample = `package example

type Int struct{ w []uint64 }

func (z *Int) SetUint64(x uint64) *Int { z.w = []uint64{x}; return z }

func mulWord(z *Int, x, y uint64) *Int { return z.SetUint64(x * y) }

func mulScaled(z *Int, x uint64) *Int { return z.SetUint64(x * 8) }
`
